/-
Part 4 of the renaming simulation: the main induction.  Under `condVal`, resolving the renamed tree in the image
environment yields the image of the occurrences of the original (`resolveVal_rename`, `resolveProgram_rename`).
-/
import CalmVerif.Proofs.ObfBindSim3
namespace CalmVerif.Obf
open CalmVerif CalmVerif.Unparse
open CalmVerif.Spec.Scope (BKind Binder Layer Ctx Occ Role identName isFunctionKind isVarDeclKind
  lookupEnv lookupLabel roleOf enter isPresent hoistVal hoistList hoistAttrs paramNames declOccs
  resolveVal resolveList resolveAttrs)

local notation "sLookup" => Spec.Scope.lookupAttr

/-- what one attribute contributes, given the results of the three possible recursive calls -/
def roleOut (outer : Ctx) (p : SPath) (a : String) (v : Val) (role : Role) (rFor rInner rOuter : List Occ) : List Occ :=
  match role with
  | .skip => []
  | .funcDeclName => declOccs p a v (fun n => [{ kind := outer.varKind, scope := outer.varScope, name := n }])
  | .selfName => declOccs p a v (fun n => [{ kind := .self, scope := p, name := n }])
  | .params => declOccs p a v (fun n => [{ kind := .var, scope := p, name := n }])
  | .catchParam => declOccs p a v (fun n => [{ kind := .catch, scope := p, name := n }])
  | .varName assigned =>
    declOccs p a v (fun n =>
      let d : Binder := { kind := outer.varKind, scope := outer.varScope, name := n }
      let r := lookupEnv outer.env n
      if assigned && r != d then [d, r] else [d])
  | .labelDecl => declOccs p a v (fun n => [{ kind := .label, scope := p, name := n }])
  | .labelRef => declOccs p a v (fun n => [lookupLabel outer.labels n])
  | .forInItem => rFor
  | .inner => rInner
  | .outer => rOuter

theorem resolveAttrs_cons_list (outer inner : Ctx) (p : SPath) (kind : String) (hasInit forIn : Bool) (a : String)
    (xs : List Val) (rest : List (String × Val)) :
    resolveAttrs outer inner p kind hasInit forIn ((a, .list xs) :: rest) =
      roleOut outer p a (.list xs) (roleOf kind a hasInit forIn) (resolveList outer p a 0 xs)
        (resolveList inner p a 0 xs) (resolveList outer p a 0 xs)
      ++ resolveAttrs outer inner p kind hasInit forIn rest := by
  rw [Spec.Scope.resolveAttrs.eq_2]
  unfold roleOut
  cases roleOf kind a hasInit forIn <;> rfl

theorem resolveAttrs_cons_nonlist (outer inner : Ctx) (p : SPath) (kind : String) (hasInit forIn : Bool) (a : String)
    (v : Val) (hv : NotList v) (rest : List (String × Val)) :
    resolveAttrs outer inner p kind hasInit forIn ((a, v) :: rest) =
      roleOut outer p a v (roleOf kind a hasInit forIn)
        (resolveVal { outer with forInItem := true } (p ++ [(a, 0)]) v)
        (resolveVal inner (p ++ [(a, 0)]) v) (resolveVal outer (p ++ [(a, 0)]) v)
      ++ resolveAttrs outer inner p kind hasInit forIn rest := by
  rw [Spec.Scope.resolveAttrs.eq_3 _ _ _ _ _ _ _ _ _ hv]
  unfold roleOut
  cases roleOf kind a hasInit forIn <;> rfl

/-- the condition of one attribute, given the conditions of the three possible recursive calls -/
def roleCond (τ : Tau) (ρ : Rho) (outer : Ctx) (p : SPath) (a : String) (v : Val) (role : Role)
    (cFor cInner cOuter : Bool) : Bool :=
  match role with
  | .skip => true
  | .funcDeclName => declCond τ ρ outer.varKind outer.varScope p a v
  | .selfName => declCond τ ρ .self p p a v
  | .params => declCond τ ρ .var p p a v
  | .catchParam => declCond τ ρ .catch p p a v
  | .varName assigned =>
    (identsOf p a v).all (fun q =>
      ρ q.1 q.2 == tauN τ outer.varKind outer.varScope q.2 && (!assigned || refCond τ outer.env q.2 (ρ q.1 q.2)))
  | .labelDecl => declCond τ ρ .label p p a v
  | .labelRef =>
    (identsOf p a v).all (fun q =>
      decide (lookupLabel (mapLabels τ outer.labels) (ρ q.1 q.2) = mapBinder τ (lookupLabel outer.labels q.2)))
  | .forInItem => cFor
  | .inner => cInner
  | .outer => cOuter

theorem condAttrs_cons_list (τ : Tau) (ρ : Rho) (outer inner : Ctx) (p : SPath) (kind : String) (hasInit forIn : Bool)
    (a : String) (xs : List Val) (rest : List (String × Val)) :
    condAttrs τ ρ outer inner p kind hasInit forIn ((a, .list xs) :: rest) =
      (roleCond τ ρ outer p a (.list xs) (roleOf kind a hasInit forIn) (condList τ ρ outer p a 0 xs)
        (condList τ ρ inner p a 0 xs) (condList τ ρ outer p a 0 xs)
      && condAttrs τ ρ outer inner p kind hasInit forIn rest) := by
  rw [condAttrs.eq_2]
  unfold roleCond
  cases roleOf kind a hasInit forIn <;> rfl

theorem condAttrs_cons_nonlist (τ : Tau) (ρ : Rho) (outer inner : Ctx) (p : SPath) (kind : String)
    (hasInit forIn : Bool) (a : String) (v : Val) (hv : NotList v) (rest : List (String × Val)) :
    condAttrs τ ρ outer inner p kind hasInit forIn ((a, v) :: rest) =
      (roleCond τ ρ outer p a v (roleOf kind a hasInit forIn)
        (condVal τ ρ { outer with forInItem := true } (p ++ [(a, 0)]) v)
        (condVal τ ρ inner (p ++ [(a, 0)]) v) (condVal τ ρ outer (p ++ [(a, 0)]) v)
      && condAttrs τ ρ outer inner p kind hasInit forIn rest) := by
  rw [condAttrs.eq_3 _ _ _ _ _ _ _ _ _ _ _ hv]
  unfold roleCond
  cases roleOf kind a hasInit forIn <;> rfl

theorem lookupEnv_name : ∀ (env : List Layer) (n : String), (lookupEnv env n).name = n
  | [], _ => rfl
  | l :: rest, n => by
    simp only [lookupEnv]
    split
    · rfl
    · split
      · rfl
      · exact lookupEnv_name rest n

theorem roleOf_meta (kind a : String) (hasInit forIn : Bool) (hm : Val.isMeta a = true) :
    roleOf kind a hasInit forIn = .skip := by
  simp [roleOf, hm]

/-- one attribute under renaming -/
theorem roleOut_rename (τ : Tau) (ρ : Rho) (outer : Ctx) (p : SPath) (a : String) (hm : Val.isMeta a = false) (v : Val)
    (role : Role) (rFor rInner rOuter rFor' rInner' rOuter' : List Occ) (cFor cInner cOuter : Bool)
    (h : roleCond τ ρ outer p a v role cFor cInner cOuter = true)
    (hFor : cFor = true → rFor' = rFor.map (mapOcc τ ρ))
    (hInner : cInner = true → rInner' = rInner.map (mapOcc τ ρ))
    (hOuter : cOuter = true → rOuter' = rOuter.map (mapOcc τ ρ)) :
    roleOut (mapCtx τ outer) p a (renAttrVal ρ p.reverse a v) role rFor' rInner' rOuter'
      = (roleOut outer p a v role rFor rInner rOuter).map (mapOcc τ ρ) := by
  cases role with
  | skip => rfl
  | funcDeclName =>
    simp only [roleOut, roleCond] at h ⊢
    refine declOccs_rename τ ρ p a hm v _ _ ?_
    intro q hq
    have := declCond_spec h q hq
    simp [mapCtx, mapBinder, this]
  | selfName =>
    simp only [roleOut, roleCond] at h ⊢
    refine declOccs_rename τ ρ p a hm v _ _ ?_
    intro q hq
    have := declCond_spec h q hq
    simp [mapBinder, this]
  | params =>
    simp only [roleOut, roleCond] at h ⊢
    refine declOccs_rename τ ρ p a hm v _ _ ?_
    intro q hq
    have := declCond_spec h q hq
    simp [mapBinder, this]
  | catchParam =>
    simp only [roleOut, roleCond] at h ⊢
    refine declOccs_rename τ ρ p a hm v _ _ ?_
    intro q hq
    have := declCond_spec h q hq
    simp [mapBinder, this]
  | labelDecl =>
    simp only [roleOut, roleCond] at h ⊢
    refine declOccs_rename τ ρ p a hm v _ _ ?_
    intro q hq
    have := declCond_spec h q hq
    simp [mapBinder, this]
  | labelRef =>
    simp only [roleOut, roleCond, List.all_eq_true] at h ⊢
    refine declOccs_rename τ ρ p a hm v _ _ ?_
    intro q hq
    have := h q hq
    simp only [decide_eq_true_eq] at this
    simp [mapCtx, this]
  | varName assigned =>
    simp only [roleOut, roleCond, List.all_eq_true, Bool.and_eq_true, beq_iff_eq] at h ⊢
    refine declOccs_rename τ ρ p a hm v _ _ ?_
    intro q hq
    obtain ⟨h1, h2⟩ := h q hq
    have hvk : (mapCtx τ outer).varKind = outer.varKind := rfl
    have hvs : (mapCtx τ outer).varScope = outer.varScope := rfl
    have henv : (mapCtx τ outer).env = mapEnv τ outer.env := rfl
    simp only [hvk, hvs, henv]
    cases assigned with
    | false => simp [mapBinder, h1]
    | true =>
      have h3 : lookupEnv (mapEnv τ outer.env) (ρ q.1 q.2) = mapBinder τ (lookupEnv outer.env q.2) := by
        simpa [refCond] using h2
      rw [h3, h1]
      have hn := lookupEnv_name outer.env q.2
      by_cases hrd : lookupEnv outer.env q.2 = { kind := outer.varKind, scope := outer.varScope, name := q.2 }
      · simp [hrd, mapBinder]
      · have hne : mapBinder τ (lookupEnv outer.env q.2)
            ≠ { kind := outer.varKind, scope := outer.varScope, name := tauN τ outer.varKind outer.varScope q.2 } := by
          intro he
          apply hrd
          have hk := congrArg Binder.kind he
          have hs := congrArg Binder.scope he
          simp only [mapBinder] at hk hs
          cases hb : lookupEnv outer.env q.2 with
          | mk k s nm =>
            rw [hb] at hk hs hn
            simp only at hk hs hn
            rw [hk, hs, hn]
        have c1 : (lookupEnv outer.env q.2 != { kind := outer.varKind, scope := outer.varScope, name := q.2 }) = true := by
          simpa using hrd
        have c2 : (mapBinder τ (lookupEnv outer.env q.2)
            != { kind := outer.varKind, scope := outer.varScope, name := tauN τ outer.varKind outer.varScope q.2 }) = true := by
          simpa using hne
        simp only [Bool.true_and, c1, c2, if_true, List.map_cons, List.map_nil]
        rfl
  | forInItem => simpa [roleOut, roleCond] using hFor (by simpa [roleCond] using h)
  | inner => simpa [roleOut, roleCond] using hInner (by simpa [roleCond] using h)
  | outer => simpa [roleOut, roleCond] using hOuter (by simpa [roleCond] using h)

end CalmVerif.Obf
