/-
Helper lemmas for C06: the `while True` loop of `_token`, `token`, and the stand-alone iteration.
-/
import CalmVerif.Proofs.LexerStep

namespace CalmVerif.Proofs.LexerLoop
open CalmVerif.Model.TokenRegex CalmVerif.Model.PlyLex CalmVerif.Model.Lexer
open CalmVerif.Proofs.LexerRegex CalmVerif.Proofs.LexerPly CalmVerif.Proofs.LexerGap CalmVerif.Proofs.LexerStep
open CalmVerif.Spec.LexSeg CalmVerif.Gen

/-! ### token types of skipped tokens -/

theorem lookup_mem (tbl : List (String × String)) (k v : String) (h : lookup tbl k = some v) :
    v ∈ tbl.map (·.2) := by
  induction tbl with
  | nil => simp [lookup] at h
  | cons p rest ih =>
    obtain ⟨a, b⟩ := p
    simp only [lookup] at h
    split at h
    · simp at h; simp [h]
    · simp [ih h]

theorem ruleType_eq (r : String) (v : List Char) (X : String) (hX : X ≠ "ID")
    (hk : X ∉ LexData.keywords.map (·.2)) (h : ruleType r v = X) : r = X := by
  unfold ruleType at h
  split at h
  · split at h
    · rename_i kw hkw
      exact absurd (h ▸ lookup_mem _ _ _ hkw) hk
    · exact absurd h.symm hX
  · exact h

/-- `t_ID`'s second statement either leaves the looked-up type or makes an identifier-rule token an "ID" -/
theorem ruleFn_cases (ap : Bool) (r : String) (v : List Char) :
    ruleFn ap r v = ruleType r v ∨ (r = "ID" ∧ ruleFn ap r v = "ID") := by
  unfold ruleFn
  split
  · rename_i h; exact Or.inr ⟨h.1, rfl⟩
  · exact Or.inl rfl

theorem ruleFn_eq (ap : Bool) (r : String) (v : List Char) (X : String) (hX : X ≠ "ID")
    (hk : X ∉ LexData.keywords.map (·.2)) (h : ruleFn ap r v = X) : r = X := by
  rcases ruleFn_cases ap r v with h1 | ⟨_, h2⟩
  · exact ruleType_eq r v X hX hk (h1 ▸ h)
  · rw [h2] at h; exact absurd h.symm hX

theorem lt_not_kw : "LINE_TERMINATOR" ∉ LexData.keywords.map (·.2) := by decide
theorem bc_not_kw : "BLOCK_COMMENT" ∉ LexData.keywords.map (·.2) := by decide
theorem lc_not_kw : "LINE_COMMENT" ∉ LexData.keywords.map (·.2) := by decide

theorem rawTok_matcher {s : LexerState} {st : LexState} {t : Token} {st1 : LexState} (h : RawTok s st t st1)
    (X : String) (hX : X ≠ "ID") (hk : X ∉ LexData.keywords.map (·.2)) (hty : t.type = X)
    (m : List Char → Option Nat) (hm : ruleMatcher X = some m) :
    m (st.text.drop t.lexpos) = some t.value.length := by
  obtain ⟨r, ⟨_, _, m', _, hm', hn, _⟩, hr⟩ := h.rule
  have : r = X := ruleFn_eq _ r _ X hX hk (hr ▸ hty)
  subst this
  rw [hm] at hm'
  simp at hm'
  subst hm'
  exact hn

/-- the rule information of a raw token, with the look-behind flag `t_ID` saw forgotten -/
theorem rawTok_ruleInfo {s : LexerState} {st : LexState} {t : Token} {st1 : LexState} (h : RawTok s st t st1) :
    ∃ s r ap, FirstMatch (rulesOf s) (st.text.drop t.lexpos) r t.value.length ∧ t.type = ruleFn ap r t.value := by
  obtain ⟨r, h1, h2⟩ := h.rule
  exact ⟨s, r, _, h1, h2⟩

theorem rawTok_value {s : LexerState} {st : LexState} {t : Token} {st1 : LexState} (h : RawTok s st t st1) :
    (st.text.drop t.lexpos).take t.value.length = t.value := by
  rw [← slice_eq_take_drop]; exact h.val

/-- a skipped raw token (line terminator, or comment when comments are not yielded) together with the ignored
    characters before it is gap text -/
theorem rawTok_gap {s : LexerState} {st : LexState} {t : Token} {st1 : LexState} (h : RawTok s st t st1) (cm : Bool)
    (hty : t.type = "LINE_TERMINATOR" ∨ (cm = true ∧ isComment t.type = true)) :
    GapText cm (slice st.text st.lexpos st1.lexpos) := by
  rw [h.lexpos, slice_append _ _ t.lexpos _ h.le (by omega)]
  apply GapText.append (gap_of_ignored cm s _ h.ign)
  rw [slice_eq_take_drop]
  rcases hty with hty | ⟨hcm, hty⟩
  · have := rawTok_matcher h _ (by decide) lt_not_kw hty ltSeqLen (by simp [ruleMatcher])
    exact gap_of_ltSeq cm _ _ this
  · have hc : t.type = "BLOCK_COMMENT" ∨ t.type = "LINE_COMMENT" := by
      simpa [isComment, LexData.comments] using hty
    have key : ∀ c : List Char, IsBlockComment c ∨ IsLineComment c → GapText cm c := by
      intro c hc
      have := GapText.comment c [] hcm hc GapText.nil
      simpa using this
    rcases hc with hc | hc
    · have := rawTok_matcher h _ (by decide) bc_not_kw hc blockCommentLen (by simp [ruleMatcher])
      exact key _ (Or.inl (blockComment_spec _ _ this))
    · have := rawTok_matcher h _ (by decide) lc_not_kw hc lineCommentLen (by simp [ruleMatcher])
      exact key _ (Or.inr (lineComment_spec _ _ this))

theorem marker_cases (ty : String) (h : isMarker ty = true) :
    ty = "LINE_TERMINATOR" ∨ isComment ty = true := by
  simp [isMarker, LexData.divisionSyntaxMarkers] at h
  rcases h with h | h | h <;> simp [h, isComment, LexData.comments]

/-! ### one `_token` call -/

/-- the token is the match of a rule of ply's master regex at its offset: the first rule of the state's list
    that matches there; its type is what the rule function made of the rule name -/
def RuleInfo (text : List Char) (t : Token) : Prop :=
  (text.drop t.lexpos).take t.value.length = t.value ∧
  ∃ s r ap, FirstMatch (rulesOf s) (text.drop t.lexpos) r t.value.length ∧ t.type = ruleFn ap r t.value

/-- what a successful `_token` call (with empty `next_tokens`) guarantees -/
def TokStep (st : LexState) (r : Option Token) (st' : LexState) : Prop :=
  Frame st st' ∧
  match r with
  | none => GapText (!st.yieldComments) (st.text.drop st.lexpos)
  | some t =>
    st.lexpos < st'.lexpos ∧ st'.lexpos ≤ st.text.length ∧
    (t.auto = true →
      GapText (!st.yieldComments) (slice st.text st.lexpos st'.lexpos) ∧ t.value = [';'] ∧ t.type = "AUTOSEMI" ∧
      st.lexpos ≤ t.lexpos ∧ t.lexpos < st'.lexpos) ∧
    (t.auto = false →
      st.lexpos ≤ t.lexpos ∧ GapText (!st.yieldComments) (slice st.text st.lexpos t.lexpos) ∧ t.value ≠ [] ∧
      st'.lexpos = t.lexpos + t.value.length ∧ slice st.text t.lexpos (t.lexpos + t.value.length) = t.value ∧
      RuleInfo st.text t)

theorem drop_eq_slice_append (text : List Char) (a b : Nat) (hab : a ≤ b) :
    text.drop a = slice text a b ++ text.drop b := by
  unfold slice
  obtain ⟨k, rfl⟩ := Nat.exists_eq_add_of_le hab
  have : a + k - a = k := by omega
  rw [this, ← List.drop_drop, List.take_append_drop]

/-- skipping gap text from `st` to `st1` and then making a step from `st1` is a step from `st` -/
theorem TokStep.prepend {st st1 : LexState} {r : Option Token} {st' : LexState}
    (hf : Frame st st1) (hle : st.lexpos ≤ st1.lexpos)
    (hgap : GapText (!st.yieldComments) (slice st.text st.lexpos st1.lexpos))
    (h : TokStep st1 r st') : TokStep st r st' := by
  obtain ⟨hf', hr⟩ := h
  refine ⟨hf.trans hf', ?_⟩
  have htext := hf.1
  have hyc := hf.2.1
  cases r with
  | none =>
    simp only at hr ⊢
    rw [htext, hyc] at hr
    rw [drop_eq_slice_append _ _ _ hle]
    exact GapText.append hgap hr
  | some t =>
    simp only at hr ⊢
    rw [htext, hyc] at hr
    obtain ⟨h1, h2, ha, hn⟩ := hr
    refine ⟨by omega, h2, ?_, ?_⟩
    · intro hauto
      obtain ⟨g, v, ty, l1, l2⟩ := ha hauto
      refine ⟨?_, v, ty, by omega, l2⟩
      rw [slice_append _ _ st1.lexpos _ hle (by omega)]
      exact GapText.append hgap g
    · intro hauto
      obtain ⟨l1, g, ne, lp, v, ri⟩ := hn hauto
      refine ⟨by omega, ?_, ne, lp, v, ri⟩
      rw [slice_append _ _ st1.lexpos _ hle l1]
      exact GapText.append hgap g

/-- a raw step that returns its token is a `_token` step -/
theorem TokStep.of_rawStep {st : LexState} {t : Token} {st' : LexState} (h : RawStep st (some t) st') :
    TokStep st (some t) st' := by
  obtain ⟨hf, s, raw, st1, hraw, ⟨hl, _, _⟩, hcase⟩ := h
  refine ⟨hf, ?_⟩
  simp only
  have hpos : 0 < raw.value.length := by
    cases hv : raw.value with
    | nil => exact absurd hv hraw.ne
    | cons => simp
  have hb := hraw.bound
  have hlp := hraw.lexpos
  have hle := hraw.le
  refine ⟨by omega, by omega, ?_, ?_⟩
  · intro hauto
    rcases hcase with rfl | ⟨_, hty, hv, hlx, hrt, hs⟩
    · rw [hraw.auto] at hauto; simp at hauto
    · subst hs
      refine ⟨?_, hv, hty, by omega, by omega⟩
      rw [hl]
      exact rawTok_gap hraw _ (Or.inl hrt)
  · intro hauto
    rcases hcase with rfl | ⟨ha, _⟩
    · exact ⟨hle, gap_of_ignored _ s _ hraw.ign, hraw.ne, by omega, hraw.val, rawTok_value hraw, rawTok_ruleInfo hraw⟩
    · rw [ha] at hauto; simp at hauto

theorem TokStep.of_rawStep_none {st : LexState} {st' : LexState} (h : RawStep st none st') :
    TokStep st none st' := by
  obtain ⟨hf, s, hign⟩ := h
  exact ⟨hf, gap_of_ignored _ s _ hign⟩

/-- a raw step whose token the loop skips: the state moved over gap text only -/
theorem rawStep_skip {st : LexState} {t : Token} {st1 : LexState} (h : RawStep st (some t) st1)
    (hty : t.type = "LINE_TERMINATOR" ∨ (st.yieldComments = false ∧ isComment t.type = true)) :
    Frame st st1 ∧ st.lexpos ≤ st1.lexpos ∧ GapText (!st.yieldComments) (slice st.text st.lexpos st1.lexpos) := by
  obtain ⟨hf, s, raw, st0, hraw, ⟨hl, _, _⟩, hcase⟩ := h
  have hle := hraw.le
  have hlp := hraw.lexpos
  refine ⟨hf, by omega, ?_⟩
  rw [hl]
  rcases hcase with rfl | ⟨_, hau, _, _, hrt, _⟩
  · apply rawTok_gap hraw
    rcases hty with h | ⟨h1, h2⟩
    · exact Or.inl h
    · exact Or.inr ⟨by simp [h1], h2⟩
  · exact rawTok_gap hraw _ (Or.inl hrt)

theorem tokenLoop_spec : ∀ (fuel : Nat) (st : LexState) (r : Option Token) (st' : LexState),
    tokenLoop fuel st = .ok (r, st') → TokStep st r st' := by
  intro fuel
  induction fuel with
  | zero => intro st r st' h; simp [tokenLoop] at h
  | succ fuel ih =>
    intro st r st' h
    unfold tokenLoop at h
    split at h
    · -- IndexError branch
      split at h
      · simp at h
      · rename_i st1 hg
        simp at h
        obtain ⟨rfl, rfl⟩ := h
        exact TokStep.of_rawStep_none (getUpdateToken_spec _ _ _ hg)
      · rename_i t st1 hg
        have hraw := getUpdateToken_spec _ _ _ hg
        split at h
        · rename_i hty
          obtain ⟨hf, hle, hgap⟩ := rawStep_skip hraw (Or.inl hty)
          exact TokStep.prepend hf hle hgap (ih _ _ _ h)
        · simp at h
          obtain ⟨rfl, rfl⟩ := h
          exact TokStep.of_rawStep hraw
    · split at h
      · split at h
        · simp at h
        · rename_i st1 hg
          simp at h
          obtain ⟨rfl, rfl⟩ := h
          exact TokStep.of_rawStep_none (getUpdateToken_spec _ _ _ hg)
        · rename_i t st1 hg
          have hraw := getUpdateToken_spec _ _ _ hg
          have hyc : st1.yieldComments = st.yieldComments := hraw.1.2.1
          split at h
          · rename_i hmk
            split at h
            · rename_i hcm
              split at h
              · simp at h
                obtain ⟨rfl, rfl⟩ := h
                exact TokStep.of_rawStep hraw
              · rename_i hnyc
                have hskip := rawStep_skip hraw (Or.inr ⟨by rw [← hyc]; simpa using hnyc, hcm⟩)
                obtain ⟨hf, hle, hgap⟩ := hskip
                split at h
                · have := ih _ _ _ h
                  refine TokStep.prepend (st1 := { st1 with hiddenTokens := st1.hiddenTokens ++ [t.toComment] })
                    ?_ hle hgap this
                  exact ⟨hf.1, hf.2.1, hf.2.2.1, hf.2.2.2⟩
                · exact TokStep.prepend hf hle hgap (ih _ _ _ h)
            · rename_i hcm
              have hlt : t.type = "LINE_TERMINATOR" := by
                rcases marker_cases _ hmk with h1 | h1
                · exact h1
                · exact absurd h1 hcm
              obtain ⟨hf, hle, hgap⟩ := rawStep_skip hraw (Or.inl hlt)
              exact TokStep.prepend hf hle hgap (ih _ _ _ h)
          · simp at h
            obtain ⟨rfl, rfl⟩ := h
            exact TokStep.of_rawStep hraw
      · have hraw := divOrRegex_spec _ _ _ h
        cases r with
        | none => exact TokStep.of_rawStep_none hraw
        | some t => exact TokStep.of_rawStep hraw

end CalmVerif.Proofs.LexerLoop
