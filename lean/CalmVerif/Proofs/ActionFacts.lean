/-
Checkable facts about the probed semantic-action table (Gen.Actions) against the grammar
(Gen.Tables): where `setpos` anchors each node, and what every token-map entry records.
Each check is a Bool function evaluated by the kernel on the regenerated tables (Props/C11).
-/
import CalmVerif.Model.ActionDesc
import CalmVerif.Model.LR
namespace CalmVerif.Model.ActionFacts
open CalmVerif.Model.ActionDesc CalmVerif.Model.LR

/-- static information about the grammar needed by the checks -/
structure G where
  nT : Nat
  prods : List (Nat × List Nat)
  nullable : List Nat              -- nonterminal indices claimed nullable (complement = claimed non-nullable)
  termSpelling : List String
  strShaped : List Nat             -- nonterminal indices whose only value shape is a string

def G.isTerm (g : G) (sym : Nat) : Bool := sym < g.nT

/-- the symbol can derive a non-empty string only (terminal, or nonterminal not claimed nullable) -/
def G.solid (g : G) (sym : Nat) : Bool := g.isTerm sym || !(g.nullable.contains (sym - g.nT))

/-- closure condition that makes the non-nullable claims sound: a production of a nonterminal that is
    not claimed nullable contains a solid symbol -/
def G.nonNullOK (g : G) : Bool :=
  g.prods.drop 1 |>.all fun (lhs, rhs) => g.nullable.contains lhs || rhs.any g.solid

/-- every production of nonterminal `n` starts (after following leading nonterminals) with a terminal
    spelled `s`; `seen` cuts left recursion (a finite derivation must bottom out in another production) -/
def G.startsWith (g : G) (s : String) : Nat → List Nat → Nat → Bool
  | 0, _, _ => false
  | fuel + 1, seen, n =>
    let ps := (g.prods.drop 1).filter (fun p => p.1 == n)
    !ps.isEmpty && ps.all fun (_, rhs) =>
      match rhs with
      | [] => false
      | x :: _ =>
        if g.isTerm x then (g.termSpelling[x]?).getD "" == s && s != ""
        else
          let m := x - g.nT
          if m == n || seen.contains m then true else g.startsWith s fuel (n :: seen) m

def G.symStartsWith (g : G) (s : String) (sym : Nat) : Bool :=
  if g.isTerm sym then (g.termSpelling[sym]?).getD "" == s && s != ""
  else g.startsWith s 6 [] (sym - g.nT)

def operatorForms : List String :=
  ["BinOp", "Assign", "Conditional", "Comma", "DotAccessor", "BracketAccessor", "PostfixExpr", "Label"]

mutual
  def slotsOfD : D → List Nat
    | .slot j => [j]
    | .attrOf j _ => [j]
    | .list items => slotsOfItems items
    | .node _ attrs _ _ _ _ => slotsOfAttrs attrs
    | _ => []
  def slotsOfAttrs : List (String × D) → List Nat
    | [] => []
    | (_, d) :: rest => slotsOfD d ++ slotsOfAttrs rest
  def slotsOfItems : List Item → List Nat
    | [] => []
    | .item d :: rest => slotsOfD d ++ slotsOfItems rest
    | .spread j :: rest => j :: slotsOfItems rest
    | .spreadMod j _ _ :: rest => j :: slotsOfItems rest
end

def rhsAt (rhs : List Nat) (j : Nat) : Option Nat := if j = 0 then none else rhs[j - 1]?

/-- the anchor of a node built at the top of a production -/
def topAnchorOK (g : G) (rhs : List Nat) (kind : String) (pos : PosD) (tokmapOf : Option Nat) : Bool :=
  match pos with
  | .at j 0 =>
    if operatorForms.contains kind then
      j == 2 && (match rhs with
        | a :: b :: _ => !g.isTerm a && (g.isTerm b || g.strShaped.contains (b - g.nT))
        | _ => false)
    else
      j == 1 && (match rhs with
        | a :: _ => g.solid a || kind == "ES5Program"
        | [] => false)
  | .ofNode j => kind == "PropIdentifier" && tokmapOf == some j
  | _ => false

/-- the anchor of a node built inside another value (for-clause wrappers, list items) -/
def nestedAnchorOK (g : G) (rhs : List Nat) (nonNone : List Nat) (kind : String) (pos : PosD)
    (attrs : List (String × D)) : Bool :=
  match pos with
  | .at k 0 =>
    -- `nonNone`: slots whose value is a node in this row (a node value has a non-empty yield, `nodeProdsSolid`)
    k != 0 && (match rhsAt rhs k with
      | some x => g.solid x || nonNone.contains k
      | none => false) && (slotsOfAttrs attrs).all (fun s => k ≤ s)
  | .at k 1 =>
    -- the placeholders synthesised for omitted for(;;) clauses: previous token + 1 (exempt by C11)
    kind == "EmptyStatement" && k != 0 && (match rhsAt rhs k with
      | some x => g.isTerm x
      | none => false)
  | _ => false

/-- a token-map entry records `text` at a position where exactly that text occurs -/
def tokEntryOK (g : G) (rhs : List Nat) (kind : String) (e : TextSrc × PosD) : Bool :=
  match e with
  | (.const s, .at j 0) =>
    (match rhsAt rhs j with
      | some x => g.symStartsWith s x
      | none => false)
  | (.commas, .at j 0) =>
    -- the comma run of an elision: anchored at its first comma (slot 0 = first symbol of the production)
    kind == "Elision" && (match rhs with
      | x :: _ => (j == 0 || j == 1) && g.symStartsWith "," x
      | [] => false)
  | (.slotText j, .at k 0) =>
    j == k && (match rhsAt rhs j with
      | some x => g.isTerm x || g.strShaped.contains (x - g.nT)
      | none => false)
  | _ => false

def tokSlotOK (g : G) (rhs : List Nat) (j : Nat) : Bool :=
  match rhsAt rhs j with
  | some x => g.isTerm x || g.strShaped.contains (x - g.nT)
  | none => false

mutual
  def checkD (g : G) (rhs : List Nat) (nn : List Nat) (top : Bool) : D → Bool
    | .node kind attrs pos tokSlots tokmap tokmapOf =>
      (if top then topAnchorOK g rhs kind pos tokmapOf else nestedAnchorOK g rhs nn kind pos attrs) &&
      tokSlots.all (tokSlotOK g rhs) &&
      tokmap.all (tokEntryOK g rhs kind) &&
      checkAttrs g rhs nn attrs
    | .list items => checkItems g rhs nn items
    | _ => true
  def checkAttrs (g : G) (rhs : List Nat) (nn : List Nat) : List (String × D) → Bool
    | [] => true
    | (_, d) :: rest => checkD g rhs nn false d && checkAttrs g rhs nn rest
  def checkItems (g : G) (rhs : List Nat) (nn : List Nat) : List Item → Bool
    | [] => true
    | .item d :: rest => checkD g rhs nn false d && checkItems g rhs nn rest
    | .spread _ :: rest => checkItems g rhs nn rest
    | .spreadMod _ _ firstTm :: rest =>
      (match firstTm with
        | some (.at 0 0) => (match rhs with
            | x :: _ => g.symStartsWith "," x
            | [] => false)
        | some _ => false
        | none => true) && checkItems g rhs nn rest
end

def isNodeKind : Kind → Bool
  | .node _ => true
  | _ => false

/-- slots that a row's conditions force to hold a node -/
def rowNonNone (conds : List (Nat × List Kind)) : List Nat :=
  (conds.filter (fun c => c.2.all isNodeKind)).map (·.1)

def defaultNonNone (ks : List Kind) : List Nat :=
  (List.range ks.length).filter (fun i => match ks[i]? with | some k => false && isNodeKind k | none => false) |>.map (· + 1)

def checkEntry (g : G) (rhs : List Nat) (e : Entry) : Bool :=
  checkD g rhs [] true e.result && e.exceptions.all (fun row => checkD g rhs (rowNonNone row.1) true row.2)

def topNodeKind : D → Option String
  | .node k _ _ _ _ _ => some k
  | _ => none

/-- a production that builds a node (other than the root) has a solid symbol: node values have non-empty yields -/
def nodeProdSolid (g : G) (rhs : List Nat) (e : Entry) : Bool :=
  (e.result :: e.exceptions.map (·.2)).all fun d =>
    match topNodeKind d with
    | some k => k == "ES5Program" || rhs.any g.solid
    | none => true

def checkAllFrom (g : G) : List (Nat × List Nat) → List Entry → Bool
  | [], [] => true
  | (_, rhs) :: ps, e :: es => checkEntry g rhs e && nodeProdSolid g rhs e && checkAllFrom g ps es
  | _, _ => false

/-- string-shaped nonterminals are pure pass-throughs of a single terminal, so the text a parent
    records for them is the token's text at the token's position -/
def strShapedOK (g : G) (actions : List Entry) : Bool :=
  g.strShaped.all fun n =>
    let idxs := (List.range g.prods.length).filter fun i =>
      i != 0 && (match g.prods[i]? with | some (lhs, _) => lhs == n | none => false)
    !idxs.isEmpty && idxs.all fun i =>
      match g.prods[i]?, actions[i]? with
      | some (_, [x]), some e =>
        g.isTerm x && e.exceptions.isEmpty && (match e.result with | .slot 1 => true | _ => false)
      | _, _ => false

def actionsOK (g : G) (actions : List Entry) : Bool :=
  g.nonNullOK && strShapedOK g actions && checkAllFrom g g.prods actions

end CalmVerif.Model.ActionFacts
