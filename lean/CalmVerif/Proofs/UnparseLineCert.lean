/-
Line-structure certificate of the unparser definitions under a slot typing (for the typed versions of
`pretty_lines_indented` / `pretty_text_ends_with_one_newline`).

State of a scan of the chunk stream: `(mode, owed)` — `mode` as in `stableRun` (mid / fresh / dirty) and
`owed` = an unconditional newline has been issued and no token since.  `lsRun` runs it over chunks;
`lexecRules` runs it symbolically over a definition, on SETS of states, with
  * children typed by the slot typing (`Ctx.slot`, builder rt's `es5Slot`) and summarised by a certificate
    `LCert`: for a node kind and a start state, the possible end states of its chunk stream;
  * `Optional a body`: inside the body attribute `a` is known to be non-empty (`present`);
  * JoinAttr / ElisionJoinAttr: closure of the state set under "separator, then item".
`lcertClosed`: the certificate is closed under the definitions (decided by the kernel on the generated tables).
Computable definitions only; soundness: Proofs/UnparseTyped.lean.
-/
import CalmVerif.Model.TokenAdj
import CalmVerif.Model.UnparseAux
namespace CalmVerif.Unparse
open CalmVerif CalmVerif.TokenAdj

abbrev LS := LMode × Bool
abbrev LSet := List LS

/-- one layout handler call -/
def lsStepH (h : HandlerId) (st : LS) : Option LS :=
  if isVisibleH h then (if st.1 == .dirty then none else some (.mid, false))
  else if isNewlineH h then some (.fresh, st.2 || isHardNewline h)
  else if hDelta h != 0 || isSpaceH h then some (if st.1 == .fresh then .dirty else st.1, st.2)
  else some st

/-- a token -/
def lsPrint (st : LS) : Option LS := if st.1 == .dirty then none else some (.mid, false)

def lsStep (c : Chunk) (st : LS) : Option LS :=
  match c with
  | .frag _ => lsPrint st
  | .layout _ h _ => lsStepH h st

def lsRun : List Chunk → LS → Option LS
  | [], st => some st
  | c :: cs, st =>
    match lsStep c st with
    | some st' => lsRun cs st'
    | none => none

/-- a step on every state of a set; `none` if some state fails -/
def mapStep (f : LS → Option LS) : LSet → Option LSet
  | [] => some []
  | st :: rest =>
    match f st, mapStep f rest with
    | some st', some rest' => some (st' :: rest')
    | _, _ => none

def subsetL (a b : LSet) : Bool := a.all b.contains

def allLS : LSet :=
  [(.mid, false), (.mid, true), (.fresh, false), (.fresh, true), (.dirty, false), (.dirty, true)]

/-- the same set of states without repetitions -/
def dedupL (l : LSet) : LSet := allLS.filter l.contains

/-! forcing: identity functions in continuation-passing style that make the kernel (which evaluates by name)
reduce a set of states to a literal once, before it is used several times -/

def forceLS {α : Type} (st : LS) (k : LS → α) : α :=
  match st with
  | (.mid, true) => k (.mid, true)
  | (.mid, false) => k (.mid, false)
  | (.fresh, true) => k (.fresh, true)
  | (.fresh, false) => k (.fresh, false)
  | (.dirty, true) => k (.dirty, true)
  | (.dirty, false) => k (.dirty, false)

def forceLSet {α : Type} : LSet → (LSet → α) → α
  | [], k => k []
  | st :: rest, k => forceLS st fun st' => forceLSet rest fun rest' => k (st' :: rest')

/-- certificate: kind ↦ start state ↦ possible end states (a missing entry makes no claim) -/
abbrev LCert := List (String × List (LS × LSet))

def lcertOf (cert : LCert) (k : String) (st : LS) : Option LSet :=
  match cert.find? (fun p => p.1 == k) with
  | some row => (row.2.find? (fun q => q.1 == st)).map (·.2)
  | none => none

/-- a child of kind `k` from every state of the set -/
def kindStep (cert : LCert) (k : String) : LSet → Option LSet
  | [] => some []
  | st :: rest =>
    match lcertOf cert k st, kindStep cert k rest with
    | some E, some R => some (E ++ R)
    | _, _ => none

def kindsStep (cert : LCert) : List String → LSet → Option LSet
  | [], _ => some []
  | k :: ks, S =>
    match kindStep cert k S, kindsStep cert ks S with
    | some a, some b => some (a ++ b)
    | _, _ => none

/-- least set containing `A` and closed under `f` (bounded iteration) -/
def closeUnder (f : LSet → Option LSet) : Nat → LSet → Option LSet
  | 0, _ => none
  | n + 1, A =>
    match f A with
    | none => none
    | some B => forceLSet (dedupL B) fun B' =>
      if subsetL B' A then some A else forceLSet (dedupL (A ++ B')) (closeUnder f n)

structure LCtx where
  tbl : List (LKey × Option HandlerId)
  slot : String → String → SlotTy
  cert : LCert
  esep : String
  elisionKinds : List String
  /-- the rule set has handlers for LineComment / BlockComment -/
  comments : Bool

/-- an attribute of slot type `ty`; `pres`: known to be non-empty -/
def slotStep (lx : LCtx) (ty : SlotTy) (pres : Bool) (S : LSet) : Option LSet :=
  match ty with
  | .tok _ => mapStep lsPrint S
  | .node ks opt =>
    match kindsStep lx.cert ks S with
    | some S' => some (if opt && !pres then S ++ S' else S')
    | none => none
  | _ => none

def valueSlotStep (lx : LCtx) (K : String) (S : LSet) : Option LSet :=
  match lx.slot K "value" with
  | .tok _ => mapStep lsPrint S
  | _ => none

def srcStep (lx : LCtx) (K : String) (present : List String) : AttrSrc → LSet → Option LSet
  | .name a, S => slotStep lx (lx.slot K a) (present.contains a) S
  | .declare a, S => slotStep lx (lx.slot K a) (present.contains a) S
  | .resolve, S => valueSlotStep lx K S
  | .literal, S => valueSlotStep lx K S
  | .lineComment, S => if lx.comments then valueSlotStep lx K S else some S
  | .blockComment, S => if lx.comments then valueSlotStep lx K S else some S
  | .iter, _ => none

def itemKindsL (lx : LCtx) (K : String) : AttrSrc → Option (List String)
  | .iter => match lx.slot K "children" with | .nodes ks => some ks | _ => none
  | .name a => match lx.slot K a with | .nodes ks => some ks | _ => none
  | .declare a => match lx.slot K a with | .nodes ks => some ks | _ => none
  | _ => none

def srcPresent (present : List String) : AttrSrc → Bool
  | .name a => present.contains a
  | .declare a => present.contains a
  | _ => false

def optStep (f : LSet → Option LSet) (S : LSet) : Option LSet :=
  match f S with
  | some S' => some (S ++ S')
  | none => none

mutual
  def lexecRule (lx : LCtx) (K : String) (present : List String) : Rule → LSet → Option LSet
    | .layout m, S =>
      match lookupLayout lx.tbl (LKey.single m) with
      | some h => mapStep (lsStepH h) S
      | none => some S
    | .struct _, S => some S
    | .text _ _, S => mapStep lsPrint S
    | .attr src _, S => srcStep lx K present src S
    | .commentsAttr src _, S => srcStep lx K present src S
    | .operator (some a) _ _, S => srcStep lx K present (.name a) S
    | .operator none (some _) _, S => mapStep lsPrint S
    | .operator none none _, S => some S
    | .optional a body, S => optStep (lexecRules lx K (a :: present) body) S
    | .joinAttr src sep _, S =>
      match itemKindsL lx K src with
      | none => none
      | some ks =>
        match kindsStep lx.cert ks S with
        | none => none
        | some S1 =>
          match closeUnder (fun A => (lexecRules lx K present sep A).bind (kindsStep lx.cert ks)) 8 S1 with
          | none => none
          | some C => some (if srcPresent present src then C else S ++ C)
    | .elisionToken (.name a) _ _, S =>
      match lx.slot K a with
      | .int1 => mapStep lsPrint S
      | _ => none
    | .elisionToken _ _ _, _ => none
    | .elisionJoinAttr src sep _, S =>
      match itemKindsL lx K src with
      | none => none
      | some ks =>
        match kindsStep lx.cert ks S with
        | none => none
        | some S1 =>
          match closeUnder (fun A => ((optStep (kindStep lx.cert lx.esep) A).bind
              (optStep (lexecRules lx K present sep))).bind (kindsStep lx.cert ks)) 8 S1 with
          | none => none
          | some C => some (if srcPresent present src then C else S ++ C)
  def lexecRules (lx : LCtx) (K : String) (present : List String) : List Rule → LSet → Option LSet
    | [], S => some S
    | r :: rs, S =>
      match lexecRule lx K present r S with
      | some S1 => forceLSet (dedupL S1) (lexecRules lx K present rs)
      | none => none
end

/-- every claim of the certificate about kind `kd.1` is reproduced by its definition -/
def lcertClosedDef (lx : LCtx) (kd : String × List Rule) : Bool :=
  match lx.cert.find? (fun p => p.1 == kd.1) with
  | none => true
  | some row => row.2.all (fun q =>
      match lexecRules lx kd.1 [] kd.2 [q.1] with
      | some S' => subsetL S' q.2
      | none => false)

def lcertClosed (lx : LCtx) (defs : Defs) : Bool :=
  defs.all (lcertClosedDef lx) && lx.cert.all (fun p => (lookupDef defs p.1).isSome)

/-! ### computing a certificate by iteration -/

def lcertStep (mk : LCert → LCtx) (defs : Defs) (cert : LCert) : LCert :=
  defs.map (fun kd => (kd.1,
    match cert.find? (fun p => p.1 == kd.1) with
    | none => []
    | some row => row.2.filterMap (fun q =>
        match lexecRules (mk cert) kd.1 [] kd.2 [q.1] with
        | some S' => some (q.1, dedupL (q.2 ++ S'))
        | none => none)))

def lcertIter (mk : LCert → LCtx) (defs : Defs) : Nat → LCert
  | 0 => defs.map (fun kd => (kd.1, allLS.map (fun st => (st, []))))
  | n + 1 => lcertStep mk defs (lcertIter mk defs n)

def forceRow {α : Type} : List (LS × LSet) → (List (LS × LSet) → α) → α
  | [], k => k []
  | (st, E) :: rest, k => forceLS st fun st' => forceLSet E fun E' => forceRow rest fun rest' => k ((st', E') :: rest')

def forceLCert {α : Type} : LCert → (LCert → α) → α
  | [], k => k []
  | (s, row) :: rest, k => forceRow row fun row' => forceLCert rest fun rest' => k ((s, row') :: rest')

/-- the certificate of round `n`, every round forced to a literal, handed to a continuation -/
def withLCert {α : Type} (mk : LCert → LCtx) (defs : Defs) : Nat → (LCert → α) → α
  | 0, k => forceLCert (lcertIter mk defs 0) k
  | n + 1, k => withLCert mk defs n fun c => forceLCert (lcertStep mk defs c) k

end CalmVerif.Unparse
