/-
The C11 composition for runs of the LR driver: tracking (NodePosTrack) as the ghost relation of NodePosGhost,
and the per-call facts of NodePosAnchor at every call of a semantic action made from a reachable configuration.
Generic in tables, grammar record, action table, token type and token source; `ActSem` says that the semantics
of the driver computes its values with `Model.Actions.leaf` / `Model.Actions.reduce` on the given action table,
reading the column lookup, the current position and the comment flag from the source state.
-/
import CalmVerif.Proofs.NodePosAnchor
namespace CalmVerif.Proofs.NodePos
open CalmVerif CalmVerif.Model.Actions CalmVerif.Model.ActionDesc CalmVerif.Model.ActionFacts CalmVerif.Model.LR

variable {τ σ ε : Type}

/-- the driver's semantics computes its values with the action table -/
structure ActSem (S : Sem τ PVal σ ε) (tokOf : τ → Tok) (table : List Entry)
    (wcOf : σ → Bool) (lcOf : σ → Nat → Nat → Option Int) (posOf : σ → Nat × Nat) : Prop where
  leaf : ∀ t, S.leaf t = Model.Actions.leaf (tokOf t)
  reduce : ∀ {p : Nat} {args : List PVal} {src : σ} {v : PVal}, S.reduce p args src = .ok v →
    Model.Actions.reduce table (wcOf src) (lcOf src) p args (posOf src) = .ok v

/-- a node built by the call `reduce table wc lc p args lp`: the value `n` of a node descriptor `x` of the
    selected row, with `pos` its `@pos` and `tmv` its `@tokmap` attribute -/
def BuiltNode (table : List Entry) (wc : Bool) (lc : Nat → Nat → Option Int) (p : Nat) (args : List PVal)
    (lp : Nat × Nat) (x : NodeD) (n pos tmv : Val) : Prop :=
  ∃ e as, table[p]? = some e ∧ x ∈ nodesOfD true (selectRow e (args.map (fun a => kindOf a.v))) ∧
    evalD (mkCtx args lp lc wc) x.d = .ok n ∧
    n = .node x.kind (as ++ nodeExtra (mkCtx args lp lc wc) x.pos ++ [("@pos", pos), ("@tokmap", tmv)])

theorem BuiltNode.unique {table : List Entry} {wc : Bool} {lc : Nat → Nat → Option Int} {p : Nat}
    {args : List PVal} {lp : Nat × Nat} {x : NodeD} {n pos tmv n' pos' tmv' : Val}
    (h : BuiltNode table wc lc p args lp x n pos tmv) (h' : BuiltNode table wc lc p args lp x n' pos' tmv') :
    n = n' ∧ pos = pos' ∧ tmv = tmv' := by
  obtain ⟨e, as, _, _, hn, rfl⟩ := h
  obtain ⟨e', as', _, _, hn', rfl⟩ := h'
  rw [hn] at hn'
  simp only [Except.ok.injEq, Val.node.injEq, true_and] at hn'
  have := (List.append_inj' hn' (by simp)).2
  simp only [List.cons.injEq, Prod.mk.injEq, true_and, and_true] at this
  exact ⟨by rw [hn'], this.1, this.2⟩

/-- the position of a token under a column lookup that gives the token's own column -/
def TokOK (lc : Nat → Nat → Option Int) (t : Tok) : Prop := colOf lc t.lineno t.lexpos = some t.colno

theorem AtTok.eq_of_tokOK {lc : Nat → Nat → Option Int} {t : Tok} {p : Val} (h : AtTok lc t p)
    (hok : TokOK lc t) : p = posVal t.lexpos t.lineno t.colno := by
  obtain ⟨col, hcol, rfl⟩ := h
  rw [hok] at hcol
  simp only [Option.some.injEq] at hcol
  subst hcol
  simp

/-- a token of a terminal with a fixed spelling has that spelling as its text -/
def SpellingOK (g : G) (ty : τ → Nat) (tokOf : τ → Tok) (t : τ) : Prop :=
  ∀ s, g.termSpelling[ty t]? = some s → s ≠ "" → (tokOf t).value = s

theorem mem_yieldList {tr : Tree τ} {t : τ} : ∀ {trees : List (Tree τ)}, tr ∈ trees → t ∈ tr.yield →
    t ∈ yieldList trees
  | [], h, _ => by simp at h
  | c :: cs, h, ht => by
    simp only [List.mem_cons] at h
    simp only [yieldList, List.mem_append]
    rcases h with rfl | h
    · exact Or.inl ht
    · exact Or.inr (mem_yieldList h ht)

/-- reader's summary of `AnchorOK`: the position is that of a token of the production's yield, except for the
    three exempt shapes -/
theorem AnchorOK.on_yield {tokOf : τ → Tok} {lc : Nat → Nat → Option Int} {args : List PVal}
    {trees : List (Tree τ)} {x : NodeD} {p : Val} (h : AnchorOK tokOf lc args trees x p) :
    (∃ t ∈ yieldList trees, AtTok lc (tokOf t) p) ∨
    (x.kind = "EmptyStatement" ∧ ∃ t ∈ yieldList trees, IsPos lc (tokOf t).lexpos (tokOf t).lineno 1 p) ∨
    (x.kind = "PropIdentifier" ∧ ∃ j pv, x.pos = .ofNode j ∧ j ≠ 0 ∧ args[j - 1]? = some pv ∧
      p = (getAttr pv.v "@pos").getD posUnset) ∨
    (x.kind = "ES5Program" ∧ ∀ tr, trees.head? = some tr → tr.yield = []) := by
  cases h with
  | first t rest _ _ hy hat => exact Or.inl ⟨t, by rw [hy]; simp, hat⟩
  | emptyProgram _ hk he => exact Or.inr (Or.inr (Or.inr ⟨hk, he⟩))
  | operator a op rest t _ _ htrees hy hat =>
    refine Or.inl ⟨t, ?_, hat⟩
    exact mem_yieldList (tr := op) (by rw [htrees]; simp) (by rw [hy]; simp)
  | clone j pv hk hpos hj hpv hp => exact Or.inr (Or.inr (Or.inl ⟨hk, j, pv, hpos, hj, hpv, hp⟩))
  | nested k tr t rest _ _ htr hy hat _ =>
    exact Or.inl ⟨t, mem_yieldList (List.mem_of_getElem? htr) (by rw [hy]; simp), hat⟩
  | placeholder k t _ hk _ htr hpos =>
    exact Or.inr (Or.inl ⟨hk, t, mem_yieldList (List.mem_of_getElem? htr) (by simp [Tree.yield]), hpos⟩)

/-- reader's summary of `EntryOK`: the recorded position is that of a token of the production's yield whose text
    is the entry's text (for the comma run of an elision: a `,`) -/
theorem EntryOK.on_yield {g : G} {ty : τ → Nat} {tokOf : τ → Tok} {lc : Nat → Nat → Option Int}
    {trees : List (Tree τ)} {kind text : String} {q : Val}
    (hsp : ∀ t ∈ yieldList trees, SpellingOK g ty tokOf t) (h : EntryOK g ty tokOf lc trees kind text q) :
    ∃ t ∈ yieldList trees, AtTok lc (tokOf t) q ∧
      ((tokOf t).value = text ∨ (kind = "Elision" ∧ (tokOf t).value = "," ∧ ∃ n, text = Model.Actions.commas n)) := by
  cases h with
  | slot k tr t _ htr hy hval hat =>
    exact ⟨t, mem_yieldList (List.mem_of_getElem? htr) (by rw [hy]; simp), hat, Or.inl hval⟩
  | const k tr t rest _ htr hy hs hne hat =>
    have hm : t ∈ yieldList trees := mem_yieldList (List.mem_of_getElem? htr) (by rw [hy]; simp)
    exact ⟨t, hm, hat, Or.inl (hsp t hm text hs hne)⟩
  | commas n t rest hk htext hy hs hat =>
    have hm : t ∈ yieldList trees := by rw [hy]; simp
    exact ⟨t, hm, hat, Or.inr ⟨hk, hsp t hm "," hs (by decide), n, htext⟩⟩

section run
variable {g : G} {T : Tables} {cert : List (List Nat)} {acc : List Nat} {tracked : List Nat}
variable {table : List Entry} {S : Sem τ PVal σ ε} {R : Source τ σ ε} {tokOf : τ → Tok}
variable {wcOf : σ → Bool} {lcOf : σ → Nat → Nat → Option Int} {posOf : σ → Nat × Nat}

theorem track_lifts (hgt : GT g T) (hty : ∀ t, S.ty t ≤ T.numTerminals)
    (hok : actionsOK g table = true) (hx : extraOK g tracked table = true)
    (hS : ActSem S tokOf table wcOf lcOf posOf) : Lifts T S (Track g T tokOf tracked) :=
  ⟨fun t => by rw [hS.leaf]; exact track_leaf t,
   fun hr hall hp hv => track_reduce hgt hty hok hx (hS.reduce hr) hall hp hv⟩

/-- **(1) tracking invariant**: in every configuration reachable from the initial one the value stack is related
    by `Track` to a stack of valid derivation trees whose yields are the shifted tokens -/
theorem tracking_invariant (htv : tablesValid T cert acc = true) (hgt : GT g T)
    (hty : ∀ t, S.ty t ≤ T.numTerminals) (hok : actionsOK g table = true)
    (hx : extraOK g tracked table = true) (hS : ActSem S tokOf table wcOf lcOf posOf)
    {s : σ} {c : Config τ PVal σ} (hr : Reach T S R (initConfig s) c) :
    GInv T S (Track g T tokOf tracked) c :=
  reach_ginv htv (track_lifts hgt hty hok hx hS) (ginv_init s) hr

/-- the result symbol of an empty production gets the lexer's current position -/
theorem empty_production_pos {wc : Bool} {lc : Nat → Nat → Option Int} {p : Nat} {lp : Nat × Nat} {pv : PVal}
    (h : Model.Actions.reduce table wc lc p [] lp = .ok pv) : (pv.lexpos, pv.lineno) = lp := by
  obtain ⟨e, v, _, _, rfl⟩ := reduce_ok h
  rfl

/-- **(2)+(3) every node built by a reduce step**: at every call `S.reduce p args src = .ok pv` made by the driver
    from a reachable configuration there are valid derivation trees of the arguments, spelling the right-hand
    side of `p`, whose yield is the most recent part of the shifted tokens, such that every node built by the
    call satisfies `AnchorOK` and `TokmapOK` w.r.t. these trees, and every elision run is recorded at the first
    token of the yield, a `,` -/
theorem built_nodes_ok (htv : tablesValid T cert acc = true) (hgt : GT g T)
    (hty : ∀ t, S.ty t ≤ T.numTerminals) (hok : actionsOK g table = true)
    (hx : extraOK g tracked table = true) (hS : ActSem S tokOf table wcOf lcOf posOf)
    {s : σ} {c : Config τ PVal σ} (hr : Reach T S R (initConfig s) c)
    {p : Nat} {args : List PVal} {src : σ} (hc : reduceCall T S R c = some (p, args, src))
    {pv : PVal} (hv : S.reduce p args src = .ok pv) :
    ∃ (trees : List (Tree τ)) (lhs : Nat) (before : List τ),
      T.prods[p]? = some (lhs, symList T S.ty trees) ∧ validList T S.ty trees ∧
      c.shifted.reverse = before ++ yieldList trees ∧
      All2 (Track g T tokOf tracked) args trees ∧
      (∃ e, table[p]? = some e ∧
        evalD (mkCtx args (posOf src) (lcOf src) (wcOf src)) (selectRow e (args.map (fun a => kindOf a.v))) = .ok pv.v ∧
        (∀ x ∈ nodesOfD true (selectRow e (args.map (fun a => kindOf a.v))),
          ∃ n pos tmv, BuiltNode table (wcOf src) (lcOf src) p args (posOf src) x n pos tmv) ∧
        (∀ pd ∈ spreadsOfD (selectRow e (args.map (fun a => kindOf a.v))),
          ∃ q t rest, evalPos (mkCtx args (posOf src) (lcOf src) (wcOf src)) pd = .ok q ∧
            yieldList trees = t :: rest ∧ g.termSpelling[S.ty t]? = some "," ∧ AtTok (lcOf src) (tokOf t) q)) ∧
      (∀ x n pos tmv, BuiltNode table (wcOf src) (lcOf src) p args (posOf src) x n pos tmv →
        AnchorOK tokOf (lcOf src) args trees x pos ∧ TokmapOK g S.ty tokOf (lcOf src) args trees x tmv) := by
  have hinv := tracking_invariant (R := R) htv hgt hty hok hx hS hr
  obtain ⟨trees, lhs, before, hall, hp, hval, hsh⟩ := reduceCall_ghost htv hinv hc
  obtain ⟨e, he, hev, hnodes, hspreads⟩ := reduce_nodes_ok hgt hty hok hx (hS.reduce hv) hall hp hval
  refine ⟨trees, lhs, before, hp, hval, hsh, hall, ⟨e, he, hev, ?_, hspreads⟩, ?_⟩
  · intro x hx'
    obtain ⟨n, as, pos, tmv, hn, hneq, _, _, _⟩ := hnodes x hx'
    exact ⟨n, pos, tmv, e, as, he, hx', hn, hneq⟩
  · intro x n pos tmv hb
    obtain ⟨e', as', he', hx', hn', hneq'⟩ := hb
    rw [he] at he'
    simp only [Option.some.injEq] at he'
    subst he'
    obtain ⟨n2, as2, pos2, tmv2, hn2, hneq2, _, hanch, htok⟩ := hnodes x hx'
    obtain ⟨_, rfl, rfl⟩ := BuiltNode.unique (x := x) ⟨e, as', he, hx', hn', hneq'⟩ ⟨e, as2, he, hx', hn2, hneq2⟩
    exact ⟨hanch, htok⟩

end run

end CalmVerif.Proofs.NodePos
