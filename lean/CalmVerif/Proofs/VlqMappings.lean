/-
C10 helper lemmas, part 7: `str.join` / `str.split` and the mappings round trip.
-/
import CalmVerif.Proofs.VlqDecode

namespace CalmVerif.Proofs.Vlq
open CalmVerif.Gen.Vlq CalmVerif.Model.Vlq CalmVerif.Spec.VlqV3

/-! ### split / join -/

theorem splitHT_not_mem (sep : Char) : ∀ (a : List Char), sep ∉ a → splitHT sep a = (a, []) := by
  intro a
  induction a with
  | nil => intro _; rfl
  | cons c cs ih =>
    intro h
    have hc : c ≠ sep := fun e => h (by simp [e])
    have hcs : sep ∉ cs := fun e => h (by simp [e])
    simp [splitHT, hc, ih hcs]

theorem splitHT_append (sep : Char) (b : List Char) : ∀ (a : List Char), sep ∉ a →
    splitHT sep (a ++ sep :: b) = (a, split sep b) := by
  intro a
  induction a with
  | nil => intro _; simp [splitHT, split]
  | cons c cs ih =>
    intro h
    have hc : c ≠ sep := fun e => h (by simp [e])
    have hcs : sep ∉ cs := fun e => h (by simp [e])
    simp [splitHT, hc, ih hcs]

theorem split_join (sep : Char) : ∀ (parts : List (List Char)), parts ≠ [] →
    (∀ p ∈ parts, sep ∉ p) → split sep (join sep parts) = parts := by
  intro parts
  induction parts with
  | nil => intro h; exact absurd rfl h
  | cons x rest ih =>
    intro _ h
    cases rest with
    | nil => simp [join, split, splitHT_not_mem sep x (h x (by simp))]
    | cons y ys =>
      have hx := h x (by simp)
      have := ih (by simp) (fun p hp => h p (by simp [hp]))
      simp only [join, split, splitHT_append sep _ x hx]
      simpa [split] using this

theorem mem_join (sep c : Char) : ∀ (parts : List (List Char)), c ∈ join sep parts →
    c = sep ∨ ∃ p ∈ parts, c ∈ p := by
  intro parts
  induction parts with
  | nil => intro h; simp [join] at h
  | cons x rest ih =>
    intro h
    cases rest with
    | nil => simp [join] at h; exact Or.inr ⟨x, by simp, h⟩
    | cons y ys =>
      simp only [join, List.mem_append, List.mem_cons] at h
      rcases h with h | h | h
      · exact Or.inr ⟨x, by simp, h⟩
      · exact Or.inl h
      · rcases ih h with h | ⟨p, hp, hc⟩
        · exact Or.inl h
        · exact Or.inr ⟨p, by simp only [List.mem_cons] at hp ⊢; exact Or.inr hp, hc⟩

/-! ### characters of encodings -/

theorem mem_encodeRaw (n : Nat) : ∀ c ∈ encodeRaw n, c ∈ alphabet := by
  intro c hc
  simp only [encodeRaw, List.mem_map] at hc
  obtain ⟨d, hd, rfl⟩ := hc
  exact b64Char_mem d (sextets_lt n d hd)

theorem mem_encodeList : ∀ (l : List Int), ∀ c ∈ encodeList l, c ∈ alphabet := by
  intro l
  induction l with
  | nil => intro c hc; simp [encodeList] at hc
  | cons v vs ih =>
    intro c hc
    simp only [encodeList, List.mem_append] at hc
    rcases hc with hc | hc
    · exact mem_encodeRaw _ c hc
    · exact ih c hc

theorem encodeList_ne_nil {l : List Int} (h : l ≠ []) : encodeList l ≠ [] := by
  cases l with
  | nil => exact absurd rfl h
  | cons v vs =>
    simp only [encodeList, encode]
    intro e
    exact encodeRaw_ne_nil _ (List.append_eq_nil_iff.1 e).1

/-! ### mapE -/

theorem mapE_map {α β : Type} {f : β → Except Err α} {g : α → β} :
    ∀ {l : List α}, (∀ a ∈ l, f (g a) = .ok a) → mapE f (l.map g) = .ok l := by
  intro l
  induction l with
  | nil => intro _; rfl
  | cons a as ih =>
    intro h
    simp [mapE, h a (by simp), ih (fun x hx => h x (by simp [hx]))]

/-! ### lines and mappings -/

/-- text of one line -/
def lineText (line : List (List Int)) : List Char := join ',' (line.map encodeList)

theorem encodeLine_eq (line : Line) : encodeLine line = .ok (lineText line) := by
  unfold encodeLine lineText
  rw [mapE_ok (g := encodeList) (fun a _ => encodeVlqs_eq a)]

theorem encodeMappings_eq (m : Mappings) : encodeMappings m = .ok (join ';' (m.map lineText)) := by
  unfold encodeMappings
  rw [mapE_ok (g := lineText) (fun a _ => encodeLine_eq a)]

theorem decodeLine_lineText (line : Line) (h : ∀ seg ∈ line, seg ≠ []) :
    decodeLine (lineText line) = .ok line := by
  unfold decodeLine lineText
  cases hl : line with
  | nil => simp [join, split, splitHT, mapE]
  | cons s ss =>
    rw [← hl, split_join]
    · have hf : (line.map encodeList).filter (fun frags => !frags.isEmpty) = line.map encodeList := by
        rw [List.filter_eq_self]
        intro p hp
        obtain ⟨seg, hseg, rfl⟩ := List.mem_map.1 hp
        have := encodeList_ne_nil (h seg hseg)
        cases he : encodeList seg with
        | nil => exact absurd he this
        | cons _ _ => rfl
      rw [hf]
      exact mapE_map (fun a _ => decodeVlqs_encodeList a)
    · simp [hl]
    · intro p hp hc
      obtain ⟨seg, _, rfl⟩ := List.mem_map.1 hp
      exact comma_not_mem (mem_encodeList seg _ hc)

theorem semi_not_mem_lineText (line : Line) : ';' ∉ lineText line := by
  intro h
  rcases mem_join ',' ';' _ h with h | ⟨p, hp, hc⟩
  · exact absurd h (by decide)
  · obtain ⟨seg, _, rfl⟩ := List.mem_map.1 hp
    exact semi_not_mem (mem_encodeList seg _ hc)

theorem decodeMappings_join (m : Mappings) (hne : m ≠ [])
    (h : ∀ line ∈ m, ∀ seg ∈ line, seg ≠ []) :
    decodeMappings (join ';' (m.map lineText)) = .ok m := by
  unfold decodeMappings
  rw [split_join]
  · exact mapE_map (fun line hl => decodeLine_lineText line (h line hl))
  · simpa using hne
  · intro p hp
    obtain ⟨line, _, rfl⟩ := List.mem_map.1 hp
    exact semi_not_mem_lineText line

end CalmVerif.Proofs.Vlq
