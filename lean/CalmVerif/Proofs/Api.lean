import CalmVerif.Model.Api
/-
Helper lemmas for Props/C14: frame and locality of the per-call semantics over the generator heap.
-/
namespace CalmVerif.Proofs.Api
open CalmVerif.Model.Api

variable {Cfg Tree H W Frag Err : Type}

theorem obsOf_append (g : Nat) (a b : List (Nat × Obs Frag Err)) :
    obsOf g (a ++ b) = obsOf g a ++ obsOf g b := by
  simp [obsOf]

@[simp] theorem obsOf_nil (g : Nat) : obsOf g ([] : List (Nat × Obs Frag Err)) = [] := rfl

theorem obsOf_single_self (g : Nat) (o : Obs Frag Err) : obsOf g [(g, o)] = [o] := by
  simp [obsOf]

theorem obsOf_single_ne {g g' : Nat} (o : Obs Frag Err) (h : g' ≠ g) : obsOf g [(g', o)] = [] := by
  simp [obsOf, h]

/-- frame: one operation of the per-call semantics leaves printers and trees alone -/
theorem execOp_frame (M : Machine Cfg Tree H W Frag Err) (hp : Heap Cfg Tree H W) (op : Op) :
    (execOp (fun _ => Sem.perCall) M hp op).1.printers = hp.printers ∧ (execOp (fun _ => Sem.perCall) M hp op).1.trees = hp.trees := by
  cases op with
  | start p t => simp [execOp]
  | drop g =>
    simp only [execOp]
    split <;> simp
  | next g =>
    simp only [execOp]
    split
    · simp
    · split <;> simp

theorem exec_frame (M : Machine Cfg Tree H W Frag Err) (ops : List Op) :
    ∀ hp : Heap Cfg Tree H W,
      (exec (fun _ => Sem.perCall) M hp ops).1.printers = hp.printers ∧ (exec (fun _ => Sem.perCall) M hp ops).1.trees = hp.trees := by
  induction ops with
  | nil => intro hp; simp [exec]
  | cons op ops ih =>
    intro hp
    have h1 := execOp_frame M hp op
    have h2 := ih (execOp (fun _ => Sem.perCall) M hp op).1
    simp only [exec]
    exact ⟨h2.1.trans h1.1, h2.2.trans h1.2⟩

/-- the number of generators after one operation -/
theorem execOp_gens_length (sel : Cfg → Sem) (M : Machine Cfg Tree H W Frag Err) (hp : Heap Cfg Tree H W) (op : Op) :
    (execOp sel M hp op).1.gens.length =
      match op with
      | .start _ _ => hp.gens.length + 1
      | _ => hp.gens.length := by
  cases op with
  | start p t => simp [execOp]
  | drop g =>
    simp only [execOp]
    split <;> simp
  | next g =>
    simp only [execOp]
    split
    · simp
    · split
      · split <;> simp
      · simp

/-- locality, one step: what one operation does to generator `g` that already exists, and what it
    adds to `g`'s observations, is what `g` alone would experience -/
theorem execOp_local (M : Machine Cfg Tree H W Frag Err) (hp : Heap Cfg Tree H W) (op : Op)
    (g : Nat) (go : GenObj H W) (hg : hp.gens[g]? = some go)
    (cfg : Cfg) (cell : H) (tree : Tree)
    (hpr : hp.printers[go.printer]? = some (cfg, cell)) (htr : hp.trees[go.tree]? = some tree) :
    ∃ st', (execOp (fun _ => Sem.perCall) M hp op).1.gens[g]? = some { go with st := st' } ∧
      ∀ rest : List GOp,
        obsOf g (execOp (fun _ => Sem.perCall) M hp op).2 ++ soloRun M cfg tree st' rest
          = soloRun M cfg tree go.st (opsOn g [op] ++ rest) := by
  have hlt : g < hp.gens.length := by
    rcases Nat.lt_or_ge g hp.gens.length with h | h
    · exact h
    · rw [List.getElem?_eq_none_iff.mpr h] at hg; cases hg
  cases op with
  | start p t =>
    refine ⟨go.st, ?_, ?_⟩
    · simp only [execOp]
      rw [List.getElem?_append_left hlt, hg]
    · intro rest; simp [execOp, opsOn]
  | drop g' =>
    by_cases h : g' = g
    · subst h
      refine ⟨.dead, ?_, ?_⟩
      · simp only [execOp, hg]
        simp [hlt]
      · intro rest
        simp [execOp, hg, opsOn, soloRun]
    · refine ⟨go.st, ?_, ?_⟩
      · simp only [execOp]
        split
        · simpa using hg
        · simp [h, hg]
      · intro rest
        simp only [execOp]
        split <;> simp [opsOn, h]
  | next g' =>
    by_cases h : g' = g
    · subst h
      refine ⟨(nextPerCall M cfg tree go.st).1, ?_, ?_⟩
      · simp only [execOp, hg, hpr, htr]
        simp [hlt]
      · intro rest
        simp only [execOp, hg, hpr, htr]
        simp [opsOn, soloRun, obsOf_single_self]
    · refine ⟨go.st, ?_, ?_⟩
      · simp only [execOp]
        split
        · simpa using hg
        · split
          · simp [h, hg]
          · simpa using hg
      · intro rest
        simp only [execOp]
        split
        · simp [opsOn, h, obsOf_single_ne]
        · split <;> simp [opsOn, h, obsOf_single_ne]

theorem opsOn_cons (g : Nat) (op : Op) (ops : List Op) :
    opsOn g (op :: ops) = opsOn g [op] ++ opsOn g ops := by
  cases op with
  | start p t => simp [opsOn]
  | next g' => by_cases h : g' = g <;> simp [opsOn, h]
  | drop g' => by_cases h : g' = g <;> simp [opsOn, h]

/-- locality for generators that exist when the history starts -/
theorem exec_local (M : Machine Cfg Tree H W Frag Err) (ops : List Op) :
    ∀ (hp : Heap Cfg Tree H W) (g : Nat) (go : GenObj H W), hp.gens[g]? = some go →
    ∀ (cfg : Cfg) (cell : H) (tree : Tree),
      hp.printers[go.printer]? = some (cfg, cell) → hp.trees[go.tree]? = some tree →
      obsOf g (exec (fun _ => Sem.perCall) M hp ops).2 = soloRun M cfg tree go.st (opsOn g ops) := by
  induction ops with
  | nil => intro hp g go _ cfg cell tree _ _; simp [exec, opsOn, soloRun]
  | cons op ops ih =>
    intro hp g go hg cfg cell tree hpr htr
    obtain ⟨st', hg', hobs⟩ := execOp_local M hp op g go hg cfg cell tree hpr htr
    have hf := execOp_frame M hp op
    have := ih (execOp (fun _ => Sem.perCall) M hp op).1 g { go with st := st' } hg' cfg cell tree
      (by rw [hf.1]; exact hpr) (by rw [hf.2]; exact htr)
    simp only [exec, obsOf_append, this]
    rw [opsOn_cons]
    exact hobs _

/-- a generator created by a history gets an index beyond the generators that exist already -/
theorem startedBy_ge (ops : List Op) : ∀ (n g : Nat) (pt : Nat × Nat), startedBy n g ops = some pt → n ≤ g := by
  induction ops with
  | nil => intro n g pt h; simp [startedBy] at h
  | cons op ops ih =>
    intro n g pt h
    cases op with
    | start p t =>
      simp only [startedBy] at h
      by_cases hn : n = g
      · omega
      · simp only [hn, if_false] at h
        have := ih _ _ _ h
        omega
    | next g' => exact ih _ _ _ (by simpa [startedBy] using h)
    | drop g' => exact ih _ _ _ (by simpa [startedBy] using h)

/-- locality for generators the history creates (well-formed histories: no operation names a
    generator before its creation) -/
theorem exec_created (M : Machine Cfg Tree H W Frag Err) (ops : List Op) :
    ∀ (hp : Heap Cfg Tree H W) (g p t : Nat), wellFormed hp.gens.length ops = true →
      startedBy hp.gens.length g ops = some (p, t) →
    ∀ (cfg : Cfg) (cell : H) (tree : Tree),
      hp.printers[p]? = some (cfg, cell) → hp.trees[t]? = some tree →
      obsOf g (exec (fun _ => Sem.perCall) M hp ops).2
        = soloRun M cfg tree .fresh (opsOn g (opsAfterStart hp.gens.length g ops)) := by
  induction ops with
  | nil => intro hp g p t _ hs; simp [startedBy] at hs
  | cons op ops ih =>
    intro hp g p t hwf hs cfg cell tree hpr htr
    have hf := execOp_frame M hp op
    have hlen := execOp_gens_length (fun _ => Sem.perCall) M hp op
    cases op with
    | start p' t' =>
      simp only [startedBy] at hs
      by_cases hn : hp.gens.length = g
      · simp only [hn, if_true] at hs
        cases hs
        -- the generator now exists on the heap, in state `fresh`
        have hg' : (execOp (fun _ => Sem.perCall) M hp (.start p t)).1.gens[g]? = some ⟨p, t, .fresh⟩ := by
          simp [execOp, ← hn]
        have := exec_local M ops (execOp (fun _ => Sem.perCall) M hp (.start p t)).1 g ⟨p, t, .fresh⟩ hg' cfg cell tree
          (by rw [hf.1]; exact hpr) (by rw [hf.2]; exact htr)
        simp only [exec, obsOf_append, this, opsAfterStart, hn, if_true]
        simp [execOp]
      · simp only [hn, if_false] at hs
        simp only [wellFormed] at hwf
        simp only at hlen
        have := ih (execOp (fun _ => Sem.perCall) M hp (.start p' t')).1 g p t (by rw [hlen]; exact hwf)
          (by rw [hlen]; exact hs) cfg cell tree (by rw [hf.1]; exact hpr) (by rw [hf.2]; exact htr)
        simp only [exec, obsOf_append, this, opsAfterStart, hn, if_false, hlen]
        simp [execOp]
    | next g' =>
      simp only [startedBy] at hs
      simp only [wellFormed, Bool.and_eq_true, decide_eq_true_eq] at hwf
      simp only at hlen
      have hge : hp.gens.length ≤ g := by
        exact startedBy_ge _ _ _ _ hs
      have hne : g' ≠ g := by omega
      have := ih (execOp (fun _ => Sem.perCall) M hp (.next g')).1 g p t (by rw [hlen]; exact hwf.2)
        (by rw [hlen]; exact hs) cfg cell tree (by rw [hf.1]; exact hpr) (by rw [hf.2]; exact htr)
      simp only [exec, obsOf_append, this, opsAfterStart, hlen]
      have : obsOf g (execOp (fun _ => Sem.perCall) M hp (.next g')).2 = [] := by
        simp only [execOp]
        split
        · exact obsOf_single_ne _ hne
        · split <;> exact obsOf_single_ne _ hne
      simp [this]
    | drop g' =>
      simp only [startedBy] at hs
      simp only [wellFormed, Bool.and_eq_true, decide_eq_true_eq] at hwf
      simp only at hlen
      have := ih (execOp (fun _ => Sem.perCall) M hp (.drop g')).1 g p t (by rw [hlen]; exact hwf.2)
        (by rw [hlen]; exact hs) cfg cell tree (by rw [hf.1]; exact hpr) (by rw [hf.2]; exact htr)
      simp only [exec, obsOf_append, this, opsAfterStart, hlen]
      have : obsOf g (execOp (fun _ => Sem.perCall) M hp (.drop g')).2 = [] := by
        simp only [execOp]
        split <;> rfl
      simp [this]

end CalmVerif.Proofs.Api
