/-
More fuel never changes a successful walk: `walkNode cfg fuel … = .ok r → walkNode cfg (fuel + k) … = .ok r`.
(Used to compare two prints that were run with different `fuelFor` values.)
-/
import CalmVerif.Proofs.RoundTripMain
namespace CalmVerif.Unparse
open CalmVerif

variable {σ : Type}

def LeFn (wn wn' : WalkFn σ) : Prop := ∀ p sr n d s r, wn p sr n d s = .ok r → wn' p sr n d s = .ok r

theorem seqM_mono {α : Type} (f f' : α → σ → Except Err (List Chunk × σ))
    (hf : ∀ x s r, f x s = .ok r → f' x s = .ok r) :
    ∀ (xs : List α) (s : σ) (r : List Chunk × σ), seqM f xs s = .ok r → seqM f' xs s = .ok r := by
  intro xs
  induction xs with
  | nil => intro s r h; exact h
  | cons x xs ih =>
    intro s r h
    obtain ⟨cs, s'⟩ := r
    rw [seqM_cons_ok] at h ⊢
    obtain ⟨c1, s1, c2, h1, h2, h3⟩ := h
    exact ⟨c1, s1, c2, hf x s _ h1, ih s1 _ h2, h3⟩

variable {cfg : Cfg σ}

theorem walkValue_mono {wn wn' : WalkFn σ} (hle : LeFn wn wn') (path : Path) (src : Src) (cur : Val)
    (pos : Option Int) (st : Step) (v : Val) (s : σ) (r : List Chunk × σ)
    (h : walkValue cfg wn path src cur pos st v s = .ok r) : walkValue cfg wn' path src cur pos st v s = .ok r := by
  cases v with
  | node k as => simp only [walkValue] at h ⊢; exact hle _ _ _ _ _ _ h
  | none => exact h
  | bool b => exact h
  | int i => exact h
  | str t => exact h
  | list xs => exact h

theorem runAct_mono {wn wn' : WalkFn σ} (hle : LeFn wn wn') (path : Path) (src : Src) (cur : Val)
    (pos : Option Int) (sep : List Rule) (a : JAct) (s : σ) (r : List Chunk × σ)
    (h : runAct cfg wn path src cur pos sep a s = .ok r) : runAct cfg wn' path src cur pos sep a s = .ok r := by
  cases a with
  | item st v => exact walkValue_mono hle path src cur pos st v s r h
  | sep => exact hle _ _ _ _ _ _ h
  | esep => exact hle _ _ _ _ _ _ h

theorem ruleStep_mono {wn wn' : WalkFn σ} (hle : LeFn wn wn') (path : Path) (src : Src) (node : Val) (rule : Rule)
    (s : σ) (r : List Chunk × σ) (h : ruleStep cfg wn path src node rule s = .ok r) :
    ruleStep cfg wn' path src node rule s = .ok r := by
  cases rule with
  | layout m => exact h
  | struct m => exact h
  | text v pos => exact h
  | elisionToken a v pos => exact h
  | attr a pos =>
    simp only [ruleStep] at h ⊢
    cases hg : getSrc cfg path node a s with
    | error x => rw [hg] at h; cases h
    | ok q =>
      rw [hg] at h
      simp only at h ⊢
      split at h
      · rename_i hem; rw [if_pos hem]; exact h
      · rename_i hem; rw [if_neg hem]; exact walkValue_mono hle _ _ _ _ _ _ _ _ h
  | commentsAttr a pos =>
    simp only [ruleStep] at h ⊢
    cases hg : getSrc cfg path node a s with
    | error x => rw [hg] at h; cases h
    | ok q =>
      rw [hg] at h
      simp only at h ⊢
      split at h
      · rename_i hem; rw [if_pos hem]; exact h
      · rename_i hem; rw [if_neg hem]; exact walkValue_mono hle _ _ _ _ _ _ _ _ h
  | operator a v pos =>
    simp only [ruleStep] at h ⊢
    split at h
    · cases h
    · rename_i w hw
      split at h
      · rename_i hem; rw [if_pos hem]; exact h
      · rename_i hem; rw [if_neg hem]; exact walkValue_mono hle _ _ _ _ _ _ _ _ h
  | optional a body =>
    simp only [ruleStep] at h ⊢
    cases hg : getattrVal node a with
    | error x => rw [hg] at h; cases h
    | ok w =>
      rw [hg] at h
      simp only at h ⊢
      split at h
      · rename_i hem; rw [if_pos hem]; exact h
      · rename_i hem; rw [if_neg hem]; exact hle _ _ _ _ _ _ h
  | joinAttr a sep pos =>
    simp only [ruleStep] at h ⊢
    cases hg : getIter cfg path node a s with
    | error x => rw [hg] at h; cases h
    | ok q =>
      rw [hg] at h
      simp only at h ⊢
      exact seqM_mono _ _ (fun x s r hh => runAct_mono hle _ _ _ _ _ x s r hh) _ _ _ h
  | elisionJoinAttr a sep pos =>
    simp only [ruleStep] at h ⊢
    cases hg : getIter cfg path node a s with
    | error x => rw [hg] at h; cases h
    | ok q =>
      rw [hg] at h
      simp only at h ⊢
      exact seqM_mono _ _ (fun x s r hh => runAct_mono hle _ _ _ _ _ x s r hh) _ _ _ h

theorem nodeStep_mono {wr wr' : Path → Src → Val → Rule → σ → Except Err (List Chunk × σ)}
    (hle : ∀ p sr n ru s r, wr p sr n ru s = .ok r → wr' p sr n ru s = .ok r)
    (path : Path) (src : Src) (node : Val) (defn : Option (List Rule)) (s : σ) (r : List Chunk × σ)
    (h : nodeStep cfg wr path src node defn s = .ok r) : nodeStep cfg wr' path src node defn s = .ok r := by
  cases node with
  | node kind as =>
    cases defn with
    | some d =>
      simp only [nodeStep] at h ⊢
      exact seqM_mono _ _ (fun x s r hh => hle _ _ _ x s r hh) _ _ _ h
    | none =>
      simp only [nodeStep] at h ⊢
      cases hl : lookupDef cfg.defs kind with
      | none => rw [hl] at h; cases h
      | some rules =>
        rw [hl] at h
        simp only at h ⊢
        exact seqM_mono _ _ (fun x s r hh => hle _ _ _ x s r hh) _ _ _ h
  | none => exact h
  | bool b => exact h
  | int i => exact h
  | str t => exact h
  | list xs => exact h

theorem walk_mono_succ (cfg : Cfg σ) : ∀ (fuel : Nat),
    LeFn (walkNode cfg fuel) (walkNode cfg (fuel + 1)) ∧
    (∀ p sr n ru s r, walkRule cfg fuel p sr n ru s = .ok r → walkRule cfg (fuel + 1) p sr n ru s = .ok r) := by
  intro fuel
  induction fuel with
  | zero =>
    constructor
    · intro p sr n d s r h; simp [walkNode] at h
    · intro p sr n ru s r h; simp [walkRule] at h
  | succ fuel ih =>
    constructor
    · intro p sr n d s r h
      simp only [walkNode] at h ⊢
      exact nodeStep_mono ih.2 _ _ _ _ _ _ h
    · intro p sr n ru s r h
      simp only [walkRule] at h ⊢
      exact ruleStep_mono ih.1 _ _ _ _ _ _ h

theorem walkNode_mono (cfg : Cfg σ) (fuel k : Nat) : LeFn (walkNode cfg fuel) (walkNode cfg (fuel + k)) := by
  induction k with
  | zero => intro p sr n d s r h; exact h
  | succ k ih =>
    intro p sr n d s r h
    exact (walk_mono_succ cfg (fuel + k)).1 _ _ _ _ _ _ (ih _ _ _ _ _ _ h)

theorem unparseAt_mono (cfg : Cfg σ) (fuel fuel' : Nat) (hle : fuel ≤ fuel') (tree : Val) (s : σ) (fs : List Frag)
    (h : unparseAt cfg fuel tree s = .ok fs) : unparseAt cfg fuel' tree s = .ok fs := by
  obtain ⟨k, rfl⟩ := Nat.exists_eq_add_of_le hle
  simp only [unparseAt] at h ⊢
  cases hw : walkNode cfg fuel [] .notImpl tree Option.none s with
  | error e => rw [hw] at h; cases h
  | ok r =>
    rw [hw] at h
    rw [walkNode_mono cfg fuel k _ _ _ _ _ _ hw]
    exact h

/-- two trees with the same structure print the same text whenever both print (each with its own fuel) -/
theorem unparse_sameStructure {cfg : Cfg σ} (hc : NoHooks cfg) (ht : PlainTok cfg) (t t' : Val) (s : σ)
    (fs fs' : List Frag) (hs : SameStructure t t')
    (h : unparse cfg t s = .ok fs) (h' : unparse cfg t' s = .ok fs') : textOf fs' = textOf fs := by
  rw [unparse_eq_unparseAt] at h h'
  have m := Nat.le_max_left (fuelFor cfg t) (fuelFor cfg t')
  have m' := Nat.le_max_right (fuelFor cfg t) (fuelFor cfg t')
  exact unparseAt_sameStructure hc ht _ t t' s fs fs' hs (unparseAt_mono cfg _ _ m t s fs h)
    (unparseAt_mono cfg _ _ m' t' s fs' h')

end CalmVerif.Unparse
