/-
Soundness of the abstract analysis, part 2: attribute sources, and the walk itself (induction on the fuel).
Result `walk_typed`: the chunk stream of a well-formed node of kind `k`, abstracted by `syms`, is a string of the
certificate of `k` over the follow relation `F`, provided the closure check `closed cx F defs` holds.
-/
import CalmVerif.Proofs.RoundTripTyped
namespace CalmVerif.TokenAdj
open CalmVerif CalmVerif.Unparse

variable {σ : Type}

theorem syms_append (hd : HData) (a b : List Chunk) : syms hd (a ++ b) = syms hd a ++ syms hd b := by simp [syms]

section
variable {cfg : Cfg σ} {cx : Ctx} (hc : TypedCfg cfg cx)
include hc

theorem srcRes_declare (k a : String) : srcRes cx k (.declare a) = srcRes cx k (.name a) := by simp [srcRes]
omit hc in
theorem srcRes_value (cx : Ctx) (k : String) : srcRes cx k (.name "value") = slotRes cx (cx.slot k "value") := by
  simp only [srcRes]; rfl

theorem getSrc_typed (path : Path) (k : String) (as : List (String × Val)) (hw : wfVal cx (.node k as) = true)
    (src : AttrSrc) (s : σ) (v : Val) (s1 : σ) (h : getSrc cfg path (.node k as) src s = .ok (v, s1))
    (hb : (srcRes cx k src).bad = false) : ValIn cx (srcRes cx k src).abs v := by
  cases src with
  | name a =>
    simp only [getSrc] at h
    obtain ⟨w, h1, h2⟩ := except_map_ok h
    simp only [Prod.mk.injEq] at h2
    rw [← h2.1]
    exact (getattr_typed hc k as hw a w h1 hb).1
  | iter => simp [getSrc] at h
  | declare a =>
    rw [srcRes_declare hc] at hb ⊢
    simp only [getSrc] at h
    cases hg : getattrVal (.node k as) a with
    | error x => rw [hg] at h; cases h
    | ok target =>
      rw [hg] at h
      simp only at h
      have hv := (getattr_typed hc k as hw a target hg hb).1
      split at h
      · simp only [Except.ok.injEq, Prod.mk.injEq] at h; rw [← h.1]; exact hv
      · rw [runDeclare_noHooks hc.hooks] at h
        simp only [Except.map, Except.ok.injEq, Prod.mk.injEq] at h
        rw [← h.1]; exact hv
  | resolve =>
    simp only [getSrc, hc.hooks.resolve] at h
    split at h
    · cases h
    · obtain ⟨w, h1, h2⟩ := except_map_ok h
      simp only [Prod.mk.injEq] at h2
      rw [← h2.1]
      have e : srcRes cx k .resolve = srcRes cx k (.name "value") := by rw [srcRes_value]; rfl
      rw [e] at hb ⊢
      exact (getattr_typed hc k as hw "value" w h1 hb).1
  | literal =>
    simp only [srcRes] at hb ⊢
    split at hb
    · rename_i hslot
      simp only [getSrc] at h
      have hbv : (srcRes cx k (.name "value")).bad = false := by rw [srcRes_value, hslot]; rfl
      have habs : (srcRes cx k (.name "value")).abs = Abs.ofSyms [.t .str] := by rw [srcRes_value, hslot]; rfl
      rcases hc.lit with hl | ⟨hl, hstable⟩
      · rw [hl] at h
        obtain ⟨w, h1, h2⟩ := except_map_ok h
        simp only [Prod.mk.injEq] at h2
        rw [← h2.1]
        have := (getattr_typed hc k as hw "value" w h1 hbv).1
        rw [habs] at this
        exact this
      · rw [hl] at h
        obtain ⟨w, h1, h2⟩ := except_map_ok h
        simp only [Prod.mk.injEq] at h2
        rw [← h2.1]
        simp only [valueHandler] at h1
        cases hn : nodeAttr (.node k as) "value" with
        | none => rw [hn] at h1; cases h1
        | some u =>
          rw [hn] at h1
          cases u with
          | str t =>
            simp only [Except.ok.injEq] at h1
            rw [← h1]
            simp only [wfVal] at hw
            simp only [nodeAttr] at hn
            obtain ⟨h3, _⟩ := wfAttrs_lookup hw (by decide) hn
            have hk : slotKey "value" = "value" := by decide
            rw [hk, hslot] at h3
            have hs : sig t = .str := by simpa [slotOK] using h3
            have := hstable t hs
            exact .tok _ (by rw [this]; exact (SymSet.mem_ofList _ _).mpr (by simp))
              (by rw [this]; exact (SymSet.mem_ofList _ _).mpr (by simp))
          | none => simp at h1
          | bool b => simp at h1
          | int i => simp at h1
          | list xs => simp at h1
          | node k2 as2 => simp at h1
    · simp [Res.fail] at hb
  | lineComment =>
    simp only [srcRes] at hb ⊢
    simp only [getSrc] at h
    rcases hc.lc with hl | hl
    · rw [hl] at h
      simp only [Except.ok.injEq, Prod.mk.injEq] at h
      rw [← h.1]; exact .none rfl
    · rw [hl] at h
      obtain ⟨w, h1, h2⟩ := except_map_ok h
      simp only [Prod.mk.injEq] at h2
      rw [← h2.1]
      simp only [valueHandler] at h1
      cases hn : nodeAttr (.node k as) "value" with
      | none => rw [hn] at h1; cases h1
      | some u =>
        rw [hn] at h1
        simp only [Except.ok.injEq] at h1
        subst h1
        simp only [wfVal] at hw
        simp only [nodeAttr] at hn
        obtain ⟨h3, h4⟩ := wfAttrs_lookup hw (by decide) hn
        have hk : slotKey "value" = "value" := by decide
        rw [hk] at h3
        exact (slotVal cx _ _ h3 h4 hb).le (AbsLe.opt _)
  | blockComment =>
    simp only [srcRes] at hb ⊢
    simp only [getSrc] at h
    rcases hc.bc with hl | hl
    · rw [hl] at h
      simp only [Except.ok.injEq, Prod.mk.injEq] at h
      rw [← h.1]; exact .none rfl
    · rw [hl] at h
      obtain ⟨w, h1, h2⟩ := except_map_ok h
      simp only [Prod.mk.injEq] at h2
      rw [← h2.1]
      simp only [valueHandler] at h1
      cases hn : nodeAttr (.node k as) "value" with
      | none => rw [hn] at h1; cases h1
      | some u =>
        rw [hn] at h1
        simp only [Except.ok.injEq] at h1
        subst h1
        simp only [wfVal] at hw
        simp only [nodeAttr] at hn
        obtain ⟨h3, h4⟩ := wfAttrs_lookup hw (by decide) hn
        have hk : slotKey "value" = "value" := by decide
        rw [hk] at h3
        exact (slotVal cx _ _ h3 h4 hb).le (AbsLe.opt _)

/-- the default token handler yields exactly one fragment carrying the text -/
theorem emitToken_syms (pos : Option Int) (cur : Val) (src : Src) (t : String) (cs : List Chunk)
    (h : emitToken cfg pos cur src (.str t) = .ok cs) : syms cfg.hd cs = [.t (sig t)] := by
  simp only [emitToken] at h
  obtain ⟨fs, h1, h2⟩ := except_map_ok h
  subst h2
  rcases tokenHandler_out _ _ _ _ _ _ _ h1 with ⟨_, hn⟩ | ⟨f, hf, ht⟩
  · rw [hc.tok] at hn; cases hn
  · subst hf
    simp [syms, symOf, ht]

end

/-! ### the walk -/

section
variable {cfg : Cfg σ} {cx : Ctx} (hc : TypedCfg cfg cx) (F : Follow)

/-- what the induction establishes for the recursive callback (`Ann`: for an annotation of the chunk stream with the
occurrence of every layout chunk) -/
def NodeOK (cfg : Cfg σ) (cx : Ctx) (F : Follow) (wn : WalkFn σ) : Prop :=
  ∀ path src k as defn s cs s', wfVal cx (.node k as) = true → wn path src (.node k as) defn s = .ok (cs, s') →
    match defn with
    | Option.none => ∃ a, certOf cx k = some a ∧ Ann cfg.hd F a cs
    | some d => ∀ p, (absRules cx k p d).bad = false → (∀ q ∈ (absRules cx k p d).need, q ∈ F) →
        Ann cfg.hd F (absRules cx k p d).abs cs

include hc

theorem walkValue_typed {wn : WalkFn σ} (hwn : NodeOK cfg cx F wn) (path : Path) (src : Src) (cur : Val)
    (pos : Option Int) (st : Step) (v : Val) (s : σ) (cs : List Chunk) (s' : σ) {A : Abs} (hv : ValIn cx A v)
    (h : walkValue cfg wn path src cur pos st v s = .ok (cs, s')) (hne : isEmptyVal v = false) :
    Ann cfg.hd F A cs := by
  cases hv with
  | none hn => simp [isEmptyVal] at hne
  | tok t h1 h2 =>
    simp only [walkValue] at h
    obtain ⟨c, g1, g2⟩ := except_map_ok h
    simp only [Prod.mk.injEq] at g2
    rw [← g2.1]
    exact ann_sym cfg.hd F (Sym.t (sig t)) (by rw [emitToken_syms hc pos cur src t c g1, erase_t]) h1 h2
  | node k as a' hw hcert hle =>
    simp only [walkValue] at h
    obtain ⟨a, g1, g2⟩ := hwn _ _ k as Option.none _ _ _ hw h
    rw [hcert] at g1
    cases g1
    exact ann_le g2 hle

/-- the empty or non-empty value of an attribute rule -/
theorem attrValue_typed {wn : WalkFn σ} (hwn : NodeOK cfg cx F wn) (path : Path) (src : Src) (cur : Val)
    (pos : Option Int) (st : Step) (v : Val) (s : σ) (cs : List Chunk) (s' : σ) {A : Abs} (hv : ValIn cx A v)
    (h : (if isEmptyVal v then (.ok ([], s) : Except Err (List Chunk × σ))
          else walkValue cfg wn path src cur pos st v s) = .ok (cs, s')) :
    Ann cfg.hd F A cs := by
  split at h
  · rename_i hem
    simp only [Except.ok.injEq, Prod.mk.injEq] at h
    rw [← h.1]
    cases hv with
    | none hn => exact ann_nil cfg.hd F hn
    | tok t _ _ => simp [isEmptyVal] at hem
    | node k as _ _ _ _ => simp [isEmptyVal] at hem
  · rename_i hem
    exact walkValue_typed hc F hwn path src cur pos st v s cs s' hv h (by simpa using hem)

omit hc in
theorem absRules_cons (cx : Ctx) (k : String) (p : Nat) (r : Rule) (rs : List Rule) :
    absRules cx k p (r :: rs) = ⟨(absRule cx k p r).abs.seq (absRules cx k (p + 1) rs).abs,
      (absRule cx k p r).need ++ cross (absRule cx k p r).abs (absRules cx k (p + 1) rs).abs ++ (absRules cx k (p + 1) rs).need,
      (absRule cx k p r).bad || (absRules cx k (p + 1) rs).bad⟩ := by
  simp only [absRules]

omit hc in
theorem rules_typed (k : String) (f : Rule → σ → Except Err (List Chunk × σ))
    (hf : ∀ p r s cs s', f r s = .ok (cs, s') → (absRule cx k p r).bad = false → (∀ q ∈ (absRule cx k p r).need, q ∈ F) →
      Ann cfg.hd F (absRule cx k p r).abs cs) :
    ∀ (rs : List Rule) (p : Nat) (s : σ) (cs : List Chunk) (s' : σ), seqM f rs s = .ok (cs, s') →
      (absRules cx k p rs).bad = false → (∀ q ∈ (absRules cx k p rs).need, q ∈ F) →
      Ann cfg.hd F (absRules cx k p rs).abs cs := by
  intro rs
  induction rs with
  | nil =>
    intro p s cs s' h _ _
    rw [seqM_nil_ok] at h
    rw [h.1]
    simp only [absRules, Res.ok]
    exact ann_nil cfg.hd F rfl
  | cons r rs ih =>
    intro p s cs s' h hb hn
    rw [seqM_cons_ok] at h
    obtain ⟨c1, s1, c2, h1, h2, rfl⟩ := h
    rw [absRules_cons] at hb hn ⊢
    simp only [Bool.or_eq_false_iff] at hb
    simp only [List.mem_append] at hn
    exact ann_append (hf p r s c1 s1 h1 hb.1 (fun q hq => hn q (Or.inl (Or.inl hq))))
      (ih (p + 1) s1 c2 s' h2 hb.2 (fun q hq => hn q (Or.inr hq))) (fun q hq => hn q (Or.inl (Or.inr hq)))

end
end CalmVerif.TokenAdj
