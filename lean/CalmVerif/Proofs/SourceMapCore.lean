/-
C09 helper lemmas, part 6: the entry of an arbitrary non-empty fragment in the decoded raw
(un-normalised) mappings.
-/
import CalmVerif.Proofs.SourceMapPos

namespace CalmVerif.Proofs.SourceMap
open CalmVerif.Model.SourceMap
open CalmVerif.Spec.SourceMapV3

theorem writeLoop_append (cc : CharClasses) (st : WState) (xs ys : List Frag) :
    writeLoop cc st (xs ++ ys) = writeLoop cc (writeLoop cc st xs) ys := by
  simp [writeLoop, List.foldl_append]

theorem writeLoop_cons (cc : CharClasses) (st : WState) (f : Frag) (ys : List Frag) :
    writeLoop cc st (f :: ys) = writeLoop cc (writeFrag cc st f) ys := rfl

/-- the raw mappings of a state decode to `D ++ [es]` -/
theorem WInv.decode_raw {st D es} (h : WInv st D es) : decode (st.done ++ [st.cur]) = some (D ++ [es]) := by
  obtain ⟨t1, h1, h2⟩ := h.dec
  simp [decode, decodeLines_snoc _ _ _ h1 h2]

theorem WInv.sorted_line {st D es} (h : WInv st D es) (L : Nat) : Sorted ((D ++ [es]).getD L []) := by
  rw [getD_snoc]
  split
  · rename_i hL
    rw [List.getD_eq_getElem?_getD, List.getElem?_eq_getElem hL]
    exact h.D_sorted _ (List.getElem_mem hL)
  · split
    · exact h.es_sorted
    · exact sorted_nil

theorem exactAt_of_sorted (l : List Entry) (hs : Sorted l) (e : Entry) (he : e ∈ l) :
    exactAt l e.genCol = some e := by
  induction l with
  | nil => simp at he
  | cons x xs ih =>
    simp only [Sorted, List.map_cons, List.pairwise_cons, List.mem_map, forall_exists_index, and_imp,
      forall_apply_eq_imp_iff₂] at hs
    simp only [exactAt, List.find?_cons]
    simp only [List.mem_cons] at he
    rcases he with rfl | he
    · simp
    · have hlt := hs.1 e he
      have : (x.genCol == e.genCol) = false := by
        simp only [beq_eq_false_iff_ne, ne_eq]; omega
      rw [this]
      exact ih hs.2 he

/-- Core statement for the un-normalised map.  `p` is the LF/CR/CRLF position of the end of
the text of `pre`, i.e. where the first character of `f` is written. -/
theorem core_raw (cc : CharClasses) (hcc : ClassesOK cc) (pre : List Frag) (f : Frag) (post : List Frag)
    (hns : noSplitCRLF false ((pre ++ f :: post).map (·.text)) = true) (hne : f.text ≠ []) :
    ∃ D es, WInv (writeLoop cc WState.init (pre ++ f :: post)) D es ∧
      entryOf (writeLoop cc WState.init pre)
          (emitSeg (writeLoop cc WState.init pre) f.lineno f.colno f.name f.source)
          f.lineno f.colno f.name ∈ (D ++ [es]).getD (endPos (pre.map (·.text)).flatten).1 [] ∧
      (writeLoop cc WState.init pre).book.sink.curr = ((endPos (pre.map (·.text)).flatten).2 : Int) ∧
      (emitSeg (writeLoop cc WState.init pre) f.lineno f.colno f.name f.source).sources.keys <+:
        (writeLoop cc WState.init (pre ++ f :: post)).sources.keys ∧
      (emitSeg (writeLoop cc WState.init pre) f.lineno f.colno f.name f.source).names.keys <+:
        (writeLoop cc WState.init (pre ++ f :: post)).names.keys ∧
      ∃ D0 es0, WInv (writeLoop cc WState.init pre) D0 es0 := by
  obtain ⟨D0, es0, hw0, _⟩ := writeLoop_ext cc pre WState.init [] [] WInv.init
  have hpos : HasPos (writeLoop cc WState.init pre) (endPos ([] ++ (pre.map (·.text)).flatten)) := by
    apply writeLoop_pos cc hcc pre WState.init [] hasPos_init
    have : (pre ++ f :: post).map (·.text) = pre.map (·.text) ++ (f :: post).map (·.text) := by simp
    rw [this] at hns
    exact noSplitCRLF_append _ _ _ hns
  simp only [List.nil_append] at hpos
  obtain ⟨D1, es1, hw1, hx1, hmem⟩ := writeFrag_first cc _ D0 es0 hw0 f hne
  obtain ⟨D2, es2, hw2, hx2⟩ := writeLoop_ext cc post _ D1 es1 hw1
  rw [writeLoop_append, writeLoop_cons]
  refine ⟨D2, es2, hw2, ?_, hpos.2, hx1.src.trans hx2.src, hx1.nam.trans hx2.nam, D0, es0, hw0⟩
  rw [← hpos.1]
  exact hx2.mono _ _ hmem

end CalmVerif.Proofs.SourceMap
