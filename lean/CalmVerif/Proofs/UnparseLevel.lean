/-
The Indentator level after the whole walk:
  * `out_net`: with `defsNetOK`, every chunk stream of the walk has as many Indent as Dedent chunks;
  * `flushAll_level`: the final level of `flushAll` is the start level plus the net indentation of the
    chunk stream, provided every tuple normalisation of the table is level-neutral (`tableNetOK`).
-/
import CalmVerif.Proofs.UnparseOut
namespace CalmVerif.Unparse
open CalmVerif

variable {σ : Type}

def shapeNet (tbl : List (LKey × Option HandlerId)) : Shape → Int
  | .rules rs => rulesNet tbl rs
  | .rule r => ruleNet tbl r
  | _ => 0

def shapeNested0 (tbl : List (LKey × Option HandlerId)) : Shape → Prop
  | .rules rs => rulesNested0 tbl rs = true
  | .rule r => ruleNested0 tbl r = true
  | .acts sep _ => rulesNet tbl sep = 0 ∧ rulesNested0 tbl sep = true
  | _ => True

theorem out_net {tbl : List (LKey × Option HandlerId)} {defs : Defs} {ek : List String}
    {p pc k : String → Bool} {dt : Bool}
    (hdefs : defsNetOK tbl defs = true) {sh : Shape} {cs : List Chunk}
    (h : Out tbl defs ek p pc k dt sh cs) : shapeNested0 tbl sh → netChunks cs = shapeNet tbl sh := by
  induction h with
  | tokNone t _ => intro _; rfl
  | tokOne t f _ _ => intro _; simp [netChunks, chunkDelta, shapeNet]
  | ctokNone t _ => intro _; rfl
  | ctokOne t f _ _ => intro _; simp [netChunks, chunkDelta, shapeNet]
  | valueTok t cs _ ih => intro _; simpa [shapeNet] using ih trivial
  | valueNode cs _ ih => intro _; simpa [shapeNet] using ih trivial
  | node kind d cs _ hl _ ih =>
    intro _
    have := lookupDef_netOK hdefs hl
    have e := ih this.2
    simp only [shapeNet] at e ⊢
    omega
  | rulesNil => intro _; rfl
  | rulesCons r rs c1 c2 _ _ ih1 ih2 =>
    intro hn
    simp only [shapeNested0, rulesNested0, Bool.and_eq_true] at hn
    have e1 := ih1 hn.1
    have e2 := ih2 hn.2
    simp only [shapeNet, rulesNet, netChunks_append] at e1 e2 ⊢
    omega
  | layoutSome m h nd hl => intro _; simp [netChunks, chunkDelta, shapeNet, ruleNet, hl]
  | layoutNone m hl => intro _; simp [netChunks, shapeNet, ruleNet, hl]
  | struct m => intro _; rfl
  | text v pos cs _ ih => intro _; simpa [shapeNet, ruleNet] using ih trivial
  | attrEmpty a pos => intro _; rfl
  | attrValue a pos cs _ ih => intro _; simpa [shapeNet, ruleNet] using ih trivial
  | commentsAttrEmpty a pos => intro _; rfl
  | commentsAttrValue a pos cs _ ih => intro _; simpa [shapeNet, ruleNet] using ih trivial
  | operatorEmpty a v pos => intro _; rfl
  | operatorValue a v pos cs _ ih => intro _; simpa [shapeNet, ruleNet] using ih trivial
  | optionalSkip a body => intro _; rfl
  | optionalTake a body cs _ ih =>
    intro hn
    simp only [shapeNested0, ruleNested0, Bool.and_eq_true, beq_iff_eq] at hn
    have e := ih hn.2
    simp only [shapeNet, ruleNet] at e ⊢
    omega
  | joinAttr a sep pos items cs _ ih =>
    intro hn
    simp only [shapeNested0, ruleNested0, Bool.and_eq_true, beq_iff_eq] at hn
    simpa [shapeNet, ruleNet] using ih hn
  | elisionToken a v pos t cs _ ih => intro _; simpa [shapeNet, ruleNet] using ih trivial
  | elisionJoinAttr a sep pos items cs _ ih =>
    intro hn
    simp only [shapeNested0, ruleNested0, Bool.and_eq_true, beq_iff_eq] at hn
    simpa [shapeNet, ruleNet] using ih hn
  | actsNil sep => intro _; rfl
  | actsItem sep st v as c1 c2 _ _ ih1 ih2 =>
    intro hn
    have e1 := ih1 trivial
    have e2 := ih2 hn
    simp only [shapeNet, netChunks_append] at e1 e2 ⊢
    omega
  | actsSep sep as c1 c2 _ _ ih1 ih2 =>
    intro hn
    have e1 := ih1 hn.2
    have e2 := ih2 hn
    simp only [shapeNet, netChunks_append] at e1 e2 ⊢
    have := hn.1
    omega
  | actsEsep sep as c1 c2 _ _ ih1 ih2 =>
    intro hn
    have e1 := ih1 trivial
    have e2 := ih2 hn
    simp only [shapeNet, netChunks_append] at e1 e2 ⊢
    omega

/-- the chunk stream of any tree has net indentation zero -/
theorem walkChunks_net (cfg : Cfg σ) (hdefs : defsNetOK cfg.layout cfg.defs = true)
    (tree : Val) (s : σ) (cs : List Chunk) (s' : σ) (h : walkChunks cfg tree s = .ok (cs, s')) :
    netChunks cs = 0 := by
  have := out_net hdefs (walkChunks_outAny cfg tree s cs s' h) trivial
  simpa [shapeNet] using this

/-! ### phase 2: the level after `flushAll` -/

theorem runHandler_level (hd : HData) (is : Option String) (h : HandlerId) (node : Val)
    (b a p : Option String) (lvl : Int) :
    (runHandler hd is h node b a p lvl).2 = lvl + hDelta h := by
  cases h <;> simp only [runHandler, hDelta] <;> (try (repeat' split)) <;> (try simp) <;> omega

def entriesNet : List LEntry → Int
  | [] => 0
  | e :: es => hDelta e.handler + entriesNet es

theorem entriesNet_append (a b : List LEntry) : entriesNet (a ++ b) = entriesNet a + entriesNet b := by
  induction a with
  | nil => simp [entriesNet]
  | cons c cs ih => simp [entriesNet, ih]; omega

theorem runEntries_level (hd : HData) (is : Option String) (b a : Option String) :
    ∀ (es : List LEntry) (prev : Option String) (lvl : Int),
      (runEntries hd is b a es prev lvl).2 = lvl + entriesNet es := by
  intro es
  induction es with
  | nil => intro prev lvl; simp [runEntries, entriesNet]
  | cons e es ih =>
    intro prev lvl
    simp only [runEntries, entriesNet, ih, runHandler_level]
    omega

/-- level change of the single handler of a marker -/
def singleDelta (tbl : List (LKey × Option HandlerId)) (k : Marker) : Int :=
  match lookupLayout tbl (LKey.single k) with
  | some h => hDelta h
  | none => 0

def tokDelta (tbl : List (LKey × Option HandlerId)) : KTok → Int
  | .m k => singleDelta tbl k
  | _ => 0

/-- sum of the level changes of the markers a (nested) key is made of -/
def keyDelta (tbl : List (LKey × Option HandlerId)) : LKey → Int
  | [] => 0
  | t :: ts => tokDelta tbl t + keyDelta tbl ts

theorem keyDelta_append (tbl : List (LKey × Option HandlerId)) (a b : LKey) :
    keyDelta tbl (a ++ b) = keyDelta tbl a + keyDelta tbl b := by
  induction a with
  | nil => simp [keyDelta]
  | cons c cs ih => simp [keyDelta, ih]; omega

def keysDelta (tbl : List (LKey × Option HandlerId)) : List LKey → Int
  | [] => 0
  | k :: ks => keyDelta tbl k + keysDelta tbl ks

theorem keyDelta_tuple (tbl : List (LKey × Option HandlerId)) (ks : List LKey) :
    keyDelta tbl (LKey.tuple ks) = keysDelta tbl ks := by
  have hf : ∀ ks : List LKey, keyDelta tbl ks.flatten = keysDelta tbl ks := by
    intro ks
    induction ks with
    | nil => simp [keyDelta, keysDelta]
    | cons k ks ih => simp [keyDelta_append, keysDelta, ih]
  simp [LKey.tuple, keyDelta, keyDelta_append, tokDelta, hf]

/-- every handler of the table changes the level by the sum over the markers of its key -/
def tableNetOK (tbl : List (LKey × Option HandlerId)) : Bool :=
  tbl.all (fun p => match p.2 with
    | some h => hDelta h == keyDelta tbl p.1
    | none => true)

theorem lookupLayout_mem {tbl : List (LKey × Option HandlerId)} {key : LKey} {h : HandlerId}
    (hl : lookupLayout tbl key = some h) : (key, some h) ∈ tbl := by
  induction tbl with
  | nil => simp [lookupLayout] at hl
  | cons p rest ih =>
    obtain ⟨k, v⟩ := p
    simp only [lookupLayout] at hl
    split at hl
    · rename_i hk
      have : k = key := by simpa using hk
      subst this; subst hl; simp
    · exact List.mem_cons_of_mem _ (ih hl)

theorem tableNetOK_lookup {tbl : List (LKey × Option HandlerId)} (ht : tableNetOK tbl = true)
    {key : LKey} {h : HandlerId} (hl : lookupLayout tbl key = some h) :
    hDelta h = keyDelta tbl key := by
  have hm := lookupLayout_mem hl
  simp only [tableNetOK, List.all_eq_true] at ht
  have := ht _ hm
  simpa using this

def EntryOK (tbl : List (LKey × Option HandlerId)) (e : LEntry) : Prop :=
  hDelta e.handler = keyDelta tbl e.key

theorem entriesNet_eq_keys {tbl : List (LKey × Option HandlerId)} :
    ∀ (es : List LEntry), (∀ e ∈ es, EntryOK tbl e) → entriesNet es = keysDelta tbl (es.map (·.key)) := by
  intro es
  induction es with
  | nil => intro _; rfl
  | cons e es ih =>
    intro h
    have he : EntryOK tbl e := h e (by simp)
    simp only [entriesNet, List.map_cons, keysDelta, ih (fun x hx => h x (by simp [hx]))]
    unfold EntryOK at he
    omega

theorem findNorm_spec (tbl : List (LKey × Option HandlerId)) :
    ∀ (es : List LEntry) (i idx : Nat) (key : LKey) (h : HandlerId),
      findNorm tbl i es = some (idx, key, h) →
      ∃ j, idx = i + j ∧ j < es.length ∧ key = LKey.tuple ((es.drop j).map (·.key)) ∧
        lookupLayout tbl key = some h := by
  intro es
  induction es with
  | nil => intro i idx key h hf; simp [findNorm] at hf
  | cons e rest ih =>
    intro i idx key h hf
    simp only [findNorm] at hf
    split at hf
    · rename_i h' hl
      simp only [Option.some.injEq, Prod.mk.injEq] at hf
      obtain ⟨rfl, rfl, rfl⟩ := hf
      exact ⟨0, by simp, by simp, by simp, hl⟩
    · obtain ⟨j, hj1, hj2, hj3, hj4⟩ := ih (i + 1) idx key h hf
      exact ⟨j + 1, by omega, by simp; omega, by simpa using hj3, hj4⟩

def LChunkOK (tbl : List (LKey × Option HandlerId)) (c : LChunk) : Prop :=
  lookupLayout tbl (LKey.single c.m) = some c.handler

def bufNet : List LChunk → Int
  | [] => 0
  | c :: cs => hDelta c.handler + bufNet cs

theorem bufNet_append (a b : List LChunk) : bufNet (a ++ b) = bufNet a + bufNet b := by
  induction a with
  | nil => simp [bufNet]
  | cons c cs ih => simp [bufNet, ih]; omega

theorem keyDelta_single (tbl : List (LKey × Option HandlerId)) (c : LChunk) (hc : LChunkOK tbl c) :
    keyDelta tbl (LKey.single c.m) = hDelta c.handler := by
  have hc' : lookupLayout tbl [KTok.m c.m] = some c.handler := hc
  simp [LKey.single, keyDelta, tokDelta, singleDelta, hc']

theorem normalizeAux_net {tbl : List (LKey × Option HandlerId)} (ht : tableNetOK tbl = true)
    (all : List LChunk) :
    ∀ (cs : List LChunk) (stack : List LEntry),
      (∀ c ∈ cs, LChunkOK tbl c) → (∀ e ∈ stack, EntryOK tbl e) →
      (∀ e ∈ normalizeAux tbl all cs stack, EntryOK tbl e) ∧
      entriesNet (normalizeAux tbl all cs stack) = entriesNet stack + bufNet cs := by
  intro cs
  induction cs with
  | nil => intro stack _ hs; exact ⟨by simpa [normalizeAux] using hs, by simp [normalizeAux, bufNet]⟩
  | cons c cs ih =>
    intro stack hc hs
    have hc0 : LChunkOK tbl c := hc c (by simp)
    have hcs : ∀ x ∈ cs, LChunkOK tbl x := fun x hx => hc x (by simp [hx])
    have hraw : EntryOK tbl { key := LKey.single c.m, handler := c.handler, node := c.node } := by
      unfold EntryOK; simp [keyDelta_single tbl c hc0]
    have hs1 : ∀ e ∈ stack ++ [{ key := LKey.single c.m, handler := c.handler, node := c.node }],
        EntryOK tbl e := by
      intro e he
      simp only [List.mem_append, List.mem_singleton] at he
      rcases he with he | rfl
      · exact hs e he
      · exact hraw
    obtain ⟨stack1, hst⟩ : ∃ x, x = stack ++ [{ key := LKey.single c.m, handler := c.handler, node := c.node : LEntry }] :=
      ⟨_, rfl⟩
    have hs1n : entriesNet stack1 = entriesNet stack + hDelta c.handler := by
      rw [hst, entriesNet_append]; simp [entriesNet]
    simp only [normalizeAux]
    rw [← hst] at hs1 ⊢
    split
    · rename_i hf
      obtain ⟨h1, h2⟩ := ih _ hcs hs1
      refine ⟨h1, ?_⟩
      rw [h2]
      simp only [bufNet]; omega
    · rename_i idx key h hf
      obtain ⟨j, hj1, hj2, hj3, hj4⟩ := findNorm_spec tbl _ _ _ _ _ hf
      simp only [Nat.zero_add] at hj1
      subst hj1
      have hnew : hDelta h = entriesNet (stack1.drop idx) := by
        rw [tableNetOK_lookup ht hj4, hj3, keyDelta_tuple]
        rw [entriesNet_eq_keys (tbl := tbl) (stack1.drop idx) (fun e he => hs1 e (List.mem_of_mem_drop he))]
      have hsplit : entriesNet stack1 = entriesNet (stack1.take idx) + entriesNet (stack1.drop idx) := by
        rw [← entriesNet_append, List.take_append_drop]
      have hs2 : ∀ e ∈ stack1.take idx ++ [{ key := key, handler := h, node := (match all[idx]? with
          | some x => x.node
          | none => c.node) : LEntry }], EntryOK tbl e := by
        intro e he
        simp only [List.mem_append, List.mem_singleton] at he
        rcases he with he | rfl
        · exact hs1 e (List.mem_of_mem_take he)
        · unfold EntryOK; simp [tableNetOK_lookup ht hj4]
      obtain ⟨h1, h2⟩ := ih _ hcs hs2
      refine ⟨h1, h2.trans ?_⟩
      rw [entriesNet_append]
      simp only [entriesNet, bufNet]
      omega

theorem normalize_net {tbl : List (LKey × Option HandlerId)} (ht : tableNetOK tbl = true)
    (buf : List LChunk) (hb : ∀ c ∈ buf, LChunkOK tbl c) :
    entriesNet (normalize tbl buf) = bufNet buf := by
  have := (normalizeAux_net ht buf buf [] hb (by simp)).2
  simpa [normalize, entriesNet] using this

theorem processLayouts_level (cfg : Cfg σ) (ht : tableNetOK cfg.layout = true) (buf : List LChunk)
    (hb : ∀ c ∈ buf, LChunkOK cfg.layout c) (b a : Option String) (lvl : Int) :
    (processLayouts cfg buf b a lvl).2 = lvl + bufNet buf := by
  simp [processLayouts, runEntries_level, normalize_net ht buf hb]

/-- every layout chunk carries the table's handler of its marker -/
def ChunkOK (tbl : List (LKey × Option HandlerId)) : Chunk → Prop
  | .layout m h _ => lookupLayout tbl (LKey.single m) = some h
  | .frag _ => True

theorem flushAll_level (cfg : Cfg σ) (ht : tableNetOK cfg.layout = true) :
    ∀ (cs : List Chunk) (last : Option String) (buf : List LChunk) (lvl : Int),
      (∀ c ∈ cs, ChunkOK cfg.layout c) → (∀ c ∈ buf, LChunkOK cfg.layout c) →
      (flushAll cfg cs last buf lvl).2 = lvl + bufNet buf + netChunks cs := by
  intro cs
  induction cs with
  | nil =>
    intro last buf lvl _ hb
    simp [flushAll, processLayouts_level cfg ht buf hb, netChunks]
  | cons c cs ih =>
    intro last buf lvl hc hb
    have hcs : ∀ x ∈ cs, ChunkOK cfg.layout x := fun x hx => hc x (by simp [hx])
    cases c with
    | layout m h n =>
      have hc0 : ChunkOK cfg.layout (.layout m h n) := hc _ (by simp)
      simp only [flushAll]
      rw [ih _ _ _ hcs]
      · simp [bufNet_append, bufNet, netChunks, chunkDelta]; omega
      · intro x hx
        simp only [List.mem_append, List.mem_singleton] at hx
        rcases hx with hx | rfl
        · exact hb x hx
        · exact hc0
    | frag f =>
      simp only [flushAll]
      rw [ih _ _ _ hcs (by simp), processLayouts_level cfg ht buf hb]
      simp [bufNet, netChunks, chunkDelta]

theorem out_chunkOK {tbl : List (LKey × Option HandlerId)} {defs : Defs} {ek : List String}
    {p pc k : String → Bool} {dt : Bool}
    {sh : Shape} {cs : List Chunk} (h : Out tbl defs ek p pc k dt sh cs) : ∀ c ∈ cs, ChunkOK tbl c := by
  induction h with
  | tokNone t _ => simp
  | tokOne t f _ _ => simp [ChunkOK]
  | ctokOne t f _ _ => simp [ChunkOK]
  | layoutSome m h nd hl => simp [ChunkOK, hl]
  | rulesCons r rs c1 c2 _ _ ih1 ih2 =>
    intro c hc; rcases List.mem_append.mp hc with hc | hc
    · exact ih1 c hc
    · exact ih2 c hc
  | actsItem sep st v as c1 c2 _ _ ih1 ih2 =>
    intro c hc; rcases List.mem_append.mp hc with hc | hc
    · exact ih1 c hc
    · exact ih2 c hc
  | actsSep sep as c1 c2 _ _ ih1 ih2 =>
    intro c hc; rcases List.mem_append.mp hc with hc | hc
    · exact ih1 c hc
    · exact ih2 c hc
  | actsEsep sep as c1 c2 _ _ ih1 ih2 =>
    intro c hc; rcases List.mem_append.mp hc with hc | hc
    · exact ih1 c hc
    · exact ih2 c hc
  | _ => first | assumption | simp

/-- the Indentator level is back at its start value after printing any tree -/
theorem unparseWith_level (cfg : Cfg σ) (hdefs : defsNetOK cfg.layout cfg.defs = true)
    (ht : tableNetOK cfg.layout = true) (tree : Val) (s : σ) (fs : List Frag) (lvl : Int)
    (h : unparseWith cfg tree s = .ok (fs, lvl)) : lvl = 0 := by
  unfold unparseWith at h
  split at h
  · cases h
  · rename_i chunks s' hw
    simp only [Except.ok.injEq] at h
    have hout := walkChunks_outAny cfg tree s chunks s' hw
    have hl := flushAll_level cfg ht chunks none [] 0 (out_chunkOK hout) (by simp)
    have hn := walkChunks_net cfg hdefs tree s chunks s' hw
    rw [h] at hl
    simp [bufNet, hn] at hl
    exact hl

end CalmVerif.Unparse
