/-
JSON values and the values of JSON string / number spellings (RFC 8259), independent of calmjs.

* Strings are lists of CODE POINTS (`Nat`), not `List Char`: RFC 8259 §7 lets a text spell any
  `\uXXXX`, including an unpaired surrogate, and §8.2 leaves the value of such a text open.  This
  specification follows what Python's `json` module (the "JSON parser" of property C19) does: an
  escaped high surrogate immediately followed by an escaped low surrogate is ONE scalar value
  (§7, "UTF-16 surrogate pair"); any other `\uD800`–`\uDFFF` escape stands for that code point
  itself.  Raw characters of a text are Unicode scalar values (`Char`).
* Numbers are exact: sign, decimal mantissa, decimal exponent, plus the flag "the spelling has
  neither fraction nor exponent" (`isInt`).  No floats anywhere.
* Objects keep their members as an association list in source order, duplicates included
  (RFC 8259 §4: behaviour on duplicate names is implementation defined); `lookup` is LAST-WINS, which
  is what Python's `json` implements.  `canon` is the duplicate-free form of a value: each name once, at
  the position of its first occurrence, bound to its last value (this is also the insertion order
  of the dict `json.loads` returns; compared with `json.loads` on every run by the check's oracle tie).

`Syn` is a JSON syntax tree whose literals are kept as SPELLINGS; `value` evaluates it.
`parseText` (RFC 8259 §2–§7 grammar, with fuel) is used by the driver only.

No Mathlib, no proofs here.
-/
namespace CalmVerif.Spec.Json

abbrev CodePoint := Nat

/-- (-1)^neg · mant · 10^exp -/
structure Num where
  neg : Bool
  mant : Nat
  exp : Int
  /-- the spelling is `[-] int` (no frac, no exp) -/
  isInt : Bool
  deriving DecidableEq, Repr

inductive Value where
  | null
  | bool (b : Bool)
  | num (n : Num)
  | str (s : List CodePoint)
  | arr (xs : List Value)
  | obj (kvs : List (List CodePoint × Value))
  deriving Repr

/-- syntax tree; `num` holds the whole number text (with its `-`), `str` and member names hold the
text between the quotation marks -/
inductive Syn where
  | null
  | bool (b : Bool)
  | num (text : List Char)
  | str (body : List Char)
  | arr (xs : List Syn)
  | obj (kvs : List (List Char × Syn))
  deriving Repr

/-! ## strings (RFC 8259 §7) -/

def hexVal (c : Char) : Option Nat :=
  if '0' ≤ c ∧ c ≤ '9' then some (c.toNat - 48)
  else if 'a' ≤ c ∧ c ≤ 'f' then some (c.toNat - 87)
  else if 'A' ≤ c ∧ c ≤ 'F' then some (c.toNat - 55)
  else none

/-- `4HEXDIG` -/
def hex4 (a b c d : Char) : Option Nat :=
  match hexVal a, hexVal b, hexVal c, hexVal d with
  | some x, some y, some z, some w => some (((x * 16 + y) * 16 + z) * 16 + w)
  | _, _, _, _ => none

def isHigh (n : Nat) : Bool := 0xD800 ≤ n && n ≤ 0xDBFF
def isLow (n : Nat) : Bool := 0xDC00 ≤ n && n ≤ 0xDFFF

/-- UTF-16 decoding of a surrogate pair -/
def combine (hi lo : Nat) : Nat := 0x10000 + (hi - 0xD800) * 0x400 + (lo - 0xDC00)

/-- the two-character escapes: `\" \\ \/ \b \f \n \r \t` -/
def simpleEscape (c : Char) : Option CodePoint :=
  if c == '"' then some 0x22 else if c == '\\' then some 0x5C else if c == '/' then some 0x2F
  else if c == 'b' then some 0x08 else if c == 'f' then some 0x0C else if c == 'n' then some 0x0A
  else if c == 'r' then some 0x0D else if c == 't' then some 0x09 else none

def cons (c : CodePoint) : Option (List CodePoint) → Option (List CodePoint)
  | some l => some (c :: l)
  | none => none

/-- the code units spelled between the quotation marks: a raw character stands for itself, a
two-character escape for its character, `\uXXXX` for the code unit XXXX; `none` = not a JSON string
body (unescaped `"` or control character, unknown or truncated escape) -/
def codeUnits : List Char → Option (List CodePoint)
  | [] => some []
  | c :: rest =>
    if c == '\\' then
      match rest with
      | [] => none
      | e :: rest1 =>
        if e == 'u' then
          match rest1 with
          | x :: y :: z :: w :: rest2 =>
            match hex4 x y z w with
            | some n => cons n (codeUnits rest2)
            | none => none
          | _ => none
        else
          match simpleEscape e with
          | some v => cons v (codeUnits rest1)
          | none => none
    else if c == '"' || c.toNat < 0x20 then none
    else cons c.toNat (codeUnits rest)

/-- UTF-16 decoding: a high surrogate immediately followed by a low surrogate is one scalar value;
everything else stands for itself.  (Raw characters are scalar values, never surrogates, so a pair can
only come from two adjacent `\uXXXX` escapes.) -/
def joinSurrogates : List CodePoint → List CodePoint
  | [] => []
  | [a] => [a]
  | hi :: lo :: rest =>
    if isHigh hi && isLow lo then combine hi lo :: joinSurrogates rest
    else hi :: joinSurrogates (lo :: rest)

/-- value of the characters between the quotation marks -/
def stringValue (s : List Char) : Option (List CodePoint) := (codeUnits s).map joinSurrogates

/-! ## numbers (RFC 8259 §6) -/

def isDigit (c : Char) : Bool := '0' ≤ c && c ≤ '9'
def digitVal (c : Char) : Nat := c.toNat - 48
def digitsVal (ds : List Char) : Nat := ds.foldl (fun acc c => acc * 10 + digitVal c) 0

/-- `int = zero / ( digit1-9 *DIGIT )` for a list of digits -/
def validInt : List Char → Bool
  | [] => false
  | [c] => isDigit c
  | c :: _ => c != '0'

def allDigits (ds : List Char) : Bool := !ds.isEmpty && ds.all isDigit

/-- what follows `e` / `E`: `[ minus / plus ] 1*DIGIT` up to the end of the text -/
def expPart : List Char → Option Int
  | [] => none
  | c :: ds =>
    if c == '+' then (if allDigits ds then some (digitsVal ds : Int) else none)
    else if c == '-' then (if allDigits ds then some (-(digitsVal ds : Int)) else none)
    else if allDigits (c :: ds) then some (digitsVal (c :: ds) : Int) else none

def isE (c : Char) : Bool := c == 'e' || c == 'E'

/-- `int [ frac ] [ exp ]` -/
def unsignedValue (neg : Bool) (t : List Char) : Option Num :=
  match t.span isDigit with
  | (ip, r1) =>
    if !validInt ip then none else
    match r1 with
    | [] => some { neg := neg, mant := digitsVal ip, exp := 0, isInt := true }
    | c :: r2 =>
      if c == '.' then
        match r2.span isDigit with
        | (fp, r3) =>
          if fp.isEmpty then none else
          match r3 with
          | [] => some { neg := neg, mant := digitsVal (ip ++ fp), exp := -(fp.length : Int), isInt := false }
          | e :: r4 =>
            if isE e then
              match expPart r4 with
              | some x => some { neg := neg, mant := digitsVal (ip ++ fp), exp := x - (fp.length : Int), isInt := false }
              | none => none
            else none
      else if isE c then
        match expPart r2 with
        | some x => some { neg := neg, mant := digitsVal ip, exp := x, isInt := false }
        | none => none
      else none

/-- `number = [ minus ] int [ frac ] [ exp ]`; `none` = not a JSON number -/
def numberValue : List Char → Option Num
  | [] => none
  | c :: t => if c == '-' then unsignedValue true t else unsignedValue false (c :: t)

/-! ## values of syntax trees -/

mutual
  def value : Syn → Option Value
    | .null => some .null
    | .bool b => some (.bool b)
    | .num t => (numberValue t).map .num
    | .str b => (stringValue b).map .str
    | .arr xs => (valueList xs).map .arr
    | .obj kvs => (valueMembers kvs).map .obj
  def valueList : List Syn → Option (List Value)
    | [] => some []
    | x :: xs =>
      match value x, valueList xs with
      | some v, some vs => some (v :: vs)
      | _, _ => none
  def valueMembers : List (List Char × Syn) → Option (List (List CodePoint × Value))
    | [] => some []
    | (k, x) :: rest =>
      match stringValue k, value x, valueMembers rest with
      | some n, some v, some r => some ((n, v) :: r)
      | _, _, _ => none
end

/-! ## objects: last-wins lookup, duplicate-free form -/

/-- the value bound to `k`: the LAST member named `k` -/
def lookup {V : Type} : List (List CodePoint × V) → List CodePoint → Option V
  | [], _ => none
  | (k', v) :: rest, k =>
    match lookup rest k with
    | some x => some x
    | none => if k' = k then some v else none

/-- bind `k` to `v`: replace the value in place if `k` is already bound, else append -/
def insert {V : Type} : List (List CodePoint × V) → List CodePoint → V → List (List CodePoint × V)
  | [], k, v => [(k, v)]
  | (k', v') :: rest, k, v => if k' = k then (k', v) :: rest else (k', v') :: insert rest k v

/-- members inserted one after the other, left to right, into `acc` -/
def insertAllInto {V : Type} : List (List CodePoint × V) → List (List CodePoint × V) → List (List CodePoint × V)
  | acc, [] => acc
  | acc, (k, v) :: rest => insertAllInto (insert acc k v) rest

def insertAll {V : Type} (kvs : List (List CodePoint × V)) : List (List CodePoint × V) := insertAllInto [] kvs

mutual
  /-- duplicate-free form: every object, at every depth, has each name once (first position, last value) -/
  def canon : Value → Value
    | .arr xs => .arr (canonList xs)
    | .obj kvs => .obj (insertAll (canonMembers kvs))
    | v => v
  def canonList : List Value → List Value
    | [] => []
    | x :: xs => canon x :: canonList xs
  def canonMembers : List (List CodePoint × Value) → List (List CodePoint × Value)
    | [] => []
    | (k, v) :: rest => (k, canon v) :: canonMembers rest
end

/-! ## text → syntax tree (driver only) -/

def isWs (c : Char) : Bool := c == ' ' || c == '\t' || c == '\n' || c == '\r'

def skipWs : List Char → List Char
  | [] => []
  | c :: rest => if isWs c then skipWs rest else c :: rest

/-- after the opening quotation mark: (body, text after the closing quotation mark) -/
def takeBody : List Char → Option (List Char × List Char)
  | [] => none
  | c :: rest =>
    if c == '"' then some ([], rest)
    else if c == '\\' then
      match rest with
      | [] => none
      | e :: rest1 =>
        match takeBody rest1 with
        | some (b, r) => some (c :: e :: b, r)
        | none => none
    else
      match takeBody rest with
      | some (b, r) => some (c :: b, r)
      | none => none

def isNumChar (c : Char) : Bool := isDigit c || c == '-' || c == '+' || c == '.' || c == 'e' || c == 'E'

def dropPrefix : List Char → List Char → Option (List Char)
  | [], s => some s
  | _ :: _, [] => none
  | p :: ps, c :: s => if p == c then dropPrefix ps s else none

mutual
  /-- `ws value` at the head of the text; returns the tree and the remaining text -/
  def parseValue : Nat → List Char → Option (Syn × List Char)
    | 0, _ => none
    | fuel + 1, s =>
      match skipWs s with
      | [] => none
      | c :: rest =>
        if c == '"' then
          match takeBody rest with
          | some (b, r) => some (.str b, r)
          | none => none
        else if c == '[' then
          match skipWs rest with
          | ']' :: r => some (.arr [], r)
          | _ =>
            match parseElems fuel rest with
            | some (xs, r) => some (.arr xs, r)
            | none => none
        else if c == '{' then
          match skipWs rest with
          | '}' :: r => some (.obj [], r)
          | _ =>
            match parseMembers fuel rest with
            | some (kvs, r) => some (.obj kvs, r)
            | none => none
        else if c == 't' then (dropPrefix "rue".toList rest).map (fun r => (.bool true, r))
        else if c == 'f' then (dropPrefix "alse".toList rest).map (fun r => (.bool false, r))
        else if c == 'n' then (dropPrefix "ull".toList rest).map (fun r => (.null, r))
        else if isNumChar c then
          match (c :: rest).span isNumChar with
          | (t, r) => some (.num t, r)
        else none
  /-- `value *( ws , value ) ws ]` -/
  def parseElems : Nat → List Char → Option (List Syn × List Char)
    | 0, _ => none
    | fuel + 1, s =>
      match parseValue fuel s with
      | none => none
      | some (x, r) =>
        match skipWs r with
        | ']' :: r' => some ([x], r')
        | ',' :: r' =>
          match parseElems fuel r' with
          | some (xs, r'') => some (x :: xs, r'')
          | none => none
        | _ => none
  /-- `member *( ws , member ) ws }` with `member = ws string ws : value` -/
  def parseMembers : Nat → List Char → Option (List (List Char × Syn) × List Char)
    | 0, _ => none
    | fuel + 1, s =>
      match skipWs s with
      | '"' :: r0 =>
        match takeBody r0 with
        | none => none
        | some (k, r1) =>
          match skipWs r1 with
          | ':' :: r2 =>
            match parseValue fuel r2 with
            | none => none
            | some (x, r3) =>
              match skipWs r3 with
              | '}' :: r' => some ([(k, x)], r')
              | ',' :: r' =>
                match parseMembers fuel r' with
                | some (kvs, r'') => some ((k, x) :: kvs, r'')
                | none => none
              | _ => none
          | _ => none
      | _ => none
end

/-- a whole JSON text: `ws value ws` -/
def parseText (s : List Char) : Option Syn :=
  match parseValue (s.length + 2) s with
  | some (x, r) => if (skipWs r).isEmpty then some x else none
  | none => none

end CalmVerif.Spec.Json
