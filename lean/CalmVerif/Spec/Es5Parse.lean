/-
Reference parser for ECMA-262 5.1 (clauses 11–14, 7.9), written from the specification
("any conforming ES5 parser"); independent of calmjs.  It produces trees in calmjs's node vocabulary
(the convention of harness/treedump.py: kind = class name, attributes sorted by name).

Deliberate deviations granted by the properties:
  * no early errors are checked (assignment targets are any LeftHandSideExpression, duplicate labels,
    `return` outside functions, strict mode rules, regular expression bodies … are all accepted);
  * a FunctionDeclaration is admitted wherever a Statement may appear.

Method: recursive descent with one token of look-ahead.  The look-ahead token is always lexed with the
goal symbol InputElementDiv; at the one place of the grammar where a RegularExpressionLiteral is
permitted (start of a PrimaryExpression) a look-ahead `/` or `/=` is re-lexed from its offset with the goal
InputElementRegExp.  Since no production allows both a DivPunctuator and a RegularExpressionLiteral at the
same point, this is exactly "the goal symbol is chosen by the syntactic context" (§7).

Automatic semicolon insertion (§7.9.1):
  rule 1/2  `consumeSemicolon`: at the end of a statement that must end in `;`, if the next token is not `;`
            (it is then not allowed by any production, because every expression parser below is greedy)
            a semicolon is inserted iff the offending token is `}`, the end of input, or is preceded by a
            LineTerminator.  Never reached inside a `for (…;…;…)` header (those `;` are `expect`ed), and the
            inserted semicolon always terminates a non-empty statement (so it is never an EmptyStatement).
  rule 3    restricted productions: postfix `++`/`--`, `continue`, `break`, `return`, `throw`.

Tree convention (= harness/treedump.py `dump(node)` without meta attributes, on the tree calmjs builds):
  ES5Program / Block / VarStatement / CaseBlock   attribute `children`
  Identifier, PropIdentifier, Number, String, Regex, Boolean, Null, Debugger, EmptyStatement   `value` = source spelling
  This                                           no attributes
  GroupingOp(expr)                               nested parentheses collapse into one node (`((a))`), `((a),b)` does not
  Array(items)                                   every maximal run of n elision commas is one `Elision(value=n)` item
  Object(properties)                             Assign(op ":", left, right) | GetPropAssign(prop_name, elements)
                                                 | SetPropAssign(prop_name, parameter, elements); names are PropIdentifier/String/Number
  DotAccessor(node, identifier=PropIdentifier)   BracketAccessor(node, expr)   FunctionCall(identifier, args=Arguments(items))
  NewExpr(identifier, args=Arguments(items) | None)
  UnaryExpr(op, value)  PostfixExpr(op, value)  BinOp(op, left, right)  Assign(op, left, right)
  Conditional(predicate, consequent, alternative)   Comma(left, right) nested to the left
  VarDecl(identifier, initializer | None); in `for (var x [= e] in …)` the kind is VarDeclNoIn
  For(init, cond, count, statement): init/cond are ExprStatement(expr) or the placeholder EmptyStatement(";"),
      init is VarStatement for `for (var …;;)`; count is the bare expression or None
  ForIn(item, iterable, statement)  If(predicate, consequent, alternative | None)  While / DoWhile(predicate, statement)
  Continue / Break(identifier | None)  Return(expr | None)  Throw(expr)  With(expr, statement)  Label(identifier, statement)
  Switch(expr, case_block=CaseBlock(children=[Case(expr, elements) | Default(elements)]))
  Try(statements=Block, catch=Catch(identifier, elements=Block) | None, fin=Finally(elements=Block) | None)
  FuncDecl / FuncExpr(identifier | None, parameters, elements)   ExprStatement(expr)

All functions are total: the mutual recursion is structural on a fuel argument which decreases at every
call; `parseProgram` supplies `16 * (text length) + 64` (every chain of calls without consuming a token is
shorter than 16, see the level structure below).
-/
import CalmVerif.Util.Val
import CalmVerif.Spec.Es5Lex

namespace CalmVerif.Spec.Es5

open CalmVerif (Val)

/-! ### parser state and monad -/

structure PState where
  /-- fuel handed to the lexer: text length + 1 -/
  lexFuel : Nat
  /-- look-ahead token (goal InputElementDiv) -/
  tok : Token
  /-- suffix of the text starting at the look-ahead token -/
  tokSrc : List Char
  /-- suffix after the look-ahead token -/
  rest : List Char
  /-- consumed tokens, in order, as classified by the parser -/
  toks : Array Token
  /-- all comments seen so far, in order -/
  comments : Array Comment
  /-- offsets at which a semicolon was inserted -/
  asis : Array Nat
  deriving Inhabited

inductive Res (α : Type) where
  | ok (a : α) (s : PState)
  | err (off : Nat) (msg : String)

def P (α : Type) : Type := PState → Res α

instance : Monad P where
  pure a := fun s => .ok a s
  bind m f := fun s => match m s with
    | .ok a s' => f a s'
    | .err o m => .err o m

def fail {α : Type} (off : Nat) (msg : String) : P α := fun _ => .err off msg
def getState : P PState := fun s => .ok s s
def peek : P Token := fun s => .ok s.tok s

/-- error at the look-ahead token -/
def failTok {α : Type} (msg : String) : P α := fun s =>
  if s.tok.cls == .error then .err s.tok.off s.tok.text else .err s.tok.off msg

def loadNext (s : PState) (src : List Char) (off : Nat) : PState :=
  let lx := lexToken s.lexFuel .div src off
  { s with tok := lx.tok, tokSrc := lx.src, rest := lx.rest,
           comments := lx.comments.foldr (fun c acc => acc.push c) s.comments }

/-- consume the look-ahead token -/
def advance : P Token := fun s =>
  if s.tok.cls == .error then .err s.tok.off s.tok.text
  else
    let t := s.tok
    .ok t (loadNext { s with toks := s.toks.push t } s.rest t.stop)

/-- re-lex the look-ahead `/` or `/=` as a RegularExpressionLiteral (goal InputElementRegExp) -/
def relexRegex : P Unit := fun s =>
  let (t, rest) := lexAt s.lexFuel .regexp s.tokSrc s.tok.off s.tok.nlBefore
  .ok () { s with tok := t, rest := rest }

def isPunct (t : Token) (p : String) : Bool := t.cls == .punct && t.text == p
def isKw (t : Token) (k : String) : Bool := t.cls == .keyword && t.text == k
/-- Identifier :: IdentifierName but not ReservedWord -/
def isIdentifier (t : Token) : Bool := t.cls == .ident && !t.escReserved
/-- IdentifierName -/
def isIdentName (t : Token) : Bool := t.cls == .ident || t.cls == .keyword

def expectPunct (p : String) : P Unit := fun s =>
  if isPunct s.tok p then (advance >>= fun _ => pure ()) s else failTok ("expected-" ++ p) s

def expectKw (k : String) : P Unit := fun s =>
  if isKw s.tok k then (advance >>= fun _ => pure ()) s else failTok ("expected-" ++ k) s

/-- §7.9.1 rules 1 and 2 -/
def consumeSemicolon : P Unit := fun s =>
  let t := s.tok
  if isPunct t ";" then (advance >>= fun _ => pure ()) s
  else if t.cls == .error then .err t.off t.text
  else if isPunct t "}" || t.cls == .eof || t.nlBefore then
    .ok () { s with asis := s.asis.push t.off }
  else .err t.off "expected-semicolon"

/-! ### tree construction (attributes in sorted order) -/

def nStr (kind : String) (v : String) : Val := .node kind [("value", .str v)]
def nIdentifier (v : String) : Val := nStr "Identifier" v
def nPropIdentifier (v : String) : Val := nStr "PropIdentifier" v
def nBinOp (op : String) (l r : Val) : Val := .node "BinOp" [("left", l), ("op", .str op), ("right", r)]
def nAssign (op : String) (l r : Val) : Val := .node "Assign" [("left", l), ("op", .str op), ("right", r)]
def nUnary (op : String) (v : Val) : Val := .node "UnaryExpr" [("op", .str op), ("value", v)]
def nPostfix (op : String) (v : Val) : Val := .node "PostfixExpr" [("op", .str op), ("value", v)]
def nChildren (kind : String) (xs : List Val) : Val := .node kind [("children", .list xs)]
def nEmpty : Val := nStr "EmptyStatement" ";"
def nExprStatement (e : Val) : Val := .node "ExprStatement" [("expr", e)]
def nFunc (kind : String) (name : Val) (params body : List Val) : Val :=
  .node kind [("elements", .list body), ("identifier", name), ("parameters", .list params)]

def kindOf : Val → String
  | .node k _ => k
  | _ => ""

/-- the node kinds produced by the LeftHandSideExpression productions (§11.2); a parenthesised
    expression is a `GroupingOp`, so the kind alone decides -/
def isLhsKind (v : Val) : Bool :=
  ["Identifier", "This", "Number", "String", "Regex", "Boolean", "Null", "Array", "Object", "GroupingOp",
   "FuncExpr", "DotAccessor", "BracketAccessor", "FunctionCall", "NewExpr"].contains (kindOf v)

def assignOps : List String :=
  ["=", "*=", "/=", "%=", "+=", "-=", "<<=", ">>=", ">>>=", "&=", "^=", "|="]

/-- precedence of the binary operator the token spells (§11.5–11.11), 0 if none.
    `in` is excluded in NoIn context. -/
def binPrec (t : Token) (noIn : Bool) : Nat :=
  if t.cls == .punct then
    match t.text with
    | "||" => 1 | "&&" => 2 | "|" => 3 | "^" => 4 | "&" => 5
    | "==" => 6 | "!=" => 6 | "===" => 6 | "!==" => 6
    | "<" => 7 | ">" => 7 | "<=" => 7 | ">=" => 7
    | "<<" => 8 | ">>" => 8 | ">>>" => 8
    | "+" => 9 | "-" => 9
    | "*" => 10 | "/" => 10 | "%" => 10
    | _ => 0
  else if t.cls == .keyword then
    if t.text == "instanceof" then 7
    else if t.text == "in" && !noIn then 7
    else 0
  else 0

def isUnaryOp (t : Token) : Bool :=
  (t.cls == .punct && ["++", "--", "+", "-", "~", "!"].contains t.text) ||
  (t.cls == .keyword && ["delete", "void", "typeof"].contains t.text)

def fuelOut {α : Type} : P α := fun s => .err s.tok.off "internal-fuel-exhausted"

/-! ### the grammar -/

mutual

/-- PrimaryExpression (§11.1) and FunctionExpression (§13) -/
def parsePrimary : Nat → P Val
  | 0 => fuelOut
  | f + 1 => do
    let t0 ← peek
    -- the only place where a RegularExpressionLiteral is permitted
    if isPunct t0 "/" || isPunct t0 "/=" then relexRegex
    let t ← peek
    match t.cls with
    | .ident =>
      if t.escReserved then failTok "reserved-word-as-identifier"
      else do let _ ← advance; pure (nIdentifier t.text)
    | .number => do let _ ← advance; pure (nStr "Number" t.text)
    | .string => do let _ ← advance; pure (nStr "String" t.text)
    | .regex => do let _ ← advance; pure (nStr "Regex" t.text)
    | .keyword =>
      if t.text == "this" then do let _ ← advance; pure (.node "This" [])
      else if t.text == "null" then do let _ ← advance; pure (nStr "Null" t.text)
      else if t.text == "true" || t.text == "false" then do let _ ← advance; pure (nStr "Boolean" t.text)
      else if t.text == "function" then do let _ ← advance; parseFunction f false
      else failTok "unexpected-reserved-word"
    | .punct =>
      if t.text == "(" then do
        let _ ← advance
        let e ← parseExpr f false
        expectPunct ")"
        -- nested parentheses collapse into one GroupingOp (tree convention)
        if kindOf e == "GroupingOp" then pure e else pure (.node "GroupingOp" [("expr", e)])
      else if t.text == "[" then do
        let _ ← advance
        let items ← parseArrayItems f
        pure (.node "Array" [("items", .list items)])
      else if t.text == "{" then do
        let _ ← advance
        let props ← parseProps f
        pure (.node "Object" [("properties", .list props)])
      else failTok "unexpected-token"
    | .eof => failTok "unexpected-end-of-input"
    | .error => failTok "lexical-error"

/-- ElementList / Elision (§11.1.4) after `[`, up to and including `]`.
    Tree convention: every maximal run of n elision commas is one `Elision(n)` item. -/
def parseArrayItems : Nat → P (List Val)
  | 0 => fuelOut
  | f + 1 => do
    let t ← peek
    if isPunct t "]" then do let _ ← advance; pure []
    else if isPunct t "," then do
      let n ← parseElision f
      let rest ← parseArrayItems f
      pure (.node "Elision" [("value", .int n)] :: rest)
    else do
      let e ← parseAssign f false
      let t2 ← peek
      if isPunct t2 "," then do
        let _ ← advance        -- the separator after an element
        let rest ← parseArrayItems f
        pure (e :: rest)
      else if isPunct t2 "]" then do let _ ← advance; pure [e]
      else failTok "expected-comma-or-bracket"

/-- a maximal run of commas; returns its length -/
def parseElision : Nat → P Nat
  | 0 => fuelOut
  | f + 1 => do
    let t ← peek
    if isPunct t "," then do
      let _ ← advance
      let n ← parseElision f
      pure (n + 1)
    else pure 0

/-- PropertyNameAndValueList (§11.1.5) after `{`, up to and including `}`; a trailing comma is allowed -/
def parseProps : Nat → P (List Val)
  | 0 => fuelOut
  | f + 1 => do
    let t ← peek
    if isPunct t "}" then do let _ ← advance; pure []
    else do
      let p ← parseProp f
      let t2 ← peek
      if isPunct t2 "," then do
        let _ ← advance
        let rest ← parseProps f
        pure (p :: rest)
      else if isPunct t2 "}" then do let _ ← advance; pure [p]
      else failTok "expected-comma-or-brace"

/-- PropertyName :: IdentifierName | StringLiteral | NumericLiteral -/
def parsePropName : Nat → P Val
  | 0 => fuelOut
  | _ + 1 => do
    let t ← peek
    if isIdentName t then do let _ ← advance; pure (nPropIdentifier t.text)
    else if t.cls == .string then do let _ ← advance; pure (nStr "String" t.text)
    else if t.cls == .number then do let _ ← advance; pure (nStr "Number" t.text)
    else failTok "expected-property-name"

/-- PropertyAssignment; `get` / `set` are ordinary IdentifierNames unless followed by a PropertyName -/
def parseProp : Nat → P Val
  | 0 => fuelOut
  | f + 1 => do
    let t ← peek
    if t.cls == .ident && !t.escReserved && (t.text == "get" || t.text == "set") then do
      let _ ← advance
      let t2 ← peek
      if isPunct t2 ":" then do
        let _ ← advance
        let v ← parseAssign f false
        pure (nAssign ":" (nPropIdentifier t.text) v)
      else do
        let name ← parsePropName f
        expectPunct "("
        if t.text == "get" then do
          expectPunct ")"
          expectPunct "{"
          let body ← parseSourceElements f
          expectPunct "}"
          pure (.node "GetPropAssign" [("elements", .list body), ("prop_name", name)])
        else do
          let pt ← peek
          if isIdentifier pt then do
            let _ ← advance
            expectPunct ")"
            expectPunct "{"
            let body ← parseSourceElements f
            expectPunct "}"
            pure (.node "SetPropAssign"
              [("elements", .list body), ("parameter", nIdentifier pt.text), ("prop_name", name)])
          else failTok "expected-setter-parameter"
    else do
      let name ← parsePropName f
      expectPunct ":"
      let v ← parseAssign f false
      pure (nAssign ":" name v)

/-- after `function`: Identifier_opt ( FormalParameterList_opt ) { FunctionBody } (§13).
    `decl = true` for a FunctionDeclaration (name required). -/
def parseFunction : Nat → Bool → P Val
  | 0, _ => fuelOut
  | f + 1, decl => do
    let t ← peek
    let name ← (if isIdentifier t then do let _ ← advance; pure (nIdentifier t.text)
                else if decl then failTok "function-declaration-requires-a-name"
                else pure Val.none)
    expectPunct "("
    let params ← parseParams f true
    expectPunct "{"
    let body ← parseSourceElements f
    expectPunct "}"
    pure (nFunc (if decl then "FuncDecl" else "FuncExpr") name params body)

/-- FormalParameterList_opt up to and including `)`; `first` = no parameter read yet -/
def parseParams : Nat → Bool → P (List Val)
  | 0, _ => fuelOut
  | f + 1, first => do
    let t ← peek
    if first && isPunct t ")" then do let _ ← advance; pure []
    else if isIdentifier t then do
      let _ ← advance
      let t2 ← peek
      if isPunct t2 "," then do
        let _ ← advance
        let rest ← parseParams f false
        pure (nIdentifier t.text :: rest)
      else if isPunct t2 ")" then do let _ ← advance; pure [nIdentifier t.text]
      else failTok "expected-comma-or-paren"
    else failTok "expected-parameter"

/-- Arguments (§11.2) after `(`, up to and including `)`; `first` = no argument read yet -/
def parseArgs : Nat → Bool → P (List Val)
  | 0, _ => fuelOut
  | f + 1, first => do
    let t ← peek
    if first && isPunct t ")" then do let _ ← advance; pure []
    else do
      let e ← parseAssign f false
      let t2 ← peek
      if isPunct t2 "," then do
        let _ ← advance
        let rest ← parseArgs f false
        pure (e :: rest)
      else if isPunct t2 ")" then do let _ ← advance; pure [e]
      else failTok "expected-comma-or-paren"

/-- `new` MemberExpression Arguments | `new` NewExpression (§11.2); the look-ahead is `new` -/
def parseNew : Nat → P Val
  | 0 => fuelOut
  | f + 1 => do
    expectKw "new"
    let t ← peek
    let callee0 ← (if isKw t "new" then parseNew f else parsePrimary f)
    let callee ← parseSuffixes f callee0 false
    let t2 ← peek
    if isPunct t2 "(" then do
      let _ ← advance
      let args ← parseArgs f true
      pure (.node "NewExpr" [("args", .node "Arguments" [("items", .list args)]), ("identifier", callee)])
    else pure (.node "NewExpr" [("args", Val.none), ("identifier", callee)])

/-- `[ Expression ]`, `. IdentifierName` and (if `calls`) Arguments suffixes -/
def parseSuffixes : Nat → Val → Bool → P Val
  | 0, _, _ => fuelOut
  | f + 1, base, calls => do
    let t ← peek
    if isPunct t "." then do
      let _ ← advance
      let n ← peek
      if isIdentName n then do
        let _ ← advance
        parseSuffixes f (.node "DotAccessor" [("identifier", nPropIdentifier n.text), ("node", base)]) calls
      else failTok "expected-identifier-name"
    else if isPunct t "[" then do
      let _ ← advance
      let e ← parseExpr f false
      expectPunct "]"
      parseSuffixes f (.node "BracketAccessor" [("expr", e), ("node", base)]) calls
    else if calls && isPunct t "(" then do
      let _ ← advance
      let args ← parseArgs f true
      parseSuffixes f
        (.node "FunctionCall" [("args", .node "Arguments" [("items", .list args)]), ("identifier", base)]) calls
    else pure base

/-- LeftHandSideExpression (§11.2) -/
def parseLhs : Nat → P Val
  | 0 => fuelOut
  | f + 1 => do
    let t ← peek
    let base ← (if isKw t "new" then parseNew f else parsePrimary f)
    parseSuffixes f base true

/-- PostfixExpression (§11.3): LeftHandSideExpression [no LineTerminator here] ++ / -- -/
def parsePostfix : Nat → P Val
  | 0 => fuelOut
  | f + 1 => do
    let e ← parseLhs f
    let t ← peek
    if (isPunct t "++" || isPunct t "--") && !t.nlBefore then do
      let _ ← advance
      pure (nPostfix t.text e)
    else pure e

/-- UnaryExpression (§11.4) -/
def parseUnary : Nat → P Val
  | 0 => fuelOut
  | f + 1 => do
    let t ← peek
    if isUnaryOp t then do
      let _ ← advance
      let v ← parseUnary f
      pure (nUnary t.text v)
    else parsePostfix f

/-- binary operators (§11.5–11.11) by precedence climbing; all are left associative -/
def parseBinary : Nat → Nat → Bool → P Val
  | 0, _, _ => fuelOut
  | f + 1, minPrec, noIn => do
    let left ← parseUnary f
    parseBinaryRest f left minPrec noIn

def parseBinaryRest : Nat → Val → Nat → Bool → P Val
  | 0, _, _, _ => fuelOut
  | f + 1, left, minPrec, noIn => do
    let t ← peek
    let p := binPrec t noIn
    if p != 0 && p ≥ minPrec then do
      let _ ← advance
      let right ← parseBinary f (p + 1) noIn
      parseBinaryRest f (nBinOp t.text left right) minPrec noIn
    else pure left

/-- ConditionalExpression(NoIn) (§11.12): the middle operand is always an AssignmentExpression (with `in`) -/
def parseCond : Nat → Bool → P Val
  | 0, _ => fuelOut
  | f + 1, noIn => do
    let c ← parseBinary f 1 noIn
    let t ← peek
    if isPunct t "?" then do
      let _ ← advance
      let a ← parseAssign f false
      expectPunct ":"
      let b ← parseAssign f noIn
      pure (.node "Conditional" [("alternative", b), ("consequent", a), ("predicate", c)])
    else pure c

/-- AssignmentExpression(NoIn) (§11.13) -/
def parseAssign : Nat → Bool → P Val
  | 0, _ => fuelOut
  | f + 1, noIn => do
    let l ← parseCond f noIn
    let t ← peek
    if t.cls == .punct && assignOps.contains t.text && isLhsKind l then do
      let _ ← advance
      let r ← parseAssign f noIn
      pure (nAssign t.text l r)
    else pure l

/-- Expression(NoIn) (§11.14); `Comma` nodes nest to the left -/
def parseExpr : Nat → Bool → P Val
  | 0, _ => fuelOut
  | f + 1, noIn => do
    let e ← parseAssign f noIn
    parseExprRest f e noIn

def parseExprRest : Nat → Val → Bool → P Val
  | 0, _, _ => fuelOut
  | f + 1, left, noIn => do
    let t ← peek
    if isPunct t "," then do
      let _ ← advance
      let r ← parseAssign f noIn
      parseExprRest f (.node "Comma" [("left", left), ("right", r)]) noIn
    else pure left

/-- VariableDeclarationList(NoIn) (§12.2); `kind` = node kind of the declarations -/
def parseVarDecls : Nat → Bool → P (List Val)
  | 0, _ => fuelOut
  | f + 1, noIn => do
    let t ← peek
    if isIdentifier t then do
      let _ ← advance
      let t2 ← peek
      let init ← (if isPunct t2 "=" then do let _ ← advance; parseAssign f noIn else pure Val.none)
      let d := Val.node "VarDecl" [("identifier", nIdentifier t.text), ("initializer", init)]
      let t3 ← peek
      if isPunct t3 "," then do
        let _ ← advance
        let rest ← parseVarDecls f noIn
        pure (d :: rest)
      else pure [d]
    else failTok "expected-identifier"

/-- SourceElements / StatementList: statements up to (not including) `}` or the end of input -/
def parseSourceElements : Nat → P (List Val)
  | 0 => fuelOut
  | f + 1 => do
    let t ← peek
    if isPunct t "}" || t.cls == .eof then pure []
    else do
      let s ← parseStatement f
      let rest ← parseSourceElements f
      pure (s :: rest)

/-- statements of a CaseClause / DefaultClause: up to `case`, `default`, `}` -/
def parseCaseBody : Nat → P (List Val)
  | 0 => fuelOut
  | f + 1 => do
    let t ← peek
    if isPunct t "}" || t.cls == .eof || isKw t "case" || isKw t "default" then pure []
    else do
      let s ← parseStatement f
      let rest ← parseCaseBody f
      pure (s :: rest)

/-- CaseBlock (§12.11) after `{` up to and including `}`; at most one DefaultClause (grammar, not early error) -/
def parseCaseClauses : Nat → Bool → P (List Val)
  | 0, _ => fuelOut
  | f + 1, seenDefault => do
    let t ← peek
    if isPunct t "}" then do let _ ← advance; pure []
    else if isKw t "case" then do
      let _ ← advance
      let e ← parseExpr f false
      expectPunct ":"
      let body ← parseCaseBody f
      let rest ← parseCaseClauses f seenDefault
      pure (.node "Case" [("elements", .list body), ("expr", e)] :: rest)
    else if isKw t "default" then
      if seenDefault then failTok "second-default-clause"
      else do
        let _ ← advance
        expectPunct ":"
        let body ← parseCaseBody f
        let rest ← parseCaseClauses f true
        pure (.node "Default" [("elements", .list body)] :: rest)
    else failTok "expected-case-or-default"

/-- Block (§12.1): the look-ahead is `{` -/
def parseBlock : Nat → P Val
  | 0 => fuelOut
  | f + 1 => do
    expectPunct "{"
    let body ← parseSourceElements f
    expectPunct "}"
    pure (nChildren "Block" body)

/-- the part of a `for` statement after `for (` (§12.6.3, 12.6.4) -/
def parseForRest : Nat → P Val
  | 0 => fuelOut
  | f + 1 => do
    let t ← peek
    if isKw t "var" then do
      let _ ← advance
      let decls ← parseVarDecls f true
      let t2 ← peek
      if isKw t2 "in" then
        match decls with
        | [.node _ attrs] => do
          -- for ( var VariableDeclarationNoIn in Expression ) Statement
          let _ ← advance
          let e ← parseExpr f false
          expectPunct ")"
          let body ← parseStatement f
          pure (.node "ForIn" [("item", .node "VarDeclNoIn" attrs), ("iterable", e), ("statement", body)])
        | _ => failTok "for-in-with-several-declarations"
      else do
        expectPunct ";"
        parseForTail f (nChildren "VarStatement" decls)
    else if isPunct t ";" then do
      let _ ← advance
      parseForTail f nEmpty
    else do
      let init ← parseExpr f true
      let t2 ← peek
      if isKw t2 "in" && isLhsKind init then do
        -- for ( LeftHandSideExpression in Expression ) Statement
        let _ ← advance
        let e ← parseExpr f false
        expectPunct ")"
        let body ← parseStatement f
        pure (.node "ForIn" [("item", init), ("iterable", e), ("statement", body)])
      else do
        expectPunct ";"
        parseForTail f (nExprStatement init)

/-- `Expression_opt ; Expression_opt ) Statement` of a three-part `for`; the first `;` is consumed -/
def parseForTail : Nat → Val → P Val
  | 0, _ => fuelOut
  | f + 1, init => do
    let t ← peek
    let cond ← (if isPunct t ";" then pure nEmpty else do let e ← parseExpr f false; pure (nExprStatement e))
    expectPunct ";"
    let t2 ← peek
    let count ← (if isPunct t2 ")" then pure Val.none else parseExpr f false)
    expectPunct ")"
    let body ← parseStatement f
    pure (.node "For" [("cond", cond), ("count", count), ("init", init), ("statement", body)])

/-- Statement (§12) or FunctionDeclaration (§13) -/
def parseStatement : Nat → P Val
  | 0 => fuelOut
  | f + 1 => do
    let t ← peek
    if isPunct t "{" then parseBlock f
    else if isPunct t ";" then do let _ ← advance; pure nEmpty
    else if t.cls == .keyword then
      match t.text with
      | "var" => do
        let _ ← advance
        let decls ← parseVarDecls f false
        consumeSemicolon
        pure (nChildren "VarStatement" decls)
      | "if" => do
        let _ ← advance
        expectPunct "("
        let c ← parseExpr f false
        expectPunct ")"
        let a ← parseStatement f
        let t2 ← peek
        if isKw t2 "else" then do
          let _ ← advance
          let b ← parseStatement f
          pure (.node "If" [("alternative", b), ("consequent", a), ("predicate", c)])
        else pure (.node "If" [("alternative", Val.none), ("consequent", a), ("predicate", c)])
      | "do" => do
        let _ ← advance
        let body ← parseStatement f
        expectKw "while"
        expectPunct "("
        let c ← parseExpr f false
        expectPunct ")"
        consumeSemicolon
        pure (.node "DoWhile" [("predicate", c), ("statement", body)])
      | "while" => do
        let _ ← advance
        expectPunct "("
        let c ← parseExpr f false
        expectPunct ")"
        let body ← parseStatement f
        pure (.node "While" [("predicate", c), ("statement", body)])
      | "for" => do
        let _ ← advance
        expectPunct "("
        parseForRest f
      | "continue" => do
        let _ ← advance
        let t2 ← peek
        -- continue [no LineTerminator here] Identifier ;
        if isIdentifier t2 && !t2.nlBefore then do
          let _ ← advance
          consumeSemicolon
          pure (.node "Continue" [("identifier", nIdentifier t2.text)])
        else do
          consumeSemicolon
          pure (.node "Continue" [("identifier", Val.none)])
      | "break" => do
        let _ ← advance
        let t2 ← peek
        if isIdentifier t2 && !t2.nlBefore then do
          let _ ← advance
          consumeSemicolon
          pure (.node "Break" [("identifier", nIdentifier t2.text)])
        else do
          consumeSemicolon
          pure (.node "Break" [("identifier", Val.none)])
      | "return" => do
        let _ ← advance
        let t2 ← peek
        -- return [no LineTerminator here] Expression ;
        if isPunct t2 ";" || isPunct t2 "}" || t2.cls == .eof || t2.nlBefore then do
          consumeSemicolon
          pure (.node "Return" [("expr", Val.none)])
        else do
          let e ← parseExpr f false
          consumeSemicolon
          pure (.node "Return" [("expr", e)])
      | "with" => do
        let _ ← advance
        expectPunct "("
        let e ← parseExpr f false
        expectPunct ")"
        let body ← parseStatement f
        pure (.node "With" [("expr", e), ("statement", body)])
      | "switch" => do
        let _ ← advance
        expectPunct "("
        let e ← parseExpr f false
        expectPunct ")"
        expectPunct "{"
        let clauses ← parseCaseClauses f false
        pure (.node "Switch" [("case_block", nChildren "CaseBlock" clauses), ("expr", e)])
      | "throw" => do
        let _ ← advance
        let t2 ← peek
        -- throw [no LineTerminator here] Expression ;   (rule 3 inserts `;`, and `throw ;` is not a statement)
        if t2.nlBefore then failTok "line-terminator-after-throw"
        else do
          let e ← parseExpr f false
          consumeSemicolon
          pure (.node "Throw" [("expr", e)])
      | "try" => do
        let _ ← advance
        let block ← parseBlock f
        let t2 ← peek
        let catch_ ← (if isKw t2 "catch" then do
            let _ ← advance
            expectPunct "("
            let pt ← peek
            if isIdentifier pt then do
              let _ ← advance
              expectPunct ")"
              let b ← parseBlock f
              pure (Val.node "Catch" [("elements", b), ("identifier", nIdentifier pt.text)])
            else failTok "expected-identifier"
          else pure Val.none)
        let t3 ← peek
        let fin ← (if isKw t3 "finally" then do
            let _ ← advance
            let b ← parseBlock f
            pure (Val.node "Finally" [("elements", b)])
          else pure Val.none)
        match catch_, fin with
        | .none, .none => failTok "expected-catch-or-finally"
        | _, _ => pure (.node "Try" [("catch", catch_), ("fin", fin), ("statements", block)])
      | "debugger" => do
        let _ ← advance
        consumeSemicolon
        pure (nStr "Debugger" "debugger")
      | "function" => do
        -- FunctionDeclaration (admitted in every statement position); an ExpressionStatement cannot start here
        let _ ← advance
        parseFunction f true
      | _ => parseExprStatement f
    else parseExprStatement f

/-- ExpressionStatement (§12.4; look-ahead ∉ {`{`, `function`} is guaranteed by `parseStatement`)
    or LabelledStatement (§12.12) -/
def parseExprStatement : Nat → P Val
  | 0 => fuelOut
  | f + 1 => do
    let e ← parseExpr f false
    let t ← peek
    if isPunct t ":" && kindOf e == "Identifier" then do
      let _ ← advance
      let body ← parseStatement f
      pure (.node "Label" [("identifier", e), ("statement", body)])
    else do
      consumeSemicolon
      pure (nExprStatement e)

end

/-! ### entry points -/

structure ParseOut where
  tree : Val
  tokens : Array Token
  comments : Array Comment
  asis : Array Nat

def initState (text : List Char) : PState :=
  let n := text.length
  let s0 : PState := { lexFuel := n + 1, tok := default, tokSrc := text, rest := text,
                       toks := #[], comments := #[], asis := #[] }
  loadNext s0 text 0

def parseFuel (text : List Char) : Nat := 16 * text.length + 64

/-- Program (§14) -/
def parseProgramP (fuel : Nat) : P Val := do
  let body ← parseSourceElements fuel
  let t ← peek
  if t.cls == .eof then pure (nChildren "ES5Program" body)
  else failTok "unexpected-token"

def parseProgram (text : List Char) : Except (Nat × String) ParseOut :=
  match parseProgramP (parseFuel text) (initState text) with
  | .ok tree s => .ok { tree := tree, tokens := s.toks, comments := s.comments, asis := s.asis }
  | .err o m => .error (o, m)

/-- stand-alone tokenisation with an explicit goal per token that starts with `/`
    (`goals`: consumed one per such token; `true` = InputElementRegExp; missing entries = Div) -/
def lexAll : Nat → Nat → List Char → Nat → List Bool → Array Token → Array Comment →
    Except (Nat × String) (Array Token × Array Comment)
  | 0, _, _, off, _, _, _ => .error (off, "internal-fuel-exhausted")
  | fuel + 1, lf, s, off, goals, toks, cms =>
    match skipTrivia lf s off false [] with
    | .error e => .error e
    | .ok tr =>
      let cms := tr.comments.foldr (fun c acc => acc.push c) cms
      let slash := match tr.rest with | '/' :: _ => true | _ => false
      let goal := if slash && goals.head? == some true then Goal.regexp else Goal.div
      let goals := if slash then goals.drop 1 else goals
      let (t, rest) := lexAt lf goal tr.rest tr.off tr.nl
      if t.cls == .eof then .ok (toks, cms)
      else if t.cls == .error then .error (t.off, t.text)
      else lexAll fuel lf rest t.stop goals (toks.push t) cms

end CalmVerif.Spec.Es5
