/-
What "a faithful, gap-free segmentation" means (property C06), stated against ECMA-262 5.1 §7
and independent of calmjs.  No Mathlib, no proofs.

  §7.2  WhiteSpace      <TAB> <VT> <FF> <SP> <NBSP> <BOM> and any other Unicode "space separator" (Zs)
  §7.3  LineTerminator  <LF> <CR> <LS> <PS>
  §7.4  Comments        MultiLineComment  `/*` chars `*/` where the chars do not contain `*/`
                        SingleLineComment `//` chars      where the chars contain no LineTerminator
-/
namespace CalmVerif.Spec.LexSeg

/-- Unicode general category Zs (Unicode 6.3 … 15: U+180E left Zs in 6.3) -/
def zs : List Nat :=
  [0x20, 0xA0, 0x1680, 0x2000, 0x2001, 0x2002, 0x2003, 0x2004, 0x2005, 0x2006, 0x2007, 0x2008, 0x2009, 0x200A,
   0x202F, 0x205F, 0x3000]

/-- §7.2 -/
def isWhiteSpace (c : Char) : Bool :=
  [0x09, 0x0B, 0x0C, 0x20, 0xA0, 0xFEFF].contains c.toNat || zs.contains c.toNat

/-- §7.3 -/
def isLineTerminator (c : Char) : Bool :=
  [0x0A, 0x0D, 0x2028, 0x2029].contains c.toNat

/-- the two characters `*/` occur nowhere in `l` -/
def NoStarSlash (l : List Char) : Prop := ∀ i, ¬ (l[i]? = some '*' ∧ l[i + 1]? = some '/')

/-- §7.4 MultiLineComment: `/*` body `*/`, where `*/` does not occur in `body*`
    (i.e. the comment ends at the FIRST `*/` after the opening `/*`) -/
def IsBlockComment (s : List Char) : Prop :=
  ∃ body, s = '/' :: '*' :: (body ++ ['*', '/']) ∧ NoStarSlash (body ++ ['*'])

/-- §7.4 SingleLineComment: `//` followed by characters none of which is a LineTerminator -/
def IsLineComment (s : List Char) : Prop :=
  ∃ body, s = '/' :: '/' :: body ∧ ∀ c ∈ body, isLineTerminator c = false

/-- a stretch of input that contains no token: white space, line terminators and — when `comments` — comments -/
inductive GapText (comments : Bool) : List Char → Prop where
  | nil : GapText comments []
  | space (c : Char) (rest : List Char) :
      isWhiteSpace c = true ∨ isLineTerminator c = true → GapText comments rest → GapText comments (c :: rest)
  | comment (c rest : List Char) :
      comments = true → IsBlockComment c ∨ IsLineComment c → GapText comments rest → GapText comments (c ++ rest)

/-- `text[a:b]` -/
def slice (text : List Char) (a b : Nat) : List Char := (text.drop a).take (b - a)

/-- `Segmented comments text pos toks`: from offset `pos` on, `text` is exactly the tokens `toks`
    (offset, lexeme) in this order, separated, preceded and followed by gaps:
    each token starts at or after the end of the previous one, its lexeme is non-empty and equals the
    input at its offset, and everything in between (and after the last token) is gap text. -/
def Segmented (comments : Bool) (text : List Char) : Nat → List (Nat × List Char) → Prop
  | pos, [] => pos ≤ text.length ∧ GapText comments (text.drop pos)
  | pos, (p, v) :: rest =>
      pos ≤ p ∧ GapText comments (slice text pos p) ∧
      v ≠ [] ∧ p + v.length ≤ text.length ∧ slice text p (p + v.length) = v ∧
      Segmented comments text (p + v.length) rest

end CalmVerif.Spec.LexSeg
