/-
Reference definition of ES5.1 line/column positions (ECMA-262 5.1 §7.3), independent of calmjs.
No Mathlib, no proofs.

LineTerminator code points: <LF> U+000A, <CR> U+000D, <LS> U+2028, <PS> U+2029.
LineTerminatorSequence: <LF> | <CR>[lookahead ∉ <LF>] | <LS> | <PS> | <CR><LF>  — CRLF counts once.

`lineCol text off` = (line, column), both 1-based, of the character at offset `off`:
line   = 1 + the number of line terminator sequences that END at or before `off`,
column = 1 + the distance from the end of the last such sequence (or from the start of the text).
-/
namespace CalmVerif.Spec.LinesRef

def isLineTerminator (c : Char) : Bool :=
  c = '\n' || c = '\r' || c = '\u2028' || c = '\u2029'

/-- end offsets, in increasing order, of all line terminator sequences of `text`, whose first
    character has offset `i` -/
def terminatorEnds : List Char → Nat → List Nat
  | [], _ => []
  | c :: cs, i =>
    if c = '\r' ∧ cs.head? = some '\n' then terminatorEnds cs (i + 1)   -- the <LF> closes the <CR><LF> sequence
    else if isLineTerminator c then (i + 1) :: terminatorEnds cs (i + 1)
    else terminatorEnds cs (i + 1)

def lineCol (text : List Char) (off : Nat) : Nat × Nat :=
  let ends := (terminatorEnds text 0).filter (· ≤ off)
  (1 + ends.length, off - ends.getLastD 0 + 1)

end CalmVerif.Spec.LinesRef
