/-
The canonical Base64-VLQ of the Source Map V3 specification, stated independently
of calmjs (no import of Gen/ or Model/, no Mathlib).

Source Map Revision 3 Proposal, "Base64 VLQ": a value is written as a sequence of
base64 digits; each digit carries 6 bits: bit 5 (value 32) is the continuation
bit, bits 0-4 are payload; payload groups are little-endian (least significant
group first); in the first group bit 0 is the sign (1 = negative) — i.e. the
number actually serialised is  raw = 2·|v| + (1 if v < 0 else 0).  The digit
alphabet is the base64 alphabet of RFC 4648 §4 (Table 1).

The canonical (shortest) form uses the fewest digits: the last digit of a
multi-digit group is not 0, and zero is written `A` (never `B` = "negative zero").
-/
namespace CalmVerif.Spec.VlqV3

/-- RFC 4648 §4, Table 1: value 0..63 ↦ character -/
def alphabet : List Char := [
  'A', 'B', 'C', 'D', 'E', 'F', 'G', 'H', 'I', 'J', 'K', 'L', 'M',
  'N', 'O', 'P', 'Q', 'R', 'S', 'T', 'U', 'V', 'W', 'X', 'Y', 'Z',
  'a', 'b', 'c', 'd', 'e', 'f', 'g', 'h', 'i', 'j', 'k', 'l', 'm',
  'n', 'o', 'p', 'q', 'r', 's', 't', 'u', 'v', 'w', 'x', 'y', 'z',
  '0', '1', '2', '3', '4', '5', '6', '7', '8', '9', '+', '/']

/-- digit value ↦ character.  Only ever applied to values < 64 (`sextets_lt`);
the filler `=` (the RFC's pad character, not in the alphabet) is never produced
(`Props.C10.encode_alphabet`). -/
def b64Char (n : Nat) : Char := alphabet.getD n '='

/-- position of the first occurrence of `c` -/
def indexIn (c : Char) : List Char → Option Nat
  | [] => none
  | a :: as => if c = a then some 0 else (indexIn c as).map (· + 1)

/-- character ↦ digit value; `none` outside the alphabet -/
def b64Val (c : Char) : Option Nat := indexIn c alphabet

/-! ### values -/

/-- sign into the least significant bit -/
def toRaw (v : Int) : Nat := 2 * v.natAbs + (if v < 0 then 1 else 0)

/-- inverse: bit 0 is the sign, the rest the magnitude -/
def ofRaw (r : Nat) : Int := if r % 2 = 1 then -((r / 2 : Nat) : Int) else ((r / 2 : Nat) : Int)

/-! ### encoder -/

/-- base-32 digits of `n`, least significant first, at least one digit, no
superfluous most-significant zero digit.  (`fuel` only makes the recursion
structural; `digits32_eq` in Proofs.VlqSpec is the intended equation
`digits32 n = if n < 32 then [n] else n % 32 :: digits32 (n / 32)`.) -/
def digits32Aux : Nat → Nat → List Nat
  | 0, n => [n]
  | fuel + 1, n => if n < 32 then [n] else n % 32 :: digits32Aux fuel (n / 32)

def digits32 (n : Nat) : List Nat := digits32Aux n n

/-- set the continuation bit (32) on every digit but the last -/
def withCont : List Nat → List Nat
  | [] => []
  | [d] => [d]
  | d :: e :: ds => (d + 32) :: withCont (e :: ds)

/-- the 6-bit digits of one value -/
def sextets (raw : Nat) : List Nat := withCont (digits32 raw)

def encodeRaw (raw : Nat) : List Char := (sextets raw).map b64Char

/-- canonical Base64-VLQ of one integer -/
def encode (v : Int) : List Char := encodeRaw (toRaw v)

/-- a list of integers is the concatenation of the encodings (self-delimiting) -/
def encodeList : List Int → List Char
  | [] => []
  | v :: vs => encode v ++ encodeList vs

/-! ### independent decoder

Written differently from the code under study on purpose: no shifts or masks;
digits are collected per group and evaluated by Horner's rule from the most
significant group down.  Strict: a character outside the alphabet or an
unterminated last group is `none`. -/

def sextets? : List Char → Option (List Nat)
  | [] => some []
  | c :: cs =>
    match b64Val c, sextets? cs with
    | some v, some vs => some (v :: vs)
    | _, _ => none

/-- value of a group given most significant digit first (payload = digit mod 32) -/
def horner (msdFirst : List Nat) : Nat := msdFirst.foldl (fun acc d => acc * 32 + d % 32) 0

/-- `cur` = digits of the current group seen so far, latest (most significant) first -/
def decodeSextets : List Nat → List Nat → Option (List Int)
  | [], [] => some []
  | _ :: _, [] => none
  | cur, d :: ds =>
    if d < 32 then
      match decodeSextets [] ds with
      | some vs => some (ofRaw (horner (d :: cur)) :: vs)
      | none => none
    else decodeSextets (d :: cur) ds

def decode (s : List Char) : Option (List Int) :=
  match sextets? s with
  | some ds => decodeSextets [] ds
  | none => none

/-! ### canonical strings (a predicate on the string alone) -/

/-- scan; `mid = true` while inside a group (the previous digit had the
continuation bit).  Requirements: every character is in the alphabet; the string
does not end inside a group; a group of two or more digits does not end in the
digit 0 (`A`); a one-digit group is not 1 (`B`, "negative zero"). -/
def canonicalFrom : Bool → List Char → Bool
  | mid, [] => !mid
  | mid, c :: cs =>
    match b64Val c with
    | none => false
    | some v =>
      if v ≥ 32 then canonicalFrom true cs
      else (if mid then v != 0 else v != 1) && canonicalFrom false cs

def Canonical (s : List Char) : Prop := canonicalFrom false s = true

instance : DecidablePred Canonical := fun s => inferInstanceAs (Decidable (canonicalFrom false s = true))

/-! ### well-formed mappings structures

`mappings` = list of lines, line = list of segments, segment = list of integers.
The textual form `seg,seg;seg,…` cannot represent a structure with no line at all
(the empty string already is one empty line) nor an empty segment (an empty piece
between commas is ignored by decoders). -/

def WFMappings (m : List (List (List Int))) : Prop :=
  m ≠ [] ∧ ∀ line ∈ m, ∀ seg ∈ line, seg ≠ []

instance : DecidablePred WFMappings := fun m => by unfold WFMappings; exact inferInstance

end CalmVerif.Spec.VlqV3
