/-
ECMA-262 5.1 §7.3 line terminators and line/column counting (independent of calmjs).

LineTerminator code points: LF (U+000A), CR (U+000D), LS (U+2028), PS (U+2029).
LineTerminatorSequence: LF | CR [lookahead ∉ LF] | LS | PS | CR LF   — CR LF counts as ONE terminator.

`lineCol text off` is the 1-based (line, column) of the character offset `off`:
  line   = 1 + number of LineTerminatorSequences that end at or before `off`
  column = 1 + (off − offset just after the last such sequence)
An offset pointing at the LF of a CR LF pair is still on the line of the CR.
Offsets are counted in characters of the `List Char` (Unicode scalar values).
-/
namespace CalmVerif.Spec.Lines

def isLineTerminator (c : Char) : Bool :=
  c == '\n' || c == '\r' || c.toNat == 0x2028 || c.toNat == 0x2029

/-- `go text pos off line start`: `pos` = offset of the head of `text`, `line`/`start` = current
    line number and the offset at which it begins. -/
def lineColAux : List Char → Nat → Nat → Nat → Nat → Nat × Nat
  | [], _, off, line, start => (line, off - start + 1)
  | '\r' :: '\n' :: rest, pos, off, line, start =>
    -- CR LF is one terminator, ending at pos+2
    if off ≤ pos + 1 then (line, off - start + 1)
    else lineColAux rest (pos + 2) off (line + 1) (pos + 2)
  | c :: rest, pos, off, line, start =>
    if off ≤ pos then (line, off - start + 1)
    else if isLineTerminator c then lineColAux rest (pos + 1) off (line + 1) (pos + 1)
    else lineColAux rest (pos + 1) off line start

/-- 1-based line and column of offset `off` in `text` (offsets past the end are counted on the last line) -/
def lineCol (text : List Char) (off : Nat) : Nat × Nat := lineColAux text 0 off 1 0

/-- offsets at which lines start (first entry 0), in increasing order -/
def lineStartsAux : List Char → Nat → List Nat
  | [], _ => []
  | '\r' :: '\n' :: rest, pos => (pos + 2) :: lineStartsAux rest (pos + 2)
  | c :: rest, pos =>
    if isLineTerminator c then (pos + 1) :: lineStartsAux rest (pos + 1)
    else lineStartsAux rest (pos + 1)

def lineStarts (text : List Char) : List Nat := 0 :: lineStartsAux text 0

/-- `lineCol` computed from a precomputed `lineStarts` list: the last start ≤ off -/
def lineColFromAux : List Nat → Nat → Nat → Nat → Nat × Nat
  | [], off, line, start => (line, off - start + 1)
  | s :: rest, off, line, start =>
    if s ≤ off then lineColFromAux rest off (line + 1) s else (line, off - start + 1)

def lineColFrom (starts : List Nat) (off : Nat) : Nat × Nat :=
  match starts with
  | [] => (1, off + 1)
  | s :: rest => lineColFromAux rest off 1 s

/-- number of line terminator sequences in the text -/
def countLines (text : List Char) : Nat := (lineStartsAux text 0).length

end CalmVerif.Spec.Lines
