/-
Source Map Revision 3 — reference decoder, written from the specification
("Source Map Revision 3 Proposal", section "Proposed Format", field `mappings`):

  * the `mappings` string is a list of groups separated by `;`, one group per line of the
    generated file; each group is a list of segments separated by `,`;
  * a segment is made of 1, 4 or 5 variable-length fields, each a base64 VLQ:
      1. the zero-based starting column of the line in the generated code; "if this is the
         first field of the first segment, or the first segment following a new generated
         line (`;`), then this field holds the whole base 64 VLQ.  Otherwise, this field
         contains a base 64 VLQ that is relative to the previous occurrence of this field";
      2. if present, a zero-based index into the `sources` list, relative to the previous
         occurrence of this field, unless this is the first occurrence of this field, in
         which case the whole value is represented;
      3. if present, the zero-based starting line in the original source, relative to the
         previous occurrence of this field (ditto for the first occurrence); always present
         if there is a source field;
      4. if present, the zero-based starting column of the line in the source represented,
         relative to the previous occurrence of this field; always present if there is a
         source field;
      5. if present, the zero-based index into the `names` list associated with this
         segment, relative to the previous occurrence of this field.
  * base64 VLQ: each base64 digit carries 6 bits; bit 5 (value 32) is the continuation bit,
    bits 0..4 the data, least significant group first; the least significant bit of the
    assembled value is the sign.

Hence field 1 restarts from 0 on every line, whereas fields 2–5 keep running totals over
the whole string ("previous occurrence" ignores line boundaries).

This file is independent of the calmjs model (imports nothing from `Model/`).
It also holds the line/column helpers used to say where a fragment "was written":
`endPos` counts LF, CR and CRLF (as one) as line delimiters.
-/
namespace CalmVerif.Spec.SourceMapV3

/-! ### absolute entries -/

/-- one decoded segment: absolute generated column, optionally the absolute
(source index, source line, source column), optionally the absolute name index
(a name is only possible on a segment that has a source) -/
structure Entry where
  genCol : Int
  src : Option (Int × Int × Int)
  name : Option Int
  deriving DecidableEq, Repr

/-- running totals of fields 2–5 (carried across lines) -/
structure Totals where
  src : Int
  line : Int
  col : Int
  name : Int
  deriving DecidableEq, Repr

def Totals.zero : Totals := ⟨0, 0, 0, 0⟩

/-- decode one segment given the running totals and the generated column reached so far on
this line; `none` if the segment does not have 1, 4 or 5 fields -/
def decodeSeg (t : Totals) (g : Int) : List Int → Option (Totals × Int × Entry)
  | [a] => some (t, g + a, ⟨g + a, none, none⟩)
  | [a, b, c, d] =>
    let t' : Totals := { t with src := t.src + b, line := t.line + c, col := t.col + d }
    some (t', g + a, ⟨g + a, some (t'.src, t'.line, t'.col), none⟩)
  | [a, b, c, d, e] =>
    let t' : Totals := ⟨t.src + b, t.line + c, t.col + d, t.name + e⟩
    some (t', g + a, ⟨g + a, some (t'.src, t'.line, t'.col), some t'.name⟩)
  | _ => none

/-- decode the segments of one line; returns final totals, final generated column, entries -/
def decodeLine (t : Totals) (g : Int) : List (List Int) → Option (Totals × Int × List Entry)
  | [] => some (t, g, [])
  | s :: rest =>
    match decodeSeg t g s with
    | none => none
    | some (t1, g1, e) =>
      match decodeLine t1 g1 rest with
      | none => none
      | some (t2, g2, es) => some (t2, g2, e :: es)

/-- decode all lines; the generated column restarts from 0 on each line -/
def decodeLines (t : Totals) : List (List (List Int)) → Option (Totals × List (List Entry))
  | [] => some (t, [])
  | l :: rest =>
    match decodeLine t 0 l with
    | none => none
    | some (t1, _, es) =>
      match decodeLines t1 rest with
      | none => none
      | some (t2, ess) => some (t2, es :: ess)

/-- the decoder on the relative-integer form of `mappings` -/
def decode (m : List (List (List Int))) : Option (List (List Entry)) :=
  (decodeLines Totals.zero m).map (·.2)

/-! ### look-up -/

/-- the last entry (in list order) whose generated column is `≤ c`; on a line whose
columns are non-decreasing this is the nearest preceding segment -/
def findPreceding (c : Int) : List Entry → Option Entry
  | [] => none
  | e :: rest =>
    match findPreceding c rest with
    | some e' => some e'
    | none => if e.genCol ≤ c then some e else none

/-- the entry starting exactly at generated column `c` -/
def exactAt (line : List Entry) (c : Int) : Option Entry :=
  line.find? (fun e => e.genCol == c)

/-- original position of generated column `c` by the nearest preceding segment of the same
line, the column offset being added ("linear interpolation");
`none` if there is no preceding segment or it is a 1-field (unmapped) segment -/
def interp (line : List Entry) (c : Int) : Option (Int × Int × Int) :=
  match findPreceding c line with
  | none => none
  | some e =>
    match e.src with
    | none => none
    | some (s, l, k) => some (s, l, k + (c - e.genCol))

def lineAt (m : List (List Entry)) (l : Nat) : List Entry := m.getD l []

/-! ### the `mappings` string -/

/-- RFC 4648 base64 alphabet -/
def b64Value (c : Char) : Option Nat :=
  if 'A' ≤ c ∧ c ≤ 'Z' then some (c.toNat - 65)
  else if 'a' ≤ c ∧ c ≤ 'z' then some (c.toNat - 97 + 26)
  else if '0' ≤ c ∧ c ≤ '9' then some (c.toNat - 48 + 52)
  else if c = '+' then some 62
  else if c = '/' then some 63
  else none

/-- sign in the least significant bit -/
def fromVlqSigned (v : Nat) : Int :=
  if v % 2 = 1 then - ((v / 2 : Nat) : Int) else ((v / 2 : Nat) : Int)

/-- decode the base64-VLQ fields of one segment; `acc`/`shift` describe the value under
construction (`shift` = number of 5-bit groups already read); `none` on a character outside
the alphabet or a segment ending inside a value -/
def vlqFields : List Char → Nat → Nat → Bool → Option (List Int)
  | [], _, _, pending => if pending then none else some []
  | c :: cs, acc, shift, _ =>
    match b64Value c with
    | none => none
    | some d =>
      let acc' := acc + (d % 32) * 32 ^ shift
      if d ≥ 32 then vlqFields cs acc' (shift + 1) true
      else (vlqFields cs 0 0 false).map (fun r => fromVlqSigned acc' :: r)

def splitOnChar (sep : Char) : List Char → List (List Char)
  | [] => [[]]
  | c :: cs =>
    match splitOnChar sep cs with
    | [] => [[]]      -- unreachable
    | l :: ls => if c = sep then [] :: l :: ls else (c :: l) :: ls

def allSome {α : Type} : List (Option α) → Option (List α)
  | [] => some []
  | none :: _ => none
  | some a :: r => (allSome r).map (a :: ·)

/-- one line of the string: `""` has no segment; otherwise segments separated by `,`,
none of which may be empty -/
def lineSegments (l : List Char) : Option (List (List Int)) :=
  if l = [] then some []
  else allSome ((splitOnChar ',' l).map fun s => if s = [] then none else vlqFields s 0 0 false)

def stringToRelative (s : List Char) : Option (List (List (List Int))) :=
  allSome ((splitOnChar ';' s).map lineSegments)

/-- the decoder on the `mappings` string -/
def decodeString (s : List Char) : Option (List (List Entry)) :=
  match stringToRelative s with
  | none => none
  | some m => decode m

/-! ### where text is written: LF, CR and CRLF (one delimiter) -/

/-- position (line, column), both zero-based, reached after writing `t` starting from
line `l`, column `c` -/
def endPosFrom : List Char → Nat → Nat → Nat × Nat
  | [], l, c => (l, c)
  | [x], l, c => if x = '\r' ∨ x = '\n' then (l + 1, 0) else (l, c + 1)
  | x :: y :: rest, l, c =>
    if x = '\r' ∧ y = '\n' then endPosFrom rest (l + 1) 0
    else if x = '\r' ∨ x = '\n' then endPosFrom (y :: rest) (l + 1) 0
    else endPosFrom (y :: rest) l (c + 1)

def endPos (t : List Char) : Nat × Nat := endPosFrom t 0 0

/-- number of lines of a text = number of LF/CR/CRLF delimiters + 1 -/
def lineCount (t : List Char) : Nat := (endPos t).1 + 1

/-- (line, column) at which the first character of the `i`-th text is written when the
texts are written one after the other -/
def genPos (texts : List (List Char)) (i : Nat) : Nat × Nat :=
  endPos (texts.take i).flatten

end CalmVerif.Spec.SourceMapV3
