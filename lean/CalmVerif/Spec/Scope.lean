/-
ES5.1 §10 binding resolution for programs without `with` and without direct `eval`, over trees in
calmjs's node vocabulary (`Val`, the convention of harness/treedump.py / Spec.Es5Parse).
Independent of calmjs.parse.handlers.obfuscation and of Model/Obfuscate.lean.

What the clauses say
  §10.2.1.1, §10.3  identifier resolution walks the chain of lexical environments outwards.
  §10.4.1, §10.5    global code: every VariableDeclaration and FunctionDeclaration of the program (not
                    inside a nested function) creates a binding in the global environment.
  §10.4.3, §10.5    function code: one new declarative environment holding the formal parameters, the
                    FunctionDeclarations of the body, `arguments` (unless a parameter / function of that
                    name exists) and every `var` of the body, including those nested in blocks,
                    `for (var …)`, `for (var … in …)`, `try`/`catch`/`finally` (hoisting) — but not those
                    of nested functions.
  §13               FunctionExpression with an Identifier: an extra declarative environment between the
                    enclosing one and the function's own, holding only that Identifier (visible inside the
                    function only).  A FunctionDeclaration binds its Identifier in the ENCLOSING
                    variable environment.
  §11.1.5           getter / setter bodies are function code (a setter has one parameter).
  §12.14            `catch (e) Block`: a new declarative environment holding `e`, in force for the Block
                    only.  A `var e = 1` inside that Block declares `e` in the enclosing FUNCTION's variable
                    environment (hoisting) while the initialiser assigns through the lexical chain, i.e.
                    to the catch parameter (§12.2: "the variable is resolved as in 11.1.2 at the time the
                    VariableDeclaration is executed").  Such an occurrence therefore has TWO binders.
  §12.12            labels form their own namespace, per function body (label sets do not cross
                    function boundaries); `break L` / `continue L` refer to the enclosing labelled statement.
  deviation granted by the property text: a FunctionDeclaration in statement position is treated as hoisted to
  its function like a `var`.

Result: for every `Identifier` node (property names are `PropIdentifier`, strings or numbers and are
not identifier occurrences) its path and its binder(s):
  global s      declared at top level            var p s   parameter / var / function of the function at p
  self p s      own name of the FuncExpr at p    catch p s parameter of the Catch clause at p
  args p        implicit `arguments` of p        free s    no declaration: a property of the global object
  label p s     the labelled statement at p      nolabel s undefined label
Paths are root first, steps `(attribute, index)` (index 0 for a single child).
-/
import CalmVerif.Util.Val
namespace CalmVerif.Spec.Scope
open CalmVerif

abbrev Step := String × Nat
abbrev Path := List Step

inductive BKind where
  | global | var | self | catch | args | free | label | nolabel
  deriving DecidableEq, Repr, Inhabited

structure Binder where
  kind : BKind
  scope : Path
  name : String
  deriving DecidableEq, Repr, Inhabited

structure Occ where
  path : Path
  name : String
  binders : List Binder
  deriving Repr, Inhabited

def lookupAttr : List (String × Val) → String → Option Val
  | [], _ => none
  | (b, x) :: rest, a => if b == a then some x else lookupAttr rest a

/-- the spelling of an `Identifier` node -/
def identName : Val → Option String
  | .node k as =>
    if k == "Identifier" then
      match lookupAttr as "value" with
      | some (.str s) => some s
      | _ => none
    else none
  | _ => none

def isVarDeclKind (k : String) : Bool := k == "VarDecl" || k == "VarDeclNoIn"
def isFunctionKind (k : String) : Bool :=
  k == "FuncDecl" || k == "FuncExpr" || k == "GetPropAssign" || k == "SetPropAssign"

/-! ### §10.5 hoisting: the names a piece of function (or global) code declares -/

mutual
  def hoistVal : Val → List String
    | .node k as =>
      if k == "FuncDecl" then
        match lookupAttr as "identifier" with
        | some v => (identName v).toList
        | none => []
      else if isFunctionKind k then []
      else
        (if isVarDeclKind k then
          match lookupAttr as "identifier" with
          | some v => (identName v).toList
          | none => []
         else []) ++ hoistAttrs as
    | .list xs => hoistList xs
    | _ => []
  def hoistList : List Val → List String
    | [] => []
    | v :: vs => hoistVal v ++ hoistList vs
  def hoistAttrs : List (String × Val) → List String
    | [] => []
    | (a, v) :: rest => (if Val.isMeta a then [] else hoistVal v) ++ hoistAttrs rest
end

/-- names of a parameter list (`parameters`: a list of Identifiers; `parameter`: one Identifier) -/
def paramNames : Option Val → List String
  | some (.list xs) => xs.filterMap identName
  | some v => (identName v).toList
  | none => []

/-! ### environments -/

/-- one environment record of the lexical chain -/
structure Layer where
  kind : BKind
  scope : Path
  names : List String
  deriving Repr, Inhabited

/-- §10.3.1 identifier resolution -/
def lookupEnv : List Layer → String → Binder
  | [], n => { kind := .free, scope := [], name := n }
  | l :: rest, n =>
    if l.names.contains n then { kind := l.kind, scope := l.scope, name := n }
    else if l.kind == .var && n == "arguments" then { kind := .args, scope := l.scope, name := n }
    else lookupEnv rest n

def lookupLabel : List (String × Path) → String → Binder
  | [], n => { kind := .nolabel, scope := [], name := n }
  | (l, p) :: rest, n => if l == n then { kind := .label, scope := p, name := n } else lookupLabel rest n

structure Ctx where
  env : List Layer
  /-- the variable environment `var` and function declarations go to: global or a function -/
  varKind : BKind
  varScope : Path
  labels : List (String × Path)
  /-- this value is the `item` of a for-in statement (its VarDecl is assigned to) -/
  forInItem : Bool
  deriving Repr, Inhabited

/-- what an attribute of a node is, for scoping -/
inductive Role where
  | funcDeclName      -- declared in the enclosing variable environment
  | selfName          -- §13 own name of a function expression
  | params
  | catchParam
  | varName (assigned : Bool)
  | labelDecl
  | labelRef
  | inner             -- evaluated in the environment the node sets up
  | outer             -- evaluated in the environment of the node itself
  | forInItem
  | skip
  deriving Repr, Inhabited

def roleOf (kind attr : String) (hasInit forIn : Bool) : Role :=
  if Val.isMeta attr then .skip
  else if kind == "FuncDecl" then
    if attr == "identifier" then .funcDeclName
    else if attr == "parameters" then .params
    else .inner
  else if kind == "FuncExpr" then
    if attr == "identifier" then .selfName
    else if attr == "parameters" then .params
    else .inner
  else if kind == "GetPropAssign" then
    if attr == "prop_name" then .outer else .inner
  else if kind == "SetPropAssign" then
    if attr == "prop_name" then .outer
    else if attr == "parameter" then .params
    else .inner
  else if kind == "Catch" then
    if attr == "identifier" then .catchParam else .inner
  else if isVarDeclKind kind then
    if attr == "identifier" then .varName (hasInit || forIn) else .outer
  else if kind == "Label" then
    if attr == "identifier" then .labelDecl else .inner
  else if kind == "Break" || kind == "Continue" then
    if attr == "identifier" then .labelRef else .outer
  else if kind == "ForIn" then
    if attr == "item" then .forInItem else .outer
  else .outer

/-- the environment a node sets up for its `inner` attributes; `p` = path of the node -/
def enter (ctx : Ctx) (p : Path) (kind : String) (as : List (String × Val)) : Ctx :=
  if isFunctionKind kind then
    let params := paramNames (if kind == "SetPropAssign" then lookupAttr as "parameter" else lookupAttr as "parameters")
    let body := match lookupAttr as "elements" with
      | some v => hoistVal v
      | none => []
    let own : Layer := { kind := .var, scope := p, names := params ++ body }
    let selfLayer : List Layer :=
      if kind == "FuncExpr" then
        match lookupAttr as "identifier" with
        | some v => match identName v with
          | some n => [{ kind := .self, scope := p, names := [n] }]
          | none => []
        | none => []
      else []
    { env := own :: (selfLayer ++ ctx.env), varKind := .var, varScope := p, labels := [], forInItem := false }
  else if kind == "Catch" then
    match lookupAttr as "identifier" with
    | some v => match identName v with
      | some n => { ctx with env := { kind := .catch, scope := p, names := [n] } :: ctx.env }
      | none => ctx
    | none => ctx
  else if kind == "Label" then
    match lookupAttr as "identifier" with
    | some v => match identName v with
      | some n => { ctx with labels := (n, p) :: ctx.labels }
      | none => ctx
    | none => ctx
  else ctx

def isPresent : Option Val → Bool
  | some .none => false
  | some _ => true
  | none => false

/-- occurrences of the Identifier(s) directly in `v` (an Identifier or a list of them) with binder(s) `f name` -/
def declOccs (rp : Path) (attr : String) (v : Val) (f : String → List Binder) : List Occ :=
  match v with
  | .list xs =>
    (xs.zipIdx).filterMap (fun (x, i) =>
      (identName x).map (fun n => { path := (rp ++ [(attr, i)]), name := n, binders := f n }))
  | x => ((identName x).map (fun n => { path := (rp ++ [(attr, 0)]), name := n, binders := f n })).toList

mutual
  /-- occurrences in value `v` at path `p` -/
  def resolveVal (ctx : Ctx) (p : Path) : Val → List Occ
    | .node k as =>
      if k == "Identifier" then
        match identName (.node k as) with
        | some n => [{ path := p, name := n, binders := [lookupEnv ctx.env n] }]
        | none => []
      else
        let ctx0 := { ctx with forInItem := false }
        resolveAttrs ctx0 (enter ctx0 p k as) p k (isPresent (lookupAttr as "initializer")) ctx.forInItem as
    | .list xs => resolveList ctx p "" 0 xs
    | _ => []
  def resolveList (ctx : Ctx) (p : Path) (attr : String) : Nat → List Val → List Occ
    | _, [] => []
    | i, v :: vs => resolveVal ctx (p ++ [(attr, i)]) v ++ resolveList ctx p attr (i + 1) vs
  /-- the attributes of a node of kind `kind` at path `p`; `outer` / `inner` = environment of the node / set up by it -/
  def resolveAttrs (outer inner : Ctx) (p : Path) (kind : String) (hasInit forIn : Bool) :
      List (String × Val) → List Occ
    | [] => []
    | (a, v) :: rest =>
      (match roleOf kind a hasInit forIn with
        | .skip => []
        | .funcDeclName =>
          declOccs p a v (fun n => [{ kind := outer.varKind, scope := outer.varScope, name := n }])
        | .selfName => declOccs p a v (fun n => [{ kind := .self, scope := p, name := n }])
        | .params => declOccs p a v (fun n => [{ kind := .var, scope := p, name := n }])
        | .catchParam => declOccs p a v (fun n => [{ kind := .catch, scope := p, name := n }])
        | .varName assigned =>
          declOccs p a v (fun n =>
            let d : Binder := { kind := outer.varKind, scope := outer.varScope, name := n }
            let r := lookupEnv outer.env n
            if assigned && r != d then [d, r] else [d])
        | .labelDecl => declOccs p a v (fun n => [{ kind := .label, scope := p, name := n }])
        | .labelRef => declOccs p a v (fun n => [lookupLabel outer.labels n])
        | .forInItem =>
          match v with
          | .list xs => resolveList outer p a 0 xs
          | x => resolveVal { outer with forInItem := true } (p ++ [(a, 0)]) x
        | .inner =>
          match v with
          | .list xs => resolveList inner p a 0 xs
          | x => resolveVal inner (p ++ [(a, 0)]) x
        | .outer =>
          match v with
          | .list xs => resolveList outer p a 0 xs
          | x => resolveVal outer (p ++ [(a, 0)]) x)
      ++ resolveAttrs outer inner p kind hasInit forIn rest
end

/-- §10.4.1 the global environment of a program -/
def globalCtx (program : Val) : Ctx :=
  { env := [{ kind := .global, scope := [], names := hoistVal program }],
    varKind := .global, varScope := [], labels := [], forInItem := false }

/-- binding resolution of a whole program -/
def resolveProgram (program : Val) : List Occ := resolveVal (globalCtx program) [] program

/-! ### programs outside the property's scope -/

mutual
  /-- the program uses `with`, or calls `eval` by that name (a direct eval, §15.1.2.1.1) -/
  def usesWithOrEval : Val → Bool
    | .node k as =>
      k == "With"
      || (k == "FunctionCall" && (match lookupAttr as "identifier" with
            | some v => identName v == some "eval"
            | none => false))
      || usesAttrs as
    | .list xs => usesList xs
    | _ => false
  def usesList : List Val → Bool
    | [] => false
    | v :: vs => usesWithOrEval v || usesList vs
  def usesAttrs : List (String × Val) → Bool
    | [] => false
    | (a, v) :: rest => (!Val.isMeta a && usesWithOrEval v) || usesAttrs rest
end

end CalmVerif.Spec.Scope
