/-
Reference lexer for ECMA-262 5.1 clause 7 (written from the specification; independent of calmjs).

Text is a `List Char`; every scanner works on a suffix of the text and is total: loops are
structural recursion on an explicit fuel (the callers pass `text.length + 1`, which always suffices
because every iteration consumes at least one character).

  §7.2  WhiteSpace       TAB VT FF SP NBSP BOM and any other category Zs
  §7.3  LineTerminator   LF CR LS PS
  §7.4  Comments         a MultiLineComment that contains a LineTerminator counts as a LineTerminator
  §7.6  IdentifierName   UnicodeLetter $ _ \uXXXX; parts add Mn Mc Nd Pc ZWNJ ZWJ
  §7.6.1 ReservedWord    Keyword, FutureReservedWord (non-strict list), null, true, false
  §7.7  Punctuator / DivPunctuator
  §7.8.3 NumericLiteral  decimal, hex, and (Annex B.1.1) legacy octal 0[0-7]+;
                         the next source character must not be an IdentifierStart or DecimalDigit
  §7.8.4 StringLiteral   incl. LineContinuation, and (Annex B.1.2) OctalEscapeSequence
  §7.8.5 RegularExpressionLiteral (lexical grammar only; flags = IdentifierPart*)

The goal symbol (InputElementDiv / InputElementRegExp) is an argument: the parser chooses it.
-/
import CalmVerif.Spec.UnicodeCat
import CalmVerif.Spec.Lines

namespace CalmVerif.Spec.Es5

open CalmVerif.Spec

/-! ### character classes -/

def isLineTerminator (c : Char) : Bool := Lines.isLineTerminator c

/-- §7.2 -/
def isWhiteSpace (c : Char) : Bool :=
  let n := c.toNat
  n == 0x09 || n == 0x0B || n == 0x0C || n == 0x20 || n == 0xA0 || n == 0xFEFF ||
  (n > 0x7F && UnicodeCat.isZs n)

def isDecimalDigit (c : Char) : Bool := '0' ≤ c && c ≤ '9'
def isOctalDigit (c : Char) : Bool := '0' ≤ c && c ≤ '7'
def isHexDigit (c : Char) : Bool :=
  ('0' ≤ c && c ≤ '9') || ('a' ≤ c && c ≤ 'f') || ('A' ≤ c && c ≤ 'F')

def hexVal (c : Char) : Nat :=
  if '0' ≤ c && c ≤ '9' then c.toNat - 48
  else if 'a' ≤ c && c ≤ 'f' then c.toNat - 87
  else if 'A' ≤ c && c ≤ 'F' then c.toNat - 55
  else 0

/-- §7.6 UnicodeLetter | $ | _   (the `\` UnicodeEscapeSequence alternative is handled by the scanner) -/
def isIdStartChar (c : Char) : Bool :=
  let n := c.toNat
  ('a' ≤ c && c ≤ 'z') || ('A' ≤ c && c ≤ 'Z') || c == '$' || c == '_' ||
  (n > 0x7F && UnicodeCat.isLetter n)

/-- §7.6 IdentifierPart without the escape alternative -/
def isIdPartChar (c : Char) : Bool :=
  let n := c.toNat
  isIdStartChar c || isDecimalDigit c ||
  (n > 0x7F && (UnicodeCat.isContinueExtra n || n == 0x200C || n == 0x200D))

/-! ### reserved words (§7.6.1) -/

def keywords : List String :=
  ["break", "case", "catch", "continue", "debugger", "default", "delete", "do", "else", "finally",
   "for", "function", "if", "in", "instanceof", "new", "return", "switch", "this", "throw", "try",
   "typeof", "var", "void", "while", "with"]

/-- FutureReservedWord outside strict mode code -/
def futureReserved : List String :=
  ["class", "const", "enum", "export", "extends", "import", "super"]

def literalWords : List String := ["null", "true", "false"]

def isReservedWord (s : String) : Bool :=
  keywords.contains s || futureReserved.contains s || literalWords.contains s

/-! ### tokens -/

inductive TokClass where
  | ident | keyword | punct | number | string | regex | eof | error
  deriving DecidableEq, Repr, Inhabited

def TokClass.name : TokClass → String
  | .ident => "Ident" | .keyword => "Keyword" | .punct => "Punct" | .number => "Number"
  | .string => "String" | .regex => "Regex" | .eof => "EOF" | .error => "Error"

structure Token where
  cls : TokClass
  /-- source spelling (for `error`: the reason) -/
  text : String
  /-- offset of the first character -/
  off : Nat
  /-- offset just after the last character -/
  stop : Nat
  /-- a LineTerminator (possibly inside a MultiLineComment) occurs between the previous token and this one -/
  nlBefore : Bool
  /-- identifier spelled with a `\uXXXX` escape whose decoded spelling is a ReservedWord
      (an IdentifierName, but neither an Identifier nor a keyword) -/
  escReserved : Bool := false
  deriving Repr, Inhabited

inductive CommentKind where
  | line | block
  deriving DecidableEq, Repr, Inhabited

structure Comment where
  kind : CommentKind
  text : String
  off : Nat
  deriving Repr, Inhabited

inductive Goal where
  | div | regexp
  deriving DecidableEq, Repr, Inhabited

/-- result of scanning one lexical element from a suffix: consumed characters (in order) and the rest -/
inductive Scan where
  | ok (chars : List Char) (rest : List Char)
  | err (relOff : Nat) (msg : String)
  deriving Inhabited

/-! ### white space and comments (§7.2–7.4) -/

/-- body of a SingleLineComment: up to, not including, the next LineTerminator.
    Returns (reversed body, rest). -/
def scanLineComment : List Char → List Char → List Char × List Char
  | [], acc => (acc, [])
  | c :: rest, acc => if isLineTerminator c then (acc, c :: rest) else scanLineComment rest (c :: acc)

/-- body of a MultiLineComment after `/*`: up to and including the first `*/`.
    Returns (reversed body incl. `*/`, rest, contains a LineTerminator) or none if unterminated. -/
def scanBlockComment : List Char → List Char → Bool → Option (List Char × List Char × Bool)
  | [], _, _ => none
  | '*' :: '/' :: rest, acc, nl => some ('/' :: '*' :: acc, rest, nl)
  | c :: rest, acc, nl => scanBlockComment rest (c :: acc) (nl || isLineTerminator c)

structure Trivia where
  rest : List Char
  off : Nat
  nl : Bool
  comments : List Comment   -- reversed

/-- skip WhiteSpace, LineTerminators and Comments. `off` is the offset of the head of the suffix. -/
def skipTrivia : Nat → List Char → Nat → Bool → List Comment → Except (Nat × String) Trivia
  | 0, s, off, nl, cs => .ok ⟨s, off, nl, cs⟩
  | fuel + 1, s, off, nl, cs =>
    match s with
    | [] => .ok ⟨[], off, nl, cs⟩
    | '/' :: '/' :: rest =>
      let (body, rest') := scanLineComment rest []
      let txt := '/' :: '/' :: body.reverse
      skipTrivia fuel rest' (off + txt.length) nl (⟨.line, String.ofList txt, off⟩ :: cs)
    | '/' :: '*' :: rest =>
      match scanBlockComment rest [] false with
      | none => .error (off, "unterminated-comment")
      | some (body, rest', hasNl) =>
        let txt := '/' :: '*' :: body.reverse
        skipTrivia fuel rest' (off + txt.length) (nl || hasNl) (⟨.block, String.ofList txt, off⟩ :: cs)
    | c :: rest =>
      if isLineTerminator c then skipTrivia fuel rest (off + 1) true cs
      else if isWhiteSpace c then skipTrivia fuel rest (off + 1) nl cs
      else .ok ⟨s, off, nl, cs⟩

/-! ### identifiers (§7.6) -/

/-- `\uXXXX` at the head: the escaped character and the rest -/
def unicodeEscape : List Char → Option (Char × List Char)
  | '\\' :: 'u' :: a :: b :: c :: d :: rest =>
    if isHexDigit a && isHexDigit b && isHexDigit c && isHexDigit d then
      some (Char.ofNat (((hexVal a * 16 + hexVal b) * 16 + hexVal c) * 16 + hexVal d), rest)
    else none
  | _ => none

structure IdentScan where
  /-- source spelling, reversed -/
  raw : List Char
  /-- decoded spelling (escapes replaced), reversed -/
  decoded : List Char
  rest : List Char
  hasEscape : Bool

/-- IdentifierPart*.  An escape must denote a character allowed at that position (§7.6). -/
def scanIdentParts : Nat → List Char → IdentScan → Except String IdentScan
  | 0, _, st => .ok st
  | fuel + 1, s, st =>
    match s with
    | [] => .ok { st with rest := [] }
    | c :: rest =>
      if c == '\\' then
        match unicodeEscape s with
        | some (ch, rest') =>
          if isIdPartChar ch then
            scanIdentParts fuel rest'
              { raw := (s.take 6).reverse ++ st.raw, decoded := ch :: st.decoded, rest := rest', hasEscape := true }
          else .error "escape-not-identifier-part"
        | none => .error "bad-escape-in-identifier"
      else if isIdPartChar c then
        scanIdentParts fuel rest { st with raw := c :: st.raw, decoded := c :: st.decoded, rest := rest }
      else .ok { st with rest := s }

/-- does an IdentifierStart begin here?  (`\` counts: it can only begin an escape) -/
def startsIdent : List Char → Bool
  | [] => false
  | c :: _ => c == '\\' || isIdStartChar c

/-- IdentifierName at the head of `s` (caller checked `startsIdent`) -/
def scanIdentName (fuel : Nat) (s : List Char) : Except String IdentScan :=
  match s with
  | [] => .error "empty"
  | c :: rest =>
    if c == '\\' then
      match unicodeEscape s with
      | some (ch, rest') =>
        if isIdStartChar ch then
          scanIdentParts fuel rest' { raw := (s.take 6).reverse, decoded := [ch], rest := rest', hasEscape := true }
        else .error "escape-not-identifier-start"
      | none => .error "bad-escape-in-identifier"
    else if isIdStartChar c then
      scanIdentParts fuel rest { raw := [c], decoded := [c], rest := rest, hasEscape := false }
    else .error "not-identifier-start"

/-! ### numeric literals (§7.8.3, B.1.1) -/

/-- longest prefix satisfying `p`: (reversed prefix prepended to acc, rest) -/
def takeWhileRev (p : Char → Bool) : List Char → List Char → List Char × List Char
  | [], acc => (acc, [])
  | c :: rest, acc => if p c then takeWhileRev p rest (c :: acc) else (acc, c :: rest)

/-- ExponentPart_opt: `e|E [+-]? DecimalDigits`; only consumed when at least one digit follows -/
def scanExponent (s : List Char) (acc : List Char) : List Char × List Char :=
  match s with
  | e :: rest =>
    if e == 'e' || e == 'E' then
      match rest with
      | sg :: rest2 =>
        if sg == '+' || sg == '-' then
          match rest2 with
          | d :: _ => if isDecimalDigit d then takeWhileRev isDecimalDigit rest2 (sg :: e :: acc) else (acc, s)
          | [] => (acc, s)
        else if isDecimalDigit sg then takeWhileRev isDecimalDigit rest (e :: acc)
        else (acc, s)
      | [] => (acc, s)
    else (acc, s)
  | [] => (acc, s)

/-- NumericLiteral at the head (caller checked: a digit, or `.` followed by a digit).
    Returns (reversed spelling, rest). -/
def scanNumberRaw (s : List Char) : List Char × List Char :=
  match s with
  | '.' :: rest =>
    -- . DecimalDigits ExponentPart_opt
    let (acc, r) := takeWhileRev isDecimalDigit rest ['.']
    scanExponent r acc
  | '0' :: x :: rest =>
    if (x == 'x' || x == 'X') && (match rest with | h :: _ => isHexDigit h | [] => false) then
      -- HexIntegerLiteral
      takeWhileRev isHexDigit rest [x, '0']
    else if isOctalDigit x then
      -- B.1.1 OctalIntegerLiteral :: 0 OctalDigit+
      takeWhileRev isOctalDigit (x :: rest) ['0']
    else if x == '.' then
      let (acc, r) := takeWhileRev isDecimalDigit rest ['.', '0']
      scanExponent r acc
    else scanExponent (x :: rest) ['0']
  | ['0'] => (['0'], [])
  | _ =>
    -- NonZeroDigit DecimalDigits_opt [. DecimalDigits_opt] ExponentPart_opt
    let (acc, r) := takeWhileRev isDecimalDigit s []
    match r with
    | '.' :: r2 =>
      let (acc2, r3) := takeWhileRev isDecimalDigit r2 ('.' :: acc)
      scanExponent r3 acc2
    | _ => scanExponent r acc

def scanNumber (s : List Char) : Scan :=
  let (acc, rest) := scanNumberRaw s
  -- "The source character immediately following a NumericLiteral must not be an IdentifierStart or DecimalDigit."
  match rest with
  | c :: _ =>
    if isDecimalDigit c || startsIdent rest then .err acc.length "identifier-or-digit-directly-after-number"
    else .ok acc.reverse rest
  | [] => .ok acc.reverse rest

/-! ### string literals (§7.8.4, B.1.2) -/

/-- length of the escape sequence following a backslash (the backslash itself not counted),
    `none` if no alternative of EscapeSequence / LineContinuation matches -/
def escapeLen : List Char → Option Nat
  | [] => none
  | c :: rest =>
    if c == '\r' then (match rest with | '\n' :: _ => some 2 | _ => some 1)       -- LineContinuation
    else if isLineTerminator c then some 1                                         -- LineContinuation
    else if c == 'x' then
      match rest with
      | a :: b :: _ => if isHexDigit a && isHexDigit b then some 3 else none
      | _ => none
    else if c == 'u' then
      match rest with
      | a :: b :: d :: e :: _ =>
        if isHexDigit a && isHexDigit b && isHexDigit d && isHexDigit e then some 5 else none
      | _ => none
    else if isDecimalDigit c then
      -- `0 [lookahead ∉ DecimalDigit]` and B.1.2 OctalEscapeSequence:
      --   OctalDigit [lookahead ∉ DecimalDigit] | ZeroToThree OctalDigit [lookahead ∉ DecimalDigit]
      --   | FourToSeven OctalDigit | ZeroToThree OctalDigit OctalDigit
      let notDigitNext (l : List Char) : Bool := match l with | d :: _ => !isDecimalDigit d | [] => true
      if !isOctalDigit c then none
      else
        let zeroToThree := c ≤ '3'
        match rest with
        | d1 :: rest1 =>
          if isOctalDigit d1 then
            if zeroToThree then
              match rest1 with
              | d2 :: _ =>
                if isOctalDigit d2 then some 3
                else if notDigitNext rest1 then some 2
                else none
              | [] => some 2
            else some 2
          else if notDigitNext rest then some 1
          else none
        | [] => some 1
    else some 1   -- SingleEscapeCharacter | NonEscapeCharacter

/-- characters of a string literal after the opening quote, up to and including the closing quote -/
def scanStringBody : Nat → Char → List Char → List Char → Scan
  | 0, _, _, acc => .err acc.length "unterminated-string"
  | fuel + 1, q, s, acc =>
    match s with
    | [] => .err acc.length "unterminated-string"
    | c :: rest =>
      if c == q then .ok (c :: acc).reverse rest
      else if c == '\\' then
        match escapeLen rest with
        | some n => scanStringBody fuel q (rest.drop n) ((rest.take n).reverse ++ (c :: acc))
        | none => .err acc.length "bad-string-escape"
      else if isLineTerminator c then .err acc.length "line-terminator-in-string"
      else scanStringBody fuel q rest (c :: acc)

/-! ### regular expression literals (§7.8.5) -/

/-- body after the opening `/` up to and including the closing `/` -/
def scanRegexBody : Nat → List Char → Bool → List Char → Scan
  | 0, _, _, acc => .err acc.length "unterminated-regex"
  | fuel + 1, s, inClass, acc =>
    match s with
    | [] => .err acc.length "unterminated-regex"
    | c :: rest =>
      if isLineTerminator c then .err acc.length "line-terminator-in-regex"
      else if c == '\\' then
        match rest with
        | e :: rest' =>
          if isLineTerminator e then .err (acc.length + 1) "line-terminator-in-regex"
          else scanRegexBody fuel rest' inClass (e :: c :: acc)
        | [] => .err acc.length "unterminated-regex"
      else if inClass then scanRegexBody fuel rest (c != ']') (c :: acc)
      else if c == '[' then scanRegexBody fuel rest true (c :: acc)
      else if c == '/' then .ok (c :: acc).reverse rest
      else scanRegexBody fuel rest false (c :: acc)

/-- RegularExpressionLiteral at the head (`s` starts with `/`, not `//` or `/*`) -/
def scanRegex (fuel : Nat) (s : List Char) : Scan :=
  match s with
  | '/' :: rest =>
    match rest with
    | '*' :: _ => .err 1 "regex-first-char"     -- unreachable behind skipTrivia
    | '/' :: _ => .err 1 "empty-regex"          -- unreachable behind skipTrivia
    | _ =>
      match scanRegexBody fuel rest false ['/'] with
      | .err o m => .err o m
      | .ok body rest' =>
        -- RegularExpressionFlags :: IdentifierPart*
        match scanIdentParts fuel rest' { raw := [], decoded := [], rest := rest', hasEscape := false } with
        | .ok st => .ok (body ++ st.raw.reverse) st.rest
        | .error m => .err body.length m
  | _ => .err 0 "not-a-regex"

/-! ### punctuators (§7.7) -/

/-- longest Punctuator / DivPunctuator at the head: its length -/
def punctLen : List Char → Nat
  | '>' :: '>' :: '>' :: '=' :: _ => 4
  | '=' :: '=' :: '=' :: _ => 3
  | '!' :: '=' :: '=' :: _ => 3
  | '>' :: '>' :: '>' :: _ => 3
  | '<' :: '<' :: '=' :: _ => 3
  | '>' :: '>' :: '=' :: _ => 3
  | '<' :: '=' :: _ => 2
  | '>' :: '=' :: _ => 2
  | '=' :: '=' :: _ => 2
  | '!' :: '=' :: _ => 2
  | '+' :: '+' :: _ => 2
  | '-' :: '-' :: _ => 2
  | '<' :: '<' :: _ => 2
  | '>' :: '>' :: _ => 2
  | '&' :: '&' :: _ => 2
  | '|' :: '|' :: _ => 2
  | '+' :: '=' :: _ => 2
  | '-' :: '=' :: _ => 2
  | '*' :: '=' :: _ => 2
  | '%' :: '=' :: _ => 2
  | '&' :: '=' :: _ => 2
  | '|' :: '=' :: _ => 2
  | '^' :: '=' :: _ => 2
  | '/' :: '=' :: _ => 2
  | c :: _ =>
    if c == '{' || c == '}' || c == '(' || c == ')' || c == '[' || c == ']' || c == '.' || c == ';' ||
       c == ',' || c == '<' || c == '>' || c == '+' || c == '-' || c == '*' || c == '%' || c == '&' ||
       c == '|' || c == '^' || c == '!' || c == '~' || c == '?' || c == ':' || c == '=' || c == '/'
    then 1 else 0
  | [] => 0

/-! ### one token -/

structure Lexed where
  tok : Token
  /-- suffix starting at the token -/
  src : List Char
  /-- suffix after the token -/
  rest : List Char
  /-- comments skipped before the token, reversed -/
  comments : List Comment

def mkTok (cls : TokClass) (chars : List Char) (off : Nat) (nl : Bool) (esc : Bool := false) : Token :=
  { cls := cls, text := String.ofList chars, off := off, stop := off + chars.length, nlBefore := nl,
    escReserved := esc }

def errTok (off : Nat) (msg : String) (nl : Bool) : Token :=
  { cls := .error, text := msg, off := off, stop := off, nlBefore := nl }

/-- the token at the head of `s` (no leading trivia), under the given goal symbol -/
def lexAt (fuel : Nat) (goal : Goal) (s : List Char) (off : Nat) (nl : Bool) : Token × List Char :=
  match s with
  | [] => ({ cls := .eof, text := "", off := off, stop := off, nlBefore := nl }, [])
  | c :: rest =>
    if startsIdent s then
      match scanIdentName fuel s with
      | .ok st =>
        let raw := st.raw.reverse
        let dec := String.ofList st.decoded.reverse
        if st.hasEscape then (mkTok .ident raw off nl (isReservedWord dec), st.rest)
        else if isReservedWord dec then (mkTok .keyword raw off nl, st.rest)
        else (mkTok .ident raw off nl, st.rest)
      | .error m => (errTok off m nl, s)
    else if isDecimalDigit c || (c == '.' && (match rest with | d :: _ => isDecimalDigit d | [] => false)) then
      match scanNumber s with
      | .ok chars r => (mkTok .number chars off nl, r)
      | .err o m => (errTok (off + o) m nl, s)
    else if c == '"' || c == '\'' then
      match scanStringBody fuel c rest [c] with
      | .ok chars r => (mkTok .string chars off nl, r)
      | .err o m => (errTok (off + o) m nl, s)
    else if c == '/' && goal == .regexp then
      match scanRegex fuel s with
      | .ok chars r => (mkTok .regex chars off nl, r)
      | .err o m => (errTok (off + o) m nl, s)
    else
      let n := punctLen s
      if n == 0 then (errTok off "illegal-character" nl, s)
      else (mkTok .punct (s.take n) off nl, s.drop n)

/-- skip trivia, then lex one token under `goal`.  `off` = offset of the head of `s`. -/
def lexToken (fuel : Nat) (goal : Goal) (s : List Char) (off : Nat) : Lexed :=
  match skipTrivia fuel s off false [] with
  | .error (o, m) => { tok := errTok o m false, src := s, rest := s, comments := [] }
  | .ok tr =>
    let (tok, rest) := lexAt fuel goal tr.rest tr.off tr.nl
    { tok := tok, src := tr.rest, rest := rest, comments := tr.comments }

end CalmVerif.Spec.Es5
