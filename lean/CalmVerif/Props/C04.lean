/-
C04  Automatic semicolon insertion follows ECMA-262 7.9 exactly.

Proved here:
  * `asi_grammar_facts` (kernel decision over the regenerated grammar): AUTOSEMI occurs only as the LAST symbol of a
    production (so never inside a `for (;;)` header); the productions ending in AUTOSEMI are exactly the twins of
    the SEMI-terminated statement productions, `empty_statement : SEMI` has no AUTOSEMI twin (an inserted
    semicolon never forms an empty statement);
  * `asi_twins_same_tree` : a production and its AUTOSEMI twin have the same probed semantic action, so a program
    with an explicit `;` and with an inserted one build identical trees (up to the position recorded for `;`);
  * the lexer-side decision lemmas `C04lex.auto_semi_decision`, `auto_semi_effect`, `pushed_back_token_is_next`
    (Props/C04lex.lean): `auto_semi tok` inserts iff tok is end of input, or tok is neither `;` nor an inserted `;`
    and (tok is `}` or the previous raw token is a line terminator); the offending token is pushed back exactly once.
Not proved: the end-to-end statement (same tree for every subset of omitted removable semicolons); it is judged by
the differential against Spec.Es5Parse (harness/checks/C04.py).  Where calmjs's decision rule differs from 7.9
("previous raw token is a LINE_TERMINATOR" vs "separated by a line terminator") the differences are the recorded
findings KF-04a/c/d/f.
-/
import CalmVerif.Proofs.GrammarFacts
import CalmVerif.Props.C04lex
import CalmVerif.Gen.Tables.Cached
import CalmVerif.Gen.Actions
namespace CalmVerif.Props.C04
open CalmVerif.Model.GrammarFacts

def g : GT :=
  { terminals := Gen.Tables.Cached.terminals, nonterminals := Gen.Tables.Cached.nonterminals,
    prods := Gen.Tables.Cached.prods, action := Gen.Tables.Cached.action, defaulted := Gen.Tables.Cached.defaulted }

theorem asi_grammar_facts : c04Facts g = true := by decide +kernel

theorem asi_twins_same_tree : twinsSameAction g Gen.Actions.digests = true := by decide +kernel

/-- non-vacuity: there are AUTOSEMI productions -/
example : (g.prods.filter fun p => p.2.getLast? == some (g.term "AUTOSEMI")).length > 5 := by decide +kernel

end CalmVerif.Props.C04
