/-
C01 / C02 / C20 for parser output, in the form the ties feed the models.

(1) CANONICAL FORM.  The checks hand `Model.Actions.canon pv.v` (the treedump form: attributes sorted, token-map entries
    sorted) to `drv_rt` / `drv_unparse`, while Props/C01typed and Props/C01tok speak about `pv.v` in construction order.
    `wfVal_canon` / `valAll_canon` (Proofs/CanonInv.lean): both tree hypotheses of the typed theorems have the same value
    on `canon v` and on `v`, for EVERY tree, slot context and predicates.  Hence `parsed_canon_well_typed'`: the
    canonical form of every accepted tree is an `ES5Program` node, well typed in the three contexts, with no printed
    string ending in a line terminator.  The typed theorems of C01 / C02 / C20 quantify over the tree they print, so
    they apply VERBATIM to `canon pv.v` — no statement about `walkChunks (canon v)` versus `walkChunks v` is needed
    (and none is proved).  `ParsedTree text wc tr`: `tr` is the tree `parse text wc` returns or its canonical form.
(2) The stream theorems of C01 / C02 for every parsed tree (`ParsedTree`): `parsed_pretty_stream_typed'`,
    `parsed_minify0_stream_typed'`, `parsed_minify1_stream_typed'`, `parsed_pretty_relexes_partial'`,
    `parsed_minify_relexes_partial'`; and those of C20: `parsed_pretty_lines_indented''`,
    `parsed_pretty_ends_with_one_newline''`.  Hypotheses: the two decidable corner conditions of Props/C01tok
    (`NoReservedAfterPeriod`, `NoOddIdentStart`) — nothing else about tokens or trees.
(3) NOT done: removing `NoReservedAfterPeriod` (an ID token spelled like a reserved word directly after `.`).  It
    needs a context-sensitive typing: (i) table facts — in every state entered by shifting PERIOD the action on ID is
    a shift, none is a reduction and the state is not defaulted; from such a state the goto on `identifier` leads to
    a state whose only action is the reduction `identifier_name : identifier`; (ii) a parser–lexer synchronisation
    invariant — when such an ID token is shifted, the last shifted token is the PERIOD the lexer saw before it (the
    lexer's stream invariant speaks about the lexer's previous token, not about the parser's log); (iii) a stack
    invariant "a tainted `identifier` value is on top of the stack only, above a PERIOD-entered state".  The
    bottom-up typing of Proofs/ParsedTyped*.lean has no place for (ii) / (iii); this was not attempted.  The table
    facts (i) do hold on the regenerated tables (evaluated, not stated as theorems): the PERIOD-entered states are
    167, 172, 225, 229; each has 48 actions, all shifts, and no default; ID shifts to state 43; their goto on
    `identifier` is state 245, which has no goto and no default.
-/
import CalmVerif.Proofs.CanonInv
import CalmVerif.Props.C01tok
import CalmVerif.Props.C01
import CalmVerif.Props.C02
namespace CalmVerif.Props.C01typed2
open CalmVerif CalmVerif.Model CalmVerif.Model.Actions CalmVerif.TokenAdj CalmVerif.Unparse
open CalmVerif.Props.C01tok CalmVerif.Proofs.CanonInv

/-! ### canon invariance -/

/-- `wfVal` does not depend on attribute order: same value on a tree and on its treedump form -/
theorem wfVal_canon_invariant (cx : TokenAdj.Ctx) (v : Val) : wfVal cx (Actions.canon v) = wfVal cx v :=
  wfVal_canon cx v

/-- neither does `valAll` -/
theorem valAll_canon_invariant (p q : String → Bool) (v : Val) : valAll p q (Actions.canon v) = valAll p q v :=
  valAll_canon p q v

/-- `tr` is the tree `parse text wc` returns, in construction order or in canonical (treedump) form -/
def ParsedTree (text : List Char) (wc : Bool) (tr : Val) : Prop :=
  ∃ pv, Parser.parse text wc = .accepted pv ∧ (tr = pv.v ∨ tr = Actions.canon pv.v)

/-- every parsed tree, in either form, is a well-typed `ES5Program` node without line-terminated strings -/
theorem parsed_canon_well_typed' {text : List Char} {wc : Bool} {tr : Val} (htr : ParsedTree text wc tr)
    (h1 : NoReservedAfterPeriod text wc) (h2 : NoOddIdentStart text wc) :
    ∃ attrs, tr = .node "ES5Program" attrs ∧
      wfVal cxPretty tr = true ∧ wfVal cxMin0 tr = true ∧ wfVal cxMin1 tr = true ∧
      valAll endsOK anyStr tr = true := by
  obtain ⟨pv, hparse, hform⟩ := htr
  obtain ⟨⟨attrs, hv⟩, hp, h0, hm1, he⟩ := parsed_tree_well_typed' text wc pv hparse h1 h2
  rcases hform with rfl | rfl
  · exact ⟨attrs, hv, hp, h0, hm1, he⟩
  · refine ⟨_, by rw [hv, canon_node], ?_, ?_, ?_, ?_⟩
    · rw [wfVal_canon]; exact hp
    · rw [wfVal_canon]; exact h0
    · rw [wfVal_canon]; exact hm1
    · rw [valAll_canon]; exact he

/-! ### C01 / C02: the chunk streams of parsed trees -/

/-- C01 (2)+(3) for parser output -/
theorem parsed_pretty_stream_typed' {text : List Char} {wc : Bool} {tr : Val} (htr : ParsedTree text wc tr)
    (h1 : NoReservedAfterPeriod text wc) (h2 : NoOddIdentStart text wc)
    (indent : Option String) (cs : List Chunk) (h : walkChunks (prettyCfg indent) tr () = .ok (cs, ())) :
    ∃ a, certOf cxPretty "ES5Program" = some a ∧ Ann (prettyCfg indent).hd followPretty a cs := by
  obtain ⟨as, rfl, hw, _⟩ := parsed_canon_well_typed' htr h1 h2
  exact C01.pretty_stream_typed indent "ES5Program" as hw cs h

/-- C02 without drop_semi, for parser output -/
theorem parsed_minify0_stream_typed' {text : List Char} {wc : Bool} {tr : Val} (htr : ParsedTree text wc tr)
    (h1 : NoReservedAfterPeriod text wc) (h2 : NoOddIdentStart text wc)
    (cs : List Chunk) (h : walkChunks (minifyCfg false) tr () = .ok (cs, ())) :
    ∃ a, certOf cxMin0 "ES5Program" = some a ∧ Ann (minifyCfg false).hd followMin0 a cs := by
  obtain ⟨as, rfl, _, hw, _⟩ := parsed_canon_well_typed' htr h1 h2
  exact C02.minify0_stream_typed "ES5Program" as hw cs h

/-- C02 with drop_semi, for parser output -/
theorem parsed_minify1_stream_typed' {text : List Char} {wc : Bool} {tr : Val} (htr : ParsedTree text wc tr)
    (h1 : NoReservedAfterPeriod text wc) (h2 : NoOddIdentStart text wc)
    (cs : List Chunk) (h : walkChunks (minifyCfg true) tr () = .ok (cs, ())) :
    ∃ a, certOf cxMin1 "ES5Program" = some a ∧ Ann (minifyCfg true).hd followMin1 a cs := by
  obtain ⟨as, rfl, _, _, hw, _⟩ := parsed_canon_well_typed' htr h1 h2
  exact C02.minify1_stream_typed "ES5Program" as hw cs h

/-- `C01.pretty_relexes_partial` for parser output: adjacent token fragments are `okPair`; fragments separated by one
    layout chunk satisfy every decided single-marker relation containing the occurrence -/
theorem parsed_pretty_relexes_partial' {text : List Char} {wc : Bool} {tr : Val} (htr : ParsedTree text wc tr)
    (h1 : NoReservedAfterPeriod text wc) (h2 : NoOddIdentStart text wc)
    (indent : Option String) (cs : List Chunk) (h : walkChunks (prettyCfg indent) tr () = .ok (cs, ())) :
    (∀ pre post f1 f2, cs = pre ++ .frag f1 :: .frag f2 :: post →
      okPair (TokenAdj.canon (sig f1.text)) (TokenAdj.canon (sig f2.text)) = true) ∧
    (∀ pre post f1 f2 mk hdl n, cs = pre ++ .frag f1 :: .layout mk hdl n :: .frag f2 :: post →
      ∃ x, eraseSym x = Sym.m mk (isKind (prettyCfg indent).hd.headerKinds n) ∧
        ∀ markers ok, sepOK followPretty markers ok = true → markers.testBit x = true →
          ok (TokenAdj.canon (sig f1.text)) (TokenAdj.canon (sig f2.text)) = true) := by
  obtain ⟨as, rfl, hw, _⟩ := parsed_canon_well_typed' htr h1 h2
  exact C01.pretty_relexes_partial indent "ES5Program" as hw cs h

/-- `C02.minify_relexes_partial` for parser output, both `drop_semi` settings -/
theorem parsed_minify_relexes_partial' {text : List Char} {wc : Bool} {tr : Val} (htr : ParsedTree text wc tr)
    (h1 : NoReservedAfterPeriod text wc) (h2 : NoOddIdentStart text wc)
    (d : Bool) (cs : List Chunk) (h : walkChunks (minifyCfg d) tr () = .ok (cs, ())) :
    (∀ pre post f1 f2, cs = pre ++ .frag f1 :: .frag f2 :: post →
      okPair (TokenAdj.canon (sig f1.text)) (TokenAdj.canon (sig f2.text)) = true) ∧
    (∀ pre post f1 f2 mk hdl n, cs = pre ++ .frag f1 :: .layout mk hdl n :: .frag f2 :: post →
      ∃ x, eraseSym x = Sym.m mk (isKind (minifyCfg d).hd.headerKinds n) ∧
        ∀ markers ok, sepOK (if d then followMin1 else followMin0) markers ok = true → markers.testBit x = true →
          ok (TokenAdj.canon (sig f1.text)) (TokenAdj.canon (sig f2.text)) = true) := by
  obtain ⟨as, rfl, _, hw0, hw1, _⟩ := parsed_canon_well_typed' htr h1 h2
  refine C02.minify_relexes_partial d "ES5Program" as ?_ cs h
  cases d
  · exact hw0
  · exact hw1

/-! ### C20 for parsed trees in either form -/

/-- C20 (2): every printed line that starts with a token is indented by the indentation string × its depth -/
theorem parsed_pretty_lines_indented'' {text : List Char} {wc : Bool} {tr : Val} (htr : ParsedTree text wc tr)
    (h1 : NoReservedAfterPeriod text wc) (h2 : NoOddIdentStart text wc)
    (indent : Option String) (chunks : List Chunk)
    (hw : walkChunks (prettyCfg indent) tr () = .ok (chunks, ()))
    (hi : indentOK (effIndent hdataGen indent) = true) :
    checkLines (effIndent hdataGen indent) (flushAll (prettyCfg indent) chunks none [] 0).1
        (printingDepths chunks 0) (some []) = true ∧
    (flushAll (prettyCfg indent) chunks none [] 0).2 = 0 := by
  obtain ⟨as, rfl, hwf, _, _, he⟩ := parsed_canon_well_typed' htr h1 h2
  exact C20.pretty_lines_indented_typed indent "ES5Program" as chunks hwf he hw hi

/-- C20 (3): the printed text ends with exactly one newline (or is empty) -/
theorem parsed_pretty_ends_with_one_newline'' {text : List Char} {wc : Bool} {tr : Val}
    (htr : ParsedTree text wc tr)
    (h1 : NoReservedAfterPeriod text wc) (h2 : NoOddIdentStart text wc)
    (indent : Option String) (chunks : List Chunk)
    (hw : walkChunks (prettyCfg indent) tr () = .ok (chunks, ()))
    (hi : indentOK (effIndent hdataGen indent) = true) :
    EndsWithOneNewline (charsOf (flushAll (prettyCfg indent) chunks none [] 0).1) := by
  obtain ⟨as, rfl, hwf, _, _, he⟩ := parsed_canon_well_typed' htr h1 h2
  exact C20.pretty_text_ends_with_one_newline_typed indent as chunks hwf he hw hi

/-! ### non-vacuity -/

/-- the canonical form really differs from the parser's value (attributes are reordered), and `ParsedTree` with the
    two side conditions is satisfiable: `a;` -/
example :
    (match Parser.parse ['a', ';'] false with
      | .accepted pv =>
        (match pv.v, Actions.canon pv.v with
          | .node _ as, .node _ bs => as.map (·.1) != bs.map (·.1)
          | _, _ => false) && wfVal cxPretty (Actions.canon pv.v)
      | _ => false) = true ∧
    NoReservedAfterPeriod ['a', ';'] false ∧ NoOddIdentStart ['a', ';'] false := by
  decide +kernel

end CalmVerif.Props.C01typed2
