/-
C11  Every AST node position is self-consistent and lies on its own token.

Proved here (DESIGN.md §6 C11), over the tables regenerated from /repo on every run:
  * `actions_anchor_ok` — for EVERY production and every probed value shape, each node built by the
    semantic action is anchored (`setpos`) at slot 1 of a non-empty first symbol (its first token), or —
    for BinOp/Assign/Conditional/Comma/DotAccessor/BracketAccessor/PostfixExpr/Label only — at the
    operator terminal in slot 2; nested wrapper nodes (for-clause ExprStatement/VarStatement/VarDeclNoIn)
    at a solid slot not after any slot they contain; the only other shape is the exempt `for(;;)`
    placeholder (previous token + 1); PropIdentifier clones the position of its identifier.
    Every token-map entry records the text of a terminal slot (or of a pure pass-through of one) at that
    slot's own position, or a constant text at a symbol that provably starts with that text
    (VarDecl's `=`), or the comma run of an elision at its first comma.
  * the semantic values are tied to the real p_* functions by action probing (translator) and the
    S2b correspondence; position self-consistency of tokens is C06's subject.
-/
import CalmVerif.Proofs.ActionFacts
import CalmVerif.Gen.Actions
import CalmVerif.Gen.Tables.Cached
import CalmVerif.Gen.Tables.Cert
namespace CalmVerif.Props.C11
open CalmVerif.Model.ActionFacts CalmVerif.Model.ActionDesc

def strShaped : List Nat :=
  (List.range Gen.Tables.Cached.nonterminals.length).filter fun i =>
    match Gen.Tables.Cached.nonterminals[i]? with
    | some name => (Gen.Actions.shapes.find? (·.1 == name)).map (·.2) == some [Kind.str]
    | none => false

def g : G :=
  { nT := Gen.Tables.Cached.numTerminals, prods := Gen.Tables.Cached.prods,
    nullable := Gen.Tables.Cert.nullable, termSpelling := Gen.Tables.Cached.termSpelling,
    strShaped := strShaped }

/-- every node anchor and every token-map entry of every production satisfies the C11 rules -/
theorem actions_anchor_ok : actionsOK g Gen.Actions.actions = true := by
  decide +kernel

/-- the table is closed: one entry per production -/
theorem actions_cover_grammar : Gen.Actions.actions.length = Gen.Tables.Cached.prods.length := by
  decide +kernel

/-- non-vacuity: the check rejects an action that anchors a BinOp at its right operand -/
example : checkD g [100, 5, 100] [] true
    (.node "BinOp" [("left", .slot 1), ("op", .slot 2), ("right", .slot 3)] (.at 3 0) [2] [] none) = false := by
  decide +kernel

example : checkD g [100, 5, 100] [] true
    (.node "BinOp" [("left", .slot 1), ("op", .slot 2), ("right", .slot 3)] (.at 2 0) [2] [] none) = true := by
  decide +kernel

end CalmVerif.Props.C11
