/-
C11 (token level)  The two token-level hypotheses of the C11 composition (Props/C11comp.lean) discharged for the
PARSER-DRIVEN lexer, and the composition theorems instantiated without them.

Setting: `Model.Parser.parse text withComments` runs the LR driver with the token source `Model.Parser.source`
(`token()`; on a syntax error `p_error`: `auto_semi`, and — only when the current token is a DIV after `}` / `++` /
`--` — `backtracked_token(1)`), starting from `Lexer.init text withComments false`.  Every configuration such a run
passes through is `Reach`-able from that initial configuration (`C11comp.parse_configs_reachable`).

(a) `Proofs.LexerDrive.Reachable` is an invariant of the lexer state of every such configuration
    (`lexer_state_reachable`): `newline_idx` is 0 followed by the end offsets of ALL line terminator sequences before
    `lexpos` (also for states past the end of input), `lineno - 1` their number, `lexpos` never splits a CR LF pair,
    `cur_token` is the last raw token and ends at `lexpos`.  `newline_idx` only grows at its end
    (`line_table_prefix_stable`): `backtracked_token` rewinds `lexpos` by one — under `p_error`'s guard that is exactly
    the `/` of the current DIV token (or a position past the end of input) — and re-lexes from there; the `/` holds no
    line terminator, so NO duplicate entry can appear (`Proofs.ParserDrive.pinv_rewind`).  Unguarded use of
    `backtracked_token` (e.g. directly after a LINE_TERMINATOR token) WOULD duplicate an entry; the parser never does.
    Hence for every real token held by the parser (`token_column_stable`): `(lineno, colno)` is the ES5-counted
    position of its offset and `lookup_colno(lineno, lexpos)` returns `colno` in every later state; this is `TokOK`
    (`shifted_tokens_tokOK`).  Inserted AUTOSEMI tokens carry `colno = 0` (not `TokOK`), but their (lexpos, lineno) are
    those of the real token they were made from (or (0, 0) at end of input), so the positions nodes record for them
    are ES5-counted positions too (`CountedPos`).
(b) `shifted_tokens_spellingOK`: a held token of a fixed-spelling terminal has that spelling as text
    (`Proofs.LexerSpelling`: punctuator rules match exactly their text, keyword exactness, AUTOSEMI `;`, GETPROP /
    SETPROP `get` / `set`, and the decided agreement of `Gen.Tables.Cached.termSpelling` with `Gen.LexData`).
(c) `Proofs.LinesBridge.lineCol_bridge`: `Spec.LinesRef.lineCol = Spec.Lines.lineCol`; the statements below use
    `Spec.Lines.lineCol`, the reference of the judges.
-/
import CalmVerif.Props.C11comp
import CalmVerif.Proofs.ParserReach
import CalmVerif.Proofs.LexerSpelling
import CalmVerif.Proofs.LinesBridge

namespace CalmVerif.Props.C11tok
open CalmVerif CalmVerif.Model CalmVerif.Model.LR CalmVerif.Model.Actions CalmVerif.Model.ActionDesc
open CalmVerif.Model.ActionFacts CalmVerif.Proofs.NodePos
open CalmVerif.Props.C11comp
open CalmVerif.Proofs.LexerDrive CalmVerif.Proofs.ParserDrive CalmVerif.Proofs.LexerPos

abbrev Cfg := Config Lexer.Token PVal Lexer.LexState

/-- the initial configuration of `Parser.parse text wc` -/
abbrev cfg0 (text : List Char) (wc : Bool) : Cfg := initConfig (Lexer.init text wc false)

/-! ### (a) the lexer state and the line table -/

/-- every configuration of a parse has a `Reachable` lexer state and holds only `Good` tokens -/
theorem config_good {text : List Char} {wc : Bool} {c : Cfg}
    (hr : Reach Grammar.cached S Parser.source (cfg0 text wc) c) : GoodCfg text c :=
  reach_good (init_good text wc) hr

theorem lexer_state_reachable {text : List Char} {wc : Bool} {c : Cfg}
    (hr : Reach Grammar.cached S Parser.source (cfg0 text wc) c) : Reachable text c.src :=
  (config_good hr).1

/-- `newline_idx` is prefix-stable: entries never change once appended, whatever `token` / `auto_semi` /
    `backtracked_token` calls the parser makes later -/
theorem line_table_prefix_stable {text : List Char} {wc : Bool} {c c' : Cfg}
    (hr : Reach Grammar.cached S Parser.source (cfg0 text wc) c)
    (hr' : Reach Grammar.cached S Parser.source c c') :
    c.src.newlineIdx <+: c'.src.newlineIdx :=
  (reach_prefix (config_good hr) hr').1

/-- a real token the parser holds at `c` (shifted or look-ahead): its recorded line and column are the ES5-counted
    ones, and in EVERY later configuration `lookup_colno(lineno, lexpos)` still returns its column -/
theorem token_column_stable {text : List Char} {wc : Bool} {c c' : Cfg}
    (hr : Reach Grammar.cached S Parser.source (cfg0 text wc) c)
    (hr' : Reach Grammar.cached S Parser.source c c')
    (t : Lexer.Token) (ht : t ∈ c.shifted ∨ c.look = some (some t)) (hreal : t.auto = false) :
    (t.lineno, t.colno) = ((Spec.Lines.lineCol text t.lexpos).1, ((Spec.Lines.lineCol text t.lexpos).2 : Int)) ∧
    Lexer.lookupColno c'.src t.lineno t.lexpos = .ok t.colno := by
  have hg := config_good hr
  have hgood : Good text c.src.newlineIdx t := by
    rcases ht with ht | ht
    · exact hg.2.1 t ht
    · exact hg.2.2 t ht
  have hgood' := hgood.mono (line_table_prefix_stable hr hr')
  obtain ⟨hpos, ⟨h1, _, b, hb, hc⟩, _⟩ := hgood'.1 hreal
  rw [Proofs.LinesBridge.lineCol_bridge]
  refine ⟨by rw [hpos.1, hpos.2], ?_⟩
  unfold Lexer.lookupColno
  have : ¬ t.lineno = 0 := by omega
  simp only [this, if_false, hb]
  rw [hpos.2, ← hc]

/-- the column lookup the semantic actions use gives, for a held token, the ES5-counted column of its offset -/
theorem colOf_good {text : List Char} {st : Lexer.LexState} {t : Lexer.Token}
    (hg : Good text st.newlineIdx t) :
    (1 ≤ t.lineno ∧ t.lineno = (Spec.Lines.lineCol text t.lexpos).1 ∧
      colOf (lcOf st) t.lineno t.lexpos = some ((Spec.Lines.lineCol text t.lexpos).2 : Int)) ∨
    (t.lineno = 0 ∧ t.auto = true ∧ colOf (lcOf st) t.lineno t.lexpos = some 0) := by
  have counted : Counted text st.newlineIdx t.lexpos t.lineno →
      1 ≤ t.lineno ∧ t.lineno = (Spec.Lines.lineCol text t.lexpos).1 ∧
      colOf (lcOf st) t.lineno t.lexpos = some ((Spec.Lines.lineCol text t.lexpos).2 : Int) := by
    intro ⟨h1, h2, b, hb, hc⟩
    rw [Proofs.LinesBridge.lineCol_bridge]
    refine ⟨h1, h2, ?_⟩
    unfold colOf lcOf Lexer.lookupColno
    have h0 : 0 < t.lineno := by omega
    have : ¬ t.lineno = 0 := by omega
    simp only [h0, if_true, this, if_false, hb, hc]
  cases ha : t.auto with
  | false => exact Or.inl (counted (hg.1 ha).2.1)
  | true =>
    rcases (hg.2 ha).2.2 with h0 | hc
    · right
      refine ⟨h0, rfl, ?_⟩
      unfold colOf
      simp [h0]
    · exact Or.inl (counted hc)

/-- `TokOK` for every real shifted token at every call of a semantic action -/
theorem shifted_tokens_tokOK {text : List Char} {wc : Bool} {c : Cfg} {p : Nat} {args : List PVal}
    {st : Lexer.LexState} {pv : PVal}
    (h : ActionCall Parser.source (Lexer.init text wc false) c p args st pv) :
    ∀ t ∈ c.shifted, t.auto = false → TokOK (lcOf st) (Parser.toTok t) := by
  intro t ht hreal
  obtain ⟨_, hgood⟩ := reduceCall_good (config_good h.reach) h.call
  have hg := hgood t ht
  rcases colOf_good hg with ⟨_, _, hc⟩ | ⟨_, ha, _⟩
  · unfold TokOK
    show colOf (lcOf st) t.lineno t.lexpos = some t.colno
    rw [hc, (hg.1 hreal).1.2, Proofs.LinesBridge.lineCol_bridge]
  · rw [ha] at hreal; simp at hreal

/-! ### (b) spellings -/

theorem shifted_tokens_spellingOK {text : List Char} {wc : Bool} {c : Cfg}
    (hr : Reach Grammar.cached S Parser.source (cfg0 text wc) c) :
    ∀ t ∈ c.shifted, SpellingOK C11.g S.ty Parser.toTok t := by
  intro t ht s hs hne
  have hg := (config_good hr).2.1 t ht
  show String.ofList t.value = s
  have hty : S.ty t = (Grammar.termIdx t.type).getD Grammar.cached.numTerminals := rfl
  rw [hty] at hs
  cases hi : Grammar.termIdx t.type with
  | none =>
    exfalso
    rw [hi] at hs
    simp only [Option.getD_none] at hs
    have hlen : Gen.Tables.Cached.termSpelling.length = Gen.Tables.Cached.numTerminals := by
      rw [Proofs.LexerSpelling.term_spelling_from_lexer_tables.1]; exact terminals_length
    have : C11.g.termSpelling[Grammar.cached.numTerminals]? = none := by
      apply List.getElem?_eq_none
      show Gen.Tables.Cached.termSpelling.length ≤ Gen.Tables.Cached.numTerminals
      omega
    rw [this] at hs
    simp at hs
  | some i =>
    rw [hi] at hs
    simp only [Option.getD_some] at hs
    exact Proofs.LexerSpelling.spelling_ok hg i s hi hs hne

/-! ### the composition without token-level hypotheses -/

/-- `p` is `[lexpos + delta, lineno, column + delta]` of token `t`, where (lineno, column) is the ES5-counted position
    (`Spec.Lines.lineCol`) of the token's offset in `text`; for the AUTOSEMI inserted at the end of the input (line 0)
    it is `[lexpos + delta, 0, delta]` -/
def CountedPos (text : List Char) (t : Lexer.Token) (delta : Nat) (p : Val) : Prop :=
  (1 ≤ t.lineno ∧ t.lineno = (Spec.Lines.lineCol text t.lexpos).1 ∧
    p = posVal (t.lexpos + delta) t.lineno (((Spec.Lines.lineCol text t.lexpos).2 : Int) + (delta : Int))) ∨
  (t.lineno = 0 ∧ t.auto = true ∧ p = posVal (t.lexpos + delta) 0 (0 + (delta : Int)))

theorem countedPos_of_isPos {text : List Char} {st : Lexer.LexState} {t : Lexer.Token} {delta : Nat} {p : Val}
    (hg : Good text st.newlineIdx t)
    (h : IsPos (lcOf st) (Parser.toTok t).lexpos (Parser.toTok t).lineno delta p) : CountedPos text t delta p := by
  obtain ⟨col, hcol, rfl⟩ := h
  have hcol' : colOf (lcOf st) t.lineno t.lexpos = some col := hcol
  rcases colOf_good hg with ⟨h1, h2, hc⟩ | ⟨h0, ha, hc⟩
  · rw [hc] at hcol'
    simp only [Option.some.injEq] at hcol'
    subst hcol'
    exact Or.inl ⟨h1, h2, rfl⟩
  · rw [hc] at hcol'
    simp only [Option.some.injEq] at hcol'
    subst hcol'
    refine Or.inr ⟨h0, ha, ?_⟩
    show posVal (t.lexpos + delta) t.lineno _ = _
    rw [h0]

/-- **T `node_positions_ok`**: for every text, every configuration `Parser.parse` passes through and every node built
    by the semantic action called there: the node's `@pos` is the ES5-counted position of a shifted token of the
    production's own yield (or: the for(;;) placeholder one past such a token / the PropIdentifier clone / the root of
    an empty program), and every position recorded in a freshly built token map is the ES5-counted position of a
    shifted token of the yield whose text is the recorded text (for the comma run of an elision: a `,`).
    No hypothesis on the tokens remains. -/
theorem node_positions_ok {text : List Char} {wc : Bool} {c : Cfg} {p : Nat} {args : List PVal}
    {st : Lexer.LexState} {pv : PVal}
    (h : ActionCall Parser.source (Lexer.init text wc false) c p args st pv) :
    ∃ trees, ArgTrees c p args trees ∧
      ∀ x n pos tmv, BuiltNode Gen.Actions.actions (wcOf st) (lcOf st) p args (posOf st) x n pos tmv →
        ((∃ t ∈ yieldList trees, t ∈ c.shifted ∧ CountedPos text t 0 pos) ∨
         (x.kind = "EmptyStatement" ∧ ∃ t ∈ yieldList trees, t ∈ c.shifted ∧ CountedPos text t 1 pos) ∨
         (x.kind = "PropIdentifier" ∧ ∃ j pv', x.pos = .ofNode j ∧ j ≠ 0 ∧ args[j - 1]? = some pv' ∧
            pos = (getAttr pv'.v "@pos").getD posUnset) ∨
         (x.kind = "ES5Program" ∧ ∀ tr, trees.head? = some tr → tr.yield = [])) ∧
        (x.tokmapOf = none → ∃ tm : TM, tmv = tokmapVal tm ∧ ∀ e ∈ tm, ∀ q ∈ e.2,
          ∃ t ∈ yieldList trees, t ∈ c.shifted ∧ CountedPos text t 0 q ∧
            (String.ofList t.value = e.1 ∨
             (x.kind = "Elision" ∧ String.ofList t.value = "," ∧ ∃ k, e.1 = Model.Actions.commas k))) := by
  obtain ⟨_, hgood⟩ := reduceCall_good (config_good h.reach) h.call
  obtain ⟨trees, ht, hall⟩ := node_positions_summary h (shifted_tokens_spellingOK h.reach)
  refine ⟨trees, ht, ?_⟩
  intro x n pos tmv hb
  obtain ⟨hpos, htm⟩ := hall x n pos tmv hb
  constructor
  · rcases hpos with ⟨t, hty, hat⟩ | ⟨hk, t, hty, hip⟩ | hclone | hempty
    · exact Or.inl ⟨t, hty, ht.shifted hty, countedPos_of_isPos (hgood t (ht.shifted hty)) hat⟩
    · exact Or.inr (Or.inl ⟨hk, t, hty, ht.shifted hty, countedPos_of_isPos (hgood t (ht.shifted hty)) hip⟩)
    · exact Or.inr (Or.inr (Or.inl hclone))
    · exact Or.inr (Or.inr (Or.inr hempty))
  · intro hnone
    obtain ⟨tm, htmv, he⟩ := htm hnone
    refine ⟨tm, htmv, ?_⟩
    intro e hem q hq
    obtain ⟨t, hty, hat, hval⟩ := he e hem q hq
    exact ⟨t, hty, ht.shifted hty, countedPos_of_isPos (hgood t (ht.shifted hty)) hat, hval⟩

/-- the same for the comma run a growing elision records -/
theorem elision_runs_counted {text : List Char} {wc : Bool} {c : Cfg} {p : Nat} {args : List PVal}
    {st : Lexer.LexState} {pv : PVal}
    (h : ActionCall Parser.source (Lexer.init text wc false) c p args st pv) :
    ∃ trees e, ArgTrees c p args trees ∧ Gen.Actions.actions[p]? = some e ∧
      ∀ pd ∈ spreadsOfD (selectRow e (args.map (fun a => kindOf a.v))),
        ∃ q t rest, evalPos (mkCtx args (posOf st) (lcOf st) (wcOf st)) pd = .ok q ∧
          yieldList trees = t :: rest ∧ String.ofList t.value = "," ∧ CountedPos text t 0 q := by
  obtain ⟨_, hgood⟩ := reduceCall_good (config_good h.reach) h.call
  obtain ⟨trees, e, ht, he, hall⟩ := elision_runs_ok h
  refine ⟨trees, e, ht, he, ?_⟩
  intro pd hpd
  obtain ⟨q, t, rest, hq, hy, hs, hat⟩ := hall pd hpd
  have hmem : t ∈ c.shifted := ht.shifted (by rw [hy]; simp)
  refine ⟨q, t, rest, hq, hy, ?_, countedPos_of_isPos (hgood t hmem) hat⟩
  exact shifted_tokens_spellingOK h.reach t hmem "," hs (by decide)

/-- why `backtracked_token` needs `p_error`'s guard (documented hazard, NOT reachable from the parser): after
    `return` + line terminator the lexer returns the inserted AUTOSEMI while `cur_token` is the LINE_TERMINATOR token;
    an UNGUARDED `backtracked_token(1)` there re-lexes the `\n` and appends its line-table entry a second time -/
example :
    (match Lexer.token (Lexer.init "return\n1".toList false false) with
     | .ok (_, s1) =>
       match Lexer.token s1 with
       | .ok (semi, s2) =>
         match Lexer.backtrackedToken s2 1 with
         | .ok (_, s3) => (semi.map (·.type), s2.newlineIdx, s3.newlineIdx)
         | .error _ => (none, [], [])
       | .error _ => (none, [], [])
     | .error _ => (none, [], [])) = (some "AUTOSEMI", [0, 7], [0, 7, 7]) := by
  decide +kernel

/-- non-vacuity: the hypothesis is satisfiable (the example of Props.C11comp) -/
example : ∃ c p args st pv,
    ActionCall Parser.source (Lexer.init ['x', '=', '1'] false false) c p args st pv := by
  have hc : callSucceeds (run Grammar.cached S Parser.source 1
      (initConfig (Lexer.init ['x', '=', '1'] false false))).2 = true := by decide +kernel
  obtain ⟨p, args, st, pv, hcall, hok⟩ := callSucceeds_spec hc
  exact ⟨_, p, args, st, pv, run_reach_snd 1 _, hcall, hok⟩

end CalmVerif.Props.C11tok
