/-
C05  Every `/` is read as division or regex start as the grammar dictates.

Proved here (kernel decisions over the regenerated LALR tables and the regenerated heuristic sets):
  * `simple_tokens_never_regex`: for every token type τ in TOKENS_THAT_IMPLY_DIVISON other than `)`, `}`, `++`, `--`,
    no state entered by shifting τ has an action on REGEX — reading `/` as division after them never loses a regex;
  * `punctuators_never_div`: for every punctuator / operator keyword outside the set, no state entered by shifting it
    has an action on DIV or DIVEQUAL — reading `/` as a regex start after them never loses a division
    (LALR action rows over-approximate followers, which is the sound direction for "never" claims);
  * `rparen_states_exclusive`: no state entered by shifting `)` accepts both a division and a regex, so the
    parenthesis stack of the lexer only has to know WHICH `)` it is;
  * `slash_classes_exclusive` + `slash_reading_is_dictated`: no parser state accepts both a division token (`/`, `/=`) and a
    regular-expression literal, except the states right after the `}` of `function name(…){…}` where the tables reduce to a
    declaration on REGEX and to an expression on `/` (finding KF-03a); hence, in every other state, whenever the parser has
    an action for the `/` token the lexer delivered, the other lexical class would have been a syntax error right there — the
    reading is the one the grammar dictates, and a wrong guess of the lexer can only end in a syntax error, never in a tree;
  * lexer side (Props/C05lex.lean): `div_allowed_iff`, `div_decision`, `div_decision_independent_of_position`.
Not proved: that the lexer's parenthesis stack and the LR stack agree on which `)` closes an if/for/while header in
every reachable configuration; reserved words used as property names (`a.if / b`, finding KF-05c) are outside
`punctuators_never_div`.  Both are judged by the differential against Spec.Es5Parse token classes.
-/
import CalmVerif.Proofs.GrammarFacts
import CalmVerif.Proofs.SlashExclusive
import CalmVerif.Props.C05lex
import CalmVerif.Gen.Tables.Cached
import CalmVerif.Gen.LexData
namespace CalmVerif.Props.C05
open CalmVerif.Model.GrammarFacts

def g : GT :=
  { terminals := Gen.Tables.Cached.terminals, nonterminals := Gen.Tables.Cached.nonterminals,
    prods := Gen.Tables.Cached.prods, action := Gen.Tables.Cached.action, defaulted := Gen.Tables.Cached.defaulted }

/-- the tokens of the set whose follower is decided by context (parenthesis stack / p_error back-tracking) -/
def contextual : List String := ["RPAREN", "RBRACE", "PLUSPLUS", "MINUSMINUS"]

def simple : List String := Gen.LexData.impliesDivision.filter fun t => !(contextual.contains t)

/-- fixed-text punctuators that are not in the set (after which calmjs reads `/` as a regex start) -/
def regexPunctuators : List String :=
  (Gen.LexData.punctSpelling.map (·.1)).filter fun t =>
    !(Gen.LexData.impliesDivision.contains t) && g.terminals.contains t

/-- keywords that can only be followed by an expression or statement start -/
def operatorKeywords : List String :=
  ["RETURN", "TYPEOF", "VOID", "DELETE", "NEW", "IN", "INSTANCEOF", "CASE", "THROW", "ELSE", "DO"]

theorem simple_tokens_never_regex : simpleTokensNeverRegex g simple = true := by decide +kernel

theorem punctuators_never_div : operatorTokensNeverDiv g regexPunctuators = true := by decide +kernel

theorem rparen_states_exclusive : rparenExclusive g = true := by decide +kernel

/-- D: division and regular expression are exclusive per state, outside the function-end states -/
theorem slash_classes_exclusive : slashExclusive g = true := by
  rw [← slashExclusiveF_eq]; decide +kernel

/-- whenever a state has an action on `/` (or `/=`) AND on a regular-expression literal, all these actions are the
    reductions of `function_declaration` / `function_expr` at the closing brace of a named function -/
theorem slash_reading_is_dictated {s : Nat}
    (hd : hasAction g s (g.term "DIV") = true ∨ hasAction g s (g.term "DIVEQUAL") = true)
    (hr : hasAction g s (g.term "REGEX") = true) :
    ∃ row, g.action[s]? = some row ∧ functionEndEntry g row (g.term "DIV") = true ∧
      functionEndEntry g row (g.term "DIVEQUAL") = true ∧ functionEndEntry g row (g.term "REGEX") = true :=
  slashExclusive_state slash_classes_exclusive hd hr

/-- non-vacuity: exactly two states accept both classes (after `function f(){}` and after `function f(a){}`) -/
example : (slashBoth g).length = 2 := by decide +kernel

/-- non-vacuity -/
example : simple.length ≥ 8 ∧ regexPunctuators.length ≥ 30 := by decide +kernel

end CalmVerif.Props.C05
