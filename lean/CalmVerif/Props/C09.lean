import CalmVerif.Model.SourceMap
import CalmVerif.Spec.SourceMapV3
namespace CalmVerif.Props.C09
theorem stub : True := trivial
end CalmVerif.Props.C09
