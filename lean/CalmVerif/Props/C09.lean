/-
C09  Source map decodes to exactly the positions the fragments carried.

Model   : `CalmVerif.Model.SourceMap`   (`write`, `normalizeMappings`, `Names`, bookkeeper cells)
Spec    : `CalmVerif.Spec.SourceMapV3`  (`decode`, `exactAt`, `interp`, `genPos`, `lineCount`)
Proofs  : `CalmVerif.Proofs.SourceMap*`

All theorems are about the raw mappings returned by `write` (relative integers, before
`encode_mappings`); `write_WFMappings` supplies the hypothesis of C10's round trip theorem, so
that the statements transfer to the `mappings` string.

They hold for every character-class triple `cc` with `ClassesOK cc` (splitlines breaks at CR
and at LF, the newline test is `in '\r\n'`; nothing is assumed about what else splitlines
breaks at, nor about `rstrip`), in particular for `pyClasses` (`pyClasses_ok`).

Hypotheses on the stream:
  * `NoSplitCRLF frags` : no fragment text ends in CR while the next non-empty text begins
    with LF.  Needed (examples below): the implementation pushes two mapping lines where the
    written text has the single delimiter CRLF.
  * for the per-fragment theorems, the fragment's text is non-empty (an empty text writes
    nothing and emits no segment; example below).
  `WFStream` additionally asks that `lineno`/`colno` are both given or both `None`
  (docstring of `write`); the proofs do not need it (a half-given position is treated as
  unmapped by the code), so the theorems only assume `NoSplitCRLF`; `WFStream.noSplit` converts.

Columns are counted in code points on both sides (Python `str` indices).
-/
import CalmVerif.Proofs.SourceMapFinal

namespace CalmVerif.Props.C09
open CalmVerif.Model.SourceMap
open CalmVerif.Spec.SourceMapV3
open CalmVerif.Proofs.SourceMap

/-- no fragment text ends in CR while the next non-empty text begins with LF -/
def NoSplitCRLF (frags : List Frag) : Prop := noSplitCRLF false (frags.map (·.text)) = true

instance (frags : List Frag) : Decidable (NoSplitCRLF frags) :=
  inferInstanceAs (Decidable (_ = true))

/-- well-formed stream: `lineno`/`colno` both present or both absent, and `NoSplitCRLF` -/
def WFStream (frags : List Frag) : Prop := wfStream frags = true

instance (frags : List Frag) : Decidable (WFStream frags) :=
  inferInstanceAs (Decidable (_ = true))

theorem WFStream.noSplit {frags : List Frag} (h : WFStream frags) : NoSplitCRLF frags := by
  unfold WFStream wfStream at h
  simp only [Bool.and_eq_true] at h
  exact h.2

/-- `f` is the `i`-th fragment, writes something, and is explicitly positioned at
(1-based) source line `l + 1`, column `c + 1` -/
structure ExplicitAt (frags : List Frag) (i : Nat) (f : Frag) (l c : Nat) : Prop where
  here : frags[i]? = some f
  nonempty : f.text ≠ []
  line : f.lineno = some (l + 1)
  col : f.colno = some (c + 1)

/-- generated (line, column), zero-based, at which the first character of fragment `i` is
written: computed on the concatenated text, LF / CR / CRLF being the line delimiters -/
def genLC (frags : List Frag) (i : Nat) : Nat × Nat := genPos (frags.map (·.text)) i

/-- what the source table must say about source index `si` of fragment `i`: it denotes the
source in force there (`effSource`), or is `0` while no source has been given yet -/
def SourceClause (frags : List Frag) (i : Nat) (sources : List (List Char)) (si : Nat) : Prop :=
  si < sources.length ∧
  match effSource (frags.take (i + 1)) with
  | some s => sources[si]? = some (renderSrc s)
  | none => si = 0

/-- **write_decodes** (`normalize = False`).  The Spec decoder finds, on generated line `gl`,
a segment starting exactly at generated column `gc` whose absolute fields are the fragment's
source index, line − 1, column − 1 and — iff renamed — the index of its original name. -/
theorem write_decodes (cc : CharClasses) (hcc : ClassesOK cc) (frags : List Frag)
    (hns : NoSplitCRLF frags) (i : Nat) (f : Frag) (l c : Nat) (hf : ExplicitAt frags i f l c) :
    ∃ r D e, ∃ si : Nat,
      write cc false frags = some r ∧ decode r.mappings = some D ∧
      exactAt (lineAt D (genLC frags i).1) (genLC frags i).2 = some e ∧
      e.genCol = (genLC frags i).2 ∧
      e.src = some ((si : Int), (l : Int), (c : Int)) ∧
      SourceClause frags i r.sources si ∧
      (match f.name with
        | none => e.name = none
        | some nm => ∃ ni : Nat, e.name = some (ni : Int) ∧ r.names[ni]? = some nm) := by
  obtain ⟨r, D, e, si, h1, h2, _, h4, h5, _, h7, h8, h9, h10⟩ :=
    explicit_lookup cc hcc frags hns false i f hf.here hf.nonempty l c hf.line hf.col
  refine ⟨r, D, e, si, h1, h2, h7 (Or.inl rfl), h4, h5, ⟨h8, ?_⟩, h10⟩
  revert h9; cases effSource (frags.take (i + 1)) <;> simp

/-- **write_decodes_normalized** (`normalize = True`).  Looking the position up through the
nearest preceding segment of the line, column offset added (`interp`), gives the fragment's
source index, line − 1, column − 1; a renamed fragment moreover has a 5-field segment exactly
at `gc` carrying the index of its original name. -/
theorem write_decodes_normalized (cc : CharClasses) (hcc : ClassesOK cc) (frags : List Frag)
    (hns : NoSplitCRLF frags) (i : Nat) (f : Frag) (l c : Nat) (hf : ExplicitAt frags i f l c) :
    ∃ r D, ∃ si : Nat,
      write cc true frags = some r ∧ decode r.mappings = some D ∧
      interp (lineAt D (genLC frags i).1) (genLC frags i).2 = some ((si : Int), (l : Int), (c : Int)) ∧
      SourceClause frags i r.sources si ∧
      (∀ nm, f.name = some nm → ∃ e, ∃ ni : Nat,
        exactAt (lineAt D (genLC frags i).1) (genLC frags i).2 = some e ∧
        e.src = some ((si : Int), (l : Int), (c : Int)) ∧
        e.name = some (ni : Int) ∧ r.names[ni]? = some nm) := by
  obtain ⟨r, D, e, si, h1, h2, _, _, h5, h6, h7, h8, h9, h10⟩ :=
    explicit_lookup cc hcc frags hns true i f hf.here hf.nonempty l c hf.line hf.col
  refine ⟨r, D, si, h1, h2, h6, ⟨h8, ?_⟩, ?_⟩
  · revert h9; cases effSource (frags.take (i + 1)) <;> simp
  · intro nm hnm
    rw [hnm] at h10
    obtain ⟨ni, hni, hnames⟩ := h10
    exact ⟨e, ni, h7 (Or.inr (by simp [hnm])), h5, hni, hnames⟩

/-- **indices_in_range** (any stream, either setting): `write` succeeds, its mappings decode,
and in every decoded segment the generated column, source line and source column are `≥ 0`,
the source index is `< len(sources)` and the name index `< len(names)`. -/
theorem indices_in_range (cc : CharClasses) (frags : List Frag) (normalize : Bool) :
    ∃ r D, write cc normalize frags = some r ∧ decode r.mappings = some D ∧
      ∀ line ∈ D, ∀ e ∈ line,
        0 ≤ e.genCol ∧
        (∀ s l c, e.src = some (s, l, c) → 0 ≤ s ∧ s < (r.sources.length : Int) ∧ 0 ≤ l ∧ 0 ≤ c) ∧
        (∀ n, e.name = some n → 0 ≤ n ∧ n < (r.names.length : Int)) := by
  obtain ⟨D, es, m', D', hw, hwrite, hdec, hrel, _⟩ := write_any cc frags normalize
  refine ⟨_, D', hwrite, hdec, ?_⟩
  intro line hline e he
  obtain ⟨a, ha, hr⟩ := hrel.mem line hline
  exact inRange_of_entryOK _ _ _ (hw.ok a ha e (hr.sub.subset he))

/-- **gen_columns_monotone** (any stream, either setting): generated columns are strictly
increasing within every line (hence non-decreasing). -/
theorem gen_columns_monotone (cc : CharClasses) (frags : List Frag) (normalize : Bool) :
    ∃ r D, write cc normalize frags = some r ∧ decode r.mappings = some D ∧
      ∀ line ∈ D, (line.map (·.genCol)).Pairwise (· < ·) := by
  obtain ⟨D, es, m', D', hw, hwrite, hdec, hrel, _⟩ := write_any cc frags normalize
  refine ⟨_, D', hwrite, hdec, ?_⟩
  intro line hline
  obtain ⟨a, ha, hr⟩ := hrel.mem line hline
  have hsa : Sorted a := by
    rcases mem_snoc_lines ha with ha | rfl
    · exact hw.D_sorted _ ha
    · exact hw.es_sorted
  exact sorted_sublist hr.sub hsa

/-- **line_count**: the number of mapping lines is the number of LF/CR/CRLF-delimited lines
of the written text. -/
theorem line_count (cc : CharClasses) (hcc : ClassesOK cc) (frags : List Frag)
    (hns : NoSplitCRLF frags) (normalize : Bool) :
    ∃ r, write cc normalize frags = some r ∧ r.mappings.length = lineCount (output frags) := by
  obtain ⟨D, es, m', D', hw, hwrite, _, _, hlen⟩ := write_any cc frags normalize
  refine ⟨_, hwrite, ?_⟩
  have := raw_line_count cc hcc frags hns
  simp only [List.length_append, List.length_singleton] at this
  simp only [hlen, this]

/-- **write_WFMappings** (any stream, either setting): at least one line, no empty segment —
the hypothesis `Spec.VlqV3.WFMappings` of C10's `mappings_roundtrip`. -/
theorem write_WFMappings (cc : CharClasses) (frags : List Frag) (normalize : Bool) :
    ∃ r, write cc normalize frags = some r ∧
      (r.mappings ≠ [] ∧ ∀ line ∈ r.mappings, ∀ seg ∈ line, seg ≠ []) := by
  obtain ⟨D, es, m', D', hw, hwrite, hdec, _, hlen⟩ := write_any cc frags normalize
  refine ⟨_, hwrite, ?_, decode_seg_ne hdec⟩
  intro h
  simp only at h
  rw [h] at hlen
  simp at hlen

/-- **multi_source**: in a stream concatenating several sources, two explicitly positioned
fragments decode to the same source index iff the sources in force at them are the same, and
each index denotes its source in the `sources` list. -/
theorem multi_source (cc : CharClasses) (hcc : ClassesOK cc) (frags : List Frag)
    (hns : NoSplitCRLF frags) (normalize : Bool)
    (i j : Nat) (fi fj : Frag) (li ci lj cj : Nat)
    (hi : ExplicitAt frags i fi li ci) (hj : ExplicitAt frags j fj lj cj)
    (a b : Src) (ha : effSource (frags.take (i + 1)) = some a) (hb : effSource (frags.take (j + 1)) = some b) :
    ∃ r D, ∃ si sj : Nat,
      write cc normalize frags = some r ∧ decode r.mappings = some D ∧
      interp (lineAt D (genLC frags i).1) (genLC frags i).2 = some ((si : Int), (li : Int), (ci : Int)) ∧
      interp (lineAt D (genLC frags j).1) (genLC frags j).2 = some ((sj : Int), (lj : Int), (cj : Int)) ∧
      r.sources[si]? = some (renderSrc a) ∧ r.sources[sj]? = some (renderSrc b) ∧
      (si = sj ↔ a = b) := by
  obtain ⟨r, D, _, si, h1, h2, _, _, _, h6, _, _, h9, _⟩ :=
    explicit_lookup cc hcc frags hns normalize i fi hi.here hi.nonempty li ci hi.line hi.col
  obtain ⟨r', D', _, sj, h1', h2', _, _, _, h6', _, _, h9', _⟩ :=
    explicit_lookup cc hcc frags hns normalize j fj hj.here hj.nonempty lj cj hj.line hj.col
  rw [h1] at h1'
  obtain rfl := Option.some.inj h1'
  rw [h2] at h2'
  obtain rfl := Option.some.inj h2'
  rw [ha] at h9
  rw [hb] at h9'
  refine ⟨r, D, si, sj, h1, h2, h6, h6', h9.2, h9'.2, ?_⟩
  have hnd := writeLoop_sources_nodup cc frags WState.init (by simp [WState.init, Names.empty])
  constructor
  · rintro rfl
    have := h9.1.symm.trans h9'.1
    exact Option.some.inj this
  · rintro rfl
    exact nodup_getElem?_inj hnd h9.1 h9'.1


/-- **written_text**: the pieces handed to `stream.write` (the lines of `splitlines(True)` of
every fragment, in order) concatenate to the fragment texts: the written text is `output`. -/
theorem written_text (cc : CharClasses) (frags : List Frag) :
    (frags.map (fun f => (splitLines cc.brk f.text).flatten)).flatten = output frags := by
  simp [output, splitLines_flatten]

/-! ### the hypotheses are satisfiable (non-vacuity) -/

/-- two sources, a renamed identifier, a multi-line string with CRLF inside, layout fragments
with inferred `(0, 0)` and unmapped `(None, None)` positions, a `;` with implicit source -/
def demo : List Frag :=
  [ ⟨['v', 'a', 'r'], some 1, some 1, none, some (.path ['a', '.', 'j', 's'])⟩,
    ⟨[' '], some 0, some 0, none, none⟩,
    ⟨['x'], some 1, some 5, some ['l', 'o', 'n', 'g'], some (.path ['a', '.', 'j', 's'])⟩,
    ⟨['=', '\'', 's', '\\', '\r', '\n', 't', '\''], some 1, some 9, none, some (.path ['a', '.', 'j', 's'])⟩,
    ⟨[';'], some 2, some 3, none, none⟩,
    ⟨['\n'], some 0, some 0, none, none⟩,
    ⟨[' ', ' '], none, none, none, none⟩,
    ⟨['y'], some 1, some 1, none, some (.path ['b', '.', 'j', 's'])⟩,
    ⟨['z'], some 1, some 2, none, some .invalid⟩ ]

example : WFStream demo ∧ NoSplitCRLF demo := by decide
example : ExplicitAt demo 2 ⟨['x'], some 1, some 5, some ['l', 'o', 'n', 'g'], some (.path ['a', '.', 'j', 's'])⟩ 0 4 :=
  ⟨rfl, by decide, rfl, rfl⟩
example : ExplicitAt demo 4 ⟨[';'], some 2, some 3, none, none⟩ 1 2 := ⟨rfl, by decide, rfl, rfl⟩
example : genLC demo 4 = (1, 2) ∧ genLC demo 7 = (2, 2) := by decide
example : effSource (demo.take 5) = some (.path ['a', '.', 'j', 's']) ∧
    effSource (demo.take 8) = some (.path ['b', '.', 'j', 's']) := by decide
example : ClassesOK pyClasses := pyClasses_ok
/-- what the model returns on `demo` (raw and normalised); equal to what the implementation returns -/
example : (write pyClasses false demo).map (·.mappings) =
    some [[[0, 0, 0, 0], [3, 0, 0, 3], [1, 0, 0, 1, 0], [1, 0, 0, 4]],
          [[0, 0, 1, -8], [2, 0, 0, 2], [1, 0, 0, 1]],
          [[0], [2, 1, -1, -3], [1, 1, 0, 1]]] := by decide
example : (write pyClasses true demo).map (·.mappings) =
    some [[[0, 0, 0, 0], [4, 0, 0, 4, 0], [1, 0, 0, 4]],
          [[0, 0, 1, -8]],
          [[2, 1, -1, 0], [1, 1, 0, 1]]] := by decide
example : (write pyClasses true demo).map (·.sources) =
    some [['a', '.', 'j', 's'], ['b', '.', 'j', 's'], invalidSource] := by decide

/-! ### the hypotheses are necessary -/

/-- a CRLF split over two fragments: three mapping lines for a two-line text -/
def splitCRLF : List Frag :=
  [⟨['a', '\r'], none, none, none, none⟩, ⟨['\n'], none, none, none, none⟩,
   ⟨['b'], some 1, some 1, none, none⟩]

example : ¬ NoSplitCRLF splitCRLF := by decide
/-- `line_count` fails without `NoSplitCRLF` -/
example : (write pyClasses false splitCRLF).map (·.mappings.length) = some 3 ∧
    lineCount (output splitCRLF) = 2 := by decide
/-- `write_decodes` fails without `NoSplitCRLF`: `b` is written at generated (1, 0), but line 1
of the map only has the unmapped segment of the `\n` fragment; `b`'s segment is on line 2 -/
example : genLC splitCRLF 2 = (1, 0) ∧
    ((write pyClasses false splitCRLF).bind (fun r => decode r.mappings)).map
      (fun D => (exactAt (lineAt D 1) 0, exactAt (lineAt D 2) 0)) =
      some (some ⟨0, none, none⟩, some ⟨0, some (0, 0, 0), none⟩) := by decide

/-- an explicitly positioned fragment with empty text emits nothing: `nonempty` is necessary -/
def emptyText : List Frag := [⟨[], some 1, some 1, none, none⟩]
example : NoSplitCRLF emptyText ∧
    ((write pyClasses false emptyText).bind (fun r => decode r.mappings)).map
      (fun D => exactAt (lineAt D 0) 0) = some none := by decide

end CalmVerif.Props.C09
