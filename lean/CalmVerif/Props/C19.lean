/-
C19 — Literal data in a program is extracted as the equal Python value.

Objects:
  Spec.Json (`CalmVerif/Spec/Json.lean`, independent of calmjs): `Syn` = JSON syntax tree with literals kept as
        SPELLINGS; `value : Syn → Option Value` (RFC 8259: `stringValue`, `numberValue` = exact sign/mantissa/decimal
        exponent + "integer spelling" flag); objects are association lists with last-wins `lookup`; `canon` = each
        name once (first position, last value).
  Model.Extract (`CalmVerif/Model/Extract.lean`): `extract fold tree` = model of `ast_to_dict(tree, fold_ops=fold)`
        interpreting the reflected rule objects `Gen.Extractor.defsOff/defsOn` (regenerated from /repo on every run);
        `pyLiteralEval` = `ast.literal_eval` on String/Number node texts; `ofJson` = the Python value `json.loads`
        returns for a JSON value (`pyOfNum`: int for integer spellings — so `-0` is `0` — else the float `toDouble` of
        the same exact decimal; `toDouble` is the correctly rounded conversion, modelled, tied by the check);
        `treeOf j` = the tree the ES5 parser builds for the JSON text (tied by the check); `varStmt / assignStmt /
        funcDecl / program` = the binding statements.
  Python values: `str` = list of code points (may contain lone surrogates), dict = association list in insertion order.

Findings (full statement refuted on a witness, theorem proved under the decidable exclusion `excludedBody`):
  KF-19a  `hasSolidusEscape`: a string spelling with the escape `\/`  — Python keeps the backslash.
  KF-19b  `hasSurrogatePair`: a UTF-16 surrogate pair spelled by two adjacent `\uXXXX` escapes — Python yields two
          lone surrogates, JSON one scalar value.  (An UNPAIRED surrogate escape agrees: Python's json keeps it too.)
-/
import CalmVerif.Proofs.ExtractBind
namespace CalmVerif.Props.C19
open CalmVerif CalmVerif.Spec.Json CalmVerif.Model.Extract CalmVerif.Proofs.Extract

/-! ## T1 strings -/

/-- ∀ JSON string body `s` (value `v`) without `\/` and without an escaped surrogate pair: Python's literal
evaluation of `"s"` (what LiteralEval feeds to ast.literal_eval) is the JSON value.  No ES5 side condition is
needed (raw U+2028/2029 never reach the extractor: the lexer rejects them). -/
theorem string_value_agree_partial (s : List Char) (v : List CodePoint)
    (hj : stringValue s = some v) (hx : excludedBody s = false) :
    pyLiteralEval ('"' :: (s ++ ['"'])) = .ok (.str v) :=
  string_agree s v hj hx

/-- the full statement is false: KF-19a witness `"\/"` -/
theorem string_value_agree_refuted_solidus :
    stringValue ['\\', '/'] = some [0x2F] ∧
    pyLiteralEval ['"', '\\', '/', '"'] = .ok (.str [0x5C, 0x2F]) ∧ excludedBody ['\\', '/'] = true :=
  ⟨rfl, rfl, rfl⟩

/-- the full statement is false: KF-19b witness `"😀"` -/
theorem string_value_agree_refuted_surrogates :
    stringValue ['\\', 'u', 'd', '8', '3', 'd', '\\', 'u', 'd', 'e', '0', '0'] = some [0x1F600] ∧
    pyLiteralEval ['"', '\\', 'u', 'd', '8', '3', 'd', '\\', 'u', 'd', 'e', '0', '0', '"']
      = .ok (.str [0xD83D, 0xDE00]) ∧
    excludedBody ['\\', 'u', 'd', '8', '3', 'd', '\\', 'u', 'd', 'e', '0', '0'] = true :=
  ⟨rfl, rfl, rfl⟩

/-- non-vacuity: all eight two-character escapes but `\/`, a BMP escape, an UNPAIRED surrogate escape, raw text -/
example : ∃ v, stringValue ['a', '\\', '"', '\\', '\\', '\\', 'b', '\\', 'f', '\\', 'n', '\\', 'r', '\\', 't',
      '\\', 'u', '0', '0', 'E', '9', '\\', 'u', 'd', '8', '0', '0', '/', 'z'] = some v ∧
    excludedBody ['a', '\\', '"', '\\', '\\', '\\', 'b', '\\', 'f', '\\', 'n', '\\', 'r', '\\', 't',
      '\\', 'u', '0', '0', 'E', '9', '\\', 'u', 'd', '8', '0', '0', '/', 'z'] = false :=
  ⟨[97, 34, 92, 8, 12, 10, 13, 9, 0xE9, 0xD800, 47, 122], rfl, rfl⟩

/-! ## T2 numbers -/

/-- ∀ JSON number text without its sign: `ast.literal_eval` gives the non-negative Python number of the same
spelling class (int exactly / float of the same exact decimal) -/
theorem number_literal_agree (neg : Bool) (t : List Char) (n : Num) (h : unsignedValue neg t = some n) :
    pyLiteralEval t = .ok (pyOfNum { n with neg := false }) :=
  pyLiteralEval_number neg t n h

/-- ∀ JSON number spelling (leading `-` included; fractions, exponents, `-0`, overflow): the extractor model on
the tree of the number (`Number`, or `UnaryExpr '-'` over `Number`, handled by GroupAsUnaryExprMinus), both
fold_ops settings, yields one fragment whose value is what json.loads gives: same kind (int / float), same
integer, same correctly rounded float incl. the sign of zero and ±inf. -/
theorem number_value_agree (fold : Bool) (t : List Char) (num : Num) (h : numberValue t = some num)
    (n : Nat) (hn : depth (numNode t) ≤ n) :
    ∃ f, walkNode fold n (numNode t) = .ok [.frag f] ∧ f.value = pyOfNum num :=
  walk_number fold n t num h hn

/-- negation commutes with the float conversion (sign handled symmetrically) -/
theorem minus_agree (n : Num) : pyNeg (pyOfNum { n with neg := false }) = .ok (pyOfNum { n with neg := true }) :=
  pyNeg_pyOfNum n

/-- non-vacuity and the corner spellings: `-0` is the int 0, `-0.0` the float -0.0, `1e2` a float, `1E401` +inf -/
example : numberValue ['-', '0'] = some ⟨true, 0, 0, true⟩ ∧ pyOfNum ⟨true, 0, 0, true⟩ = .int 0 := ⟨rfl, rfl⟩
example : numberValue ['-', '0', '.', '0'] = some ⟨true, 0, -1, false⟩ ∧
    pyOfNum ⟨true, 0, -1, false⟩ = .float (.fin true 0 0) := ⟨rfl, rfl⟩
example : numberValue ['1', 'e', '2'] = some ⟨false, 1, 2, false⟩ := rfl
example : numberValue ['-', '1', 'E', '4', '0', '1'] = some ⟨true, 1, 401, false⟩ ∧
    pyOfNum ⟨true, 1, 401, false⟩ = .float (.inf true) := ⟨rfl, rfl⟩
example : numberValue ['1', '2', '.', '5', '0', 'e', '-', '3'] = some ⟨false, 1250, -5, false⟩ := rfl

/-! ## T3 structure -/

/-- the binding forms around ANY value node that yields one fragment `f` (and is not an Assign node): each yields
exactly `{name: f.value}` / `{f: [[], {name: f.value}]}` -/
theorem extract_of_walk (fold : Bool) (kT : String) (aT : List (String × Val)) (f : Frag) (name fname : String)
    (hA : isSub kT "Assign" = false)
    (hf : walkNode fold (depth (Val.node kT aT) + 1) (Val.node kT aT) = .ok [.frag f]) :
    extract fold (program [varStmt name (.node kT aT)]) = .ok [(.str (cps name), f.value)] ∧
    extract fold (program [assignStmt name (.node kT aT)]) = .ok [(.str (cps name), f.value)] ∧
    extract fold (program [funcDecl fname [varStmt name (.node kT aT)]])
      = .ok [(.str (cps fname), .list [.list [], .dict [(.str (cps name), f.value)]])] ∧
    extract fold (program [funcDecl fname [assignStmt name (.node kT aT)]])
      = .ok [(.str (cps fname), .list [.list [], .dict [(.str (cps name), f.value)]])] := by
  have hd : 1 ≤ depth (Val.node kT aT) := by rw [depth_node]; omega
  generalize hdd : depth (Val.node kT aT) = d at hf hd
  have hVar := walk_varStmt fold d name kT aT f hf hA
  have hAsg := walk_assignStmt fold d name kT aT f hf hA
  have hFV : walkNode fold (d + 3 + 1) (funcDecl fname [varStmt name (.node kT aT)]) = _ :=
    walk_funcDecl fold (d + 3) fname "VarStatement" _ _ _ _ (by rfl) hVar
  have hFA : walkNode fold (d + 3 + 1) (funcDecl fname [assignStmt name (.node kT aT)]) = _ :=
    walk_funcDecl fold (d + 3) fname "ExprStatement" _ _ _ _ (by rfl) hAsg
  have pVar : walkNode fold (d + 3 + 1) (program [varStmt name (.node kT aT)]) = _ :=
    walk_program1 fold (d + 3) "VarStatement" _ _ _ _ hVar
  have pAsg : walkNode fold (d + 3 + 1) (program [assignStmt name (.node kT aT)]) = _ :=
    walk_program1 fold (d + 3) "ExprStatement" _ _ _ _ hAsg
  have pFV : walkNode fold (d + 4 + 1) (program [funcDecl fname [varStmt name (.node kT aT)]]) = _ :=
    walk_program1 fold (d + 4) "FuncDecl" _ _ _ _ hFV
  have pFA : walkNode fold (d + 4 + 1) (program [funcDecl fname [assignStmt name (.node kT aT)]]) = _ :=
    walk_program1 fold (d + 4) "FuncDecl" _ _ _ _ hFA
  refine ⟨?_, ?_, ?_, ?_⟩
  · unfold extract
    rw [depth_var name _ (hdd ▸ hd), hdd, pVar]
    exact dict_one _ _ rfl
  · unfold extract
    rw [depth_assign name _ (hdd ▸ hd), hdd, pAsg]
    exact dict_one _ _ rfl
  · unfold extract
    rw [depth_funcVar fname name _ (hdd ▸ hd), hdd, pFV]
    exact dict_one _ _ rfl
  · unfold extract
    rw [depth_funcAssign fname name _ (hdd ▸ hd), hdd, pFA]
    exact dict_one _ _ rfl

/-- ∀ JSON syntax tree `j` with value `v`, none of whose strings / member names is in the excluded classes, both
fold_ops settings, any names: each binding form yields exactly `{name: json value}` (nested in a function:
`{f: [[], {name: json value}]}`) and nothing else.  Objects: duplicate names are last-wins at the first position on
both sides (`canon`; the model's dict building is proved equal to `Spec.Json.insertAll`). -/
theorem extract_json_partial (fold : Bool) (j : Syn) (v : Value) (name fname : String)
    (hv : value j = some v) (hx : anyBody excludedBody j = false) :
    extract fold (program [varStmt name (treeOf j)]) = .ok [(.str (cps name), ofJson (canon v))] ∧
    extract fold (program [assignStmt name (treeOf j)]) = .ok [(.str (cps name), ofJson (canon v))] ∧
    extract fold (program [funcDecl fname [varStmt name (treeOf j)]])
      = .ok [(.str (cps fname), .list [.list [], .dict [(.str (cps name), ofJson (canon v))]])] ∧
    extract fold (program [funcDecl fname [assignStmt name (treeOf j)]])
      = .ok [(.str (cps fname), .list [.list [], .dict [(.str (cps name), ofJson (canon v))]])] := by
  obtain ⟨kT, aT, hnode, hA⟩ := treeOf_node j
  obtain ⟨f, hf, hfv⟩ := walk_json fold j v hv hx (depth (treeOf j) + 1) (by omega)
  rw [hnode] at hf ⊢
  rw [← hfv]
  exact extract_of_walk fold kT aT f name fname hA hf

/-- `{"a": 1, "b": [true, null, -2.5e0, "x"], "a": {}}` — duplicate name, nesting, every literal kind -/
def sample : Syn :=
  .obj [(['a'], .num ['1']),
        (['b'], .arr [.bool true, .null, .num ['-', '2', '.', '5', 'e', '0'], .str ['x']]),
        (['a'], .obj [])]

/-- non-vacuity of `extract_json_partial`; the duplicate name keeps its first position and its last value -/
example : ∃ v, value sample = some v ∧ anyBody excludedBody sample = false ∧
    ∃ w, canon v = .obj [([97], .obj []), ([98], w)] :=
  ⟨_, rfl, rfl, _, rfl⟩

/-- a String node whose text Python evaluates to `v` yields `v` (no exclusion: used for the refutations) -/
theorem walk_string_raw (fold : Bool) (n : Nat) (b : List Char) (v : PyVal)
    (h : pyLiteralEval ('"' :: (b ++ ['"'])) = .ok v) :
    walkNode fold (n + 1) (strNode b) = .ok [.frag ⟨v, "String", "String"⟩] := by
  simp [strNode, walkNode, def_String, runRules, runRule, getSrc, getattr, Gen.Extractor.deferrableHandlers, h, tok]

/-- the full statement (without the exclusion) is false of the model: KF-19a through the whole extractor, both
fold_ops settings: `var x = "\/";` gives `{x: '\\/'}` (backslash kept) where the JSON value is `'/'` -/
theorem extract_json_refuted_solidus (fold : Bool) :
    extract fold (program [varStmt "x" (treeOf (.str ['\\', '/']))]) = .ok [(.str (cps "x"), .str [0x5C, 0x2F])] ∧
    (value (.str ['\\', '/'])).map (fun v => ofJson (canon v)) = some (.str [0x2F]) := by
  refine ⟨?_, rfl⟩
  have h := walk_string_raw fold (depth (strNode ['\\', '/'])) ['\\', '/'] (.str [0x5C, 0x2F]) rfl
  exact (extract_of_walk fold "String" _ _ "x" "f" (by decide) h).1

/-- KF-19b through the whole extractor: `var x = "\ud83d\ude00";` gives two lone surrogates, JSON gives U+1F600 -/
theorem extract_json_refuted_surrogates (fold : Bool) :
    extract fold (program [varStmt "x"
        (treeOf (.str ['\\', 'u', 'd', '8', '3', 'd', '\\', 'u', 'd', 'e', '0', '0']))])
      = .ok [(.str (cps "x"), .str [0xD83D, 0xDE00])] ∧
    (value (.str ['\\', 'u', 'd', '8', '3', 'd', '\\', 'u', 'd', 'e', '0', '0'])).map
        (fun v => ofJson (canon v)) = some (.str [0x1F600]) := by
  refine ⟨?_, rfl⟩
  have h := walk_string_raw fold (depth (strNode ['\\', 'u', 'd', '8', '3', 'd', '\\', 'u', 'd', 'e', '0', '0']))
    ['\\', 'u', 'd', '8', '3', 'd', '\\', 'u', 'd', 'e', '0', '0'] (.str [0xD83D, 0xDE00]) rfl
  exact (extract_of_walk fold "String" _ _ "x" "f" (by decide) h).1

end CalmVerif.Props.C19
