/-
C12 (semantic actions)  The semantic actions of the composed parser model never fail internally: no
IndexError / TypeError / AttributeError of a `p_*` function, of `setpos` / `findpos` or of `lookup_colno` can be the
outcome of `Model.Parser.parse`; the only error a semantic action can produce is the library's ProductionError
(`Function statement requires a name …`).

How.  A shape typing of semantic values (Proofs/ActionsTotalDefs.lean): `Sh` = none / str / node k / list / elisions
is exactly what the probed action descriptors can observe of an argument (`selectRow` sees `kindOf`; `.spread`
needs a list; `.spreadMod` a non-empty list of nodes with an integer `value`; `.attrOf j "value"` a node kind that
always carries `value`; `raiseAt` a node whose token map holds position triples).  `cert` assigns to every nonterminal
the set of shapes its values may have — an UNTRUSTED certificate computed from the probed value shapes
`Gen.Actions.shapes` (regenerated from /repo on every run), nothing about it is assumed.
  * `actions_closed` [D]  the kernel decides the closure check `closedOK`: for every production and every row of its
    action, under the row's conditions on the argument kinds, evaluation is safe for all argument shapes of the
    certificate (slot indices in range, the accesses above well-typed, token-map texts are strings, …) and the shape of
    the result is in the certificate of the left-hand side.
  * Soundness (Proofs/ActionsTotal.lean `reduce_NI`, `reduce_res`): a call on arguments of certified shapes is not an
    internal error — PROVIDED `lookup_colno` succeeds (`LcOK`) — and returns a value of certified shape.
  * `lookup_colno` CAN raise IndexError in `findpos` (line number beyond the line table); it does not in a parse:
    `LineInv` (Proofs/ActionsTotalRun.lean): every tracked line number on the value stack is at most the length of the
    lexer's current line table, because a token's line has its entry when the lexer produces it, an empty production
    gets the lexer's current line, every other symbol copies its first child's, and the table only grows at its end
    (the lexer builder's `Reachable` / `Good` invariants, Proofs/ParserReach.lean).  No residual hypothesis.
  * Lifting to all configurations of a parse: `Lifts` / `reach_ginv` (shape relation), `reach_good`, `reach_lineinv`,
    `run_outcome`, `step_act_error`.
-/
import CalmVerif.Proofs.ActionsTotalRun
import CalmVerif.Props.C11comp
namespace CalmVerif.Props.C12act
open CalmVerif CalmVerif.Model CalmVerif.Model.LR CalmVerif.Model.Actions CalmVerif.Model.ActionDesc
open CalmVerif.Proofs.NodePos CalmVerif.Proofs.ActionsTotal CalmVerif.Proofs.ParserDrive
open CalmVerif.Props.C11comp

/-- probed value kind → shape; the lists of the nonterminal `elision` are elision lists -/
def kindToSh (name : String) : Kind → Sh
  | .none => .none
  | .str => .str
  | .list => if name == "elision" then .elisions else .list
  | .node k => .node k

/-- the (untrusted) certificate: Identifier nodes always carry `value`; per nonterminal the probed value shapes
    (the start symbol, whose action is never run, gets the shape of its dummy action) -/
def cert : Cert :=
  { req := [("Identifier", ["value"])],
    shapes := Gen.Tables.Cached.nonterminals.map fun name =>
      if name == "S'" then [Sh.none]
      else (((Gen.Actions.shapes.find? (·.1 == name)).map (·.2)).getD []).map (kindToSh name) }

/-- [D] the regenerated action table is closed under the shape typing -/
theorem actions_closed : closedOK cert Grammar.cached Gen.Actions.actions = true := by
  decide +kernel

/-- non-vacuity of the check: without the fact that Identifier nodes carry `value`, `PropIdentifier`'s
    `.attrOf 1 "value"` is not safe -/
example : closedOK { cert with req := [] } Grammar.cached Gen.Actions.actions = false := by
  decide +kernel

theorem prod0_ok : prod0OK C11.g = true := by
  have := extra_ok
  simp only [extraOK, Bool.and_eq_true] at this
  exact this.1.1

theorem lcOf_total (st : Lexer.LexState) (ln lx : Nat) (h0 : 0 < ln) (h : ln ≤ st.newlineIdx.length) :
    (lcOf st ln lx).isSome = true := by
  unfold lcOf Lexer.lookupColno
  have hne : ¬ ln = 0 := by omega
  have hlt : ln - 1 < st.newlineIdx.length := by omega
  simp [hne, List.getElem?_eq_getElem hlt]

abbrev Cfg := Config Lexer.Token PVal Lexer.LexState

/-- **at every call of a semantic action made while parsing, the action does not fail internally** -/
theorem action_call_no_internal {text : List Char} {wc : Bool} {c : Cfg}
    (hr : Reach Grammar.cached S Parser.source (initConfig (Lexer.init text wc false)) c)
    {p : Nat} {args : List PVal} {st : Lexer.LexState}
    (hc : reduceCall Grammar.cached S Parser.source c = some (p, args, st)) (w : String) :
    S.reduce p args st ≠ .error (.act (.internal w)) := by
  intro herr
  have hg : GoodCfg text c := reach_good (init_good text wc) hr
  have hl : LineInv c :=
    reach_lineinv (T := Grammar.cached) parser_actsem (fun _ => rfl) (init_good text wc)
      (by intro v hv; simp [initConfig] at hv) hr
  have hinv : GInv Grammar.cached S (ShRel cert Grammar.cached) c :=
    reach_ginv C03.tables_valid (shape_lifts gt prod0_ok parser_ty_le actions_closed parser_actsem)
      (ginv_init _) hr
  have hlc := call_lcOK (T := Grammar.cached) parser_actsem (fun _ => rfl) lcOf_total hg hl hc
  have hni := action_call_NI (table := Gen.Actions.actions) parser_actsem C03.tables_valid gt prod0_ok parser_ty_le
    actions_closed hinv hc hlc
  -- the model's `reduce` wraps the action's error in `.act`
  simp only [S, Parser.sem] at herr
  split at herr
  · simp at herr
  · next e he =>
    simp only [Except.error.injEq, Parser.PErr.act.injEq] at herr
    subst herr
    exact hni w he

/-- the same for every number of driver iterations -/
theorem run_no_action_internal (text : List Char) (wc : Bool) (n : Nat) (w : String) :
    (run Grammar.cached S Parser.source n (initConfig (Lexer.init text wc false))).1 ≠
      .error (.act (.internal w)) := by
  intro hrun
  have hreach := run_reach_snd (T := Grammar.cached) (S := S) (R := Parser.source) n
    (initConfig (Lexer.init text wc false))
  cases hr : run Grammar.cached S Parser.source n (initConfig (Lexer.init text wc false)) with
  | mk o c' =>
    rw [hr] at hrun hreach
    simp only at hrun hreach
    subst hrun
    rcases run_outcome n _ _ _ hr with ho | ho
    · cases ho
    · obtain ⟨p, args, st, hc, herr⟩ := step_act_error ho
      exact action_call_no_internal hreach hc w herr

/-- **T `parse_no_action_internal`**: `parse(text, with_comments)` never ends in a non-library exception raised by a
    semantic action (`p_*`, `setpos`, `findpos`, `lookup_colno`), for every text and both comment settings -/
theorem parse_no_action_internal (text : List Char) (wc : Bool) (w : String) :
    Model.Parser.parse text wc ≠ .error (.act (.internal w)) :=
  run_no_action_internal text wc (Parser.parseFuel text) w

/-- **T `parse_action_errors_are_production_errors`**: an error of a semantic action that ends a parse is the
    library's ProductionError (→ ECMASyntaxError) -/
theorem parse_action_errors_are_production_errors (text : List Char) (wc : Bool) (e : Actions.Err)
    (h : Model.Parser.parse text wc = .error (.act e)) : ∃ m, e = .production m := by
  cases e with
  | production m => exact ⟨m, rfl⟩
  | internal w => exact absurd h (parse_no_action_internal text wc w)

/-- Bool form of "the parse ended in a ProductionError of a semantic action" -/
def isProductionError : Outcome PVal Parser.PErr → Bool
  | .error (.act (.production _)) => true
  | _ => false

/-- non-vacuity of `parse_action_errors_are_production_errors`: errors of semantic actions do end parses — a
    function expression statement without a name is rejected by the action of `expr_statement`
    ("Function statement requires a name at 1:9") -/
example : isProductionError
    (Model.Parser.parse ['f', 'u', 'n', 'c', 't', 'i', 'o', 'n', '(', ')', '{', '}'] false) = true := by
  decide +kernel

end CalmVerif.Props.C12act
