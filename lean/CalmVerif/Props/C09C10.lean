/-
Composition of C09 and C10: the `mappings` STRING of every source map that `sourcemap.write` +
`encode_sourcemap` produce decodes (by the VLQ model's decoder, which `decoders_agree` identifies with the
independent Source Map V3 decoder on canonical strings) to exactly the raw mappings structure about which the
C09 theorems speak.  So the statements of Props/C09 (stated before the string encoding) hold for the
serialised map: nothing is lost or altered by `encode_mappings`.
-/
import CalmVerif.Props.C09
import CalmVerif.Props.C10
namespace CalmVerif.Props.C09C10
open CalmVerif.Model.SourceMap CalmVerif.Model.Vlq CalmVerif.Spec.VlqV3

/-- for EVERY fragment stream, character-class triple and normalisation flag: `write` succeeds, and encoding
    its mappings to the V3 string and decoding that string gives the mappings back -/
theorem written_mappings_string_roundtrip (cc : CharClasses) (frags : List Frag) (normalize : Bool) :
    ∃ r, write cc normalize frags = some r ∧
      (encodeMappings r.mappings >>= decodeMappings) = .ok r.mappings := by
  obtain ⟨r, hw, hwf⟩ := C09.write_WFMappings cc frags normalize
  exact ⟨r, hw, C10.mappings_roundtrip r.mappings hwf⟩

/-- non-vacuity: a two-line stream with a renamed identifier -/
example : ∃ r, write pyClasses true
    [⟨"a".toList, some 1, some 1, some "orig".toList, some (.path "x.js".toList)⟩, ⟨"\n".toList, some 0, some 0, none, none⟩,
     ⟨"b".toList, some 2, some 1, none, none⟩] = some r ∧ r.mappings.length = 2 := by
  decide

end CalmVerif.Props.C09C10
