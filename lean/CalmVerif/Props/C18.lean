/-
C18  Stream read/write helpers: same output, valid map link, no leaked streams.

Property theorems about the model `CalmVerif/Model/IO.lean` of `calmjs.parse.io.read` / `io.write` /
`sourcemap.write_sourcemap`.  They hold for ALL arrangements (`WArr` / `RArr`: each stream a factory or an
open object, the source-map stream absent / the same object as the output / separate, falsy objects, any
names, flags, `source_mapping_url`), ALL fragment lists (`NodesArg`), ALL fault plans
(`Plan = Prim → Nat → Option Exc`: any primitive failing at any occurrence, any subset) and ALL
interpretations of the uninterpreted functions (`Oracle`).

Reading the trace: `openedOf t` = streams obtained by calling a supplied factory (in order),
`closedOf t` = streams closed (in order), `faultsOf t` = (primitive, exception) of every primitive that raised,
`written s t` = the data handed to stream `s` (`write` argument / `writelines` items, in order).

The hypothesis `hclose` (a `close()` call never raises) is the one assumption of the closing theorems; the
`example`s at the end show what the code does without it.
-/
import CalmVerif.Proofs.IO
import CalmVerif.Proofs.IORead
import CalmVerif.Proofs.IOText

namespace CalmVerif.IO

/-- **io.write closes what it opened, exactly once, last; never closes what it was given; failures propagate.**

1. the trace is a part containing no `closed` event followed by the `closed` events of exactly the
   factory-obtained streams, most recent first (so each close comes after every other event);
2. only the factories of the arrangement are ever called (each at most once, in order);
3. every stream obtained from a factory has exactly one `closed` event (if the two factories do not hand
   out the same object);
4. a stream that is not the product of one of the arrangement's factories — in particular every stream passed
   in already open — has no `closed` event;
5. at most one primitive fails; if one did, the call raises exactly that exception; if none did, the call
   returns normally, or raises the `TypeError` of a `nodes` argument without any Node. -/
theorem write_closes_exactly_once (o : Oracle) (plan : Plan) (a : WArr)
    (hclose : ∀ s k, plan (.close s) k = none) :
    (∃ body, (runWrite o plan a).2.trace = body ++ (openedOf body).reverse.map Event.closed ∧ closedOf body = []) ∧
    (openedOf (runWrite o plan a).2.trace).Sublist a.factorySids ∧
    (a.factorySids.Nodup → ∀ s ∈ openedOf (runWrite o plan a).2.trace,
        (closedOf (runWrite o plan a).2.trace).count s = 1) ∧
    (∀ s, s ∉ a.factorySids → s ∉ closedOf (runWrite o plan a).2.trace) ∧
    (match faultsOf (runWrite o plan a).2.trace with
     | [] => (runWrite o plan a).1 = if a.nodes.valid then .ok () else .error typeErr
     | [(_, e)] => (runWrite o plan a).1 = .error e
     | _ => False) := by
  obtain ⟨body, h1, h2, h3, h4⟩ := ioWrite_shape o plan a hclose St.init rfl
  have h1' : (runWrite o plan a).2.trace = body ++ (openedOf body).reverse.map Event.closed := by
    simpa [runWrite, St.init] using h1
  obtain ⟨ho, hc, hf⟩ := shape_obs h1' h2
  refine ⟨⟨body, h1', h2⟩, ?_, ?_, ?_, ?_⟩
  · rw [ho]; exact h3
  · intro hn s hs
    rw [hc]; rw [ho] at hs
    exact count_one_of_sublist_nodup h3 hn hs
  · intro s hs hcl
    rw [hc] at hcl
    exact hs (h3.subset (List.mem_reverse.mp hcl))
  · rw [hf]
    show match faultsOf body with
      | [] => (ioWrite o plan a St.init).1 = _
      | [(_, e)] => (ioWrite o plan a St.init).1 = _
      | _ => False
    rcases h4 with ⟨hok, hf0, hv⟩ | ⟨e, he, hfe⟩ | ⟨he, hf0, hv⟩
    · simp [hf0, hok, hv]
    · match hfb : faultsOf body, hfe with
      | [(p, e')], hfe =>
        simp at hfe
        simp [he, hfe]
    · simp [hf0, he, hv]

/-- **io.read closes the stream it opened, exactly once, last; never closes a stream it was given; failures
propagate — a syntax error of the parser re-labelled, everything else unchanged.** -/
theorem read_closes_exactly_once (o : Oracle) (plan : Plan) (a : RArr)
    (hclose : ∀ s k, plan (.close s) k = none) :
    (∃ body, (runRead o plan a).2.trace = body ++ (openedOf body).reverse.map Event.closed ∧ closedOf body = []) ∧
    (openedOf (runRead o plan a).2.trace).Sublist (if a.stream.isFactory then [a.stream.sid] else []) ∧
    (∀ s ∈ openedOf (runRead o plan a).2.trace, (closedOf (runRead o plan a).2.trace).count s = 1) ∧
    (a.stream.isFactory = false → closedOf (runRead o plan a).2.trace = []) ∧
    (match faultsOf (runRead o plan a).2.trace with
     | [] => (runRead o plan a).1 = .ok { tree := a.tree, sourcepath := (a.info a.stream.sid).name }
     | [(p, e)] => (runRead o plan a).1 =
         .error (if p = .parse ∧ e.isSyntax = true then relabel o a a.stream.sid e else e)
     | _ => False) := by
  obtain ⟨body, h1, h2, h3, h4⟩ := ioRead_shape o plan a hclose St.init
  have h1' : (runRead o plan a).2.trace = body ++ (openedOf body).reverse.map Event.closed := by
    simpa [runRead, St.init] using h1
  obtain ⟨ho, hc, hf⟩ := shape_obs h1' h2
  refine ⟨⟨body, h1', h2⟩, ?_, ?_, ?_, ?_⟩
  · rw [ho]; exact h3
  · intro s hs
    rw [hc]; rw [ho] at hs
    refine count_one_of_sublist_nodup h3 ?_ hs
    split <;> simp
  · intro hnf
    rw [hc]
    simp [hnf] at h3
    simp [h3]
  · rw [hf]
    show match faultsOf body with
      | [] => (ioRead o plan a St.init).1 = _
      | [(p, e)] => (ioRead o plan a St.init).1 = _
      | _ => False
    rcases h4 with ⟨res, hok, hf0, hres⟩ | ⟨p, e, he, hfe⟩
    · simp [hf0, hok, hres]
    · simp [hfe, he, readExc]

/-- **A syntax error is re-raised with the same class and the message `"<msg> in <repr of the stream name>"`**
(`repr` of the stream object when it has no name or an empty one). -/
theorem read_relabels (o : Oracle) (plan : Plan) (a : RArr) (hclose : ∀ s k, plan (.close s) k = none)
    (e : Exc) (hsyn : e.isSyntax = true)
    (hfault : faultsOf (runRead o plan a).2.trace = [(.parse, e)]) :
    ∃ e', (runRead o plan a).1 = .error e' ∧ e'.cls = e.cls ∧ e'.isSyntax = e.isSyntax ∧
      e'.msg = e.msg ++ " in " ++
        (match (a.info a.stream.sid).name with
         | some n => if n.isEmpty then o.reprStream a.stream.sid else o.reprStr n
         | none => o.reprStream a.stream.sid) := by
  have h := (read_closes_exactly_once o plan a hclose).2.2.2.2
  rw [hfault] at h
  simp only [hsyn, and_self, if_true] at h
  exact ⟨_, h, rfl, rfl, rfl⟩

/-- **On success the tree carries the stream's name (or `None`) as its source path**, and it is the tree the
parser returned. -/
theorem read_sets_sourcepath (o : Oracle) (plan : Plan) (a : RArr) (hclose : ∀ s k, plan (.close s) k = none)
    (res : ReadResult) (hok : (runRead o plan a).1 = .ok res) :
    res.sourcepath = (a.info a.stream.sid).name ∧ res.tree = a.tree := by
  have h := (read_closes_exactly_once o plan a hclose).2.2.2.2
  match hf : faultsOf (runRead o plan a).2.trace, h with
  | [], h =>
    rw [hok] at h
    cases h
    exact ⟨rfl, rfl⟩
  | [(p, e)], h =>
    rw [hok] at h
    cases h

/-- **On success the output stream received exactly the printer's text, line by line, then the URL comment;
the map stream received exactly the serialised lower-level map; nothing else was written.**

`a.nodes.frags` are the fragments the unparser yields for the Nodes of the argument (chained), `mapText` is
`serialise(encode_sourcemap(normrel(map, out), mappings, [normrel(map, s) for s in sources], names))` with
`(mappings, sources, names) = sourcemap.write(frags, normalize)` (see `map_text_is_lowlevel_map`). -/
theorem write_text_is_printer_text (o : Oracle) (plan : Plan) (a : WArr)
    (hok : (runWrite o plan a).1 = .ok ()) :
    a.nodes.valid = true ∧
    (match a.sourcemap with
     | .none =>
         written a.output.sid (runWrite o plan a).2.trace = a.nodes.frags.flatMap (·.lines)
     | .same =>
         written a.output.sid (runWrite o plan a).2.trace = a.nodes.frags.flatMap (·.lines) ++
           (if a.outTruthy then dataUrlComment o a a.nodes.frags a.output.sid else [])
     | .other arg truthy =>
         if truthy = false then
           written a.output.sid (runWrite o plan a).2.trace = a.nodes.frags.flatMap (·.lines) ∧
           (arg.sid ≠ a.output.sid → written arg.sid (runWrite o plan a).2.trace = [])
         else if arg.sid = a.output.sid then
           written a.output.sid (runWrite o plan a).2.trace = a.nodes.frags.flatMap (·.lines) ++
             dataUrlComment o a a.nodes.frags a.output.sid
         else
           written a.output.sid (runWrite o plan a).2.trace = a.nodes.frags.flatMap (·.lines) ++
             urlComment o a a.output.sid arg.sid ∧
           written arg.sid (runWrite o plan a).2.trace = [mapText o a a.nodes.frags a.output.sid arg.sid]) := by
  obtain ⟨hv, closes, ht, hw⟩ := ioWrite_ok_trace o plan a St.init hok
  have ht' : (runWrite o plan a).2.trace = bodyEvents o a a.nodes.gens ++ closes := by
    simpa [runWrite, St.init] using ht
  refine ⟨hv, ?_⟩
  rw [ht']
  have hfr : a.nodes.gens.flatten = a.nodes.frags := rfl
  simp only [bodyEvents, smPart, hfr]
  cases hsm : a.sourcemap with
  | none => simp [hw, written_fragEvents_same]
  | same =>
    cases a.outTruthy <;> simp [hw, written_fragEvents_same, written_smEvents_same]
  | other arg truthy =>
    cases truthy with
    | false =>
      simp only [hw, written_append, written_openEvents, written_fragEvents_same]
      refine ⟨by simp [written], fun hne => ?_⟩
      simp [written, written_fragEvents_other (fun e => hne e.symm)]
    | true =>
      by_cases heq : arg.sid = a.output.sid
      · simp [heq, hw, written_fragEvents_same, written_smEvents_same]
      · have hne : a.output.sid ≠ arg.sid := fun e => heq e.symm
        simp [heq, hw, written_fragEvents_same, written_fragEvents_other hne,
          written_smEvents_out o a _ heq, written_smEvents_sm o a _ heq]

/-- the text form of the previous theorem: the output is the concatenation of the fragment texts followed by
the URL comment -/
theorem write_content_is_printer_text (o : Oracle) (plan : Plan) (a : WArr)
    (hok : (runWrite o plan a).1 = .ok ()) :
    (a.sourcemap = .none →
      content a.output.sid (runWrite o plan a).2.trace = concat (a.nodes.frags.map Frag.text)) ∧
    (a.sourcemap = .same → a.outTruthy = true →
      content a.output.sid (runWrite o plan a).2.trace = concat (a.nodes.frags.map Frag.text) ++
        (dataUrlPrefix ++ (encodingOf a a.output.sid ++ ("," ++
          (o.b64 (encodingOf a a.output.sid) (mapText o a a.nodes.frags a.output.sid a.output.sid) ++ ""))))) ∧
    (∀ arg, a.sourcemap = .other arg true → arg.sid ≠ a.output.sid →
      content a.output.sid (runWrite o plan a).2.trace = concat (a.nodes.frags.map Frag.text) ++
        concat (urlComment o a a.output.sid arg.sid) ∧
      content arg.sid (runWrite o plan a).2.trace = mapText o a a.nodes.frags a.output.sid arg.sid ++ "") := by
  have h := (write_text_is_printer_text o plan a hok).2
  refine ⟨fun hsm => ?_, fun hsm ht => ?_, fun arg hsm hne => ?_⟩
  · rw [hsm] at h
    simp only at h
    simp [content, h, concat_lines_eq_texts]
  · rw [hsm] at h
    simp only [ht, if_true] at h
    simp [content, h, concat_append, concat_lines_eq_texts, dataUrlComment, concat]
  · rw [hsm] at h
    simp [hne] at h
    simp [content, h.1, h.2, concat_append, concat_lines_eq_texts, concat]

/-- **The map text is the serialisation of the lower-level map** with every path made relative to the map
(`normalize_paths`), or verbatim. -/
theorem map_text_is_lowlevel_map (o : Oracle) (a : WArr) (frags : List Frag) (out sm : Sid) :
    mapText o a frags out sm =
      (if a.normPaths then
        o.serialise (o.normrel (nameOr a sm) (nameOr a out)) (o.smWrite a.normMappings frags).mappings
          ((o.smWrite a.normMappings frags).sources.map (o.normrel (nameOr a sm)))
          (o.smWrite a.normMappings frags).names
       else
        o.serialise (nameOr a out) (o.smWrite a.normMappings frags).mappings
          (o.smWrite a.normMappings frags).sources (o.smWrite a.normMappings frags).names) ∧
    mapUrl o a out sm = (if a.normPaths then o.normrel (nameOr a out) (nameOr a sm) else nameOr a sm) := by
  constructor <;> simp [mapText, mapUrl]

/-- **Finding KF-18a (the "valid map link" clause fails for relative stream names).**  `utils.normrelpath`
only relativises when BOTH names are absolute; otherwise the default `sourceMappingURL` is the map stream's
name verbatim — a path relative to the current directory, not to the output file — and likewise `file` and
`sources` inside the map are the names verbatim (not relative to the map).  Output `build/app.js` + map
`build/app.js.map` gives the URL `build/app.js.map`, which a consumer resolves to `build/build/app.js.map`
(see the `example` below; replayed on the implementation by the check). -/
theorem url_verbatim_unless_both_absolute (o : Oracle) (a : WArr) (out sm : Sid)
    (h : (isAbs (nameOr a out) && isAbs (nameOr a sm)) = false) :
    mapUrl o a out sm = nameOr a sm ∧
    (a.normPaths = true → mapText o a frags out sm =
      o.serialise (nameOr a out) (o.smWrite a.normMappings frags).mappings
        ((o.smWrite a.normMappings frags).sources.map (o.normrel (nameOr a sm)))
        (o.smWrite a.normMappings frags).names) := by
  have h' : (isAbs (nameOr a sm) && isAbs (nameOr a out)) = false := by
    rw [Bool.and_comm]; exact h
  constructor
  · unfold mapUrl Oracle.normrel
    simp [h]
  · intro hn
    unfold mapText
    simp only [hn, if_true]
    congr 1
    unfold Oracle.normrel
    simp [h']

/-! ### non-vacuity: concrete arrangements and fault plans -/

namespace Example

/-- a cheap interpretation of the uninterpreted functions (no string computation, so that `decide` evaluates) -/
def orc : Oracle where
  relpath _ t := t
  smWrite _ _ := { mappings := "AAAA", sources := ["src.js"], names := "[]" }
  serialise f _ _ _ := f
  b64 _ t := t
  reprStr n := n
  reprStream _ := "<stream>"

instance [DecidableEq α] : DecidableEq (Except Exc α) := fun a b =>
  match a, b with
  | .ok _, .error _ => isFalse (by intro h; cases h)
  | .error _, .ok _ => isFalse (by intro h; cases h)
  | .error x, .error y => if h : x = y then isTrue (by rw [h]) else isFalse (by intro h'; cases h'; exact h rfl)
  | .ok x, .ok y => if h : x = y then isTrue (by rw [h]) else isFalse (by intro h'; cases h'; exact h rfl)

def ioErr : Exc := { cls := "IOError", msg := "disk full" }
def synErr : Exc := { cls := "ECMASyntaxError", msg := "Unexpected token", isSyntax := true }

/-- both streams come from factories (0 ↦ stream 1, 1 ↦ stream 2); two fragments, three lines -/
def arr : WArr :=
  { nodes := .single [{ lines := ["a\n", "b"] }, { lines := ["c"] }],
    output := .factory 0 1, sourcemap := .other (.factory 1 2) true,
    info := fun s => if s = 1 then { name := some "/out/app.js" } else { name := some "/out/app.js.map" } }

/-- the second `write` on the output stream fails -/
def planWrite : Plan := fun p k => if p = .write 1 ∧ k = 1 then some ioErr else none

/-- the hypotheses of `write_closes_exactly_once` are satisfiable, with a failure in the middle of the output -/
example := write_closes_exactly_once orc planWrite arr (by intro s k; simp [planWrite])

example : (runWrite orc planWrite arr).2.trace =
    [.opened 0 1, .wrote 1 "a\n", .fault (.write 1) 1 ioErr, .closed 1] := by decide +kernel
example : (runWrite orc planWrite arr).1 = .error ioErr := by decide +kernel

/-- nothing fails: both streams are closed, the map stream first -/
example : (runWrite orc (fun _ _ => none) arr).2.trace =
    [.opened 0 1, .wrote 1 "a\n", .wrote 1 "b", .wrote 1 "c", .opened 1 2,
     .wrotelines 1 ["\n//# sourceMappingURL=", "/out/app.js.map", "\n"],
     .wrote 2 "/out/app.js", .closed 2, .closed 1] := by decide +kernel

/-- the source-map factory itself fails: the output stream is still closed -/
example : closedOf (runWrite orc (fun p _ => if p = .factory 1 then some ioErr else none) arr).2.trace = [1] ∧
    openedOf (runWrite orc (fun p _ => if p = .factory 1 then some ioErr else none) arr).2.trace = [1] := by decide +kernel

/-- WITHOUT the hypothesis on `close`: when closing the map stream (closed first) raises, `cleanup` stops —
the output stream obtained from a factory is never closed, and the close error is what propagates. -/
def planClose : Plan := fun p _ => if p = .close 2 then some ioErr else none

example : openedOf (runWrite orc planClose arr).2.trace = [1, 2] ∧
    closedOf (runWrite orc planClose arr).2.trace = [] ∧
    (runWrite orc planClose arr).1 = .error ioErr := by decide +kernel

/-- a failing `close` also replaces a pending exception (the write error is lost) -/
example : (runWrite orc (fun p k => if p = .close 1 then some synErr else planWrite p k) arr).1 = .error synErr ∧
    faultsOf (runWrite orc (fun p k => if p = .close 1 then some synErr else planWrite p k) arr).2.trace =
      [(.write 1, ioErr), (.close 1, synErr)] := by decide +kernel

/-- KF-18a witness: relative names in a sub-directory -/
def arrRel : WArr :=
  { arr with info := fun s => if s = 1 then { name := some "build/app.js" } else { name := some "build/app.js.map" } }

example (o : Oracle) : mapUrl o arrRel 1 2 = "build/app.js.map" :=
  (url_verbatim_unless_both_absolute (frags := []) o arrRel 1 2 (by decide +kernel)).1

example (o : Oracle) : urlComment o arrRel 1 2 = ["\n//# sourceMappingURL=", "build/app.js.map", "\n"] := by
  simp only [urlComment, arrRel, arr]
  rfl

def rarr : RArr := { stream := .factory 0 1, info := fun _ => { name := some "lib/app.js" }, tree := 5 }

def planParse : Plan := fun p _ => if p = .parse then some synErr else none

example := read_closes_exactly_once orc planParse rarr (by intro s k; simp [planParse])
example := read_relabels orc planParse rarr (by intro s k; simp [planParse]) synErr rfl (by decide)

example : (runRead orc planParse rarr).2.trace =
    [.opened 0 1, .read 1, .fault .parse 0 synErr, .closed 1] := by decide +kernel
example : (runRead orc planParse rarr).1 = .error (relabel orc rarr 1 synErr) := by decide +kernel
example : (runRead orc (fun _ _ => none) rarr).1 = .ok { tree := 5, sourcepath := some "lib/app.js" } := by decide +kernel

end Example

end CalmVerif.IO
