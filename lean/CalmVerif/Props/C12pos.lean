/-
Property C12, second clause, on the composed model: "The line:column quoted in a syntax-error message designates a
place in the input where the quoted offending text actually occurs" — for the parser's OWN syntax errors, i.e. the
messages `Parser._raise_syntax_error` (`Model.Parser.raiseSyntaxError`) builds inside `Parser.p_error`
(`Model.Parser.pError`).  (The lexer's own messages — illegal character, unterminated literal, regex errors —
are not the subject of this file.)

`_raise_syntax_error(token)` formats up to three tokens with `format_lex_token` (`'value' at lineno:colno`):
`lexer.valid_prev_token` (a), the offending `token` unless it is an inserted AutoLexToken (b), and the NEXT token
`lexer.token()` (c), read for the message.  `errorTokens` is that list, `messageOf` the text made from it.

  (1) `raiseSyntaxError_message`: the message IS `messageOf (errorTokens …)`: "Unexpected end of input",
      "Unexpected end of input after a", "Unexpected b after a", "Unexpected b between a and c".
  (2) `syntax_error_tokens_located_partial`: for every text and comment flag, every configuration `c` a parse passes
      through, at every call `p_error` makes of `_raise_syntax_error` there: every REAL token `t` among the quoted
      ones is `Located`: `t.value` is non-empty and is exactly the text at offset `t.lexpos`, and
      `(t.lineno, t.colno)` is the ES5-counted (line, column) of that offset (`Spec.Lines.lineCol`).  The previous
      token and the offending token, when shown, are ALWAYS real (`auto_offending_not_shown`: the inserted AUTOSEMI
      handed to `p_error` is never shown).
      `_partial`, because the full claim is FALSE of the code for the third token: `lexer.token()` can return the
      AUTOSEMI the LEXER inserts after `break` / `continue` / `return` / `throw` + line terminator, and that token
      IS quoted: `a return⏎x` raises "Unexpected 'return' at 1:3 between 'a' at 1:1 and ';' at 1:0" although the
      text holds no `;` and no column 0 exists (`next_token_may_be_inserted`, `full_claim_false`; /repo raises the
      same message).  The
      exclusion predicate is `t.auto = false`; the theorem also shows the only excluded token is that third one, of
      type AUTOSEMI and value `;`.
  (3) `parse_syntax_error_located_partial`: end to end — if `parse text wc` ends in an exception of the lexer /
      p_error side, it is either an exception the lexer raised (in `token()` or in the re-lexing
      `backtracked_token(1)`), or the syntax error `messageOf ts` of a token list `ts` as in (2).

  (4) FULL strength for the offending text (no exclusion): `offending_token_located` — at every such call the
      offending token, when shown, and the previous token are `Located`; only the LAST quoted token (the look-ahead
      read for the message) can fail, and then it is the lexer's AUTOSEMI.  `parse_offending_token_located` — the
      same end to end, with `unexpectedTok ts` = the token the message calls "Unexpected" (`messageOf_unexpected`):
      when a previous token exists, the shown offending token IS `unexpectedTok ts` (`unexpected_is_offending`).
      Quirk of the code (not a position defect): WITHOUT a previous token the roles shift — `] x y` raises
      "Unexpected 'x' at 1:3 after ']' at 1:1", the offending `]` is printed after "after" and the NEXT token is
      called "Unexpected" (`unexpected_may_be_next_token`); both are still located.

The new invariant behind (2) (`Proofs/ErrorPos.lean`, `VP`): `cur_token` and `valid_prev_token` of every lexer
state the parser can be in are real tokens with counted positions and their text at their offset
(`valid_prev_token` is only assigned from `cur_token`, `cur_token` only from `get_lexer_token()`,
`backtracked_token` restores `valid_prev_token`); the offending token and the next token are `Good`
(Props.C11tok `config_good`, `Proofs.LexerDrive.token_drive`).
-/
import CalmVerif.Props.C11tok
import CalmVerif.Proofs.ErrorPos
import CalmVerif.Proofs.LRTotal
import CalmVerif.Props.C12parse

namespace CalmVerif.Props.C12pos
open CalmVerif CalmVerif.Model CalmVerif.Model.LR CalmVerif.Model.Lexer
open CalmVerif.Props.C11comp CalmVerif.Props.C11tok
open CalmVerif.Proofs.NodePos CalmVerif.Proofs.LexerDrive CalmVerif.Proofs.ParserDrive CalmVerif.Proofs.LexerPos
open CalmVerif.Proofs.ErrorPos

/-- the offending token as `_raise_syntax_error` shows it: not at end of input, not an inserted token -/
def shownTok (tok : Option Token) : Option Token :=
  match tok with
  | some t => if t.auto then none else some t
  | none => none

/-- the tokens quoted by `_raise_syntax_error(tok)` in lexer state `st`, in the order previous / offending / next
    (`none` when reading the next token raises) -/
def errorTokens (st : LexState) (tok : Option Token) : Option (List Token) :=
  match Lexer.token st with
  | .error _ => none
  | .ok (nxt, _) => some ([st.validPrevToken, shownTok tok, nxt].filterMap id)

/-- the message made of the quoted tokens -/
def messageOf : List Token → String
  | [] => "Unexpected end of input"
  | [a] => "Unexpected end of input after " ++ formatLexToken a
  | [a, b] => "Unexpected " ++ formatLexToken b ++ " after " ++ formatLexToken a
  | a :: b :: c :: _ =>
    "Unexpected " ++ formatLexToken b ++ " between " ++ formatLexToken a ++ " and " ++ formatLexToken c

/-- the quoted text really occurs at the quoted place: the value is non-empty and is the text at the token's offset,
    and (lineno, colno) is the ES5-counted (line, column) of that offset -/
def Located (text : List Char) (t : Token) : Prop :=
  t.value ≠ [] ∧ (text.drop t.lexpos).take t.value.length = t.value ∧
  (t.lineno, t.colno) = ((Spec.Lines.lineCol text t.lexpos).1, ((Spec.Lines.lineCol text t.lexpos).2 : Int))

/-! ### (1) the message -/

/-- **T `raiseSyntaxError_message`** -/
theorem raiseSyntaxError_message (st : LexState) (tok : Option Token) (ts : List Token)
    (h : errorTokens st tok = some ts) : Parser.raiseSyntaxError st tok = .lex (.syntax (messageOf ts)) := by
  unfold errorTokens at h
  unfold Parser.raiseSyntaxError
  split at h
  · simp at h
  · rename_i nxt st2 htk
    simp only [Option.some.injEq] at h
    subst h
    rw [htk]
    rcases tok with _ | t
    · cases st.validPrevToken <;> cases nxt <;> rfl
    · cases ha : t.auto
      · simp only [shownTok, ha, Bool.false_eq_true, ↓reduceIte]
        cases st.validPrevToken <;> cases nxt <;> rfl
      · simp only [shownTok, ha, ↓reduceIte]
        cases st.validPrevToken <;> cases nxt <;> rfl

/-- when reading the next token raises, that exception replaces the syntax error -/
theorem raiseSyntaxError_lexer_error (st : LexState) (tok : Option Token) (e : Err)
    (h : Lexer.token st = .error e) : Parser.raiseSyntaxError st tok = .lex e := by
  unfold Parser.raiseSyntaxError
  rw [h]

/-- the inserted AUTOSEMI handed to `p_error` is never shown: the message is that of "end of input" there -/
theorem auto_offending_not_shown (st : LexState) (t : Token) (ha : t.auto = true) :
    errorTokens st (some t) = errorTokens st none ∧
    Parser.raiseSyntaxError st (some t) = Parser.raiseSyntaxError st none := by
  have hs : shownTok (some t) = shownTok none := by simp [shownTok, ha]
  constructor
  · unfold errorTokens; rw [hs]
  · unfold Parser.raiseSyntaxError
    simp [ha]

/-! ### (2) the quoted tokens are located -/

theorem located_of_realAt {text : List Char} {t : Token} (h : RealAt text t) : Located text t := by
  obtain ⟨_, hpos, hval, hne⟩ := h
  refine ⟨hne, hval, ?_⟩
  rw [Proofs.LinesBridge.lineCol_bridge, hpos.1, hpos.2]

/-- one call `_raise_syntax_error(tok)` from a lexer state satisfying the invariants, `tok` a token the parser
    holds: every quoted real token is `RealAt`; the previous and the offending token are real; an inserted token
    among the quoted ones is the AUTOSEMI `;` that `lexer.token()` returned -/
theorem raise_tokens_realAt {text : List Char} {st : LexState} {tok : Option Token}
    (hr : Reachable text st) (hv : VP text st) (htok : ∀ t, tok = some t → Good text st.newlineIdx t)
    {ts : List Token} (h : errorTokens st tok = some ts) :
    ∀ t ∈ ts, (t.auto = false → RealAt text t) ∧
      (t.auto = true → t.type = "AUTOSEMI" ∧ t.value = [';'] ∧ ∃ st', Lexer.token st = .ok (some t, st')) := by
  unfold errorTokens at h
  split at h
  · simp at h
  · rename_i nxt st2 htk
    simp only [Option.some.injEq] at h
    subst h
    obtain ⟨_, _, hnx⟩ := token_drive hr htk
    intro t ht
    have hcases : st.validPrevToken = some t ∨ shownTok tok = some t ∨ nxt = some t := by
      have : some t = st.validPrevToken ∨ some t = shownTok tok ∨ some t = nxt := by
        simpa [List.mem_filterMap] using ht
      exact this.imp Eq.symm (Or.imp Eq.symm Eq.symm)
    rcases hcases with h1 | h1 | h1
    · have := hv.2 t h1
      exact ⟨fun _ => this, fun ha => by rw [this.1] at ha; cases ha⟩
    · unfold shownTok at h1
      split at h1
      · rename_i t0
        split at h1
        · simp at h1
        · rename_i hna
          simp only [Option.some.injEq] at h1
          subst h1
          have hna' : t0.auto = false := by simpa using hna
          exact ⟨fun _ => realAt_of_good (htok _ rfl) hna', fun ha => by rw [hna'] at ha; cases ha⟩
      · simp at h1
    · subst h1
      have hg := hnx t rfl
      exact ⟨fun ha => realAt_of_good hg ha, fun ha => ⟨(hg.2 ha).1, (hg.2 ha).2.1, st2, htk⟩⟩

/-- ply calls `p_error` at `c`: the state on top of the stack has no action on the look-ahead; `c1` is `c` with the
    look-ahead fetched (`step` then is `doError c1`, i.e. `pError c1.src (lookTok c1)`: `pErrorCall_step`) -/
def PErrorCall (c c1 : Cfg) : Prop :=
  ∃ state rest, c.states = state :: rest ∧ fetch Grammar.cached S Parser.source c state = .ok (none, c1)

theorem pErrorCall_step {c c1 : Cfg} (h : PErrorCall c c1) :
    step Grammar.cached S Parser.source c = doError Parser.source c1 := by
  obtain ⟨state, rest, hst, hf⟩ := h
  unfold step
  rw [hst]
  simp only
  rw [hf]

/-- what is proved of the tokens `ts` quoted at a call `_raise_syntax_error` made in lexer state `st`: every real
    one is `Located`; an inserted one is the AUTOSEMI `;` returned by `lexer.token()` (the third of the three) -/
def QuotedOK (text : List Char) (st : LexState) (ts : List Token) : Prop :=
  ∀ t ∈ ts, (t.auto = false → Located text t) ∧
    (t.auto = true → t.type = "AUTOSEMI" ∧ t.value = [';'] ∧ ∃ st', Lexer.token st = .ok (some t, st'))

/-- **T `syntax_error_tokens_located_partial`**: for every text and flag, every configuration `c` the parse passes
    through at which ply calls `p_error`, if `p_error` calls `_raise_syntax_error` (in lexer state `st'`:
    `Proofs.ErrorPos.raiseCall`, tied to `pError` by `pError_error_cases`), the tokens quoted are `QuotedOK`.
    Partial: the exclusion `t.auto = false` cannot be dropped (`next_token_may_be_inserted`). -/
theorem syntax_error_tokens_located_partial {text : List Char} {wc : Bool} {c c1 : Cfg} {st' : LexState}
    {ts : List Token}
    (hr : Reach Grammar.cached S Parser.source (cfg0 text wc) c) (hc : PErrorCall c c1)
    (hcall : raiseCall c1.src (lookTok c1) = some st')
    (h : errorTokens st' (lookTok c1) = some ts) : QuotedOK text st' ts := by
  obtain ⟨state, rest, _, hf⟩ := hc
  have hg := config_good hr
  have hv := reach_vp (init_good text wc) (init_vp text wc false) hr
  obtain ⟨hg1, _, _⟩ := fetch_good hg hf
  have hv1 := fetch_vp hg hv hf
  obtain ⟨hr', hv', hpre⟩ := raiseCall_inv hg1.1 hv1 (lookTok c1) (lookTok_good hg1) hcall
  have htok : ∀ t, lookTok c1 = some t → Good text st'.newlineIdx t :=
    fun t ht => (lookTok_good hg1 t ht).mono hpre
  intro t ht
  obtain ⟨h1, h2⟩ := raise_tokens_realAt hr' hv' htok h t ht
  exact ⟨fun ha => located_of_realAt (h1 ha), h2⟩

/-- the lexer state of such a call satisfies the invariants, and the offending token is `Good` -/
theorem raise_state_ok {text : List Char} {wc : Bool} {c c1 : Cfg} {st' : LexState}
    (hr : Reach Grammar.cached S Parser.source (cfg0 text wc) c) (hc : PErrorCall c c1)
    (hcall : raiseCall c1.src (lookTok c1) = some st') :
    Reachable text st' ∧ VP text st' ∧ ∀ t, lookTok c1 = some t → Good text st'.newlineIdx t := by
  obtain ⟨state, rest, _, hf⟩ := hc
  have hg := config_good hr
  have hv := reach_vp (init_good text wc) (init_vp text wc false) hr
  obtain ⟨hg1, _, _⟩ := fetch_good hg hf
  have hv1 := fetch_vp hg hv hf
  obtain ⟨hr', hv', hpre⟩ := raiseCall_inv hg1.1 hv1 (lookTok c1) (lookTok_good hg1) hcall
  exact ⟨hr', hv', fun t ht => (lookTok_good hg1 t ht).mono hpre⟩

theorem shownTok_some {tok : Option Token} {t : Token} (h : shownTok tok = some t) : tok = some t ∧ t.auto = false := by
  unfold shownTok at h
  split at h
  · rename_i t0
    split at h
    · simp at h
    · rename_i hna
      simp only [Option.some.injEq] at h
      subst h
      exact ⟨rfl, by simpa using hna⟩
  · simp at h

/-- the token the message calls "Unexpected": the second of the quoted ones ("Unexpected b after a",
    "Unexpected b between a and c"); none for the two "Unexpected end of input" shapes -/
def unexpectedTok : List Token → Option Token
  | _ :: b :: _ => some b
  | _ => none

/-- `unexpectedTok` is what `messageOf` prints after "Unexpected " -/
theorem messageOf_unexpected (ts : List Token) :
    (∀ u, unexpectedTok ts = some u → ∃ rest, messageOf ts = "Unexpected " ++ formatLexToken u ++ rest) ∧
    (unexpectedTok ts = none → messageOf ts = "Unexpected end of input" ∨
      ∃ a, ts = [a] ∧ messageOf ts = "Unexpected end of input after " ++ formatLexToken a) := by
  match ts with
  | [] => exact ⟨fun u hu => by simp [unexpectedTok] at hu, fun _ => Or.inl rfl⟩
  | [a] => exact ⟨fun u hu => by simp [unexpectedTok] at hu, fun _ => Or.inr ⟨a, rfl, rfl⟩⟩
  | [a, b] =>
    refine ⟨fun u hu => ?_, fun h => by simp [unexpectedTok] at h⟩
    simp only [unexpectedTok, Option.some.injEq] at hu
    subst hu
    refine ⟨" after " ++ formatLexToken a, ?_⟩
    show "Unexpected " ++ formatLexToken b ++ " after " ++ formatLexToken a = _
    rw [String.append_assoc]
  | a :: b :: c :: r =>
    refine ⟨fun u hu => ?_, fun h => by simp [unexpectedTok] at h⟩
    simp only [unexpectedTok, Option.some.injEq] at hu
    subst hu
    refine ⟨" between " ++ (formatLexToken a ++ (" and " ++ formatLexToken c)), ?_⟩
    show "Unexpected " ++ formatLexToken b ++ " between " ++ formatLexToken a ++ " and " ++ formatLexToken c = _
    rw [String.append_assoc, String.append_assoc, String.append_assoc]

theorem unexpectedTok_mem {ts : List Token} {u : Token} (h : unexpectedTok ts = some u) : u ∈ ts := by
  match ts with
  | [] => simp [unexpectedTok] at h
  | [a] => simp [unexpectedTok] at h
  | a :: b :: r =>
    simp only [unexpectedTok, Option.some.injEq] at h
    subst h
    simp

/-- when a previous token exists and the offending token is shown, the token called "Unexpected" IS the offending
    token.  (Without a previous token the code shifts the roles: `unexpected_may_be_next_token`.) -/
theorem unexpected_is_offending {st : LexState} {tok : Option Token} {ts : List Token} {p t : Token}
    (hp : st.validPrevToken = some p) (ht : shownTok tok = some t) (h : errorTokens st tok = some ts) :
    unexpectedTok ts = some t := by
  unfold errorTokens at h
  split at h
  · simp at h
  · simp only [Option.some.injEq] at h
    subst h
    rw [hp, ht]
    rfl

/-- **T `offending_token_located`** (full strength): under the hypotheses of
    `syntax_error_tokens_located_partial`, the offending token, when shown, is `Located`, and so is the previous
    token; a quoted token that is not `Located` can only be the LAST one — the look-ahead `lexer.token()` fetched
    for the message — and then it is the AUTOSEMI `;` inserted by the lexer -/
theorem offending_token_located {text : List Char} {wc : Bool} {c c1 : Cfg} {st' : LexState} {ts : List Token}
    (hr : Reach Grammar.cached S Parser.source (cfg0 text wc) c) (hc : PErrorCall c c1)
    (hcall : raiseCall c1.src (lookTok c1) = some st')
    (h : errorTokens st' (lookTok c1) = some ts) :
    (∀ t, shownTok (lookTok c1) = some t → Located text t) ∧
    (∀ p, st'.validPrevToken = some p → Located text p) ∧
    (∀ t ∈ ts, ¬ Located text t →
      t.auto = true ∧ t.type = "AUTOSEMI" ∧ t.value = [';'] ∧ ts.getLast? = some t ∧
      ∃ st'', Lexer.token st' = .ok (some t, st'')) := by
  obtain ⟨hr', hv', htok⟩ := raise_state_ok hr hc hcall
  have hshown : ∀ t, shownTok (lookTok c1) = some t → Located text t := by
    intro t ht
    obtain ⟨h1, h2⟩ := shownTok_some ht
    exact located_of_realAt (realAt_of_good (htok t h1) h2)
  have hprev : ∀ p, st'.validPrevToken = some p → Located text p :=
    fun p hp => located_of_realAt (hv'.2 p hp)
  refine ⟨hshown, hprev, ?_⟩
  intro t ht hnl
  have hq := syntax_error_tokens_located_partial hr hc hcall h t ht
  unfold errorTokens at h
  split at h
  · simp at h
  · rename_i nxt st2 htk
    simp only [Option.some.injEq] at h
    subst h
    have hcases : some t = st'.validPrevToken ∨ some t = shownTok (lookTok c1) ∨ some t = nxt := by
      simpa [List.mem_filterMap] using ht
    rcases hcases with h1 | h1 | h1
    · exact absurd (hprev t h1.symm) hnl
    · exact absurd (hshown t h1.symm) hnl
    · subst h1
      have ha : t.auto = true := by
        cases hta : t.auto with
        | true => rfl
        | false => exact absurd (hq.1 hta) hnl
      obtain ⟨h2, h3, _⟩ := hq.2 ha
      refine ⟨ha, h2, h3, ?_, st2, htk⟩
      cases st'.validPrevToken <;> cases shownTok (lookTok c1) <;> rfl

/-- the message of that call, in the same setting: `p_error` raises exactly `messageOf ts` -/
theorem syntax_error_message_at_call {c1 : Cfg} {st' : LexState} {ts : List Token}
    (hcall : raiseCall c1.src (lookTok c1) = some st') (h : errorTokens st' (lookTok c1) = some ts)
    (pe : Parser.PErr) (he : Parser.pError c1.src (lookTok c1) = .error pe) :
    pe = .lex (.syntax (messageOf ts)) ∨
    (∃ e, pe = .lex e ∧ (e = .internal "AttributeError" ∨
      backtrackedToken (autoSemi c1.src (lookTok c1)).2 1 = .error e)) := by
  rcases pError_error_cases _ _ _ he with ⟨st'', h1, h2⟩ | h2
  · rw [hcall] at h1
    simp only [Option.some.injEq] at h1
    subst h1
    exact Or.inl (h2.trans (raiseSyntaxError_message _ _ _ h))
  · exact Or.inr h2

/-! ### (3) end to end -/

/-- where an exception of the lexer / p_error side that ends a run comes from: the lexer raised it (`token()`, or
    the re-lexing `backtracked_token(1)`), or it is the message of a call `_raise_syntax_error` made by `p_error`
    at a configuration the run passed through -/
theorem run_syntax_error_call (fuel : Nat) (text : List Char) (wc : Bool) (e : Err)
    (h : (run Grammar.cached S Parser.source fuel (cfg0 text wc)).1 = .error (.lex e)) :
    (∃ st, Reachable text st ∧ Lexer.token st = .error e) ∨
    (∃ st, Reachable text st ∧ backtrackedToken st 1 = .error e) ∨
    (∃ (c c1 : Cfg) (st' : LexState) (ts : List Token),
      Reach Grammar.cached S Parser.source (cfg0 text wc) c ∧ PErrorCall c c1 ∧
      raiseCall c1.src (lookTok c1) = some st' ∧ errorTokens st' (lookTok c1) = some ts ∧
      Reachable text st' ∧ e = .syntax (messageOf ts)) := by
  have hreach := run_reach_snd (T := Grammar.cached) (S := S) (R := Parser.source) fuel (cfg0 text wc)
  have hout := run_outcome (T := Grammar.cached) (S := S) (R := Parser.source)
    fuel (cfg0 text wc) _ _ (Prod.ext rfl rfl)
  have hni : e ≠ .internal "AttributeError" := by
    intro he
    rcases C12parse.run_lexer_errors_are_syntax_errors Grammar.cached fuel text wc e h with ⟨m, hm⟩ | ⟨m, hm⟩ <;>
      (rw [he] at hm; cases hm)
  rw [h] at hout
  rcases hout with ho | hs
  · cases ho
  · generalize (run Grammar.cached S Parser.source fuel (cfg0 text wc)).2 = c at hreach hs
    unfold step at hs
    split at hs
    · simp at hs
    · rename_i state rest hst
      split at hs
      · -- `fetch` raised: `token()`
        rename_i pe hf
        simp only [Sum.inr.injEq, Outcome.error.injEq] at hs
        subst hs
        unfold fetch at hf
        split at hf
        · simp at hf
        · split at hf
          · simp at hf
          · split at hf
            · rename_i pe' hn
              simp only [Except.error.injEq] at hf
              subst hf
              simp only [Parser.source] at hn
              split at hn
              · simp at hn
              · rename_i e' ht
                simp only [Except.error.injEq, Parser.PErr.lex.injEq] at hn
                subst hn
                exact Or.inl ⟨_, (config_good hreach).1, ht⟩
            · simp at hf
      · unfold doShift at hs
        split at hs <;> simp at hs
      · unfold doReduce at hs
        split at hs
        · simp at hs
        · split at hs
          · split at hs
            · rename_i pe hred
              simp only [Sum.inr.injEq, Outcome.error.injEq] at hs
              subst hs
              simp only [S, Parser.sem] at hred
              split at hred <;> simp at hred
            · split at hs
              · simp at hs
              · split at hs <;> simp at hs
          · simp at hs
      · split at hs <;> simp at hs
      · rename_i c1 hf
        have hc : PErrorCall c c1 := ⟨state, rest, hst, hf⟩
        obtain ⟨hg1, _, _⟩ := fetch_good (config_good hreach) hf
        have hv1 := fetch_vp (config_good hreach)
          (reach_vp (init_good text wc) (init_vp text wc false) hreach) hf
        unfold doError at hs
        split at hs
        · rename_i pe he
          simp only [Sum.inr.injEq, Outcome.error.injEq] at hs
          subst hs
          have he' : Parser.pError c1.src (lookTok c1) = .error (.lex e) := he
          rcases pError_error_cases _ _ _ he' with ⟨st', hcall, hraise⟩ | ⟨e', he1, he2⟩
          · have hr' := (raiseCall_inv hg1.1 hv1 (lookTok c1) (lookTok_good hg1) hcall).1
            cases htk : Lexer.token st' with
            | error e2 =>
              rw [raiseSyntaxError_lexer_error _ _ _ htk] at hraise
              simp only [Parser.PErr.lex.injEq] at hraise
              subst hraise
              exact Or.inl ⟨_, hr', htk⟩
            | ok res =>
              obtain ⟨nxt, st2⟩ := res
              have het : errorTokens st' (lookTok c1) =
                  some ([st'.validPrevToken, shownTok (lookTok c1), nxt].filterMap id) := by
                unfold errorTokens; rw [htk]
              rw [raiseSyntaxError_message _ _ _ het] at hraise
              simp only [Parser.PErr.lex.injEq] at hraise
              exact Or.inr (Or.inr ⟨c, c1, st', _, hreach, hc, hcall, het, hr', hraise⟩)
          · simp only [Parser.PErr.lex.injEq] at he1
            subst he1
            rcases he2 with he2 | he2
            · exact absurd he2 hni
            · exact Or.inr (Or.inl ⟨_, (autoSemi_drive (lookTok c1) hg1.1 (lookTok_good hg1)).1, he2⟩)
        · simp at hs
        · simp at hs

/-- the general form, for any fuel of the LR loop -/
theorem run_syntax_error_located_partial (fuel : Nat) (text : List Char) (wc : Bool) (e : Err)
    (h : (run Grammar.cached S Parser.source fuel (cfg0 text wc)).1 = .error (.lex e)) :
    (∃ st, Reachable text st ∧ Lexer.token st = .error e) ∨
    (∃ st, Reachable text st ∧ backtrackedToken st 1 = .error e) ∨
    (∃ st ts, Reachable text st ∧ e = .syntax (messageOf ts) ∧ QuotedOK text st ts) := by
  rcases run_syntax_error_call fuel text wc e h with h1 | h1 | ⟨c, c1, st', ts, hr, hc, hcall, het, hr', he⟩
  · exact Or.inl h1
  · exact Or.inr (Or.inl h1)
  · exact Or.inr (Or.inr ⟨st', ts, hr', he, syntax_error_tokens_located_partial hr hc hcall het⟩)

/-- **T `parse_syntax_error_located_partial`**: if `parse text wc` ends in an exception `e` of the lexer / p_error
    side, then either the LEXER raised `e` (in `token()`, also the one `_raise_syntax_error` calls, or in the
    re-lexing `backtracked_token(1)` of `p_error`), or `e` is the parser's syntax error `messageOf ts` for a list
    `ts` of quoted tokens (at most three: previous, offending, next) that is `QuotedOK` -/
theorem parse_syntax_error_located_partial (text : List Char) (wc : Bool) (e : Err)
    (h : Parser.parse text wc = .error (.lex e)) :
    (∃ st, Reachable text st ∧ Lexer.token st = .error e) ∨
    (∃ st, Reachable text st ∧ backtrackedToken st 1 = .error e) ∨
    (∃ st ts, Reachable text st ∧ e = .syntax (messageOf ts) ∧ QuotedOK text st ts) :=
  run_syntax_error_located_partial (Parser.parseFuel text) text wc e h

/-- **T `parse_offending_token_located`** (full strength, end to end): if `parse text wc` ends in the parser's own
    syntax error (third case; the first two are exceptions the lexer raised), the message is `messageOf ts` of the
    tokens quoted at a call `_raise_syntax_error(tok)` in lexer state `st`, where
      * the previous token, when there is one, is `Located`;
      * the offending token, when shown, is `Located`, and — when there is a previous token — it IS the token the
        message calls "Unexpected" (`unexpectedTok`, `messageOf_unexpected`);
      * in every case the token the message calls "Unexpected" is `Located`, or else it is the last quoted token,
        the lexer's inserted AUTOSEMI `;`, which can only happen when there is no previous token or the offending
        token is not shown (the message then names the NEXT token "Unexpected") -/
theorem parse_offending_token_located (text : List Char) (wc : Bool) (e : Err)
    (h : Parser.parse text wc = .error (.lex e)) :
    (∃ st, Reachable text st ∧ Lexer.token st = .error e) ∨
    (∃ st, Reachable text st ∧ backtrackedToken st 1 = .error e) ∨
    (∃ st tok ts, Reachable text st ∧ errorTokens st tok = some ts ∧ e = .syntax (messageOf ts) ∧
      (∀ p, st.validPrevToken = some p → Located text p) ∧
      (∀ t, shownTok tok = some t →
        Located text t ∧ (st.validPrevToken ≠ none → unexpectedTok ts = some t)) ∧
      (∀ u, unexpectedTok ts = some u → Located text u ∨
        (u.auto = true ∧ u.type = "AUTOSEMI" ∧ u.value = [';'] ∧ ts.getLast? = some u ∧
          (st.validPrevToken = none ∨ shownTok tok = none)))) := by
  rcases run_syntax_error_call (Parser.parseFuel text) text wc e h with
    h1 | h1 | ⟨c, c1, st', ts, hr, hc, hcall, het, hr', he⟩
  · exact Or.inl h1
  · exact Or.inr (Or.inl h1)
  · obtain ⟨hshown, hprev, hlast⟩ := offending_token_located hr hc hcall het
    refine Or.inr (Or.inr ⟨st', lookTok c1, ts, hr', het, he, hprev, ?_, ?_⟩)
    · intro t ht
      refine ⟨hshown t ht, fun hne => ?_⟩
      cases hp : st'.validPrevToken with
      | none => exact absurd hp hne
      | some p => exact unexpected_is_offending hp ht het
    · intro u hu
      by_cases hl : Located text u
      · exact Or.inl hl
      · obtain ⟨h1, h2, h3, h4, _⟩ := hlast u (unexpectedTok_mem hu) hl
        refine Or.inr ⟨h1, h2, h3, h4, ?_⟩
        cases hp : st'.validPrevToken with
        | none => exact Or.inl rfl
        | some p =>
          cases hs : shownTok (lookTok c1) with
          | none => exact Or.inr rfl
          | some t =>
            have := unexpected_is_offending hp hs het
            rw [hu] at this
            simp only [Option.some.injEq] at this
            subst this
            exact absurd (hshown u hs) hl

/-! ### non-vacuity and the witness against the full claim -/

/-- the tokens quoted at configuration `c`, if ply calls `p_error` there and `p_error` calls `_raise_syntax_error` -/
def quotedAt (c : Cfg) : Option (List Token) :=
  match c.states with
  | [] => none
  | state :: _ =>
    match fetch Grammar.cached S Parser.source c state with
    | .ok (none, c1) =>
      match raiseCall c1.src (lookTok c1) with
      | some st' => errorTokens st' (lookTok c1)
      | none => none
    | _ => none

theorem quotedAt_spec {c : Cfg} {ts : List Token} (h : quotedAt c = some ts) :
    ∃ c1 st', PErrorCall c c1 ∧ raiseCall c1.src (lookTok c1) = some st' ∧
      errorTokens st' (lookTok c1) = some ts := by
  unfold quotedAt at h
  split at h
  · simp at h
  · rename_i state rest hst
    split at h
    · rename_i c1 hf
      split at h
      · rename_i st' hcall
        exact ⟨c1, st', ⟨state, rest, hst, hf⟩, hcall, h⟩
      · simp at h
    · simp at h

/-- the hypotheses of `syntax_error_tokens_located_partial` are satisfiable: on `a b` the run stops at a
    configuration where `p_error` raises through `_raise_syntax_error`, quoting `a` (offset 0, 1:1) and `b`
    (offset 2, 1:3) -/
example : ∃ c c1 st' ts, Reach Grammar.cached S Parser.source (cfg0 "a b".toList false) c ∧ PErrorCall c c1 ∧
    raiseCall c1.src (lookTok c1) = some st' ∧ errorTokens st' (lookTok c1) = some ts ∧
    ts.map (fun t => (t.value, t.lexpos, t.lineno, t.colno)) = [(['a'], 0, 1, 1), (['b'], 2, 1, 3)] := by
  have hq : (quotedAt (run Grammar.cached S Parser.source 10 (cfg0 "a b".toList false)).2).map
      (fun ts => ts.map (fun t => (t.value, t.lexpos, t.lineno, t.colno))) =
      some [(['a'], 0, 1, 1), (['b'], 2, 1, 3)] := by decide +kernel
  have hreach := run_reach_snd (T := Grammar.cached) (S := S) (R := Parser.source) 10 (cfg0 "a b".toList false)
  generalize (run Grammar.cached S Parser.source 10 (cfg0 "a b".toList false)).2 = c at hq hreach
  cases hts : quotedAt c with
  | none => rw [hts] at hq; cases hq
  | some ts =>
    rw [hts] at hq
    obtain ⟨c1, st', h1, h2, h3⟩ := quotedAt_spec hts
    exact ⟨c, c1, st', ts, hreach, h1, h2, h3, Option.some.inj hq⟩

/-- the run of `parse` on `a b` ends in the parser's syntax error quoting the offending `b` and the previous `a` -/
example : (match Parser.parse "a b".toList false with
    | .error (.lex (.syntax m)) => m
    | _ => "") = "Unexpected 'b' at 1:3 after 'a' at 1:1" := by
  decide +kernel

/-- three quoted tokens, on the second line of a CR LF text -/
example : (match Parser.parse "x;\r\na b c".toList false with
    | .error (.lex (.syntax m)) => m
    | _ => "") = "Unexpected 'b' at 2:3 between 'a' at 2:1 and 'c' at 2:5" := by
  decide +kernel

/-- **the full claim is false** (suspected genuine defect, same message from /repo): the third quoted token can be
    the AUTOSEMI the lexer inserts after a restricted keyword + line terminator; the message then quotes `';'` at
    column 0 of line 1, while the text contains no `;` at all -/
theorem next_token_may_be_inserted :
    (match Parser.parse "a return\nx".toList false with
     | .error (.lex (.syntax m)) => m
     | _ => "") = "Unexpected 'return' at 1:3 between 'a' at 1:1 and ';' at 1:0" ∧
    ';' ∉ "a return\nx".toList := by
  decide +kernel

/-- **the negation of the full claim on a concrete witness**: on `a return⏎x` the parse reaches a call of
    `_raise_syntax_error` (all hypotheses of `syntax_error_tokens_located_partial` hold) that quotes a token whose
    value is NOT the text at its offset -/
theorem full_claim_false :
    ∃ c c1 st' ts, Reach Grammar.cached S Parser.source (cfg0 "a return\nx".toList false) c ∧ PErrorCall c c1 ∧
      raiseCall c1.src (lookTok c1) = some st' ∧ errorTokens st' (lookTok c1) = some ts ∧
      ∃ t ∈ ts, ¬ Located "a return\nx".toList t := by
  have hq : (quotedAt (run Grammar.cached S Parser.source 50 (cfg0 "a return\nx".toList false)).2).map
      (fun ts => ts.any (fun t =>
        decide (("a return\nx".toList.drop t.lexpos).take t.value.length ≠ t.value))) = some true := by
    decide +kernel
  have hreach := run_reach_snd (T := Grammar.cached) (S := S) (R := Parser.source) 50
    (cfg0 "a return\nx".toList false)
  generalize (run Grammar.cached S Parser.source 50 (cfg0 "a return\nx".toList false)).2 = c at hq hreach
  cases hts : quotedAt c with
  | none => rw [hts] at hq; cases hq
  | some ts =>
    rw [hts] at hq
    have hq' : ts.any (fun t =>
        decide (("a return\nx".toList.drop t.lexpos).take t.value.length ≠ t.value)) = true :=
      Option.some.inj hq
    obtain ⟨t, ht, hne⟩ := List.any_eq_true.mp hq'
    obtain ⟨c1, st', h1, h2, h3⟩ := quotedAt_spec hts
    exact ⟨c, c1, st', ts, hreach, h1, h2, h3, t, ht, fun hl => (of_decide_eq_true hne) hl.2.1⟩

/-- the role shift without a previous token: on `] x y` the offending token is `]` (the first token of the text), yet
    the message calls the NEXT token `x` "Unexpected" and puts the offending one after "after" -/
theorem unexpected_may_be_next_token :
    (match Parser.parse "] x y".toList false with
     | .error (.lex (.syntax m)) => m
     | _ => "") = "Unexpected 'x' at 1:3 after ']' at 1:1" := by
  decide +kernel

end CalmVerif.Props.C12pos
