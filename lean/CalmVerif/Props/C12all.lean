/-
C12, assembled: every input either parses or raises the ECMAScript syntax error — on the composed model
`Model.Parser.parse` (lexer × ply driver over the regenerated tables × probed semantic actions × `p_error`).

`parse_total`: for EVERY text and comment flag the outcome is
    accepted v                      (a tree), or
    error (lex (syntax m))          ECMASyntaxError raised by the lexer or by `p_error`,
    error (lex (regexSyntax m))     ECMARegexSyntaxError,
    error (act (production m))      ProductionError(ECMASyntaxError) raised by a semantic action;
never `internal` (KeyError/IndexError/AttributeError of ply, the lexer, `p_error` or an action), never `recovery`
(ply's error-token recovery is never entered), never `outOfFuel` (the loop ends).  The pieces:
    Props/C12      `parse_no_driver_internal`       (item-set certificate, Proofs/LRTotal)
    Props/C12parse `parse_lexer_errors_are_syntax_errors`
    Props/C12act   `parse_action_errors_are_production_errors`
    Props/C12term  `parse_never_out_of_fuel`        (rank certificates, Proofs/LRTerm*)
What this does NOT cover: the Python runtime itself (recursion limit, memory) and the regex engine's running time —
the judge of the check bounds those per case on the implementation.
-/
import CalmVerif.Props.C12
import CalmVerif.Props.C12parse
import CalmVerif.Props.C12act
import CalmVerif.Props.C12term
namespace CalmVerif.Props.C12all
open CalmVerif.Model CalmVerif.Model.LR

/-- `p_error` never returns without `errok()`: it returns a replacement look-ahead or raises -/
theorem p_error_never_recovers (st : Lexer.LexState) (tok : Option Lexer.Token) (st' : Lexer.LexState) :
    Parser.pError st tok ≠ .ok (none, st') := by
  unfold Parser.pError
  intro h
  split at h
  · simp at h
  · split at h
    · simp at h
    · simp only at h
      split at h
      · split at h
        · split at h
          · simp at h
          · simp at h
          · split at h <;> simp at h
        · simp at h
      · simp at h

/-- the driver never enters ply's recovery mode when the error hook never returns without `errok` -/
theorem run_no_recovery {τ ν σ ε : Type} (T : Tables) (S : Sem τ ν σ ε) (R : Source τ σ ε)
    (hR : ∀ s t s', R.onError s t ≠ .ok (none, s')) (fuel : Nat) (c : Config τ ν σ) :
    (run T S R fuel c).1 ≠ .recovery := by
  intro hrun
  have hout := run_outcome (T := T) (S := S) (R := R) fuel c _ _ (Prod.ext rfl rfl)
  rw [hrun] at hout
  rcases hout with ho | ho
  · cases ho
  · unfold step at ho
    split at ho
    · simp at ho
    · split at ho
      · simp at ho
      · unfold doShift at ho; split at ho <;> simp at ho
      · unfold doReduce at ho
        split at ho
        · simp at ho
        · split at ho
          · split at ho
            · simp at ho
            · split at ho
              · simp at ho
              · split at ho <;> simp at ho
          · simp at ho
      · split at ho <;> simp at ho
      · unfold doError at ho
        split at ho
        · simp at ho
        · next s' hh => exact hR _ _ _ hh
        · simp at ho

theorem parse_no_recovery (text : List Char) (wc : Bool) : Parser.parse text wc ≠ .recovery :=
  run_no_recovery _ _ _ (fun s t s' => p_error_never_recovers s t s') _ _

/-- **C12 on the model**: every input parses or raises one of the library's syntax errors -/
theorem parse_total (text : List Char) (wc : Bool) :
    (∃ v, Parser.parse text wc = .accepted v) ∨
    (∃ m, Parser.parse text wc = .error (.lex (.syntax m))) ∨
    (∃ m, Parser.parse text wc = .error (.lex (.regexSyntax m))) ∨
    (∃ m, Parser.parse text wc = .error (.act (.production m))) := by
  cases h : Parser.parse text wc with
  | accepted v => exact Or.inl ⟨v, rfl⟩
  | error e =>
    cases e with
    | lex e' =>
      rcases C12parse.parse_lexer_errors_are_syntax_errors text wc e' h with ⟨m, rfl⟩ | ⟨m, rfl⟩
      · exact Or.inr (Or.inl ⟨m, rfl⟩)
      · exact Or.inr (Or.inr (Or.inl ⟨m, rfl⟩))
    | act e' =>
      obtain ⟨m, rfl⟩ := C12act.parse_action_errors_are_production_errors text wc e' h
      exact Or.inr (Or.inr (Or.inr ⟨m, rfl⟩))
  | internal w => exact absurd h (C12.parse_no_driver_internal text wc w)
  | recovery => exact absurd h (parse_no_recovery text wc)
  | outOfFuel => exact absurd h (C12term.parse_never_out_of_fuel text wc)

end CalmVerif.Props.C12all
