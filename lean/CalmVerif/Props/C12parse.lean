/-
Property C12, composed model — "Any input either parses or raises the ECMAScript syntax error, only": the error
VALUES on the lexer / p_error side of `Model.Parser.parse`.

`Model.Parser.parse text wc` ends in `accepted v`, `error (.lex e)` (an exception raised by the lexer, by
`Parser.p_error` or by `Parser._raise_syntax_error`), `error (.act e)` (raised by a semantic action — NOT treated
here), `internal _` (excluded by Props.C12 `parse_no_driver_internal`), `recovery` or `outOfFuel` of the LR loop (not
treated here).  This file shows that in `error (.lex e)` the exception `e` is always an ECMASyntaxError or an
ECMARegexSyntaxError: never an internal Python exception, never fuel exhaustion of `_token`'s loop, never a model gap.

Where the internal errors of the p_error side could come from, and why they cannot occur
(`Proofs/ParserNoInternal*.lean`):
  * `token()` — from a well-formed lexer state (`WF`: non-empty `token_stack` and `newline_idx`, kept by every
    operation) it raises only syntax errors (C12lex `token_no_internal`, C06 `token_terminates`, and
    `token_ng`: every generated rule name has a matcher).
  * `cur_token = self.lexer.cur_token or token; cur_token.type` — AttributeError needs both to be `None`; but
    `auto_semi(None)` always inserts, so `p_error` gets past `auto_semi` only with a real look-ahead.
  * `regex_token = backtracked_token(pos=1); regex_token.type` — AttributeError needs the re-lexing to return `None`.
    The guard `cur_token.type == 'DIV'` holds only when `lexer.cur_token` is a real DIV token ending at `lexpos`
    (`guard_cur`: a real look-ahead keeps `cur_token` set, invariant `LinkS`; an inserted AUTOSEMI is not a DIV), so
    rewinding by one lands on its `/` (`atDiv_of_token`); ply's ordered alternation is deterministic
    (`firstMatch_of_FirstMatch`), so lexing there in state INITIAL yields the DIV again and in state `regex` a REGEX
    or a regex syntax error — never `None` (`token_atDiv`).  The same argument shows `lexpos ≥ 1`, so the model gap
    "negative lexpos" of `backtrackedToken` cannot occur; the other model gap ("lexer rule …") is excluded by
    `rules_have_matchers`.  Hence NO modelGap value remains possible in `parse`.
  * `_raise_syntax_error` calls `token()` once more, from a well-formed state.
-/
import CalmVerif.Proofs.ParserNoInternal
import CalmVerif.Model.Parser

namespace CalmVerif.Props.C12parse
open CalmVerif.Model CalmVerif.Model.LR CalmVerif.Model.Lexer
open CalmVerif.Proofs.ParserNoInternal

/-- the general form: for ANY table set `T`, any fuel of the LR loop, any text and flag, a run of the composed
    driver that ends in an exception of the lexer / p_error side ends in an ECMASyntaxError / ECMARegexSyntaxError -/
theorem run_lexer_errors_are_syntax_errors (T : Tables) (fuel : Nat) (text : List Char) (wc : Bool) (e : Err)
    (h : (run T (Parser.sem T) Parser.source fuel (initConfig (Lexer.init text wc false))).1 = .error (.lex e)) :
    (∃ m, e = .syntax m) ∨ (∃ m, e = .regexSyntax m) := by
  have hreach := run_reach_snd (T := T) (S := Parser.sem T) (R := Parser.source)
    fuel (initConfig (Lexer.init text wc false))
  have hok := reach_cfgOK (init_cfgOK text wc) hreach
  have hout := run_outcome (T := T) (S := Parser.sem T) (R := Parser.source)
    fuel (initConfig (Lexer.init text wc false)) _ _ (Prod.ext rfl rfl)
  rcases hout with ho | ho
  · rw [h] at ho; cases ho
  · rw [h] at ho
    exact step_lex_error_syntax hok e ho

/-- T `parse_lexer_errors_are_syntax_errors`: for every text and flag, if `parse` ends in an exception of the
    lexer / p_error side, that exception is an ECMASyntaxError or an ECMARegexSyntaxError -/
theorem parse_lexer_errors_are_syntax_errors (text : List Char) (wc : Bool) (e : Err)
    (h : Parser.parse text wc = .error (.lex e)) : (∃ m, e = .syntax m) ∨ (∃ m, e = .regexSyntax m) :=
  run_lexer_errors_are_syntax_errors Grammar.cached (Parser.parseFuel text) text wc e h

/-- T `parse_no_lexer_internal`: no internal Python exception (AttributeError, IndexError, KeyError …) escapes from the
    lexer, `p_error` or `_raise_syntax_error` -/
theorem parse_no_lexer_internal (text : List Char) (wc : Bool) (k : String) :
    Parser.parse text wc ≠ .error (.lex (.internal k)) := by
  intro h
  rcases parse_lexer_errors_are_syntax_errors text wc _ h with ⟨m, hm⟩ | ⟨m, hm⟩ <;> cases hm

/-- the loop of `_token` never runs out of fuel inside `parse` -/
theorem parse_no_lexer_out_of_fuel (text : List Char) (wc : Bool) :
    Parser.parse text wc ≠ .error (.lex .outOfFuel) := by
  intro h
  rcases parse_lexer_errors_are_syntax_errors text wc _ h with ⟨m, hm⟩ | ⟨m, hm⟩ <;> cases hm

/-- no model gap: the lexer model covers everything `parse` makes it do (every rule name has a matcher; the guarded
    `backtracked_token(1)` never makes `lexpos` negative) -/
theorem parse_no_lexer_model_gap (text : List Char) (wc : Bool) (w : String) :
    Parser.parse text wc ≠ .error (.lex (.modelGap w)) := by
  intro h
  rcases parse_lexer_errors_are_syntax_errors text wc _ h with ⟨m, hm⟩ | ⟨m, hm⟩ <;> cases hm

/-- the same at the level of one call, for every configuration a parse reaches: `p_error` raises only syntax errors -/
theorem p_error_raises_only_syntax_errors (text : List Char) (wc : Bool)
    (c : Config Token Actions.PVal LexState)
    (hr : Reach Grammar.cached (Parser.sem Grammar.cached) Parser.source (initConfig (Lexer.init text wc false)) c)
    (pe : Parser.PErr) (h : Parser.pError c.src (lookTok c) = .error pe) :
    ∃ e, pe = .lex e ∧ ((∃ m, e = .syntax m) ∨ (∃ m, e = .regexSyntax m)) :=
  let hok := reach_cfgOK (init_cfgOK text wc) hr
  pError_error_syntax hok.srcOK (lookTok c) hok.tokOK pe h

/-- non-vacuity / regression: inputs on the formerly failing paths end in syntax errors — `/` and `/*` at the very
    start (p_error with `valid_prev_token = None`), a `}` followed by an unterminated regex (back-track, regex error),
    and the back-track that succeeds -/
example :
    (match Parser.parse "/".toList false with | .error (.lex (.syntax _)) => true | _ => false) = true ∧
    (match Parser.parse "/*".toList false with | .error (.lex (.syntax _)) => true | _ => false) = true ∧
    (match Parser.parse "{}/a".toList false with | .error (.lex (.regexSyntax _)) => true | _ => false) = true ∧
    (match Parser.parse "{}/a/".toList false with | .accepted _ => true | _ => false) = true := by
  decide +kernel

end CalmVerif.Props.C12parse
