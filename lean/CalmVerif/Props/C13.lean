/-
C13  Comment capture is faithful and does not perturb the parse.

What is proved here about the model (Model.Lexer, Model.Parser, Model.Actions over the tables regenerated from /repo):

 TRANSPARENCY (the flag only changes the hidden-token bookkeeping)
  * `token_comments_transparent`, `auto_semi_comments_transparent`, `backtracked_token_comments_transparent`,
    `p_error_comments_transparent`, `raise_syntax_error_comments_transparent` — for EVERY lexer state, every method the
    parser calls returns, with capture, exactly what it returns without capture up to the `hidden_tokens` attribute
    of tokens: same token type / value / position / identity, same division-or-regex and ASI decisions, same
    parenthesis stack, same exception with the same message; the successor states are again related.
  * `lr_run_comments_transparent` — the LR driver preserves the relation (generic simulation lemma).
  * `actions_transparent` — the action-level statement: a semantic action (Model.Actions.reduce over Gen.Actions) run
    without capture on comment-erased arguments returns the erasure of its result with (or without) capture and raises
    the same error.  Proved for every table whose descriptors never read a `comments` attribute
    (`actions_never_read_comments`, kernel decision), by mutual structural induction over the descriptors.
  * `comments_transparent` — ∀ text, `eraseOutcome (parse text true) = parse text false`: same acceptance, same error
    (class and message), same tree — positions and token maps included — up to the `@comments` attributes.  FULL.
    (`comments_transparent_partial` is kept: the same statement from the hypothesis `ActionsTransparent`.)
 FAITHFULNESS
  * `comments_faithful_lexer` — the comments `token()` hands over in `token.hidden_tokens` are comment tokens of the
    source: LINE_COMMENT / BLOCK_COMMENT lexemes of the first matching lexer rule, verbatim at their recorded offset,
    in source order, pairwise disjoint, all before the read position; the pending list is cleared when it is handed over.
  * `set_comments_verbatim` — `Node.set_comments` (model `commentsOf`) turns the hidden list of a token into exactly one
    comment node per LINE_COMMENT / BLOCK_COMMENT entry, in order, carrying its value and position unchanged.
  * `no_comment_attached_twice` (kernel decision over Gen.Actions) — in every production and for every value shape, no
    two nodes built by the action take their comments from the same slot (incl. the `wrap` of for-clauses);
    with each shifted token being a leaf of exactly one production instance (Proofs.LRSound.run_sound) a token's
    comments reach at most one node.  `actions_never_read_comments`: no action copies a `comments` attribute.
  * ON THE FINAL TREE (ghost derivation trees, Proofs/NodePosGhost `reach_ginv`, relation `CRel`):
    `comments_attached_once` — for every accepted text, the `@comments` attributes of the tree are, up to order and with
    multiplicity, among `set_comments` of the SHIFTED tokens (each token's comments reach at most one node; table facts
    `action_slots_used_once`, `actions_read_plain_attributes`, `actions_never_read_comments`);
    `shifted_comments_are_source_comments` — every comment of every shifted token is `CommentOK` (invariant of the
    parser-driven token source through `token` / `auto_semi` / `backtracked_token` / `p_error`);
    `comments_faithful` — the two combined, in reader's form (children = the token's hidden comments, in order).
    `comments_in_source_order` — for EVERY text (no hypothesis): the comments of the shifted tokens, in token order, are
    pairwise disjoint and in source order (`ShiftedOrdered`, proved as `shifted_ordered` with the run invariant `Chain`:
    every held / pending comment ends at or before the read position and — when the current raw token is a DIV — at or
    before its START, which survives the rewind of the guarded `backtracked_token`; while a token is pushed back nothing
    is pending, so a pop from `next_tokens` never overwrites the comments a token got when first lexed); hence source
    order within every node, disjointness across tokens, and `attached_comment_offsets_increasing`: the captured comments
    start at strictly increasing offsets — with `comments_attached_once`, no source comment occurrence is attached to two
    nodes.  `comments_faithful_ordered` restates `comments_faithful` with these clauses.
    (`comments_in_source_order_partial` is kept: the same conclusion from the hypothesis `ShiftedOrdered`.)
 PRINTING
  * `line_comment_followed_by_newline` (kernel decision over Gen.Defs / Gen.Rules) — in every definition a LineComment /
    BlockComment token is immediately followed by the Newline marker, and in every rule set that prints comments this
    marker alone is handled by a handler that unconditionally emits the line terminator, no combined key can start at it.
  * `comment_carriers_print_comments` — every node kind that can carry comments prints them first (full strength since the
    repair of KF-13c, c0fc1f7: CaseBlock has a CommentsAttr; `fixed_kf13c_case_block_prints_comments`).
  * `restricted_production_split_witness` (KF-13a, kernel evaluation of parser model + printer model + reference parser):
    `function f(){return /*x*/ 1}` prints as `return /*x*/⏎1;`, which the reference reads as `return; 1;`.
    `fixed_kf13c_witness`: the former KF-13c witness evaluated on the models (the comment is printed).
-/
import CalmVerif.Proofs.CommentsParser
import CalmVerif.Proofs.CommentsFull
import CalmVerif.Proofs.CommentsWitness
import CalmVerif.Proofs.CommentsFinal
import CalmVerif.Proofs.CommentsOrderFinal
import CalmVerif.Props.C03
import CalmVerif.Proofs.CommentsFaithful
import CalmVerif.Proofs.CommentsTable
import CalmVerif.Proofs.CommentsActions
import CalmVerif.Gen.Actions
import CalmVerif.Gen.Defs
import CalmVerif.Gen.Rules
import CalmVerif.Gen.Tables.Cached

namespace CalmVerif.Props.C13
open CalmVerif CalmVerif.Model CalmVerif.Model.Lexer CalmVerif.Model.Parser CalmVerif.Model.LR
open CalmVerif.Proofs.Comments

/-! ## transparency -/

/-- T: `token()` — with capture exactly as without, up to `hidden` (all states, all flag settings) -/
theorem token_comments_transparent (st : LexState) : token (eraseSt st) = eraseRes (token st) :=
  token_erase st

/-- T: `auto_semi(token)` -/
theorem auto_semi_comments_transparent (st : LexState) (tok : Option Token) :
    autoSemi (eraseSt st) (eraseOT tok) = (eraseOT (autoSemi st tok).1, eraseSt (autoSemi st tok).2) :=
  autoSemi_erase st tok

/-- T: `backtracked_token(pos)` -/
theorem backtracked_token_comments_transparent (st : LexState) (pos : Nat) :
    backtrackedToken (eraseSt st) pos = eraseRes (backtrackedToken st pos) :=
  backtrackedToken_erase st pos

/-- T: `Parser._raise_syntax_error(token)`: the same exception with the same message -/
theorem raise_syntax_error_comments_transparent (st : LexState) (tok : Option Token) :
    raiseSyntaxError (eraseSt st) (eraseOT tok) = raiseSyntaxError st tok :=
  raiseSyntaxError_erase st tok

/-- T: `Parser.p_error(token)` -/
theorem p_error_comments_transparent (st : LexState) (tok : Option Token) :
    pError (eraseSt st) (eraseOT tok) = erasePRes (pError st tok) :=
  pError_erase st tok

/-- T: the LR driver maps related configurations to related outcomes (for any simulation of the token source and of the
    semantic actions) -/
theorem lr_run_comments_transparent {τ ν σ ε : Type} {S : Sem τ ν σ ε} {R : Source τ σ ε} (m : Sim S R)
    (T : Tables) (fuel : Nat) (c : Config τ ν σ) :
    run T S R fuel (m.cfg c) = (m.out (run T S R fuel c).1, m.cfg (run T S R fuel c).2) :=
  m.run_sim T fuel c

/-- T (partial): parsing without capture is parsing with capture with the comments erased — same acceptance, same error,
    same tree — PROVIDED the semantic actions commute with the erasure (`ActionsTransparent`, not proved). -/
theorem comments_transparent_partial (h : ActionsTransparent Gen.Actions.actions) (text : List Char) :
    eraseOutcome (Parser.parse text true) = Parser.parse text false :=
  (parseWith_erase Grammar.cached h text).symm

/-- D: no semantic action reads or copies a `comments` attribute of an argument -/
theorem actions_never_read_comments : noCommentsRead Gen.Actions.actions = true := by
  decide +kernel

/-- T: the semantic actions commute with the erasure of comments (see `ActionsTransparent`) -/
theorem actions_transparent : ActionsTransparent Gen.Actions.actions :=
  actionsTransparent Gen.Actions.actions actions_never_read_comments

/-- T (FULL): for every text, parsing without capture is parsing with capture with the comments erased — the same
    acceptance, the same error, the same tree (positions and token maps included) -/
theorem comments_transparent (text : List Char) :
    eraseOutcome (Parser.parse text true) = Parser.parse text false :=
  comments_transparent_partial actions_transparent text

/-- non-vacuity of `comments_transparent`: on `/*x*/a` the model accepts with and without capture, the tree with capture
    carries a comment, the one without does not (so the erasure does something) -/
example : (accTree (Parser.parse "/*x*/a".toList true)).map hasComments = some true ∧
    (accTree (Parser.parse "/*x*/a".toList false)).map hasComments = some false := by
  decide +kernel

/-- non-vacuity: the erasure is not the identity — a lexer state with a pending comment and capture on is mapped to a
    different state, and a token with a hidden comment to a different token -/
example :
    let c : Comment := ⟨"BLOCK_COMMENT", "/*x*/".toList, 0, 1, 1⟩
    let st : LexState := { init "/*x*/a".toList true false with hiddenTokens := [c] }
    eraseSt st ≠ st ∧
    eraseTok { type := "ID", value := ['a'], lexpos := 5, lineno := 1, colno := 6, auto := false, uid := 1, hidden := [c] } ≠
      { type := "ID", value := ['a'], lexpos := 5, lineno := 1, colno := 6, auto := false, uid := 1, hidden := [c] } := by
  decide

/-- non-vacuity: on `/*x*/a` the lexer with capture returns `a` carrying the comment, without capture the same token bare -/
example :
    (match token (init "/*x*/a".toList true false) with
      | .ok (some t, _) => (t.type, t.lexpos, t.hidden.map (·.value))
      | _ => ("", 0, [])) = ("ID", 5, ["/*x*/".toList]) ∧
    (match token (init "/*x*/a".toList false false) with
      | .ok (some t, _) => (t.type, t.lexpos, t.hidden.map (·.value))
      | _ => ("", 0, [])) = ("ID", 5, []) := by
  decide +kernel

/-! ## faithfulness -/

/-- T: what `token()` puts into `token.hidden_tokens`.  From a state whose pending comments are comment tokens of the
    source before the read position in source order (`HidInv`; true of `init`, `hidden_from_init`) and with nothing pushed
    back, the call keeps that invariant, and the list handed to the returned token consists of comment tokens of the
    source (`CommentOK`: type LINE_COMMENT / BLOCK_COMMENT, value = the slice of the text at the recorded offset, the
    lexeme of the first matching lexer rule there), in source order, pairwise disjoint; handing over clears the pending list -/
theorem comments_faithful_lexer (st : LexState) (hn : st.nextTokens = []) (r : Option Token) (st' : LexState)
    (h : token st = .ok (r, st')) (hinv : HidInv st.text st.lexpos st.hiddenTokens) :
    st'.text = st.text ∧ HidInv st.text st'.lexpos st'.hiddenTokens ∧
    (∀ t, r = some t → (t.hidden ≠ [] → st'.hiddenTokens = []) ∧ HidInv st.text st'.lexpos t.hidden) :=
  token_hid st hn r st' h hinv

/-- the state after `Lexer(...)`, `input(text)` satisfies the invariant -/
theorem hidden_from_init (text : List Char) (wc yc : Bool) :
    HidInv (init text wc yc).text (init text wc yc).lexpos (init text wc yc).hiddenTokens :=
  HidInv.nil _ _

/-- what the invariant says about one comment -/
theorem comment_ok_verbatim (text : List Char) (c : Comment) (h : CommentOK text c) :
    (c.type = "LINE_COMMENT" ∨ c.type = "BLOCK_COMMENT") ∧
    CalmVerif.Spec.LexSeg.slice text c.lexpos (c.lexpos + c.value.length) = c.value := by
  refine ⟨?_, h.2.2.1⟩
  have := h.1
  simp only [isComment, Gen.LexData.comments] at this
  simp only [List.contains_cons, List.contains_nil, Bool.or_false, Bool.or_eq_true, beq_iff_eq] at this
  rcases this with h1 | h1 <;> simp [h1]

/-- T: `Node.set_comments` keeps every LINE_COMMENT / BLOCK_COMMENT entry of the hidden list, in order, with its value
    and position unchanged (and builds nothing when there is none) -/
theorem set_comments_verbatim (t : Actions.Tok)
    (hall : ∀ h ∈ t.hidden, h.1 = "LINE_COMMENT" ∨ h.1 = "BLOCK_COMMENT") :
    (t.hidden = [] → Actions.commentsOf t = none) ∧
    (t.hidden ≠ [] → ∃ kids p0, Actions.commentsOf t =
        some (.node "Comments" [("children", .list kids), ("@pos", p0), ("@tokmap", .list [])]) ∧
      kids.map (fun k => (k.attr? "value", k.attr? "@pos")) =
        t.hidden.map (fun h => (some (Val.str h.2.1), some (Actions.posVal h.2.2.1 h.2.2.2.1 h.2.2.2.2)))) :=
  commentsOf_spec t hall

/-- D: in every production, for every value shape, no two nodes built by the semantic action take their comments from the
    same right-hand-side slot -/
theorem no_comment_attached_twice : noSlotTwice Gen.Actions.actions = true := by
  decide +kernel

/-- non-vacuity: the check rejects an action that anchors two nodes at the same slot -/
example : noSlotTwice [{ default := [], probed := true, exceptions := [], result := .node "A" [("x", .node "B" [] (.at 1 0) [] [] none)] (.at 1 0) [] [] none }] = false := by
  decide

/-! ## faithfulness on the final tree -/

/-- D: in every production, for every value shape, the value of a slot is used at most once and at most one node is
    anchored at a slot (subsumes `no_comment_attached_twice`) -/
theorem action_slots_used_once : refsOnce Gen.Actions.actions = true := by
  decide +kernel

/-- D: the attributes semantic actions read from their arguments are plain (no `@…` metadata) -/
theorem actions_read_plain_attributes : plainRead Gen.Actions.actions = true := by
  decide +kernel

theorem table_ok : TableOK Gen.Actions.actions :=
  ⟨actions_never_read_comments, actions_read_plain_attributes, action_slots_used_once⟩

/-- T: for every text the model accepts with capture, the `@comments` attributes of the tree (`cms`: the Comments node of
    every node of the tree, in document order) are — up to order and WITH multiplicity (`<+~`, sub-permutation) — among
    `set_comments` of the tokens the driver shifted: every attached Comments node is `Node.set_comments` of a shifted
    token, and no shifted token's comments are attached to two nodes of the tree. -/
theorem comments_attached_once (text : List Char) (v : Actions.PVal) (h : Parser.parse text true = .accepted v) :
    List.Subperm (cms v.v) (hiddenCms (shiftedTokens Grammar.cached text true)) :=
  attached_once C03.tables_valid table_ok text true v h

/-- T: every comment carried by a token the driver shifted is a comment token of the source (`CommentOK`): a LINE_COMMENT /
    BLOCK_COMMENT lexeme of the first matching lexer rule, verbatim at its recorded offset — through `token`,
    `auto_semi`, `backtracked_token` and `p_error`, for every text -/
theorem shifted_comments_are_source_comments (text : List Char) (wc : Bool) :
    ∀ t ∈ shiftedTokens Grammar.cached text wc, ∀ c ∈ t.hidden, CommentOK text c :=
  shifted_ok Grammar.cached text wc

/-- T `comments_faithful`: every `@comments` attribute `C` anywhere in the tree accepted by `parse text true` is
    `set_comments` of a shifted token `t` all of whose hidden comments are comment tokens of the source; `C` is a Comments
    node with one child per hidden comment of `t`, in the order of the hidden list, carrying the comment's text (verbatim
    at its recorded offset by `comment_ok_verbatim`) and its recorded position. -/
theorem comments_faithful (text : List Char) (v : Actions.PVal) (h : Parser.parse text true = .accepted v) :
    ∀ C ∈ cms v.v, ∃ t ∈ shiftedTokens Grammar.cached text true,
      (∀ c ∈ t.hidden, CommentOK text c) ∧
      ∃ kids p0, C = .node "Comments" [("children", .list kids), ("@pos", p0), ("@tokmap", .list [])] ∧
        kids.map (fun k => (k.attr? "value", k.attr? "@pos")) =
          t.hidden.map (fun c => (some (Val.str (String.ofList c.value)),
            some (Actions.posVal c.lexpos c.lineno c.colno))) := by
  intro C hC
  have hmem := (comments_attached_once text v h).subset hC
  simp only [hiddenCms, List.mem_filterMap] at hmem
  obtain ⟨t, ht, hCt⟩ := hmem
  have hok := shifted_comments_are_source_comments text true t ht
  exact ⟨t, ht, hok, commentsOf_children hok hCt⟩

/-- T (partial): source order within a node and disjointness across nodes, from the hypothesis `ShiftedOrdered` (the
    comments of the shifted tokens, in token order, are in source order and pairwise disjoint — true of every single
    `token()` call by `comments_faithful_lexer`, not carried through `backtracked_token` for whole runs): then the hidden
    list of every shifted token — hence the children of every attached Comments node (`comments_faithful`) — is in source
    order, and the comments of two different shifted tokens never overlap, so with `comments_attached_once` no source
    comment occurrence is attached to two nodes. -/
theorem comments_in_source_order_partial (text : List Char) (hord : ShiftedOrdered Grammar.cached text true) :
    (∀ t ∈ shiftedTokens Grammar.cached text true,
      t.hidden.Pairwise (fun a b => a.lexpos + a.value.length ≤ b.lexpos)) ∧
    (shiftedTokens Grammar.cached text true).Pairwise (fun t₁ t₂ => ∀ a ∈ t₁.hidden, ∀ b ∈ t₂.hidden,
      a.lexpos + a.value.length ≤ b.lexpos) :=
  (shiftedOrdered_iff Grammar.cached text true).mp hord

/-- T: `ShiftedOrdered` holds for every text (whole runs of the parser model, through `auto_semi`, pops from
    `next_tokens` and the rewind of `backtracked_token`) -/
theorem shifted_ordered (text : List Char) : ShiftedOrdered Grammar.cached text true :=
  Proofs.Comments.shifted_ordered Grammar.cached text

/-- T `comments_in_source_order` (no hypothesis): for every text, the hidden comments of every shifted token — hence the
    children of every attached Comments node (`comments_faithful`) — are in source order and disjoint, and the comments of
    two different shifted tokens never overlap (the earlier token's comments lie entirely before the later one's) -/
theorem comments_in_source_order (text : List Char) :
    (∀ t ∈ shiftedTokens Grammar.cached text true,
      t.hidden.Pairwise (fun a b => a.lexpos + a.value.length ≤ b.lexpos)) ∧
    (shiftedTokens Grammar.cached text true).Pairwise (fun t₁ t₂ => ∀ a ∈ t₁.hidden, ∀ b ∈ t₂.hidden,
      a.lexpos + a.value.length ≤ b.lexpos) :=
  comments_in_source_order_partial text (shifted_ordered text)

/-- T: the captured comments of the shifted tokens, in token order, start at strictly increasing source offsets (each is
    non-empty and ends before the next starts): no source comment occurrence is carried twice.  With
    `comments_attached_once` (every attached Comments node is `set_comments` of a shifted token, with multiplicity) no
    source comment occurrence is attached to two nodes of the tree. -/
theorem attached_comment_offsets_increasing (text : List Char) :
    (((shiftedTokens Grammar.cached text true).flatMap (·.hidden)).map (·.lexpos)).Pairwise (· < ·) :=
  shifted_offsets_increasing Grammar.cached text

/-- T `comments_faithful` with the order clauses: for the tree accepted by `parse text true`,
    (1) its `@comments` attributes are, with multiplicity, among `set_comments` of the shifted tokens;
    (2) every one of them is the Comments node of a shifted token `t` whose hidden comments are comment tokens of the source
        (verbatim at their offsets), IN SOURCE ORDER and pairwise disjoint, one child per comment in that order;
    (3) comments of different shifted tokens never overlap, and all captured comments start at strictly increasing offsets. -/
theorem comments_faithful_ordered (text : List Char) (v : Actions.PVal) (h : Parser.parse text true = .accepted v) :
    List.Subperm (cms v.v) (hiddenCms (shiftedTokens Grammar.cached text true)) ∧
    (∀ C ∈ cms v.v, ∃ t ∈ shiftedTokens Grammar.cached text true,
      (∀ c ∈ t.hidden, CommentOK text c) ∧
      t.hidden.Pairwise (fun a b => a.lexpos + a.value.length ≤ b.lexpos) ∧
      ∃ kids p0, C = .node "Comments" [("children", .list kids), ("@pos", p0), ("@tokmap", .list [])] ∧
        kids.map (fun k => (k.attr? "value", k.attr? "@pos")) =
          t.hidden.map (fun c => (some (Val.str (String.ofList c.value)),
            some (Actions.posVal c.lexpos c.lineno c.colno)))) ∧
    (shiftedTokens Grammar.cached text true).Pairwise (fun t₁ t₂ => ∀ a ∈ t₁.hidden, ∀ b ∈ t₂.hidden,
      a.lexpos + a.value.length ≤ b.lexpos) ∧
    (((shiftedTokens Grammar.cached text true).flatMap (·.hidden)).map (·.lexpos)).Pairwise (· < ·) := by
  refine ⟨comments_attached_once text v h, ?_, (comments_in_source_order text).2,
    attached_comment_offsets_increasing text⟩
  intro C hC
  obtain ⟨t, ht, hok, hk⟩ := comments_faithful text v h C hC
  exact ⟨t, ht, hok, (comments_in_source_order text).1 t ht, hk⟩

/-- non-vacuity (kernel evaluation): on `/*x*/a+/*y*/b` the accepted tree has two `@comments` attributes, the driver
    shifted tokens carrying two comment lists, and the hypothesis of the partial theorem holds -/
example : (accTree (Parser.parse "/*x*/a+/*y*/b".toList true)).map (fun t => (cms t).length) = some 2 ∧
    (hiddenCms (shiftedTokens Grammar.cached "/*x*/a+/*y*/b".toList true)).length = 2 ∧
    ((shiftedTokens Grammar.cached "/*x*/a+/*y*/b".toList true).flatMap (·.hidden)).map (·.lexpos) = [0, 7] := by
  decide +kernel

/-! ## printing -/

/-- D: a LineComment / BlockComment token is always followed by the Newline marker, whose handler — in every rule set that
    prints comments — unconditionally emits the line terminator and cannot be absorbed by a combined layout rule -/
theorem line_comment_followed_by_newline :
    defsCommentThenNewline Gen.Defs.definitions = true ∧
    Gen.Defs.definitions.any (fun d => d.1 == "LineComment") = true ∧
    Gen.Defs.definitions.any (fun d => d.1 == "BlockComment") = true ∧
    ruleSetsNewlineOK Gen.Rules.ruleSets = true ∧
    (Gen.Rules.ruleSets.filter printsComments).map (·.name) ≠ [] := by
  decide +kernel

/-- the node kinds that can carry comments (built with `setpos` on a terminal slot) -/
def carriers : List String :=
  carrierKinds Gen.Tables.Cached.numTerminals Gen.Tables.Cached.prods Gen.Actions.actions

/-- D: every node kind that can carry comments prints them before anything else (no exception since c0fc1f7) -/
theorem comment_carriers_print_comments :
    carriers.all (fun k => printsCommentsFirst Gen.Defs.definitions k) = true := by
  decide +kernel

/-- D (repaired finding KF-13c): CaseBlock can carry comments and its definition prints them first; the list of carriers
    is not empty (non-vacuity of `comment_carriers_print_comments`) -/
theorem fixed_kf13c_case_block_prints_comments :
    carriers.contains "CaseBlock" = true ∧ printsCommentsFirst Gen.Defs.definitions "CaseBlock" = true ∧
    carriers ≠ [] := by
  decide +kernel

/-- D (negation witness, finding KF-13a): the comment of the operand of `return` is printed with the Newline of its
    definition INSIDE the restricted production — the models print `function f(){return /*x*/ 1}` (parsed with capture) as
    `return /*x*/⏎1;`, which the ES5.1 reference parser reads as two statements (`return; 1;`), the source as one -/
theorem restricted_production_split_witness :
    printedWithComments "function f(){return /*x*/ 1}" = some "function f() {\n  return /*x*/\n  1;\n}\n" ∧
    specBodyLen "function f() {\n  return /*x*/\n  1;\n}\n" = some 2 ∧
    specBodyLen "function f(){return /*x*/ 1}" = some 1 := by
  decide +kernel

/-- D (the former witness of KF-13c on the models): the comment before the `{` of a switch body is attached by the parser
    and is in the printed text -/
theorem fixed_kf13c_witness :
    (accTree (Parser.parse "switch(a)/*c*/{}".toList true)).map hasComments = some true ∧
    printedWithComments "switch(a)/*c*/{}" = some "switch (a) /*c*/\n{\n}\n" := by
  decide +kernel

end CalmVerif.Props.C13
