/-
Property C06 — "Token stream is a faithful, gap-free, correctly located segmentation."

All theorems are about `Model.Lexer.lexStandalone text withComments yieldComments`, the model of
`list(Lexer(with_comments=…, yield_comments=…))` after `input(text)` (the model is tied to the implementation
by the correspondence check harness/checks/C06.py on every run; its rule order, ignore strings, keyword table,
punctuator spellings and character classes are regenerated from /repo into `Gen.Tables.Cached` / `Gen.LexData`).
`text` ranges over ALL lists of Unicode scalar values; "lexes without error" is `(toks, none)`.

Tokens with `auto = true` are the AutoLexToken objects the lexer inserts (AUTOSEMI after
break/continue/return/throw + line terminator); they are not segments of the input and are excluded from the
segmentation and position clauses (`AUTOSEMI` is characterised separately in `tokens_partition_input`).
-/
import CalmVerif.Spec.LexSeg
import CalmVerif.Spec.LinesRef
import CalmVerif.Proofs.LexerTerm
import CalmVerif.Proofs.LexerTables
import CalmVerif.Proofs.LexerPos
import CalmVerif.Proofs.LexerKeyword

namespace CalmVerif.Props.C06
open CalmVerif.Model.TokenRegex CalmVerif.Model.PlyLex CalmVerif.Model.Lexer
open CalmVerif.Spec.LexSeg CalmVerif.Gen
open CalmVerif.Proofs

/-- the (offset, lexeme) pairs of the tokens that are segments of the input -/
abbrev segments (toks : List Token) : List (Nat × List Char) :=
  (toks.filter (fun t => !t.auto)).map (fun t => (t.lexpos, t.value))

/-! ### termination -/

/-- T `lexer_terminates`: the fuel `|text| + 2` of the `while True` loop of `_token` and of the stand-alone
    iteration always suffices: `outOfFuel` is never the outcome (every step consumes at least one character or
    ends), for every text and every flag setting.  (Also the lexer part of C12.) -/
theorem lexer_terminates (text : List Char) (wc yc : Bool) :
    (lexStandalone text wc yc).2 ≠ some Err.outOfFuel := by
  unfold lexStandalone
  exact LexerTerm.lexAll_fuel _ _ _ rfl (by simp [lexFuel, init])

/-- one `token()` call never runs out of fuel either, from any state -/
theorem token_terminates (st : LexState) : token st ≠ .error Err.outOfFuel := LexerTerm.token_ne st

/-! ### segmentation -/

/-- T `tokens_partition_input`: if stand-alone lexing succeeds with tokens `toks`, the non-inserted tokens, in
    order, segment the text (Spec.LexSeg.Segmented): each starts at or after the end of its predecessor, is
    non-empty, equals the input at its recorded offset, and everything before the first, between consecutive and
    after the last token is ES5 white space, line terminators and — unless comments are yielded — comments;
    the inserted tokens are `AUTOSEMI` with value `;`. -/
theorem tokens_partition_input (text : List Char) (wc yc : Bool) (toks : List Token)
    (h : lexStandalone text wc yc = (toks, none)) :
    Segmented (!yc) text 0 (segments toks) ∧
    ∀ t ∈ toks, t.auto = true → t.type = "AUTOSEMI" ∧ t.value = [';'] := by
  unfold lexStandalone at h
  constructor
  · obtain ⟨new, hnew, hseg⟩ := LexerSegm.lexAll_spec _ _ _ _ rfl (by simp [init]) h
    simp at hnew
    subst hnew
    simpa [init, LexerSegm.realToks] using hseg
  · obtain ⟨new, hnew, hall⟩ := LexerSegm.lexAll_tokens _ _ _ _ _ rfl h
    simp at hnew
    subst hnew
    intro t ht ha
    have := (hall t ht).2 ha
    exact ⟨this.2, this.1⟩

/-- corollary of `tokens_partition_input`: offsets strictly increase and tokens do not overlap -/
theorem tokens_strictly_ordered (text : List Char) (wc yc : Bool) (toks : List Token)
    (h : lexStandalone text wc yc = (toks, none)) :
    (segments toks).Pairwise (fun a b => a.1 < b.1 ∧ a.1 + a.2.length ≤ b.1) :=
  (LexerSegm.segmented_ordered _ _ _ _ (tokens_partition_input text wc yc toks h).1).2

/-- D `ignore_set_is_es5_whitespace`: what ply skips as `t_ignore` in state INITIAL is exactly ES5 WhiteSpace
    (§7.2: TAB VT FF SP NBSP BOM + Zs) — in particular no line terminator (U+2028 / U+2029 used to be in it:
    KF-06a, fixed) —; in state `regex` it is SP and TAB. -/
theorem ignore_set_is_es5_whitespace :
    (∀ c, isIgnored .initial c = true ↔ isWhiteSpace c = true) ∧
    (∀ c, isIgnored .regex c = true ↔ (c = ' ' ∨ c = '\t')) := by
  constructor
  · intro c
    obtain ⟨h1, h2⟩ := LexerGap.ignore_initial_eq
    constructor
    · intro h
      unfold isIgnored at h
      have hm : c ∈ ignoreOf .initial := by simpa using h
      exact List.all_eq_true.mp h1 c hm
    · intro h
      have key : ∀ n, c.toNat = n → c = Char.ofNat n := by
        intro n hn; rw [← hn, Char.ofNat_toNat]
      have hall := List.all_eq_true.mp h2
      have hc : c.toNat ∈ ([0x09, 0x0B, 0x0C, 0x20, 0xA0, 0xFEFF] ++ zs) := by
        unfold isWhiteSpace at h
        simp only [Bool.or_eq_true, List.contains_iff_mem] at h
        simp only [List.mem_append]
        exact h
      have := hall _ hc
      rw [← key _ rfl] at this
      exact this
  · intro c
    unfold isIgnored
    rw [LexerGap.ignore_regex_eq]
    simp

/-! ### punctuators and keywords -/

/-- D `punctuators_longest_first`: in ply's rule order of state INITIAL (`Gen.Tables.Cached.lexTypes_INITIAL`), no
    fixed-text rule's text is a proper prefix of the text of a rule that is tried later — i.e. every punctuator that
    is a proper prefix of another comes later (Python `re` alternation takes the FIRST alternative that matches). -/
theorem punctuators_longest_first : LexerTables.noEarlierPrefix (rulesOf .initial) = true :=
  LexerTables.punct_order_ok

/-- T `punctuator_maximal_munch`: in a successful stand-alone lexing, a token whose type is a fixed-text rule `P`
    (a punctuator, including DIV `/` and DIVEQUAL `/=` when the lexer decided for division) has exactly the text of
    `P`, and that is the LONGEST punctuator spelling that is a prefix of the input at its offset. -/
theorem punctuator_maximal_munch (text : List Char) (wc yc : Bool) (toks : List Token) (e : Option Err)
    (h : lexStandalone text wc yc = (toks, e)) (t : Token) (ht : t ∈ toks) (hreal : t.auto = false)
    (P sp : String) (hP : (P, sp) ∈ LexData.punctSpelling) (hty : t.type = P) :
    t.value = sp.toList ∧
    ∀ P' sp', (P', sp') ∈ LexData.punctSpelling → P' ∈ rulesOf .initial →
      startsWith sp'.toList (text.drop t.lexpos) = true → sp'.toList.length ≤ sp.toList.length := by
  unfold lexStandalone at h
  obtain ⟨new, hnew, hall⟩ := LexerSegm.lexAll_tokens _ _ _ _ _ rfl h
  simp at hnew
  subst hnew
  exact LexerTables.punct_munch ((hall t ht).1 hreal) P sp hP hty

/-- every fixed-text rule is tried in state INITIAL (so the quantification over `rulesOf .initial` above covers all
    punctuators) -/
theorem all_punctuators_are_initial_rules :
    LexData.punctSpelling.all (fun p => (rulesOf .initial).contains p.1) = true := by decide

/-- the look-behind flag of `t_ID` in terms of the token stream: among the tokens `prev` returned before (in order),
    the last one that is neither inserted nor a comment / line terminator (the lexer's `cur_token_real`) is a `.` -/
abbrev afterPeriodOf (prev : List Token) : Bool := LexerKeyword.afterPeriodOf prev

/-- T `id_keyword_iff`: in a stand-alone lexing, a token `t` of the identifier class (typed `ID` or with a keyword
    type) is typed as keyword `K` iff its WHOLE text equals the spelling of `K` in `Lexer.keywords_dict` AND the
    previous significant token is not `.` (an IdentifierName after `.` is a property name: `t_ID` types it `ID`). -/
theorem id_keyword_iff (text : List Char) (wc yc : Bool) (toks : List Token) (e : Option Err)
    (h : lexStandalone text wc yc = (toks, e)) (pre post : List Token) (t : Token)
    (hsplit : toks = pre ++ t :: post) (hreal : t.auto = false)
    (hcls : t.type = "ID" ∨ t.type ∈ LexData.keywords.map (·.2))
    (sp K : String) (hK : (sp, K) ∈ LexData.keywords) :
    t.type = K ↔ (String.ofList t.value = sp ∧ afterPeriodOf pre = false) := by
  unfold lexStandalone at h
  obtain ⟨new, hnew, hall⟩ := LexerKeyword.lexAll_kw text _ _ [] toks e rfl rfl (by simp [LexerKeyword.afterPeriodOf, init, afterPeriod]) h
  simp at hnew
  subst hnew
  subst hsplit
  have htb := LexerKeyword.kwAll_split text pre [] t post hall
  simp only [List.nil_append] at htb
  have hty := LexerKeyword.typedBy_id htb hreal (by simp only [List.mem_cons]; exact hcls)
  rw [hty]
  exact LexerTables.ruleFn_keyword_iff _ t.value sp K hK

/-- T `keyword_exact` ("an identifier is classified as a keyword ONLY ON EXACT MATCH"): a token with a keyword type
    has exactly that keyword's spelling (never a prefix or a longer identifier) -/
theorem keyword_exact (text : List Char) (wc yc : Bool) (toks : List Token) (e : Option Err)
    (h : lexStandalone text wc yc = (toks, e)) (t : Token) (ht : t ∈ toks) (hreal : t.auto = false)
    (sp K : String) (hK : (sp, K) ∈ LexData.keywords) (hty : t.type = K) :
    String.ofList t.value = sp := by
  unfold lexStandalone at h
  obtain ⟨new, hnew, hall⟩ := LexerSegm.lexAll_tokens _ _ _ _ _ rfl h
  simp at hnew
  subst hnew
  exact LexerTables.keyword_type_exact ((hall t ht).1 hreal) sp K hK hty

/-- regression / non-vacuity of the look-behind: `a.if` is ID, PERIOD, ID; `if` elsewhere is IF; a comment or line
    terminator between `.` and the name does not matter -/
example :
    ((lexStandalone "a.if if a./*c*/\nreturn".toList false false).1.map (·.type)) =
      ["ID", "PERIOD", "ID", "IF", "ID", "PERIOD", "ID"] := by
  decide +kernel

/-! ### positions -/

open CalmVerif.Spec.LinesRef in
/-- T `positions_are_counted` (full strength): in a stand-alone lexing of ANY text (also one that ends in an
    error: the statement is about the tokens produced), the recorded line and column of every non-inserted token are
    exactly those obtained by counting ES5 line terminator sequences (LF, CR, CR LF as one, U+2028, U+2029 — also
    inside comments, string continuations and regular expression literals) up to its offset
    (Spec.LinesRef.lineCol).  Invariant behind it (Proofs.LexerPos.Inv): `newline_idx` is 0 followed by the end
    offsets of all terminator sequences before `lexpos`, `lineno - 1` their number, and `lexpos` never splits a
    CR LF pair (Proofs.LexerEnds: no token rule ends its match on a CR that is followed by LF). -/
theorem positions_are_counted (text : List Char) (wc yc : Bool) (toks : List Token) (e : Option Err)
    (h : lexStandalone text wc yc = (toks, e)) :
    ∀ t ∈ toks, t.auto = false →
      t.lineno = (lineCol text t.lexpos).1 ∧ t.colno = ((lineCol text t.lexpos).2 : Int) := by
  unfold lexStandalone at h
  have hinv : LexerPos.Inv text (init text wc yc) := by
    refine ⟨rfl, by simp [init], by simp [init, terminatorEnds], by simp [init, terminatorEnds], ?_⟩
    intro ⟨h0, _⟩
    simp [init] at h0
  obtain ⟨new, hnew, hall⟩ := LexerPos.lexAll_pos text _ _ [] toks e rfl hinv h
  simp at hnew
  subst hnew
  exact hall

open CalmVerif.Spec.LinesRef in
/-- regression for the former defect KF-06a (U+2028 / U+2029 were in `t_ignore`, `b` was reported at 1:3):
    a bare U+2028 is a line terminator, `b` is at 2:1 -/
example :
    (lexStandalone ['a', '\u2028', 'b'] false false).2 = none ∧
    (lexStandalone ['a', '\u2028', 'b'] false false).1.map (fun t => (t.lexpos, t.lineno, t.colno)) =
      [(0, 1, 1), (2, 2, 1)] ∧
    lineCol ['a', '\u2028', 'b'] 2 = (2, 1) := by
  decide +kernel

/-- non-vacuity of `positions_are_counted`: all five terminator kinds, bare, inside a comment and in a string
    continuation -/
example :
    (lexStandalone "a\r\nb /*\n*/ c\rd '\\\u2028' e\u2029f".toList false false).2 = none ∧
    (lexStandalone "a\r\nb /*\n*/ c\rd '\\\u2028' e\u2029f".toList false false).1.map
        (fun t => (String.ofList t.value, t.lineno, t.colno)) =
      [("a", 1, 1), ("b", 2, 1), ("c", 3, 4), ("d", 4, 1), ("'\\\u2028'", 4, 3), ("e", 5, 3), ("f", 6, 1)] := by
  decide +kernel

/-! ### non-vacuity -/

/-- the hypotheses are satisfiable by a non-trivial text: keyword, identifier, punctuators (maximal munch `>>>=`),
    a hidden comment, a number, a restricted production with an inserted AUTOSEMI -/
example :
    (lexStandalone "if (a >>>= 1) /*c*/ return\nb".toList false false).2 = none ∧
    ((lexStandalone "if (a >>>= 1) /*c*/ return\nb".toList false false).1.map (fun t => (t.type, String.ofList t.value, t.lexpos, t.auto))) =
      [("IF", "if", 0, false), ("LPAREN", "(", 3, false), ("ID", "a", 4, false), ("URSHIFTEQUAL", ">>>=", 6, false),
       ("NUMBER", "1", 11, false), ("RPAREN", ")", 12, false), ("RETURN", "return", 20, false),
       ("AUTOSEMI", ";", 26, true), ("ID", "b", 27, false)] := by
  decide +kernel

end CalmVerif.Props.C06
