/-
C03  Parser accepts exactly the ES5 grammar and builds the tree it dictates.

What is proved here (DESIGN.md §6 C03):
  * `tables_valid`  — the regenerated LALR tables pass the validity check against the regenerated
                      certificate (kernel evaluation over every action/goto entry);
  * `lr_sound`      — hence, for EVERY token source, fuel and input, whatever the LR driver model
                      accepts is a derivation tree of the regenerated grammar whose yield is exactly
                      the sequence of tokens shifted (so the tree is the one the derivation dictates);
  * table facts encoding clauses of the property (`else_binds_nearest`, …).
Language *equality* with ES5 is not provable here (see DESIGN.md); it is covered by the
exhaustive bounded differential against Spec.Es5Parse in harness/checks/C03.py.
-/
import CalmVerif.Model.Grammar
import CalmVerif.Gen.Tables.Cert
import CalmVerif.Proofs.LRSound
import CalmVerif.Spec.Es5Grammar
import CalmVerif.Proofs.GrammarFacts
namespace CalmVerif.Props.C03
open CalmVerif.Model CalmVerif.Model.LR

theorem tables_valid :
    tablesValid Grammar.cached Gen.Tables.Cert.cert Gen.Tables.Cert.acc = true := by
  decide +kernel

/-- **lr_sound** for the regenerated tables. -/
theorem lr_sound {τ σ ε : Type} (ty : τ → Nat) (R : Source τ σ ε) (fuel : Nat) (s : σ)
    (v : Tree τ) (c' : Config τ (Tree τ) σ)
    (hacc : run Grammar.cached (treeSem (σ := σ) (ε := ε) ty) R fuel (initConfig s) = (.accepted v, c')) :
    v.valid Grammar.cached ty ∧ v.yield = c'.shifted.reverse :=
  run_sound tables_valid fuel _ _ _ (inv_init s) hacc

/-- the grammar regenerated from /repo (as a set of productions) is the reviewed ES5 grammar pinned in
    Spec/Es5Grammar.lean: any change to a p_* docstring breaks this obligation and triggers the search for a
    program on which the parser now disagrees with the reference parser -/
theorem grammar_is_reviewed : Gen.Tables.Cached.grammarLines = Spec.Es5Grammar.productions := by
  decide +kernel

section clauses
open CalmVerif.Model.GrammarFacts

def g : GT :=
  { terminals := Gen.Tables.Cached.terminals, nonterminals := Gen.Tables.Cached.nonterminals,
    prods := Gen.Tables.Cached.prods, action := Gen.Tables.Cached.action, defaulted := Gen.Tables.Cached.defaulted }

/-- operator precedence and associativity: the ten binary levels, in their plain / `_nobf` / `_noin` variants, are
    left-recursive over exactly the ES5 operators of the level, and each level passes through to the next tighter one -/
theorem binary_levels_chain : binaryLevelsOK g = true ∧ chainOK g "" = true ∧ chainOK g "_noin" = true := by
  decide +kernel

/-- assignment and conditional expressions are right-recursive -/
theorem assignment_conditional_right_assoc :
    rightAssocLevel g "assignment_expr" ["assignment_expr"] = true ∧
    rightAssocLevel g "assignment_expr_noin" ["assignment_expr_noin"] = true ∧
    rightAssocLevel g "assignment_expr_nobf" ["assignment_expr"] = true ∧
    rightAssocLevel g "conditional_expr" ["assignment_expr"] = true ∧
    rightAssocLevel g "conditional_expr_noin" ["assignment_expr_noin"] = true := by
  decide +kernel

/-- `in` is excluded from the NoIn family (for-initialisers) -/
theorem noin_family_excludes_in : noinExcludesIn g = true := by decide +kernel

/-- `else` binds to the nearest `if` -/
theorem else_binds_nearest : elseBindsNearest g Gen.Tables.Cert.cert = true := by decide +kernel

/-- an expression statement never starts with `{` … -/
theorem exprstmt_never_starts_with_brace :
    (firstTerminals g "expr_nobf").contains (g.term "LBRACE") = false := by decide +kernel

/-- … but it CAN start with `function` in this grammar (finding KF-03a: `function_expr` is an alternative of
    `member_expr_nobf`; only a bare function expression is rejected, by the semantic action) — the clause of the
    property is false of the pinned code and this is its witness at grammar level -/
theorem exprstmt_can_start_with_function_KF03a :
    (firstTerminals g "expr_nobf").contains (g.term "FUNCTION") = true := by decide +kernel

end clauses

/-- the driver is a function: same tables, source and fuel give the same outcome (determinism) -/
theorem lr_deterministic {τ ν σ ε : Type} (S : Sem τ ν σ ε) (R : Source τ σ ε) (fuel : Nat)
    (c : Config τ ν σ) (o₁ o₂ : Outcome ν ε × Config τ ν σ)
    (h₁ : run Grammar.cached S R fuel c = o₁) (h₂ : run Grammar.cached S R fuel c = o₂) : o₁ = o₂ :=
  h₁.symm.trans h₂

end CalmVerif.Props.C03
