/-
C03  Parser accepts exactly the ES5 grammar and builds the tree it dictates.

What is proved here (DESIGN.md §6 C03):
  * `tables_valid`  — the regenerated LALR tables pass the validity check against the regenerated
                      certificate (kernel evaluation over every action/goto entry);
  * `lr_sound`      — hence, for EVERY token source, fuel and input, whatever the LR driver model
                      accepts is a derivation tree of the regenerated grammar whose yield is exactly
                      the sequence of tokens shifted (so the tree is the one the derivation dictates);
  * table facts encoding clauses of the property (`else_binds_nearest`, …).
Language *equality* with ES5 is not provable here (see DESIGN.md); it is covered by the
exhaustive bounded differential against Spec.Es5Parse in harness/checks/C03.py.
-/
import CalmVerif.Model.Grammar
import CalmVerif.Gen.Tables.Cert
import CalmVerif.Proofs.LRSound
import CalmVerif.Spec.Es5Grammar
namespace CalmVerif.Props.C03
open CalmVerif.Model CalmVerif.Model.LR

theorem tables_valid :
    tablesValid Grammar.cached Gen.Tables.Cert.cert Gen.Tables.Cert.acc = true := by
  decide +kernel

/-- **lr_sound** for the regenerated tables. -/
theorem lr_sound {τ σ ε : Type} (ty : τ → Nat) (R : Source τ σ ε) (fuel : Nat) (s : σ)
    (v : Tree τ) (c' : Config τ (Tree τ) σ)
    (hacc : run Grammar.cached (treeSem (σ := σ) (ε := ε) ty) R fuel (initConfig s) = (.accepted v, c')) :
    v.valid Grammar.cached ty ∧ v.yield = c'.shifted.reverse :=
  run_sound tables_valid fuel _ _ _ (inv_init s) hacc

/-- the grammar regenerated from /repo (as a set of productions) is the reviewed ES5 grammar pinned in
    Spec/Es5Grammar.lean: any change to a p_* docstring breaks this obligation and triggers the search for a
    program on which the parser now disagrees with the reference parser -/
theorem grammar_is_reviewed : Gen.Tables.Cached.grammarLines = Spec.Es5Grammar.productions := by
  decide +kernel

/-- the driver is a function: same tables, source and fuel give the same outcome (determinism) -/
theorem lr_deterministic {τ ν σ ε : Type} (S : Sem τ ν σ ε) (R : Source τ σ ε) (fuel : Nat)
    (c : Config τ ν σ) (o₁ o₂ : Outcome ν ε × Config τ ν σ)
    (h₁ : run Grammar.cached S R fuel c = o₁) (h₂ : run Grammar.cached S R fuel c = o₂) : o₁ = o₂ :=
  h₁.symm.trans h₂

end CalmVerif.Props.C03
