/-
C16 — Tree walking reaches every node exactly once, in document order.

Objects (CalmVerif/Model/Walk.lean):
  `walk / filter / extract tbl …`  model of calmjs.parse.walkers.Walker over generic trees, driven by a
        children() table `tbl`; `Gen.Children.table` is regenerated from /repo on every run.
  paths: a node is identified by its path from the root (innermost step first), a step is
        (attribute name, index).
  `preorderAll tbl t` / `preorderFull tbl t`: the specification — every node stored in ANY attribute
        (found by reflection over the value, never through children()), parents first, sibling
        attributes in children() order; `All` leaves out the `comments` attribute, `Full` does not.
  `storedNodes full t`: the same reflection with NO table at all (stored attribute order).
  `coverTable tbl`: every attribute that can hold a node / a list of nodes is returned by children()
        exactly once, nothing else is; `wf tbl t`: t is a tree over the table (kinds known, shapes match,
        unknown attributes hold no nodes; nothing is required under `comments`);
        `distinctNames full t`: attribute names within a node are distinct (true of any Python dict).

Finding KF-16a: nodes stored in the class-level `comments` attribute (set by Node.set_comments when parsing
with_comments=True) are never yielded; the full statement (`preorderFull`) is refuted on `witness`
and the theorems are proved for `preorderAll` (suffix `_partial`: exclusion = attribute `comments`,
`Gen.Children.commentsAttr`).
-/
import CalmVerif.Proofs.WalkBasic
import CalmVerif.Proofs.WalkNodup
import CalmVerif.Proofs.WalkFuel
namespace CalmVerif.Props.C16
open CalmVerif CalmVerif.Gen.Children CalmVerif.Model.Walk CalmVerif.Proofs.Walk

/-- table-free reflection: every node stored below `t`, stored attribute order -/
def storedNodes (full : Bool) (t : Val) : Out := preDesc [] full [] t

def pathsOf : Except Err Out → Option (List Path)
  | .ok l => some (l.map (·.1))
  | .error _ => none

/-! ## D: facts about the GENERATED table (re-checked whenever Gen/Children.lean changes) -/

/-- every class: each attribute that can hold a node / node list is in children() exactly once
(all attributes except `comments`) -/
theorem children_cover : coverTable Gen.Children.table = true := by decide

/-- no class returns the `comments` attribute from children() (KF-16a at table level) -/
theorem comments_never_returned : commentsNeverReturned Gen.Children.table = true := by decide

/-! ## T: walk is the preorder of all stored nodes (except under `comments`) -/

theorem walk_is_preorder_partial (tbl : Table) (hc : coverTable tbl = true) (t : Val)
    (hw : wf tbl t = true) : walk tbl t = .ok (preorderAll tbl t) :=
  walkF_pre tbl hc (vsize t) [] t hw (Nat.le_refl _)

/-- … for the table of the code as it is now -/
theorem walk_is_preorder_partial_gen (t : Val) (hw : wf Gen.Children.table t = true) :
    walk Gen.Children.table t = .ok (preorderAll Gen.Children.table t) :=
  walk_is_preorder_partial _ children_cover t hw

/-- every stored node (outside `comments`) exactly once: the walk is a permutation of the table-free
reflection and no path occurs twice -/
theorem walk_exactly_once_partial (tbl : Table) (hc : coverTable tbl = true) (t : Val)
    (hw : wf tbl t = true) (hd : distinctNames false t = true) :
    ∃ L, walk tbl t = .ok L ∧ List.Perm L (storedNodes false t) ∧ (L.map (·.1)).Nodup :=
  ⟨preorderAll tbl t, walk_is_preorder_partial tbl hc t hw, preDesc_perm_stored tbl false [] t,
    preDesc_nodup tbl false [] t hd⟩

/-- each node after its parent (hence after all its ancestors): the parent of every yielded node is the
root or was yielded earlier -/
theorem walk_parents_first_partial (tbl : Table) (hc : coverTable tbl = true) (t : Val)
    (hw : wf tbl t = true) (L A B : Out) (x : Path × Val)
    (hL : walk tbl t = .ok L) (hs : L = A ++ x :: B) :
    ∃ s par, x.1 = s :: par ∧ (par = [] ∨ par ∈ A.map (·.1)) := by
  rw [walk_is_preorder_partial tbl hc t hw] at hL
  cases hL
  obtain ⟨s, par, h1, h2⟩ := PF_split _ _ (pf_desc tbl false [] t) A x B hs
  exact ⟨s, par, h1, by simpa using h2⟩

/-- the same order on every walk: `walk` is a function of the tree (no state) -/
theorem walk_deterministic (tbl : Table) (t : Val) (r1 r2 : Except Err Out)
    (h1 : walk tbl t = r1) (h2 : walk tbl t = r2) : r1 = r2 := h1 ▸ h2

/-- the recursion fuel `walk` supplies (the size of the tree) suffices on EVERY tree (well-formed or
not): any larger amount gives the same result, so `Err.fuel` is never the model's answer because of
the bound (on well-formed trees `walk_is_preorder_partial` shows the result is `.ok`) -/
theorem walk_fuel_suffices (tbl : Table) (t : Val) (n : Nat) (h : vsize t ≤ n) :
    walkF tbl n [] t = walk tbl t :=
  walkF_fuel tbl n (vsize t) [] t h (Nat.le_refl _)

/-! ## T: filter and extract (every table, every tree, no hypothesis) -/

theorem filter_is_walk_filter (tbl : Table) (cond : Val → Bool) (t : Val) :
    filter tbl cond t = match walk tbl t with
      | .error e => .error e
      | .ok w => .ok (w.filter (fun e => cond e.2)) := by
  have := filterF_eq tbl cond (vsize t) [] t
  simp only [filter, walk, this, mapOk]
  cases walkF tbl (vsize t) [] t <;> rfl

theorem extract_nth (tbl : Table) (cond : Val → Bool) (t : Val) (n : Nat) :
    extract tbl cond t (n : Int) = match walk tbl t with
      | .error e => .error e
      | .ok w => match (w.filter (fun e => cond e.2))[n]? with
        | some (p, v) => .found p v
        | none => .noMatch := by
  simp only [extract, filter_is_walk_filter]
  cases walk tbl t with
  | error e => rfl
  | ok w => simp only [extractLoop_nat]; rfl

/-- a negative `skip` never finds anything (`if not skip` is never true) -/
theorem extract_negative (tbl : Table) (cond : Val → Bool) (t : Val) (k : Int) (hk : k < 0) :
    extract tbl cond t k = match walk tbl t with
      | .error e => .error e
      | .ok _ => .noMatch := by
  simp only [extract, filter_is_walk_filter]
  cases walk tbl t with
  | error e => rfl
  | ok w => simp only [extractLoop_neg _ k hk]

/-! ## KF-16a: the full statement is false — witness `/* c */ a;` parsed with comments -/

def witness : Val :=
  .node "ES5Program" [("children", .list [
    .node "ExprStatement" [("expr",
      .node "Identifier" [("value", .str "a"),
        ("comments", .node "Comments" [("children", .list [
          .node "BlockComment" [("value", .str "/* c */")]])])])]])]

theorem witness_wf : wf Gen.Children.table witness = true ∧ distinctNames true witness = true := by decide

theorem witness_walk : pathsOf (walk Gen.Children.table witness)
    = some [[("children", 0)], [("expr", 0), ("children", 0)]] := by decide

theorem witness_stored : (preorderFull Gen.Children.table witness).map (·.1)
    = [[("children", 0)], [("expr", 0), ("children", 0)],
       [("comments", 0), ("expr", 0), ("children", 0)],
       [("children", 0), ("comments", 0), ("expr", 0), ("children", 0)]] := by decide

/-- the Comments node and the BlockComment stored in it are never yielded -/
theorem comments_not_walked :
    [("comments", 0), ("expr", 0), ("children", 0)] ∈ (preorderFull Gen.Children.table witness).map (·.1) ∧
    ∀ L, walk Gen.Children.table witness = .ok L →
      [("comments", 0), ("expr", 0), ("children", 0)] ∉ L.map (·.1) := by
  refine ⟨by rw [witness_stored]; decide, ?_⟩
  intro L hL
  have := witness_walk
  rw [hL] at this
  simp only [pathsOf, Option.some.injEq] at this
  rw [this]; decide

/-- negation of the full-strength statement -/
theorem walk_is_preorder_full_false :
    ¬ (∀ t, wf Gen.Children.table t = true → walk Gen.Children.table t = .ok (preorderFull Gen.Children.table t)) := by
  intro h
  have h1 := h witness witness_wf.1
  have h2 := witness_walk
  rw [h1] at h2
  simp only [pathsOf, Option.some.injEq] at h2
  rw [witness_stored] at h2
  exact absurd h2 (by decide)

/-! ## non-vacuity -/

def isKind (k : String) : Val → Bool
  | .node k' _ => k' == k
  | _ => false

def pathOfExtracted : Extracted → Option (Option Path)
  | .found p _ => some (some p)
  | .noMatch => some none
  | .error _ => none

/-- `if (a) b; function f(x, y) { try { z; } finally { } }` with lexpos-like extra attributes -/
def sample : Val :=
  .node "ES5Program" [("@id", .int 0), ("children", .list [
    .node "If" [("predicate", .node "Identifier" [("value", .str "a")]),
                ("consequent", .node "ExprStatement" [("expr", .node "Identifier" [("value", .str "b")])]),
                ("alternative", .none), ("lexpos", .int 0)],
    .node "FuncDecl" [("identifier", .node "Identifier" [("value", .str "f")]),
      ("parameters", .list [.node "Identifier" [("value", .str "x")], .node "Identifier" [("value", .str "y")]]),
      ("elements", .list [
        .node "Try" [("statements", .node "Block" [("children", .list [
                        .node "ExprStatement" [("expr", .node "Identifier" [("value", .str "z")])]])]),
                     ("catch", .none),
                     ("fin", .node "Finally" [("elements", .node "Block" [("children", .list [])])])]])]])]

example : wf Gen.Children.table sample = true ∧ distinctNames false sample = true := by decide

example : pathsOf (walk Gen.Children.table sample) = some [
    [("children", 0)],
    [("predicate", 0), ("children", 0)],
    [("consequent", 0), ("children", 0)],
    [("expr", 0), ("consequent", 0), ("children", 0)],
    [("children", 1)],
    [("identifier", 0), ("children", 1)],
    [("parameters", 0), ("children", 1)],
    [("parameters", 1), ("children", 1)],
    [("elements", 0), ("children", 1)],
    [("statements", 0), ("elements", 0), ("children", 1)],
    [("children", 0), ("statements", 0), ("elements", 0), ("children", 1)],
    [("expr", 0), ("children", 0), ("statements", 0), ("elements", 0), ("children", 1)],
    [("fin", 0), ("elements", 0), ("children", 1)],
    [("elements", 0), ("fin", 0), ("elements", 0), ("children", 1)]] := by decide

example : pathsOf (filter Gen.Children.table (isKind "Identifier") sample) = some [
    [("predicate", 0), ("children", 0)],
    [("expr", 0), ("consequent", 0), ("children", 0)],
    [("identifier", 0), ("children", 1)],
    [("parameters", 0), ("children", 1)],
    [("parameters", 1), ("children", 1)],
    [("expr", 0), ("children", 0), ("statements", 0), ("elements", 0), ("children", 1)]] := by decide

example : pathOfExtracted (extract Gen.Children.table (isKind "Identifier") sample 2)
    = some (some [("identifier", 0), ("children", 1)]) := by decide
example : pathOfExtracted (extract Gen.Children.table (isKind "Identifier") sample 6) = some none := by decide
example : pathOfExtracted (extract Gen.Children.table (isKind "With") sample 0) = some none := by decide

/-- a table that hides a sub-node fails the cover check: `Try` without `fin` -/
example : coverTable [{ kind := "Try", attrs := [("catch", .node), ("fin", .node), ("statements", .node)],
                        recipe := [.one "statements", .one "catch"] }] = false := by decide

end CalmVerif.Props.C16
