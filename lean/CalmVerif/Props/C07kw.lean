/-
C07 — "no generated name is a reserved word … and the output parses": the list of reserved words the minifying rule set gives the
name generator (`Lexer.keywords_dict`, regenerated as `Gen.ObfData.reservedKeywords`) is compared in the kernel with the words the
LEXER types as something other than an identifier (`Gen.LexData.keywords`, regenerated from the lexer tables) and with the
ReservedWord list of ECMA-262 5.1 §7.6.1 (Keyword, FutureReservedWord outside strict mode, NullLiteral, BooleanLiteral).
`generated_not_reserved_tree` (Props/C07) is relative to the list handed to the generator; with these facts the names it avoids are
exactly the words the parser would not read as an identifier.
-/
import CalmVerif.Gen.ObfData
import CalmVerif.Gen.LexData
namespace CalmVerif.Props.C07kw
open CalmVerif

def sameSet (a b : List String) : Bool := a.all b.contains && b.all a.contains

/-- ECMA-262 5.1 §7.6.1: Keyword ∪ FutureReservedWord (non-strict) ∪ {null, true, false} -/
def es5ReservedWords : List String :=
  ["break", "do", "instanceof", "typeof", "case", "else", "new", "var", "catch", "finally", "return", "void", "continue", "for",
   "switch", "while", "debugger", "function", "this", "with", "default", "if", "throw", "delete", "in", "try",
   "class", "enum", "extends", "super", "const", "export", "import", "null", "true", "false"]

/-- D: the generator's skip list = the words the lexer does not type ID -/
theorem obfuscator_reserved_list_is_lexer_keywords :
    sameSet Gen.ObfData.reservedKeywords (Gen.LexData.keywords.map (·.1)) = true := by decide +kernel

/-- D: … = the ES5 ReservedWord list -/
theorem lexer_keywords_are_es5_reserved_words :
    sameSet (Gen.LexData.keywords.map (·.1)) es5ReservedWords = true ∧ es5ReservedWords.length = 36 ∧
    es5ReservedWords.Nodup := by decide +kernel

/-- `rules.obfuscate()` on its own passes NO reserved words (finding KF-07d): the default list is empty -/
theorem rules_obfuscate_default_list_is_empty : Gen.ObfData.rulesObfuscateReserved = [] := by decide

end CalmVerif.Props.C07kw
