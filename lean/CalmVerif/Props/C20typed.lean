/-
C20 for parsed programs: the typed theorems `C20.pretty_lines_indented_typed` and
`C20.pretty_text_ends_with_one_newline_typed` for every text the parser model accepts — their two tree hypotheses
(`wfVal cxPretty`, `valAll endsOK anyStr`) are `Props.C01typed.parsed_tree_well_typed`; what remains is the token-level
hypothesis `C01typed.TokenTextsOK` (see Props/C01typed.lean) and the two decidable conditions on the indent string.
(`C01.pretty_stream_typed` and `C02.minify0/1_stream_typed` compose in the same one-line way: `C01typed.parsed_good` gives
`pv.v = .node "ES5Program" attrs` and `wfVal cx… pv.v`.)
-/
import CalmVerif.Props.C01typed
import CalmVerif.Props.C20
namespace CalmVerif.Props.C20typed
open CalmVerif CalmVerif.Model CalmVerif.Model.Actions CalmVerif.TokenAdj CalmVerif.Unparse
open CalmVerif.Props.C01typed

/-- C20 (2) for parsed programs: every printed line that starts with a token is indented by exactly the indentation
    string × the structural depth of that token, and the level is 0 at the end -/
theorem parsed_pretty_lines_indented (text : List Char) (wc : Bool) (pv : PVal)
    (hparse : Parser.parse text wc = .accepted pv) (htok : TokenTextsOK text wc)
    (indent : Option String) (chunks : List Chunk)
    (hw : walkChunks (prettyCfg indent) pv.v () = .ok (chunks, ()))
    (hi : indentOK (effIndent hdataGen indent) = true) :
    checkLines (effIndent hdataGen indent) (flushAll (prettyCfg indent) chunks none [] 0).1
        (printingDepths chunks 0) (some []) = true ∧
    (flushAll (prettyCfg indent) chunks none [] 0).2 = 0 := by
  obtain ⟨as, hv, hwf, he⟩ := parsed_good (cx := cxPretty) rfl hparse htok
  rw [hv] at hwf he hw
  exact C20.pretty_lines_indented_typed indent "ES5Program" as chunks hwf he hw hi

/-- C20 (3) for parsed programs: the printed text ends with exactly one newline (or is empty) -/
theorem parsed_pretty_ends_with_one_newline (text : List Char) (wc : Bool) (pv : PVal)
    (hparse : Parser.parse text wc = .accepted pv) (htok : TokenTextsOK text wc)
    (indent : Option String) (chunks : List Chunk)
    (hw : walkChunks (prettyCfg indent) pv.v () = .ok (chunks, ()))
    (hi : indentOK (effIndent hdataGen indent) = true) :
    EndsWithOneNewline (charsOf (flushAll (prettyCfg indent) chunks none [] 0).1) := by
  obtain ⟨as, hv, hwf, he⟩ := parsed_good (cx := cxPretty) rfl hparse htok
  rw [hv] at hwf he hw
  exact C20.pretty_text_ends_with_one_newline_typed indent as chunks hwf he hw hi

end CalmVerif.Props.C20typed
