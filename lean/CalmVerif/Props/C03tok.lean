/-
C03 / C12 — the lexer's token vocabulary and the grammar's terminal vocabulary are the same.

Two regenerated tables are compared in the kernel: `Gen.LexData.tokenTypes` (`Lexer.tokens`, reflected from /repo) and
`Gen.Tables.Cached.terminals` / `prods` (ply's tables for the grammar of `parsers/es5.py`).
 * `lexer_token_types_are_grammar_terminals`: every token type the lexer can hand to the parser — all of `Lexer.tokens` except the
   three layout types the parser-driven lexer swallows (`DIVISION_SYNTAX_MARKERS`: LINE_TERMINATOR, LINE_COMMENT, BLOCK_COMMENT) — is a
   terminal of the grammar, and every terminal except ply's own `$end` / `error` is a token type of the lexer: the LR driver never
   sees a token it has no column for, and no terminal is unreachable from text for want of a token type.
 * `keywords_and_punctuators_are_terminals`: the token type of every keyword (reserved and future reserved words) and of every
   punctuator of the lexer tables is a terminal.
 * `every_terminal_is_used`: every terminal except `$end` / `error` occurs on the right-hand side of some production (the future
   reserved words through `reserved_word`, i.e. as property names).
A token type added to or dropped from one side only (lexer tables vs. grammar docstrings) breaks these obligations.
-/
import CalmVerif.Gen.Tables.Cached
import CalmVerif.Gen.LexData
namespace CalmVerif.Props.C03tok
open CalmVerif

def layoutTypes : List String := Gen.LexData.divisionSyntaxMarkers
def plyOwn : List String := ["$end", "error"]

theorem lexer_token_types_are_grammar_terminals :
    (Gen.LexData.tokenTypes.all fun t => layoutTypes.contains t || Gen.Tables.Cached.terminals.contains t) = true ∧
    (Gen.Tables.Cached.terminals.all fun t => plyOwn.contains t || Gen.LexData.tokenTypes.contains t) = true ∧
    (layoutTypes.all fun t => Gen.LexData.tokenTypes.contains t && !Gen.Tables.Cached.terminals.contains t) = true ∧
    Gen.Tables.Cached.terminals.length = Gen.Tables.Cached.numTerminals := by decide +kernel

theorem keywords_and_punctuators_are_terminals :
    (Gen.LexData.keywords.all fun p => Gen.Tables.Cached.terminals.contains p.2) = true ∧
    (Gen.LexData.punctSpelling.all fun p => Gen.Tables.Cached.terminals.contains p.1) = true ∧
    Gen.LexData.keywords.length ≥ 30 ∧ Gen.LexData.punctSpelling.length ≥ 40 := by decide +kernel

def usedSymbols : List Nat := (Gen.Tables.Cached.prods.flatMap (·.2)).eraseDups

theorem every_terminal_is_used :
    ((List.range Gen.Tables.Cached.numTerminals).all fun i =>
      usedSymbols.contains i || plyOwn.contains (Gen.Tables.Cached.terminals.getD i "")) = true := by decide +kernel

end CalmVerif.Props.C03tok
