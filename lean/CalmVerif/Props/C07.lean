/-
C07  Name obfuscation is a consistent, capture-free renaming — property theorems over Model/Obfuscate.lean.

  generated_not_reserved         no generated name is a reserved keyword (any charset, skip set, count; every
                                 table of every scope tree `finalize` produces)
  generator_fresh                the names one scope draws are pairwise distinct, non-empty, outside its skip
                                 set, and the draw always succeeds (the generator enumerates an infinite
                                 duplicate-free sequence) — for the generated alphabet
  remap_tables_capture_free      for EVERY scope tree (in particular those the prewalk builds) and every scope S of
                                 it: the table of S is one-to-one, its replacements are non-empty and lie outside
                                 `_reserved_symbols(S)` = free names of S ∪ free names of the whole subtree of S ∪
                                 the names the non-local symbols referenced at S resolve to through the ancestors'
                                 (already final) tables — the capture-freedom invariant, by induction over the scope tree
  top_level_unchanged            without obfuscate_globals the global scope gets the empty table
Not proved here (reported): the resolve-level corollary of remap_tables_capture_free (`resolve_S` one-to-one on the
names referenced at S; needs the leak-propagation invariant of the prewalk), only_identifiers_change,
binding_preserved.
-/
import CalmVerif.Proofs.ObfRemap
namespace CalmVerif.Props.C07
open CalmVerif CalmVerif.Unparse CalmVerif.Obf

/-- the alphabet of the implementation has no duplicates and is not empty (checked on the generated table) -/
theorem charset_ok : Gen.ObfData.charset.Nodup ∧ Gen.ObfData.charset ≠ [] := by
  constructor
  · decide
  · decide

/-- **generated_not_reserved** (generator): whatever alphabet, reserved-keyword list `kw`, additional skip set and count,
no name drawn from `NameGenerator(skip=kw)(skip)` is in `kw` (nor in `skip`). -/
theorem generated_not_reserved (cs : List Char) (skip kw : List String) (n : Nat) (names : List String)
    (h : draw cs (sunion skip kw) n = .ok names) : ∀ x ∈ names, x ∉ kw ∧ x ∉ skip := by
  intro x hx
  have := draw_not_skip cs _ n names h x hx
  exact ⟨fun hk => this (mem_sunion.2 (Or.inr hk)), fun hs => this (mem_sunion.2 (Or.inl hs))⟩

/-- **generated_not_reserved** (whole run): after `Obfuscator.finalize`, no replacement in any scope's
`remapped_symbols` is one of the reserved keywords the Obfuscator was given — for every prewalk state, all flags. -/
theorem generated_not_reserved_tree (cs : List Char) (fl : Flags) (st : St) (fin : Final)
    (h : finalize cs fl st = .ok fin) : fin.tree.AllNew (fun v => v ∉ fl.reserved) := by
  unfold finalize at h
  split at h
  · rename_i g _
    split at h
    · cases h
    · rename_i rt hrt
      simp only [Except.ok.injEq] at h
      subst h
      exact buildTree_allNew cs fl.reserved [] fl.obfuscateGlobals (closeFrame g) rt hrt
  · cases h

/-- instance for the printers of `minify_printer(obfuscate=True, …)`: no generated name is in
`Lexer.keywords_dict` (Gen.ObfData.reservedKeywords), for every tree and both flags -/
theorem minify_generated_not_reserved (og sf : Bool) (tree : Val) (fin : Final)
    (h : prewalkHook tablesGen (minifyFlags og sf) tree = .ok fin) :
    fin.tree.AllNew (fun v => v ∉ Gen.ObfData.reservedKeywords) := by
  unfold prewalkHook at h
  split at h
  · cases h
  · exact generated_not_reserved_tree _ (minifyFlags og sf) _ fin h

/-- **generator_fresh**: for every skip set and every count the generator of the implementation's alphabet
delivers that many names; they are pairwise distinct, non-empty and outside the skip set. -/
theorem generator_fresh (skip : List String) (n : Nat) :
    ∃ names, draw Gen.ObfData.charset skip n = .ok names ∧ names.length = n ∧ names.Nodup ∧
      ∀ x ∈ names, x ∉ skip ∧ x ≠ "" :=
  draw_spec charset_ok.1 charset_ok.2 skip n

/-- the same for any duplicate-free non-empty alphabet -/
theorem generator_fresh_any (cs : List Char) (hnd : cs.Nodup) (hne : cs ≠ []) (skip : List String) (n : Nat) :
    ∃ names, draw cs skip n = .ok names ∧ names.length = n ∧ names.Nodup ∧ ∀ x ∈ names, x ∉ skip ∧ x ≠ "" :=
  draw_spec hnd hne skip n

/-- **remap_tables_capture_free**: whatever scope tree the prewalk left (`st`), every scope of the finished tree has
a one-to-one table of non-empty replacements outside its `_reserved_symbols` (see `Capfree`). -/
theorem remap_tables_capture_free (fl : Flags) (st : St) (fin : Final)
    (h : finalize Gen.ObfData.charset fl st = .ok fin) :
    ∃ g, st.stack = [g] ∧ Capfree [] (closeFrame g) fin.tree := by
  unfold finalize at h
  split at h
  · rename_i g hg
    split at h
    · cases h
    · rename_i rt hrt
      simp only [Except.ok.injEq] at h
      subst h
      exact ⟨g, hg, buildTree_capfree charset_ok.1 charset_ok.2 fl.reserved [] fl.obfuscateGlobals (closeFrame g) rt hrt⟩
  · cases h

/-- **top_level_unchanged**: without `obfuscate_globals` the global scope's table is empty, so `resolve` is the
identity on every name that no inner scope declares (top-level and free names). -/
theorem top_level_unchanged (cs : List Char) (kw : List String) (id : Nat) (node : Option Path)
    (refs : Counts) (decl : List String) (children : List STree) (r : RTree)
    (h : buildTree cs kw [] false (.mk id node .func refs decl children) = .ok r) :
    ∃ rcs, r = .mk id node .func (effRefs [{ kind := .func, refs := refs, decl := decl, remapped := [] }])
      (effLocalDecl [{ kind := .func, refs := refs, decl := decl, remapped := [] }]) [] rcs := by
  simp only [buildTree] at h
  split at h
  · cases h
  · rename_i rm hrm
    simp only [Bool.false_eq_true, if_false, Except.ok.injEq] at hrm
    subst hrm
    split at h
    · cases h
    · rename_i rcs _
      simp only [Except.ok.injEq] at h
      exact ⟨rcs, h.symm⟩

/-! ### the hypotheses are satisfiable -/

/-- the empty program: the prewalk state is the initial one and `finalize` succeeds -/
example : ∃ fin, finalize Gen.ObfData.charset (minifyFlags true false) St.init = .ok fin := ⟨_, rfl⟩

/-- three names with `a` and `c` skipped -/
example : ∃ names, draw Gen.ObfData.charset ["a", "c"] 3 = .ok names ∧ names.length = 3 :=
  let ⟨names, h, hl, _⟩ := generator_fresh ["a", "c"] 3
  ⟨names, h, hl⟩

end CalmVerif.Props.C07
