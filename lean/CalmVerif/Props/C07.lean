/-
C07  Name obfuscation is a consistent, capture-free renaming — property theorems over Model/Obfuscate.lean.

  generated_not_reserved         no generated name is a reserved keyword (any charset, skip set, count; every
                                 table of every scope tree `finalize` produces)
  generator_fresh                the names one scope draws are pairwise distinct, non-empty, outside its skip
                                 set, and the draw always succeeds (the generator enumerates an infinite
                                 duplicate-free sequence) — for the generated alphabet
  remap_tables_capture_free      for EVERY scope tree (in particular those the prewalk builds) and every scope S of
                                 it: the table of S is one-to-one, its replacements are non-empty and lie outside
                                 `_reserved_symbols(S)` = free names of S ∪ free names of the whole subtree of S ∪
                                 the names the non-local symbols referenced at S resolve to through the ancestors'
                                 (already final) tables — the capture-freedom invariant, by induction over the scope tree
  top_level_unchanged            without obfuscate_globals the global scope gets the empty table
  prewalk_leak_invariant         what `close()` guarantees: in the scope tree the prewalk leaves, every non-local symbol of a
                                 function scope is a key of its parent's `referenced_symbols` (through catch proxies), at every depth
  remap_injective_visible        (for the REPAIRED `Scope.resolve`, /repo f665fbf: the look-up of `arguments` stops at the first function scope
                                 without a replacement for it)  hypothesis `noArgsValue fin` (decidable): no generated name is the word
                                 `arguments` — in principle possible (nine letters of ID_CHARS, not a keyword) once a scope needs > 53^8
                                 names, and then the implicit `arguments` of an inner function would collide with it.
                                 for every program, flags and scope S of the finished tree: `resolve_S` is one-to-one on the keys of
                                 S's `referenced_symbols` (= by the leak invariant the names referenced in S's subtree that are
                                 visible-and-declared at S or free at S), the identity on names no scope of the chain declares (free names)
                                 and on names no scope with a non-empty table declares (top-level names without obfuscate_globals)
  only_identifiers_change_walk   the chunk stream `_walk` yields with `Obfuscator.resolve` differs from the one with the hook printing
                                 `node.value` only at the tokens Attr(Resolve()) emits for Identifier nodes (`CRel` / `TokRel`), and such a
                                 pair of fragments has the same source, the plain one carries no name, the obfuscated one records the
                                 original as `name` (`identifier_fragment_shape`)
  kf07a/b/c_*                    negation witnesses, evaluated in the kernel: on the three witness programs `scopeAgree` is false and the
                                 renaming does NOT preserve the binding structure (`bindingPreserved = some false`)
  only_identifiers_change        AFTER the layout pass: the final fragment stream of every obfuscating printer (all rule sets of
                                 Gen.Rules that map Resolve to `Obfuscator.resolve`, all flags, all indent strings, all trees) equals
                                 the stream of the same printer printing `node.value` up to identifier pairs (`FragSim hdataGen IdentPair`):
                                 same length and order, every layout fragment (spaces, newlines, indentation, `;`, braces) identical,
                                 identical Indentator decisions — provided every symbol that HAS a replacement is plain-edged
                                 (`keysPlain fin`, decidable: non-empty, first and last character in the `required_space` class of the
                                 ASCII letters; excludes renamed names with a `$` or an exotic code point at an edge).  The condition is
                                 what makes a generated name (a word over `ID_CHARS`, `word_plainEdged`) and the original
                                 indistinguishable for every layout handler (`Edge`, `edge_plain`).
  resolution_commutes_with_renaming   (ES5 side, no model involved) for ANY renaming ρ of identifier occurrences and ANY per-environment-record
                                 renaming τ that satisfy the decidable site conditions `condProgram τ ρ p` (every declaration site of a record is
                                 renamed by that record's τ; at every reference the new name, looked up in the image of the environment, finds the
                                 image of the old binder; likewise for labels): Spec.Scope of the renamed program = the image of Spec.Scope of
                                 the original — same occurrences, every binder keeps kind and declaring scope, its name is τ of the old one.
  binding_preserved_partial      for the obfuscator: `alignedOf fl p = some true` ⇒ `bindingPreserved fl p = some true`, i.e. every occurrence of the
                                 renamed tree resolves to the declaration the corresponding occurrence of the original resolves to (same kind,
                                 same declaring scope node, same free-ness), original binder ↦ new binder is one-to-one, free names / `arguments` /
                                 undefined labels / (without obfuscate_globals) top-level names keep their spelling.  `alignedOf` is decidable and is
                                 evaluated per program (driver `aligned`); it says that the tables of the finished scope tree (`tauFin`) and what
                                 `Obfuscator.resolve` answers per occurrence (`rhoFin`) satisfy `condProgram` and `isoCond`.
  excluded / kf07*_excluded      the three recorded deviation classes as structural predicates on the tree (Proofs/ObfExcluded.lean) with
                                 kernel-evaluated witnesses: the witness programs are excluded, not aligned and their binding structure is NOT preserved.
  capture_free_of_walk_facts     THE LINK "invariants + alignment ⇒ same resolution", for EVERY program: if the WALK FACTS hold (`factsProgram`,
                                 Proofs/ObfFacts.lean — decidable book-keeping only: every function node has its own scope record under the
                                 record of the enclosing scope whose `local_declared_symbols` contain the function's parameters and hoisted
                                 declarations; every catch clause has its own catch record (for its parameter) under the record of the
                                 enclosing scope; every Identifier is registered in the record of its innermost function or catch clause — the
                                 own name of a function expression, and a label, in the scope enclosing it; a reference is a key of that
                                 scope's `referenced_symbols` and is not resolved past a scope whose table has it only as the name of a nested
                                 function expression (`noExtra`, the complement of KF-07b); a `var` / function declaration is declared by the
                                 innermost function record and is not spelled like a catch parameter in between (the complement of KF-07a);
                                 between a labelled jump and the definition of every label up to its target no catch clause binds the label's
                                 name (`labelRefOK`, the complement of KF-07c)) and no generated name is the word `arguments`, then
                                 `condProgram` holds for the obfuscator's
                                 renaming: every declaration and reference is renamed by its own environment record, NO reference is captured,
                                 and every labelled jump finds the image of its label.
                                 Proved from `remap_injective_visible`, the table facts, the leak invariant and declared ⊆ referenced
                                 (`finalize_chainGood`, `lookup_link`, `decl_link`, `labelRef_link`): the replacement tables never enter the
                                 hypotheses.
  aligned_of_walk_facts          walk facts + `noArgsValue` ⇒ `alignedOf fl p = some true` — `condProgram` as above AND `isoCond`:
                                 every binder ES5 resolution reports names a declared symbol of the scope record its (kind, scope) determines
                                 (`program_bok`, one more induction over the resolver), on those the record renaming is one-to-one
                                 (`mapBinder_inj`, again from `remap_injective_visible`) and keeps free names, `arguments`, undefined labels
                                 and — without obfuscate_globals — top-level names (`root_table_nil`).
  binding_preserved_of_walk_facts_partial (= binding_preserved_simple_partial, the name of the first version, kept)
                                 walk facts + `noArgsValue` ⇒ `bindingPreserved fl p = some true`.  The only hypotheses left are
                                 book-keeping (what the prewalk registered where) and the >53^8-names corner.  `_partial`: the walk facts are a
                                 hypothesis (evaluated per program), not derived from the model of the walk.
STILL MISSING for `aligned_of_not_excluded`: exactly one lemma,
       `prewalkHook tablesGen fl p = .ok fin → excluded fl.obfuscateGlobals p = false → factsProgram fin recs p = true`
  i.e. the walk facts themselves from the Gen.Defs-driven walk (`factsProgram` is evaluated per program: driver `facts`, obligation in the
  check: every generated program outside `excluded` has them) — needs a per-node-kind analysis of the rule interpreter (which attributes
  a definition walks, where PushScope/PopScope sit), uniqueness of record ids and node paths, and a tree-in-vocabulary hypothesis.
  The link itself now covers function, catch, function-expression-name and label records (`Al.func/catch/self`, `LabelOK`,
  Proofs/ObfLink.lean, ObfSimple.lean).  Note: `function f(x){break x}` (a jump to an UNDEFINED label spelled like a variable; the parser
  accepts it, ES5 §12.8 does not) is outside `excluded`, not aligned and has no walk facts; programs the reference parser rejects are
  out of scope of the check.
  The check evaluates `alignedOf` on every generated program not in `excluded` (obligation `model: not excluded implies aligned`).
-/
import CalmVerif.Proofs.ObfInjTree
import CalmVerif.Proofs.ObfOnlyIdentFinal
import CalmVerif.Proofs.ObfRename
import CalmVerif.Proofs.ObfBindIso
import CalmVerif.Proofs.ObfExcluded
import CalmVerif.Proofs.ObfSimple4
import CalmVerif.Proofs.ObfIso4
namespace CalmVerif.Props.C07
open CalmVerif CalmVerif.Unparse CalmVerif.Obf

/-- the alphabet of the implementation has no duplicates and is not empty (checked on the generated table) -/
theorem charset_ok : Gen.ObfData.charset.Nodup ∧ Gen.ObfData.charset ≠ [] := by
  constructor
  · decide
  · decide

/-- **generated_not_reserved** (generator): whatever alphabet, reserved-keyword list `kw`, additional skip set and count,
no name drawn from `NameGenerator(skip=kw)(skip)` is in `kw` (nor in `skip`). -/
theorem generated_not_reserved (cs : List Char) (skip kw : List String) (n : Nat) (names : List String)
    (h : draw cs (sunion skip kw) n = .ok names) : ∀ x ∈ names, x ∉ kw ∧ x ∉ skip := by
  intro x hx
  have := draw_not_skip cs _ n names h x hx
  exact ⟨fun hk => this (mem_sunion.2 (Or.inr hk)), fun hs => this (mem_sunion.2 (Or.inl hs))⟩

/-- **generated_not_reserved** (whole run): after `Obfuscator.finalize`, no replacement in any scope's
`remapped_symbols` is one of the reserved keywords the Obfuscator was given — for every prewalk state, all flags. -/
theorem generated_not_reserved_tree (cs : List Char) (fl : Flags) (st : St) (fin : Final)
    (h : finalize cs fl st = .ok fin) : fin.tree.AllNew (fun v => v ∉ fl.reserved) := by
  unfold finalize at h
  split at h
  · rename_i g _
    split at h
    · cases h
    · rename_i rt hrt
      simp only [Except.ok.injEq] at h
      subst h
      exact buildTree_allNew cs fl.reserved [] fl.obfuscateGlobals (closeFrame g) rt hrt
  · cases h

/-- instance for the printers of `minify_printer(obfuscate=True, …)`: no generated name is in
`Lexer.keywords_dict` (Gen.ObfData.reservedKeywords), for every tree and both flags -/
theorem minify_generated_not_reserved (og sf : Bool) (tree : Val) (fin : Final)
    (h : prewalkHook tablesGen (minifyFlags og sf) tree = .ok fin) :
    fin.tree.AllNew (fun v => v ∉ Gen.ObfData.reservedKeywords) := by
  unfold prewalkHook at h
  split at h
  · cases h
  · exact generated_not_reserved_tree _ (minifyFlags og sf) _ fin h

/-- **generator_fresh**: for every skip set and every count the generator of the implementation's alphabet
delivers that many names; they are pairwise distinct, non-empty and outside the skip set. -/
theorem generator_fresh (skip : List String) (n : Nat) :
    ∃ names, draw Gen.ObfData.charset skip n = .ok names ∧ names.length = n ∧ names.Nodup ∧
      ∀ x ∈ names, x ∉ skip ∧ x ≠ "" :=
  draw_spec charset_ok.1 charset_ok.2 skip n

/-- the same for any duplicate-free non-empty alphabet -/
theorem generator_fresh_any (cs : List Char) (hnd : cs.Nodup) (hne : cs ≠ []) (skip : List String) (n : Nat) :
    ∃ names, draw cs skip n = .ok names ∧ names.length = n ∧ names.Nodup ∧ ∀ x ∈ names, x ∉ skip ∧ x ≠ "" :=
  draw_spec hnd hne skip n

/-- **remap_tables_capture_free**: whatever scope tree the prewalk left (`st`), every scope of the finished tree has
a one-to-one table of non-empty replacements outside its `_reserved_symbols` (see `Capfree`). -/
theorem remap_tables_capture_free (fl : Flags) (st : St) (fin : Final)
    (h : finalize Gen.ObfData.charset fl st = .ok fin) :
    ∃ g, st.stack = [g] ∧ Capfree [] (closeFrame g) fin.tree := by
  unfold finalize at h
  split at h
  · rename_i g hg
    split at h
    · cases h
    · rename_i rt hrt
      simp only [Except.ok.injEq] at h
      subst h
      exact ⟨g, hg, buildTree_capfree charset_ok.1 charset_ok.2 fl.reserved [] fl.obfuscateGlobals (closeFrame g) rt hrt⟩
  · cases h

/-- **top_level_unchanged**: without `obfuscate_globals` the global scope's table is empty, so `resolve` is the
identity on every name that no inner scope declares (top-level and free names). -/
theorem top_level_unchanged (cs : List Char) (kw : List String) (id : Nat) (node : Option Path)
    (refs : Counts) (decl : List String) (children : List STree) (r : RTree)
    (h : buildTree cs kw [] false (.mk id node .func refs decl children) = .ok r) :
    ∃ rcs, r = .mk id node .func (effRefs [{ kind := .func, refs := refs, decl := decl, remapped := [] }])
      (effLocalDecl [{ kind := .func, refs := refs, decl := decl, remapped := [] }]) [] rcs := by
  simp only [buildTree] at h
  split at h
  · cases h
  · rename_i rm hrm
    simp only [Bool.false_eq_true, if_false, Except.ok.injEq] at hrm
    subst hrm
    split at h
    · cases h
    · rename_i rcs _
      simp only [Except.ok.injEq] at h
      exact ⟨rcs, h.symm⟩


/-! ### the leak-propagation invariant and the resolve-level capture-freedom -/

/-- **prewalk_leak_invariant**: after the prewalk of any tree, the closed children of every open scope satisfy `LeakOK`
w.r.t. the keys of that scope's `referenced_symbols` (what `Scope.close()` / the CatchScope proxies guarantee). -/
theorem prewalk_leak_invariant (sf : Bool) (tree : Val) (st : St) (h : prewalk tablesGen sf tree = .ok st) :
    StackInv st.stack :=
  prewalk_stackInv tablesGen sf tree st h

/-- **remap_injective_visible**: for every tree and all flags, every scope of the finished scope tree satisfies `ScopeOK`
(`InjTree` = `ScopeOK` of every scope with its chain of ancestors): resolve is one-to-one on the names referenced at the scope,
the identity on free names and on names only scopes with an empty table declare. -/
theorem remap_injective_visible (fl : Flags) (tree : Val) (fin : Final)
    (h : prewalkHook tablesGen fl tree = .ok fin) (hna : noArgsValue fin = true) :
    ∃ st g, prewalk tablesGen fl.shadowFuncname tree = .ok st ∧ st.stack = [g] ∧
      InjTree [] (closeFrame g) fin.tree := by
  unfold prewalkHook at h
  split at h
  · cases h
  · rename_i st hst
    obtain ⟨g, hg, hi⟩ := finalize_injTree charset_ok.1 charset_ok.2 fl st fin
      (prewalk_stackInv tablesGen fl.shadowFuncname tree st hst) h (noArgsValue_allNew fin hna)
    exact ⟨st, g, hst, hg, hi⟩

/-- what `ScopeOK` says, spelled out for one scope with chain `chain` (itself first) -/
theorem scopeOK_spelled (chain : List Anc) (h : ScopeOK chain) :
    (∀ x ∈ ckeys (effRefs chain), ∀ y ∈ ckeys (effRefs chain),
      resolveChain chain x = resolveChain chain y → x = y) ∧
    (∀ x ∈ globalSymbols chain, resolveChain chain x = x) ∧
    (∀ x, (∀ a ∈ chain, a.remapped ≠ [] → x ∉ declaredBy a) → resolveChain chain x = x) := by
  refine ⟨h.inj, ?_, h.untouched⟩
  intro x hx
  apply h.free
  simp only [globalSymbols, List.mem_filter] at hx
  simpa using hx.2

/-! ### only identifiers change -/

/-- every rule set that maps Resolve to `Obfuscator.resolve` uses `token_handler_unobfuscate` -/
theorem obf_rulesets_unobfuscate :
    Gen.Rules.ruleSets.all (fun rs =>
      !(deferLookup rs.deferrable .resolve == some .obfResolve) || rs.tokenHandler == .unobfuscate) = true := by
  decide

/-- **only_identifiers_change_walk**: same printer, same tree; `Obfuscator.resolve` against the hook printing `node.value`. -/
theorem only_identifiers_change_walk (rs : RuleSet) (indent : Option String) (fin : Final)
    (h : deferLookup rs.deferrable .resolve = some .obfResolve) (tree : Val) (ca cb : List Chunk) (sa sb : Unit)
    (ha : walkChunks (mkCfg tablesGen rs indent (obfResolveHook fin)) tree () = .ok (ca, sa))
    (hb : walkChunks (mkCfg tablesGen rs indent plainResolveHook) tree () = .ok (cb, sb)) :
    CRel (ObfQ fin) (mkCfg tablesGen rs indent (obfResolveHook fin)) ca cb :=
  obf_walk_rel tablesGen rs indent fin h tree ca cb sa sb ha hb

/-- **identifier_fragment_shape**: the two fragments of a differing pair: same source, the plain one has no `name` and prints
the original, the obfuscated one is equal to it or records the original as `name` (and, for a non-empty original, has the
same position — it is looked up under the original name). -/
theorem identifier_fragment_shape (rs : RuleSet) (hrs : rs ∈ Gen.Rules.ruleSets) (indent : Option String) (fin : Final)
    (h : deferLookup rs.deferrable .resolve = some .obfResolve) (ca cb : List Chunk)
    (ht : TokRel (ObfQ fin) (mkCfg tablesGen rs indent (obfResolveHook fin)) ca cb) :
    ∃ fa fb, ca = [.frag fa] ∧ cb = [.frag fb] ∧ fb.name = none ∧ fa.source = fb.source ∧
      (fa = fb ∨ (fa.name = some fb.text ∧ fa.text ≠ fb.text ∧
        (fb.text ≠ "" → fa.line = fb.line ∧ fa.col = fb.col))) := by
  have hall := obf_rulesets_unobfuscate
  simp only [List.all_eq_true] at hall
  have hr := hall rs hrs
  simp only [h, beq_self_eq_true, Bool.not_true, Bool.false_or, beq_iff_eq] at hr
  obtain ⟨fa, fb, h1, h2, h3, h4, _, h5⟩ := tokRel_unobfuscate _ (by simp [mkCfg, hr]) ca cb ht
  exact ⟨fa, fb, h1, h2, h3, h4, h5⟩

/-- **only_identifiers_change** (final fragment stream, after `process_layouts` and all layout handlers). -/
theorem only_identifiers_change (rs : RuleSet) (hrs : rs ∈ Gen.Rules.ruleSets) (indent : Option String) (fl : Flags)
    (h : deferLookup rs.deferrable .resolve = some .obfResolve) (tree : Val) (fin : Final)
    (hfin : prewalkHook tablesGen fl tree = .ok fin) (hk : keysPlain fin = true) (fa fb : List Frag)
    (ha : unparse (mkCfg tablesGen rs indent (obfResolveHook fin)) tree () = .ok fa)
    (hb : unparse (mkCfg tablesGen rs indent plainResolveHook) tree () = .ok fb) :
    All2 (FragSim hdataGen IdentPair) fa fb := by
  have hall := obf_rulesets_unobfuscate
  simp only [List.all_eq_true] at hall
  have hr := hall rs hrs
  simp only [h, beq_self_eq_true, Bool.not_true, Bool.false_or, beq_iff_eq] at hr
  unfold prewalkHook at hfin
  split at hfin
  · cases hfin
  · obtain ⟨hch, hw⟩ := finalize_words charset_ok.1 charset_ok.2 fl _ fin hfin
    exact obf_unparse_sim rs indent fin h hr hch hw hk tree fa fb ha hb

/-- the same for the model's printer entry point `obfUnparse` (prewalk hook, then the main walk) -/
theorem only_identifiers_change_printer (rs : RuleSet) (hrs : rs ∈ Gen.Rules.ruleSets) (indent : Option String) (fl : Flags)
    (h : deferLookup rs.deferrable .resolve = some .obfResolve) (hp : rs.prewalk.contains .obfPrewalk = true)
    (tree : Val) (fa fb : List Frag)
    (ha : obfUnparse tablesGen rs indent fl tree = .ok fa)
    (hb : unparse (mkCfg tablesGen rs indent plainResolveHook) tree () = .ok fb) :
    ∃ fin, prewalkHook tablesGen fl tree = .ok fin ∧
      (keysPlain fin = true → All2 (FragSim hdataGen IdentPair) fa fb) := by
  unfold obfUnparse at ha
  rw [if_pos hp] at ha
  split at ha
  · cases ha
  · rename_i fin hfin
    exact ⟨fin, hfin, fun hk => only_identifiers_change rs hrs indent fl h tree fin hfin hk fa fb ha hb⟩

/-- the pieces of the relation, spelled out -/
theorem fragSim_spelled (fa fb : Frag) (h : FragSim hdataGen IdentPair fa fb) :
    fa = fb ∨ (fb.name = none ∧ fa.source = fb.source ∧ fa.name = some fb.text ∧ fa.text ≠ fb.text ∧
      (fb.text ≠ "" → fa.line = fb.line ∧ fa.col = fb.col)) := by
  rcases h with h | ⟨_, h1, h2, h3 | h3⟩
  · exact Or.inl h
  · exact Or.inl h3
  · exact Or.inr ⟨h1, h2, h3⟩


/-! ### binding structure -/

/-- **resolution_commutes_with_renaming** (Proofs/ObfBindSim*.lean). -/
theorem resolution_commutes_with_renaming (τ : Tau) (ρ : Rho) (program : Val) (h : condProgram τ ρ program = true) :
    Spec.Scope.resolveProgram (renameBy ρ [] program) = (Spec.Scope.resolveProgram program).map (mapOcc τ ρ) :=
  resolveProgram_rename τ ρ program h

/-- **binding_preserved_partial**: hypothesis = the decidable agreement `alignedOf` of the obfuscator's tables with ES5 scoping on
the program (true on every generated program outside `excluded`, see the check). -/
theorem binding_preserved_partial (fl : Flags) (program : Val) (h : alignedOf fl program = some true) :
    bindingPreserved fl program = some true :=
  bindingPreserved_of_aligned fl program h

/-- the conclusion spelled out: the renamed program's resolution is the image of the original's, binder by binder -/
theorem binding_preserved_pointwise (fl : Flags) (program : Val) (fin : Final)
    (hfin : prewalkHook tablesGen fl program = .ok fin)
    (h : condProgram (tauFin fin) (rhoFin fin) program = true) :
    Spec.Scope.resolveProgram (renameVal fin [] program)
      = (Spec.Scope.resolveProgram program).map (mapOcc (tauFin fin) (rhoFin fin)) := by
  have _ := hfin
  exact resolveProgram_rename (tauFin fin) (rhoFin fin) program h

/-- **capture_free_of_walk_facts** (Proofs/ObfLink.lean, ObfSimple*.lean). -/
theorem capture_free_of_walk_facts (fl : Flags) (program : Val) (st : St) (fin : Final)
    (hpre : prewalk tablesGen fl.shadowFuncname program = .ok st)
    (hfin : finalize Gen.ObfData.charset fl st = .ok fin) (hna : noArgsValue fin = true)
    (hfacts : ∀ g, st.stack = [g] → factsProgram fin (recsOf [] (closeFrame g) fin.tree) program = true) :
    condProgram (tauFin fin) (rhoFin fin) program = true :=
  cond_of_walk_facts fl program st fin charset_ok hpre hfin hna hfacts

/-- **aligned_of_walk_facts** (Proofs/ObfIso*.lean for the `isoCond` half). -/
theorem aligned_of_walk_facts (fl : Flags) (program : Val) (st : St) (fin : Final)
    (hpre : prewalk tablesGen fl.shadowFuncname program = .ok st)
    (hfin : finalize Gen.ObfData.charset fl st = .ok fin) (hna : noArgsValue fin = true)
    (hfacts : ∀ g, st.stack = [g] → factsProgram fin (recsOf [] (closeFrame g) fin.tree) program = true) :
    alignedOf fl program = some true :=
  Obf.aligned_of_walk_facts fl program st fin charset_ok hpre hfin hna hfacts

/-- **binding_preserved_simple_partial** (the name of the first version, which covered function and global scopes only): for every
program the binding structure is preserved as soon as the walk facts hold and no generated name is `arguments`. -/
theorem binding_preserved_simple_partial (fl : Flags) (program : Val) (st : St) (fin : Final)
    (hpre : prewalk tablesGen fl.shadowFuncname program = .ok st)
    (hfin : finalize Gen.ObfData.charset fl st = .ok fin) (hna : noArgsValue fin = true)
    (hfacts : ∀ g, st.stack = [g] → factsProgram fin (recsOf [] (closeFrame g) fin.tree) program = true) :
    bindingPreserved fl program = some true :=
  binding_preserved_partial fl program (aligned_of_walk_facts fl program st fin hpre hfin hna hfacts)

/-- **binding_preserved_of_walk_facts_partial**: the same statement under the name that says what it is. -/
theorem binding_preserved_of_walk_facts_partial (fl : Flags) (program : Val) (st : St) (fin : Final)
    (hpre : prewalk tablesGen fl.shadowFuncname program = .ok st)
    (hfin : finalize Gen.ObfData.charset fl st = .ok fin) (hna : noArgsValue fin = true)
    (hfacts : ∀ g, st.stack = [g] → factsProgram fin (recsOf [] (closeFrame g) fin.tree) program = true) :
    bindingPreserved fl program = some true :=
  binding_preserved_simple_partial fl program st fin hpre hfin hna hfacts

/-! ### negation witnesses of the known findings (evaluated in the kernel) -/

/-- `function f(){try{}catch(e){var e=1}return e}` -/
def kfA : Val := (.node "ES5Program" [("children", (.list [(.node "FuncDecl" [("elements", (.list [(.node "Try" [("catch", (.node "Catch" [("elements", (.node "Block" [("children", (.list [(.node "VarStatement" [("children", (.list [(.node "VarDecl" [("identifier", (.node "Identifier" [("value", (.str "e"))])), ("initializer", (.node "Number" [("value", (.str "1"))]))])]))])]))])), ("identifier", (.node "Identifier" [("value", (.str "e"))]))])), ("fin", .none), ("statements", (.node "Block" [("children", (.list []))]))]), (.node "Return" [("expr", (.node "Identifier" [("value", (.str "e"))]))])])), ("identifier", (.node "Identifier" [("value", (.str "f"))])), ("parameters", (.list []))])]))])
/-- `function outer(){ var f = function g(){return g}; return g; }` -/
def kfB : Val := (.node "ES5Program" [("children", (.list [(.node "FuncDecl" [("elements", (.list [(.node "VarStatement" [("children", (.list [(.node "VarDecl" [("identifier", (.node "Identifier" [("value", (.str "f"))])), ("initializer", (.node "FuncExpr" [("elements", (.list [(.node "Return" [("expr", (.node "Identifier" [("value", (.str "g"))]))])])), ("identifier", (.node "Identifier" [("value", (.str "g"))])), ("parameters", (.list []))]))])]))]), (.node "Return" [("expr", (.node "Identifier" [("value", (.str "g"))]))])])), ("identifier", (.node "Identifier" [("value", (.str "outer"))])), ("parameters", (.list []))])]))])
/-- `function f(){x: try{throw 1}catch(x){break x}}` -/
def kfC : Val := (.node "ES5Program" [("children", (.list [(.node "FuncDecl" [("elements", (.list [(.node "Label" [("identifier", (.node "Identifier" [("value", (.str "x"))])), ("statement", (.node "Try" [("catch", (.node "Catch" [("elements", (.node "Block" [("children", (.list [(.node "Break" [("identifier", (.node "Identifier" [("value", (.str "x"))]))])]))])), ("identifier", (.node "Identifier" [("value", (.str "x"))]))])), ("fin", .none), ("statements", (.node "Block" [("children", (.list [(.node "Throw" [("expr", (.node "Number" [("value", (.str "1"))]))])]))]))]))])])), ("identifier", (.node "Identifier" [("value", (.str "f"))])), ("parameters", (.list []))])]))])
/-- `function f(a){var b=a;return function(c){return a+b+c}}` -/
def okP : Val := (.node "ES5Program" [("children", (.list [(.node "FuncDecl" [("elements", (.list [(.node "VarStatement" [("children", (.list [(.node "VarDecl" [("identifier", (.node "Identifier" [("value", (.str "b"))])), ("initializer", (.node "Identifier" [("value", (.str "a"))]))])]))]), (.node "Return" [("expr", (.node "FuncExpr" [("elements", (.list [(.node "Return" [("expr", (.node "BinOp" [("left", (.node "BinOp" [("left", (.node "Identifier" [("value", (.str "a"))])), ("op", (.str "+")), ("right", (.node "Identifier" [("value", (.str "b"))]))])), ("op", (.str "+")), ("right", (.node "Identifier" [("value", (.str "c"))]))]))])])), ("identifier", .none), ("parameters", (.list [(.node "Identifier" [("value", (.str "c"))])]))]))])])), ("identifier", (.node "Identifier" [("value", (.str "f"))])), ("parameters", (.list [(.node "Identifier" [("value", (.str "a"))])]))])]))])

/-- KF-07a: `var e = 1` inside `catch (e)` -/
theorem kf07a_scopeAgree_fails : scopeAgreeOf (minifyFlags false false) kfA = some false := by decide +kernel
theorem kf07a_binding_not_preserved : bindingPreserved (minifyFlags false false) kfA = some false := by decide +kernel
/-- KF-07b: the own name of a function expression referenced outside of it -/
theorem kf07b_scopeAgree_fails : scopeAgreeOf (minifyFlags false false) kfB = some false := by decide +kernel
theorem kf07b_binding_not_preserved : bindingPreserved (minifyFlags false false) kfB = some false := by decide +kernel
/-- KF-07c: a label spelled like the catch parameter, used inside the catch block -/
theorem kf07c_scopeAgree_fails : scopeAgreeOf (minifyFlags false false) kfC = some false := by decide +kernel
theorem kf07c_binding_not_preserved : bindingPreserved (minifyFlags false false) kfC = some false := by decide +kernel
/-- a closure-heavy program on which the scope trees agree and the binding structure is preserved -/
theorem ok_program_preserved : scopeAgreeOf (minifyFlags false false) okP = some true ∧
    bindingPreserved (minifyFlags false false) okP = some true ∧
    bindingPreserved (minifyFlags true true) okP = some true := by decide +kernel

/-- the witnesses are in the excluded classes, are not aligned; the closure-heavy program is not excluded and is aligned -/
theorem kf07a_excluded : Obf.kfA kfA = true ∧ alignedOf (minifyFlags false false) kfA = some false := by decide +kernel
theorem kf07b_excluded : Obf.kfB false kfB = true ∧ alignedOf (minifyFlags false false) kfB = some false := by decide +kernel
theorem kf07c_excluded : Obf.kfC kfC = true ∧ alignedOf (minifyFlags false false) kfC = some false := by decide +kernel
theorem ok_program_aligned : excluded true okP = false ∧ alignedOf (minifyFlags false false) okP = some true ∧
    alignedOf (minifyFlags true true) okP = some true := by decide +kernel

/-- `keysPlain` holds on the closure-heavy program (its renamed names are ASCII words) -/
theorem ok_program_keysPlain :
    (match prewalkHook tablesGen (minifyFlags true false) okP with
     | .ok fin => keysPlain fin
     | .error _ => false) = true := by decide +kernel

/-! ### regression: the implicit `arguments` object (fixed in /repo f665fbf; was a fourth deviation class) -/

/-- `function f(arguments){ return function(){ return arguments; }; }` -/
def argsA : Val := (.node "ES5Program" [("children", (.list [(.node "FuncDecl" [("elements", (.list [(.node "Return" [("expr", (.node "FuncExpr" [("elements", (.list [(.node "Return" [("expr", (.node "Identifier" [("value", (.str "arguments"))]))])])), ("identifier", .none), ("parameters", (.list []))]))])])), ("identifier", (.node "Identifier" [("value", (.str "f"))])), ("parameters", (.list [(.node "Identifier" [("value", (.str "arguments"))])]))])]))])
/-- `function f(){ var arguments = 1; function g(){ return arguments.length; } return g; }` -/
def argsB : Val := (.node "ES5Program" [("children", (.list [(.node "FuncDecl" [("elements", (.list [(.node "VarStatement" [("children", (.list [(.node "VarDecl" [("identifier", (.node "Identifier" [("value", (.str "arguments"))])), ("initializer", (.node "Number" [("value", (.str "1"))]))])]))]), (.node "FuncDecl" [("elements", (.list [(.node "Return" [("expr", (.node "DotAccessor" [("identifier", (.node "PropIdentifier" [("value", (.str "length"))])), ("node", (.node "Identifier" [("value", (.str "arguments"))]))]))])])), ("identifier", (.node "Identifier" [("value", (.str "g"))])), ("parameters", (.list []))]), (.node "Return" [("expr", (.node "Identifier" [("value", (.str "g"))]))])])), ("identifier", (.node "Identifier" [("value", (.str "f"))])), ("parameters", (.list []))])]))])
/-- `var arguments = 5; function g(){ return arguments; }` -/
def argsC : Val := (.node "ES5Program" [("children", (.list [(.node "VarStatement" [("children", (.list [(.node "VarDecl" [("identifier", (.node "Identifier" [("value", (.str "arguments"))])), ("initializer", (.node "Number" [("value", (.str "5"))]))])]))]), (.node "FuncDecl" [("elements", (.list [(.node "Return" [("expr", (.node "Identifier" [("value", (.str "arguments"))]))])])), ("identifier", (.node "Identifier" [("value", (.str "g"))])), ("parameters", (.list []))])]))])

/-- before the repair the inner `arguments` was renamed together with the outer declaration; now the binding structure is
preserved, the programs are aligned, and no generated name is `arguments` (all flags that rename the declaration) -/
theorem arguments_regression :
    bindingPreserved (minifyFlags false false) argsA = some true ∧ alignedOf (minifyFlags false false) argsA = some true ∧
    bindingPreserved (minifyFlags true true) argsA = some true ∧
    bindingPreserved (minifyFlags false false) argsB = some true ∧ alignedOf (minifyFlags false false) argsB = some true ∧
    bindingPreserved (minifyFlags true false) argsC = some true ∧ alignedOf (minifyFlags true false) argsC = some true := by
  decide +kernel

/-- the walk facts hold on the closure-heavy program (a simple program), for both flag settings -/
theorem ok_program_facts : factsOf (minifyFlags false false) okP = some true ∧ factsOf (minifyFlags true true) okP = some true := by
  decide +kernel

/-- `function f(x){try{x()}catch(e){var y=e;return function(){return e+y+x}}}` -/
def catchP : Val := (.node "ES5Program" [("children", (.list [(.node "FuncDecl" [("elements", (.list [(.node "Try" [("catch", (.node "Catch" [("elements", (.node "Block" [("children", (.list [(.node "VarStatement" [("children", (.list [(.node "VarDecl" [("identifier", (.node "Identifier" [("value", (.str "y"))])), ("initializer", (.node "Identifier" [("value", (.str "e"))]))])]))]), (.node "Return" [("expr", (.node "FuncExpr" [("elements", (.list [(.node "Return" [("expr", (.node "BinOp" [("left", (.node "BinOp" [("left", (.node "Identifier" [("value", (.str "e"))])), ("op", (.str "+")), ("right", (.node "Identifier" [("value", (.str "y"))]))])), ("op", (.str "+")), ("right", (.node "Identifier" [("value", (.str "x"))]))]))])])), ("identifier", .none), ("parameters", (.list []))]))])]))])), ("identifier", (.node "Identifier" [("value", (.str "e"))]))])), ("fin", .none), ("statements", (.node "Block" [("children", (.list [(.node "ExprStatement" [("expr", (.node "FunctionCall" [("args", (.node "Arguments" [("items", (.list []))])), ("identifier", (.node "Identifier" [("value", (.str "x"))]))]))])]))]))])])), ("identifier", (.node "Identifier" [("value", (.str "f"))])), ("parameters", (.list [(.node "Identifier" [("value", (.str "x"))])]))])]))])

/-- the walk facts hold on a program with a catch clause (a `var` and a closure inside the catch block), for both flag settings;
it is not excluded, aligned, and its binding structure is preserved -/
theorem catch_program_facts : factsOf (minifyFlags false false) catchP = some true ∧
    factsOf (minifyFlags true true) catchP = some true ∧ excluded true catchP = false ∧
    alignedOf (minifyFlags true true) catchP = some true ∧ bindingPreserved (minifyFlags true true) catchP = some true := by
  decide +kernel

/-- `function h(x){var g=x;var f=function g(){return g+x};return g+f}` -/
def selfP : Val := (.node "ES5Program" [("children", (.list [(.node "FuncDecl" [("elements", (.list [(.node "VarStatement" [("children", (.list [(.node "VarDecl" [("identifier", (.node "Identifier" [("value", (.str "g"))])), ("initializer", (.node "Identifier" [("value", (.str "x"))]))])]))]), (.node "VarStatement" [("children", (.list [(.node "VarDecl" [("identifier", (.node "Identifier" [("value", (.str "f"))])), ("initializer", (.node "FuncExpr" [("elements", (.list [(.node "Return" [("expr", (.node "BinOp" [("left", (.node "Identifier" [("value", (.str "g"))])), ("op", (.str "+")), ("right", (.node "Identifier" [("value", (.str "x"))]))]))])])), ("identifier", (.node "Identifier" [("value", (.str "g"))])), ("parameters", (.list []))]))])]))]), (.node "Return" [("expr", (.node "BinOp" [("left", (.node "Identifier" [("value", (.str "g"))])), ("op", (.str "+")), ("right", (.node "Identifier" [("value", (.str "f"))]))]))])])), ("identifier", (.node "Identifier" [("value", (.str "h"))])), ("parameters", (.list [(.node "Identifier" [("value", (.str "x"))])]))])]))])

/-- the walk facts hold on a program with a named function expression whose name is also a variable of the enclosing function, for
both flag settings; it is not excluded, aligned, and its binding structure is preserved -/
theorem self_program_facts : factsOf (minifyFlags false false) selfP = some true ∧
    factsOf (minifyFlags true true) selfP = some true ∧ excluded true selfP = false ∧
    alignedOf (minifyFlags true true) selfP = some true ∧ bindingPreserved (minifyFlags true true) selfP = some true := by
  decide +kernel

/-- `function f(a){x:for(;;){try{a()}catch(e){y:for(;;){if(e)continue y;break x}}}}` -/
def labelP : Val := (.node "ES5Program" [("children", (.list [(.node "FuncDecl" [("elements", (.list [(.node "Label" [("identifier", (.node "Identifier" [("value", (.str "x"))])), ("statement", (.node "For" [("cond", (.node "EmptyStatement" [("value", (.str ";"))])), ("count", .none), ("init", (.node "EmptyStatement" [("value", (.str ";"))])), ("statement", (.node "Block" [("children", (.list [(.node "Try" [("catch", (.node "Catch" [("elements", (.node "Block" [("children", (.list [(.node "Label" [("identifier", (.node "Identifier" [("value", (.str "y"))])), ("statement", (.node "For" [("cond", (.node "EmptyStatement" [("value", (.str ";"))])), ("count", .none), ("init", (.node "EmptyStatement" [("value", (.str ";"))])), ("statement", (.node "Block" [("children", (.list [(.node "If" [("alternative", .none), ("consequent", (.node "Continue" [("identifier", (.node "Identifier" [("value", (.str "y"))]))])), ("predicate", (.node "Identifier" [("value", (.str "e"))]))]), (.node "Break" [("identifier", (.node "Identifier" [("value", (.str "x"))]))])]))]))]))])]))])), ("identifier", (.node "Identifier" [("value", (.str "e"))]))])), ("fin", .none), ("statements", (.node "Block" [("children", (.list [(.node "ExprStatement" [("expr", (.node "FunctionCall" [("args", (.node "Arguments" [("items", (.list []))])), ("identifier", (.node "Identifier" [("value", (.str "a"))]))]))])]))]))])]))]))]))])])), ("identifier", (.node "Identifier" [("value", (.str "f"))])), ("parameters", (.list [(.node "Identifier" [("value", (.str "a"))])]))])]))])

/-- the walk facts hold on a program with labels and labelled jumps out of a catch block, for both flag settings; it is not
excluded, aligned, and its binding structure is preserved; the KF-07c witness has no walk facts -/
theorem label_program_facts : factsOf (minifyFlags false false) labelP = some true ∧
    factsOf (minifyFlags true true) labelP = some true ∧ excluded true labelP = false ∧
    alignedOf (minifyFlags true true) labelP = some true ∧ bindingPreserved (minifyFlags true true) labelP = some true ∧
    factsOf (minifyFlags false false) kfC = some false := by
  decide +kernel

/-! ### the hypotheses are satisfiable -/

/-- the empty program: the prewalk state is the initial one and `finalize` succeeds -/
example : ∃ fin, finalize Gen.ObfData.charset (minifyFlags true false) St.init = .ok fin := ⟨_, rfl⟩

/-- three names with `a` and `c` skipped -/
example : ∃ names, draw Gen.ObfData.charset ["a", "c"] 3 = .ok names ∧ names.length = 3 :=
  let ⟨names, h, hl, _⟩ := generator_fresh ["a", "c"] 3
  ⟨names, h, hl⟩

end CalmVerif.Props.C07
