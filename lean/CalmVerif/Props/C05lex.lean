/-
Property C05 (every `/` is read as division or as the start of a regular expression), lexer-side decision lemmas
about Model.Lexer (`_token`'s `/` branch, `is_division_allowed`).
-/
import CalmVerif.Proofs.LexerDiv

namespace CalmVerif.Props.C05lex
open CalmVerif.Model.TokenRegex CalmVerif.Model.PlyLex CalmVerif.Model.Lexer
open CalmVerif.Proofs CalmVerif.Gen

/-- at a `/` that does not start a comment (after skipping only SP and TAB from `lexpos`), `_token` takes the
    division-or-regex decision, whatever the fuel -/
theorem slash_reaches_decision (fuel : Nat) (st : LexState) (n : Char)
    (hpeek : peek st.text st.lexpos = some ('/', n)) (hn : n ≠ '/' ∧ n ≠ '*') :
    tokenLoop (fuel + 1) st = divOrRegex st := by
  unfold tokenLoop
  rw [hpeek]
  simp [hn.1, hn.2]

/-- the token the decision looks at is the last significant token (`cur_token_real`: the last token that is neither a
    comment nor a line terminator) -/
theorem check_token_is_last_significant (st : LexState) (t : Token)
    (h : st.curTokenReal = some t) (hm : isMarker t.type = false) : checkToken st = some t := by
  simp [checkToken, h, hm]

/-- T `div_decision` (the condition): division is allowed iff the last significant token's type is in
    TOKENS_THAT_IMPLY_DIVISON and the marker on top of the parenthesis stack is absent, is (the same object as) the
    previous raw token, or itself has a type that implies division. -/
theorem div_allowed_iff (st : LexState) (b : Bool) (h : isDivisionAllowed st = .ok b) :
    b = true ↔
      (∃ t, checkToken st = some t ∧ impliesDiv t.type = true) ∧
      (∃ marker inner below, st.tokenStack = (marker, inner) :: below ∧
        (marker = none ∨ ∃ m, marker = some m ∧
          ((∃ p, st.prevToken = some p ∧ m.uid = p.uid) ∨ impliesDiv m.type = true))) := by
  unfold isDivisionAllowed at h
  simp only at h
  cases hck : checkToken st with
  | none =>
    simp [hck] at h
    subst h
    simp
  | some t =>
    simp only [hck] at h
    by_cases hd : impliesDiv t.type = true
    · simp only [hd, if_true] at h
      cases hts : st.tokenStack with
      | nil => simp [hts] at h
      | cons x below =>
        obtain ⟨marker, inner⟩ := x
        simp only [hts] at h
        cases marker with
        | none =>
          simp at h; subst h
          simp [hd]
        | some m =>
          simp only [Except.ok.injEq] at h
          subst h
          cases hp : st.prevToken with
          | none => simp [hd, hp]
          | some p => simp [hd, hp]
    · simp only [hd] at h
      simp at h
      subst h
      simp [hd]

/-- T `div_decision` (the outcome): if division is allowed the `/` is lexed by `_get_update_token` in ply's state
    INITIAL (where `/` can only become DIV or DIVEQUAL: the token is never a REGEX); otherwise it is lexed in state
    `regex`: the token, if any, is a REGEX (else ECMARegexSyntaxError). -/
theorem div_decision (st : LexState) (b : Bool) (h : isDivisionAllowed st = .ok b) :
    (b = true → divOrRegex st = getUpdateToken st ∧
      ∀ t st', divOrRegex st = .ok (some t, st') → t.type ≠ "REGEX") ∧
    (b = false → ∀ t st', divOrRegex st = .ok (some t, st') → t.type = "REGEX") := by
  constructor
  · intro hb
    subst hb
    have e : divOrRegex st = getUpdateToken st := by simp [divOrRegex, h]
    exact ⟨e, fun t st' ht => LexerDiv.getUpdateToken_not_regex st t st' (e ▸ ht)⟩
  · intro hb
    subst hb
    intro t st' ht
    unfold divOrRegex at ht
    rw [h] at ht
    simp only at ht
    unfold readRegex at ht
    split at ht
    · simp at ht
    · rename_i tok st1 hg
      split at ht
      · simp at ht
      · rename_i st2 hs
        obtain ⟨_, _, hc2⟩ := LexerStep.setTokens_spec _ _ _ hs
        simp only [Except.ok.injEq, Prod.mk.injEq] at ht
        rw [hc2] at ht
        obtain ⟨rfl, _⟩ := ht
        exact LexerDiv.rawTok_regex_is_regex (LexerStep.getLexerToken_some _ _ _ _ hg)

/-- the decision does not depend on the white space before the `/`: it reads only `cur_token_real`, `prev_token`
    and `token_stack`, not `lexpos` or the text -/
theorem div_decision_independent_of_position (st : LexState) (p : Nat) (text : List Char) :
    isDivisionAllowed { st with lexpos := p, text := text } = isDivisionAllowed st := rfl

/-- non-vacuity: `a / b` lexes `/` as DIV, `= /b/` as REGEX, and `if (a) /b/` as REGEX although `)` implies division
    (the marker `(` pushed after `if` does not) -/
example :
    ((lexStandalone "a / b".toList false false).1.map (·.type)) = ["ID", "DIV", "ID"] ∧
    ((lexStandalone "x = /b/".toList false false).1.map (·.type)) = ["ID", "EQ", "REGEX"] ∧
    ((lexStandalone "if (a) /b/".toList false false).1.map (·.type)) = ["IF", "LPAREN", "ID", "RPAREN", "REGEX"] ∧
    ((lexStandalone "(a) /b/ c".toList false false).1.map (·.type)) = ["LPAREN", "ID", "RPAREN", "DIV", "ID", "DIV", "ID"] := by
  decide +kernel

end CalmVerif.Props.C05lex
