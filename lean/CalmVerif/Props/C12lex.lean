/-
Property C12, lexer part — "Any input either parses or raises the ECMAScript syntax error, only."

The lexer model (Model.Lexer, tied to calmjs.parse.lexers.es5 by harness/checks/C06.py) has one outcome
constructor per exception kind: `syntax` (ECMASyntaxError), `regexSyntax` (ECMARegexSyntaxError, a subclass),
`internal kind` (any other Python exception escaping from a partial operation: `list[-1]` / `str[0]` of an empty
sequence …), `modelGap` (the model does not cover the code: unknown rule, negative `lexpos`) and `outOfFuel`.
These theorems show that `internal` and `outOfFuel` are unreachable.

`WF st` (non-empty `token_stack`, non-empty `newline_idx`) is what `Lexer()` + `input(text)` establish and what
every method the parser calls (`token`, `auto_semi`, `backtracked_token`) preserves; so "reachable state" can be
read as "`WF`".  (The former internal errors KF-12a `'\8'` KeyError, KF-12b `'abc\` IndexError, KF-12d
`a<NBSP><SP>` AttributeError were repaired in /repo; the model follows the repaired code.)
-/
import CalmVerif.Proofs.LexerNoInternal
import CalmVerif.Proofs.LexerTerm

namespace CalmVerif.Props.C12lex
open CalmVerif.Model.Lexer
open CalmVerif.Proofs CalmVerif.Proofs.LexerNoInternal

/-- the state a fresh lexer object is in after `input(text)` is well-formed -/
theorem init_wf (text : List Char) (wc yc : Bool) : WF (init text wc yc) := by
  simp [WF, init]

/-- T `lexer_no_internal`: for every text and every flag setting, the stand-alone iteration ends normally or with
    an ECMASyntaxError / ECMARegexSyntaxError — never with an internal exception (and never out of fuel, never in a
    model gap is NOT claimed here: `modelGap` only arises for rule names the model does not know, see
    `lexer_no_model_gap_rules` below). -/
theorem lexer_no_internal (text : List Char) (wc yc : Bool) :
    (∀ k, (lexStandalone text wc yc).2 ≠ some (Err.internal k)) ∧
    (lexStandalone text wc yc).2 ≠ some Err.outOfFuel := by
  constructor
  · intro k
    unfold lexStandalone
    exact lexAll_ni _ _ _ (init_wf text wc yc) k
  · unfold lexStandalone
    exact LexerTerm.lexAll_fuel _ _ _ rfl (by simp [lexFuel, init])

/-- T `token_no_internal`: from ANY well-formed state (however the parser got there), `token()` returns a token /
    `None` or raises a syntax error — never an internal exception, never out of fuel — and leaves a well-formed state -/
theorem token_no_internal (st : LexState) (h : WF st) :
    (∀ k, token st ≠ .error (Err.internal k)) ∧ token st ≠ .error Err.outOfFuel ∧
    (∀ r st', token st = .ok (r, st') → WF st') :=
  ⟨(token_ni st h).1, LexerTerm.token_ne st, (token_ni st h).2⟩

/-- `auto_semi` keeps the state well-formed (it cannot raise) -/
theorem auto_semi_wf (st : LexState) (tok : Option Token) (h : WF st) : WF (autoSemi st tok).2 :=
  autoSemi_wf st tok h

/-- `backtracked_token` never raises an internal exception from a well-formed state and keeps it well-formed
    (its `modelGap "negative lexpos"` outcome needs `lexpos < pos`; the parser only back-tracks by 1 after a DIV token) -/
theorem backtracked_token_no_internal (st : LexState) (pos : Nat) (h : WF st) :
    (∀ k, backtrackedToken st pos ≠ .error (Err.internal k)) ∧
    (∀ r st', backtrackedToken st pos = .ok (r, st') → WF st') :=
  backtrackedToken_ni st pos h

/-- D: every rule name of both lexer states has a matcher in the model, so `modelGap "lexer rule …"` cannot occur
    with the regenerated tables -/
theorem lexer_no_model_gap_rules :
    (CalmVerif.Model.PlyLex.rulesOf .initial ++ CalmVerif.Model.PlyLex.rulesOf .regex).all
      (fun r => (CalmVerif.Model.PlyLex.ruleMatcher r).isSome) = true := by
  decide

/-- non-vacuity / regression: the inputs that used to raise KeyError, IndexError and AttributeError now end in
    `syntax` errors resp. normally -/
example :
    (lexStandalone "'\\8'".toList false false).2 =
      some (Err.syntax "Unterminated string literal \"'\" at 1:1") ∧
    (lexStandalone "'abc\\".toList false false).2 =
      some (Err.syntax "Unterminated string literal \"'abc\" at 1:1") ∧
    (lexStandalone ['a', '\u00a0', ' '] false false).2 = none := by
  decide +kernel

end CalmVerif.Props.C12lex
