/-
Property C04 (automatic semicolon insertion), lexer-side decision lemmas about Model.Lexer.autoSemi, the model of
`Lexer.auto_semi(token)` which `Parser.p_error` calls with the offending token (`None` at end of input).
-/
import CalmVerif.Model.Lexer

namespace CalmVerif.Props.C04lex
open CalmVerif.Model.Lexer

/-- T `auto_semi_decision`: `auto_semi tok` returns an inserted token iff `tok` is the end of input, or `tok` is
    neither SEMI nor AUTOSEMI and (`tok` is RBRACE or the previous RAW token — comments and line terminators
    included — is a LINE_TERMINATOR). -/
theorem auto_semi_decision (st : LexState) (tok : Option Token) :
    (autoSemi st tok).1.isSome = true ↔
      (tok = none ∨ ∃ t, tok = some t ∧ (t.type ≠ "SEMI" ∧ t.type ≠ "AUTOSEMI") ∧
        (t.type = "RBRACE" ∨ ∃ p, st.prevToken = some p ∧ p.type = "LINE_TERMINATOR")) := by
  have hprev : isPrevTokenLt st = true ↔ ∃ p, st.prevToken = some p ∧ p.type = "LINE_TERMINATOR" := by
    unfold isPrevTokenLt
    cases st.prevToken <;> simp
  cases tok with
  | none => simp [autoSemi]
  | some t =>
    unfold autoSemi
    simp only
    split
    · rename_i hc
      simp only [Option.isSome_some, true_iff]
      right
      exact ⟨t, rfl, hc.1, hc.2.imp id hprev.mp⟩
    · rename_i hc
      simp only [Option.isSome_none, Bool.false_eq_true, false_iff]
      intro h
      rcases h with h | ⟨t', ht', h1, h2⟩
      · simp at h
      · simp at ht'
        subst ht'
        exact hc ⟨h1, h2.imp id hprev.mpr⟩

/-- the inserted token is an AutoLexToken `AUTOSEMI` `;` carrying the offending token's line and offset (0 / 0 at
    end of input) with column 0, and the offending token is pushed back onto `next_tokens` EXACTLY ONCE (nothing is
    pushed at end of input); when nothing is inserted the state is unchanged. -/
theorem auto_semi_effect (st : LexState) (tok : Option Token) :
    match (autoSemi st tok).1, tok with
    | some semi, some t =>
        semi.type = "AUTOSEMI" ∧ semi.value = [';'] ∧ semi.auto = true ∧ semi.colno = 0 ∧
        semi.lexpos = t.lexpos ∧ semi.lineno = t.lineno ∧
        (autoSemi st tok).2.nextTokens = t :: st.nextTokens
    | some semi, none =>
        semi.type = "AUTOSEMI" ∧ semi.value = [';'] ∧ semi.auto = true ∧ semi.colno = 0 ∧
        semi.lexpos = 0 ∧ semi.lineno = 0 ∧ (autoSemi st tok).2.nextTokens = st.nextTokens
    | none, _ => (autoSemi st tok).2 = st := by
  cases tok with
  | none => simp [autoSemi, createSemiToken]
  | some t =>
    by_cases hc : (t.type ≠ "SEMI" ∧ t.type ≠ "AUTOSEMI") ∧ (t.type = "RBRACE" ∨ isPrevTokenLt st = true)
    · simp [autoSemi, hc, createSemiToken]
    · simp [autoSemi, hc]

/-- the pushed-back token is what the next `token()` call returns, and it is consumed by that call -/
theorem pushed_back_token_is_next (st : LexState) (t : Token) (semi : Token)
    (h : (autoSemi st (some t)).1 = some semi) (hnc : (autoSemi st (some t)).2.withComments = false) :
    ∃ st', token (autoSemi st (some t)).2 = .ok (some t, st') ∧ st'.nextTokens = st.nextTokens := by
  have heff := auto_semi_effect st (some t)
  rw [h] at heff
  simp only at heff
  have hnext := heff.2.2.2.2.2.2
  refine ⟨{ (autoSemi st (some t)).2 with nextTokens := st.nextTokens }, ?_, rfl⟩
  unfold token token'
  rw [hnext]
  simp [hnc]

/-- non-vacuity: `a \n b` — the offending token `b` after a line terminator gets a semicolon inserted before it -/
example :
    (match token (init "a\nb".toList false false) with
     | .ok (_, st1) =>
       match token st1 with
       | .ok (b, st2) => (autoSemi st2 b).1.map (fun t => (t.type, t.lexpos, t.lineno))
       | .error _ => none
     | .error _ => none) = some ("AUTOSEMI", 2, 2) := by
  decide +kernel

end CalmVerif.Props.C04lex
