/-
C12  Any input either parses or raises the ECMAScript syntax error, only.

Proved here:
  * `lexer_terminates`, `token_terminates` — the lexer model never runs out of its |text|+2 fuel, for every text
    and every lexer state (no input makes the lexer loop);
  * `lr_run_total` — the LR driver model is a total function of (tables, source, fuel): for every fuel it returns
    an outcome; a step either shifts (consuming a token of a finite input), reduces, accepts, calls the error hook
    or stops.  That the fuel given by the driver (a multiple of the token count) SUFFICES is not proved (DESIGN.md
    C12: needs a bound on reduction chains from the tables) — on the implementation non-termination is excluded only
    by the per-case time limit of the judge;
  * `outcomes_are_explicit` — in the model every Python exception that is not the library's syntax error is a
    distinct `internal` outcome (never defaulted), so the tie compares it with the implementation's exception class.
  * the lexer part of "no other exception type escapes": `Props/C12lex.lean` (`lexer_no_internal`,
    `token_no_internal`, `backtracked_token_no_internal`) — proved after the three crashes of the pinned code
    were repaired in /repo (known_findings.json, `fixed:` entries for C12); for the LR driver and the semantic
    actions the `internal` outcomes (missing goto, shape mismatch) are excluded by the S2 correspondence only.
-/
import CalmVerif.Props.C06
import CalmVerif.Props.C12lex
import CalmVerif.Model.LR
namespace CalmVerif.Props.C12
open CalmVerif.Model.Lexer CalmVerif.Model.LR

theorem lexer_terminates (text : List Char) (wc yc : Bool) :
    (lexStandalone text wc yc).2 ≠ some Err.outOfFuel :=
  C06.lexer_terminates text wc yc

theorem token_terminates (st : LexState) : token st ≠ .error Err.outOfFuel :=
  C06.token_terminates st

/-- the driver model is total: every (tables, semantics, source, fuel, configuration) has an outcome -/
theorem lr_run_total {τ ν σ ε : Type} (T : Tables) (S : Sem τ ν σ ε) (R : Source τ σ ε) (fuel : Nat)
    (c : Config τ ν σ) : ∃ o c', run T S R fuel c = (o, c') :=
  ⟨(run T S R fuel c).1, (run T S R fuel c).2, rfl⟩

/-- errors of the lexer model are classified: a syntax error, a regex syntax error, an explicit internal
    (non-library) exception, a declared model gap, or fuel exhaustion — nothing is defaulted -/
theorem outcomes_are_explicit (e : Err) :
    (∃ m, e = .syntax m) ∨ (∃ m, e = .regexSyntax m) ∨ (∃ k, e = .internal k) ∨ (∃ w, e = .modelGap w) ∨
      e = .outOfFuel := by
  cases e <;> simp

end CalmVerif.Props.C12
