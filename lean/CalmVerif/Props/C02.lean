/-
C02  Minified output parses back to the same program; no token fusion.

Property theorems only (helper lemmas: Proofs/RoundTrip*.lean).  `minifyCfg dropSemi` is the Dispatcher of
`minify_printer(obfuscate=False, drop_semi=dropSemi)` over the regenerated `Gen.Defs` and `Gen.Rules.rs_minify0/1`.

What is proved here
  * `minify_ignores_positions`, `minify_same_structure`: the minified text depends on kinds, attributes and string
    values only (all trees, both `drop_semi` settings);
  * D (kernel decisions over the regenerated tables): which separators the minify rule sets emit
    (`minify_space_handlers`, `space_table_*`), which statement ends `drop_semi` may drop and in which body slots
    (`dropped_semis_are_asi_restorable_partial`: every body slot except the one of `while` keeps its `;`);
  * the full statement is FALSE of the code: its negation on the witnesses of KF-01, KF-02b, KF-02c, KF-02e, KF-02f,
    evaluated by the model in the kernel (`kf…_witness`), next to positive instances (`a + +b`, `for(;;);`, `if(a);else;`);
  * regression facts for the two findings REPAIRED in /repo (they fail again if the repair is undone):
    `fixed_kf02a` (9cebc23: `a / /re/` now minifies to `a/ /re/`), `fixed_kf02d` / `fixed_kf02d_block` (c249e7a: the `;`
    that is the body of a `while` is kept under drop_semi), `no_statement_slot_after_optional_space`.
What is NOT proved (rests on the judge of harness/checks/C02.py over the targeted token-adjacency generator):
  `minify_relexes` for all trees and the grammar layer.
-/
import CalmVerif.Proofs.RoundTripFuel
import CalmVerif.Proofs.RoundTripSafeMin0
import CalmVerif.Proofs.RoundTripSafeMin1
import CalmVerif.Proofs.RoundTripSepMin0
import CalmVerif.Proofs.RoundTripSepMin1
import CalmVerif.Proofs.RoundTripPairs
namespace CalmVerif.Props.C02
open CalmVerif CalmVerif.Unparse CalmVerif.TokenAdj

/-- the text `minify_print(tree, obfuscate=False, drop_semi=d)` returns, or the exception -/
def minifyText (d : Bool) (tree : Val) : Except Err String :=
  (unparse (minifyCfg d) tree ()).map textOf

/-! ### the minified text depends on kinds, attributes and string values only -/

theorem minify_ignores_positions (d : Bool) (tree : Val) (fs : List Frag)
    (h : unparse (minifyCfg d) tree () = .ok fs) :
    ∃ fs', unparseAt (minifyCfg d) (fuelFor (minifyCfg d) tree) (eraseVal tree) () = .ok fs' ∧
      textOf fs' = textOf fs := by
  rw [unparse_eq_unparseAt] at h
  exact unparseAt_erase (minifyCfg_noHooks d) (minifyCfg_plainTok d) _ tree () fs h

/-- two trees of the same structure minify to the same text (whenever both print): minification is a function of
the structure, so `minify (parse (minify t)) = minify t` whenever the round trip holds -/
theorem minify_same_structure (d : Bool) (t t' : Val) (out out' : String)
    (h : minifyText d t = .ok out) (hs : SameStructure t t') (h' : minifyText d t' = .ok out') : out' = out := by
  obtain ⟨fs, h1, rfl⟩ := except_map_ok h
  obtain ⟨fs', h2, rfl⟩ := except_map_ok h'
  exact unparse_sameStructure (minifyCfg_noHooks d) (minifyCfg_plainTok d) t t' () fs fs' hs h1 h2

/-! ### D: separators of the minify rule sets -/

/-- in both minify rule sets `Space` and `OptionalSpace` are decided by `required_space` alone
(`layout_handler_space_minimum`), `RequiredSpace` always prints, and no other marker prints white space -/
theorem minify_space_handlers :
    (lookupLayout Gen.Rules.rs_minify0.layout (LKey.single .Space) = some .spaceMinimum ∧
     lookupLayout Gen.Rules.rs_minify0.layout (LKey.single .OptionalSpace) = some .spaceMinimum ∧
     lookupLayout Gen.Rules.rs_minify0.layout (LKey.single .RequiredSpace) = some .spaceImply ∧
     lookupLayout Gen.Rules.rs_minify0.layout (LKey.single .Newline) = none) ∧
    (lookupLayout Gen.Rules.rs_minify1.layout (LKey.single .Space) = some .spaceMinimum ∧
     lookupLayout Gen.Rules.rs_minify1.layout (LKey.single .OptionalSpace) = some .spaceMinimum ∧
     lookupLayout Gen.Rules.rs_minify1.layout (LKey.single .RequiredSpace) = some .spaceImply ∧
     lookupLayout Gen.Rules.rs_minify1.layout (LKey.single .Newline) = none) := by decide

/-- what `required_space` does NOT separate (the table-level root of KF-02b, KF-02c, KF-02f, KF-01):
a regex's closing `/` before a letter is not a word pair, a combining mark before a letter, `.` before a letter,
a digit before `.` -/
theorem space_table_gaps :
    requiredSpaceGen '/' 'i' = false ∧
    requiredSpaceGen (Char.ofNat 0x300) 'i' = false ∧ requiredSpaceGen (Char.ofNat 0x203F) 'i' = false ∧
    requiredSpaceGen '.' 'i' = false ∧ requiredSpaceGen '1' '.' = false := by decide +kernel

/-- and what it does separate: the cases the property text lists (`a + +b`, `a - --b`, `a in b`, `typeof x`,
`x / /re/` — the last since the repair 9cebc23) -/
theorem space_table_hits :
    requiredSpaceGen '/' '/' = true ∧ requiredSpaceGen '+' '+' = true ∧ requiredSpaceGen '-' '-' = true ∧ requiredSpaceGen 'a' 'i' = true ∧
    requiredSpaceGen 'n' 'b' = true ∧ requiredSpaceGen 'f' 'x' = true ∧ requiredSpaceGen '1' 'i' = true ∧
    requiredSpaceGen 'a' '$' = true ∧ requiredSpaceGen '$' 'i' = true := by decide +kernel

/-! ### D: which semicolons `drop_semi` may drop -/

/-- the (kind, attribute) slots whose rule is directly preceded by marker `m` in a definition (top level) -/
def slotsAfter (m : Marker) : List Rule → List String
  | .layout m' :: .attr (.name a) p :: rest =>
    (if m' == m then [a] else []) ++ slotsAfter m (.attr (.name a) p :: rest)
  | _ :: rest => slotsAfter m rest
  | [] => []

def allSlotsAfter (m : Marker) (defs : Defs) : List (String × String) :=
  defs.flatMap (fun kd => (slotsAfter m kd.2).map (fun a => (kd.1, a)))

/-- no `Optional` body of a definition contains marker `m` (bodies are one level deep: a nested Optional fails) -/
def optionalBodiesFreeOf (m : Marker) (defs : Defs) : Bool :=
  defs.all fun kd => kd.2.all fun r => match r with
    | .optional _ body => body.all (fun r' => match r' with
        | .layout m' => m' != m
        | .optional _ _ => false
        | _ => true)
    | _ => true

def statementSlots : List String := ["statement", "consequent", "alternative", "elements", "statements", "case_block"]

/-- `dropped_semis_are_asi_restorable` (partial: decide-level table facts, not lifted to all trees).
Under `drop_semi`:
  1. a plain statement end prints `;` only when more text follows (`semicolon_optional`), is swallowed by a directly
     following `}` (`(EndStatement, CloseBlock) ↦ closebrace`);
  2. an empty statement in a body slot introduced by `Space` — the bodies of `if`/`else`, `for`, `for-in`, `with`,
     `do`, labels — ALWAYS keeps its `;` (`(Space, EndStatement) ↦ semicolon`);
  3. an empty statement in a slot introduced by `OptionalSpace` could lose it
     (`(OptionalSpace, EndStatement) ↦ semicolon_optional`, `((OptionalSpace, EndStatement), CloseBlock) ↦ closebrace`),
     but NO statement slot is introduced by `OptionalSpace` (since c249e7a; before, `While.statement` was — KF-02d):
     the remaining `OptionalSpace` slots are the operator of `Assign`, the operand of `UnaryExpr` and the two header
     clauses of `For`, which are followed by the header's `;` or `)`;
  4. without `drop_semi` every one of these keys maps to the unconditional `semicolon`. -/
theorem dropped_semis_are_asi_restorable_partial :
    (lookupLayout Gen.Rules.rs_minify1.layout (LKey.single .EndStatement) = some .semicolonOptional ∧
     lookupLayout Gen.Rules.rs_minify1.layout (LKey.tuple [LKey.single .EndStatement, LKey.single .CloseBlock]) = some .closebrace) ∧
    lookupLayout Gen.Rules.rs_minify1.layout (LKey.tuple [LKey.single .Space, LKey.single .EndStatement]) = some .semicolon ∧
    (lookupLayout Gen.Rules.rs_minify1.layout (LKey.tuple [LKey.single .OptionalSpace, LKey.single .EndStatement]) = some .semicolonOptional ∧
     lookupLayout Gen.Rules.rs_minify1.layout
       (LKey.tuple [LKey.tuple [LKey.single .OptionalSpace, LKey.single .EndStatement], LKey.single .CloseBlock]) = some .closebrace ∧
     allSlotsAfter .OptionalSpace Gen.Defs.definitions =
       [("Assign", "op"), ("For", "cond"), ("For", "count"), ("UnaryExpr", "value")]) ∧
    (lookupLayout Gen.Rules.rs_minify0.layout (LKey.single .EndStatement) = some .semicolon ∧
     lookupLayout Gen.Rules.rs_minify0.layout (LKey.tuple [LKey.single .Space, LKey.single .EndStatement]) = some .semicolon ∧
     lookupLayout Gen.Rules.rs_minify0.layout (LKey.tuple [LKey.single .OptionalSpace, LKey.single .EndStatement]) = some .semicolon) := by
  decide

/-- regression fact of the repair c249e7a: no statement slot of any definition — at top level or inside an `Optional`
body — is introduced by `OptionalSpace`, so the droppable `(OptionalSpace, EndStatement)` run never is a statement body -/
theorem no_statement_slot_after_optional_space :
    ((allSlotsAfter .OptionalSpace Gen.Defs.definitions).all fun p => !statementSlots.contains p.2) = true ∧
    optionalBodiesFreeOf .OptionalSpace Gen.Defs.definitions = true := by decide

/-- the statement-body slots introduced by `Space` (kept by fact 2); the `else` branch sits in an `Optional` body
(`Newline, 'else', Space, alternative`, see Gen.Defs) and is introduced by `Space` as well -/
theorem space_body_slots :
    (allSlotsAfter .Space Gen.Defs.definitions).filter (fun p => p.2 == "statement" || p.1 == "If") =
      [("DoWhile", "statement"), ("For", "statement"), ("ForIn", "statement"), ("If", "consequent"), ("Label", "statement"),
       ("While", "statement"), ("With", "statement")] ∧
    defTags Gen.Defs.definitions "If" = some ["comments", "text:if", "layout:Space", "text:(", "attr:predicate", "text:)",
      "layout:Space", "attr:consequent", "optional:alternative"] := by decide

/-! ### the full statement is false of the code: witnesses (structure of the parsed witness text) -/

def kf01 : Val := (.node "ES5Program" [("children", (.list [(.node "ExprStatement" [("expr", (.node "DotAccessor" [("identifier", (.node "PropIdentifier" [("value", (.str "x"))])), ("node", (.node "Number" [("value", (.str "1"))]))]))])]))])
def kf02a : Val := (.node "ES5Program" [("children", (.list [(.node "ExprStatement" [("expr", (.node "BinOp" [("left", (.node "Identifier" [("value", (.str "a"))])), ("op", (.str "/")), ("right", (.node "Regex" [("value", (.str "/re/"))]))]))])]))])
def kf02b : Val := (.node "ES5Program" [("children", (.list [(.node "ExprStatement" [("expr", (.node "BinOp" [("left", (.node "Regex" [("value", (.str "/re/"))])), ("op", (.str "in")), ("right", (.node "Identifier" [("value", (.str "b"))]))]))])]))])
def kf02c : Val := (.node "ES5Program" [("children", (.list [(.node "ExprStatement" [("expr", (.node "BinOp" [("left", (.node "Identifier" [("value", (.str "à"))])), ("op", (.str "in")), ("right", (.node "Identifier" [("value", (.str "b"))]))]))])]))])
def kf02d : Val := (.node "ES5Program" [("children", (.list [(.node "FuncDecl" [("elements", (.list [(.node "While" [("predicate", (.node "Number" [("value", (.str "1"))])), ("statement", (.node "EmptyStatement" [("value", (.str ";"))]))])])), ("identifier", (.node "Identifier" [("value", (.str "f"))])), ("parameters", (.list []))])]))])
def kf02d2 : Val := (.node "ES5Program" [("children", (.list [(.node "While" [("predicate", (.node "Identifier" [("value", (.str "a"))])), ("statement", (.node "EmptyStatement" [("value", (.str ";"))]))]), (.node "Block" [("children", (.list []))])]))])
def kf02e : Val := (.node "ES5Program" [("children", (.list [(.node "ExprStatement" [("expr", (.node "Identifier" [("value", (.str "a"))]))]), (.node "Block" [("children", (.list []))])]))])
def kf02f : Val := (.node "ES5Program" [("children", (.list [(.node "ExprStatement" [("expr", (.node "BinOp" [("left", (.node "Number" [("value", (.str "1."))])), ("op", (.str "in")), ("right", (.node "Identifier" [("value", (.str "b"))]))]))])]))])
def okPlus : Val := (.node "ES5Program" [("children", (.list [(.node "ExprStatement" [("expr", (.node "Assign" [("left", (.node "Identifier" [("value", (.str "x"))])), ("op", (.str "=")), ("right", (.node "BinOp" [("left", (.node "BinOp" [("left", (.node "Identifier" [("value", (.str "a"))])), ("op", (.str "+")), ("right", (.node "UnaryExpr" [("op", (.str "+")), ("value", (.node "Identifier" [("value", (.str "b"))]))]))])), ("op", (.str "-")), ("right", (.node "UnaryExpr" [("op", (.str "--")), ("value", (.node "Identifier" [("value", (.str "c"))]))]))]))]))])]))])
def okFor : Val := (.node "ES5Program" [("children", (.list [(.node "For" [("cond", (.node "EmptyStatement" [("value", (.str ";"))])), ("count", .none), ("init", (.node "EmptyStatement" [("value", (.str ";"))])), ("statement", (.node "EmptyStatement" [("value", (.str ";"))]))])]))])
def okIf : Val := (.node "ES5Program" [("children", (.list [(.node "If" [("alternative", (.node "EmptyStatement" [("value", (.str ";"))])), ("consequent", (.node "EmptyStatement" [("value", (.str ";"))])), ("predicate", (.node "Identifier" [("value", (.str "a"))]))])]))])

set_option maxRecDepth 100000 in
/-- KF-01 `1 .x;` → `1.x;` -/
theorem kf01_witness : minifyText false kf01 = .ok "1.x;" := printsText_spec (by decide)
set_option maxRecDepth 100000 in
/-- fixed KF-02a (9cebc23): `a / /re/;` now keeps a separator — it used to print `a//re/;`, a line comment -/
theorem fixed_kf02a : minifyText false kf02a = .ok "a/ /re/;" ∧ minifyText true kf02a = .ok "a/ /re/" :=
  ⟨printsText_spec (by decide), printsText_spec (by decide)⟩
set_option maxRecDepth 100000 in
/-- KF-02b `/re/ in b;` → `/re/in b;` (the keyword becomes regex flags) -/
theorem kf02b_witness : minifyText false kf02b = .ok "/re/in b;" := printsText_spec (by decide)
set_option maxRecDepth 100000 in
/-- KF-02c `à in b;` (a + U+0300) → `àin b;` (one identifier) -/
theorem kf02c_witness : minifyText false kf02c = .ok "àin b;" := printsText_spec (by decide)
set_option maxRecDepth 100000 in
/-- fixed KF-02d (c249e7a): `function f(){while(1);}` keeps the loop body `;` under drop_semi (it used to print
`function f(){while(1)}`) -/
theorem fixed_kf02d : minifyText true kf02d = .ok "function f(){while(1);}" ∧
    minifyText false kf02d = .ok "function f(){while(1);}" :=
  ⟨printsText_spec (by decide), printsText_spec (by decide)⟩
set_option maxRecDepth 100000 in
/-- fixed KF-02d: `while(a);{}` with drop_semi stays `while(a);{}` (it used to print `while(a){}`, another program) -/
theorem fixed_kf02d_block : minifyText true kf02d2 = .ok "while(a);{}" := printsText_spec (by decide)
set_option maxRecDepth 100000 in
/-- KF-02e `a;{}` with drop_semi → `a{}` -/
theorem kf02e_witness : minifyText true kf02e = .ok "a{}" ∧ minifyText false kf02e = .ok "a;{}" :=
  ⟨printsText_spec (by decide), printsText_spec (by decide)⟩
set_option maxRecDepth 100000 in
/-- KF-02f `1. in b;` → `1.in b;` (IdentifierStart directly after a NumericLiteral, ES5 7.8.3) -/
theorem kf02f_witness : minifyText false kf02f = .ok "1.in b;" := printsText_spec (by decide)

set_option maxRecDepth 100000 in
/-- positive instances of the property text: `x = a + +b - --c;`, `for(;;);`, `if(a);else;` keep their separators and
body semicolons under drop_semi (non-vacuity of `minifyText`, and of facts 1–2 above) -/
theorem minify_keeps_required_separators :
    minifyText true okPlus = .ok "x=a+ +b- --c" ∧ minifyText true okFor = .ok "for(;;);" ∧
    minifyText true okIf = .ok "if(a);else;" :=
  ⟨printsText_spec (by decide), printsText_spec (by decide), printsText_spec (by decide)⟩

/-! ### lexical layer, parts (1)–(3) for the minify rule sets (see Props/C01 for the vocabulary) -/

/-- D `first_last_closed` for `minify(drop_semi=False)` and `minify(drop_semi=True)` -/
theorem first_last_closed_minify :
    closedCert cxMin0 Gen.Defs.definitions = true ∧ closedCert cxMin1 Gen.Defs.definitions = true :=
  ⟨certMin0_closed, certMin1_closed⟩

/-- T `first_last_sound` / `adjacent_sound` without drop_semi: the chunk stream of every tree that respects the slot
typing is a string of the root kind's certificate over the follow relation `followMin0` (the Literal handler's
line-continuation stripping keeps the class `str`: `sig_dropLineCont`) -/
theorem minify0_stream_typed (k : String) (as : List (String × Val)) (hw : wfVal cxMin0 (.node k as) = true)
    (cs : List Chunk) (h : walkChunks (minifyCfg false) (.node k as) () = .ok (cs, ())) :
    ∃ a, certOf cxMin0 k = some a ∧ Ann (minifyCfg false).hd followMin0 a cs :=
  walkChunks_typed (minifyTyped false certMin0) followMin0 followMin0_closed k as hw () cs () h

/-- the same with drop_semi -/
theorem minify1_stream_typed (k : String) (as : List (String × Val)) (hw : wfVal cxMin1 (.node k as) = true)
    (cs : List Chunk) (h : walkChunks (minifyCfg true) (.node k as) () = .ok (cs, ())) :
    ∃ a, certOf cxMin1 k = some a ∧ Ann (minifyCfg true).hd followMin1 a cs :=
  walkChunks_typed (minifyTyped true certMin1) followMin1 followMin1_closed k as hw () cs () h

/-- (4)+(5), table level, partial: every two tokens either minifier can print with NO layout marker between them are
`directSafe`, except KF-01 and the two artefacts of the abstraction.  The pairs separated by a `Space` /
`OptionalSpace` marker — where KF-02b, KF-02c, KF-02f live — are decided by `required_space`
(`space_table_gaps` / `space_table_hits` above) and are NOT covered by a lifted theorem. -/
theorem direct_adjacent_safe_minify_partial : directOK followMin0 = true ∧ directOK followMin1 = true :=
  ⟨direct_safe_min0, direct_safe_min1⟩

/-- non-vacuity: the witnesses respect the slot typing -/
example : wfVal cxMin1 kf02b = true ∧ wfVal cxMin1 kf02d = true ∧ wfVal cxMin1 okPlus = true ∧ wfVal cxMin1 okFor = true := by
  decide +kernel

/-! ### token pairs separated by one layout marker; the lifted statements -/

/-- D `separated_pairs_safe_minify` (partial: runs of exactly ONE layout marker).  For every occurrence `x` of a `Space`
or `OptionalSpace` rule (`layout_handler_space_minimum`) and all token signatures `a`, `b` such that `a · x · b` can occur
in a chunk stream of the minifier: `required_space` certainly matches on the edge characters (`mustSpace`: a space is
printed), or the pair is `directSafe`, or it is one of the recorded findings
  KF-02b  a regular expression literal before a word (`/re/ in b` → `/re/in b`),
  KF-02c  an identifier ending in an identifier character outside Python's `\w` before a word (`à in b`),
  KF-02f  a number ending in `.` before a word (`1. in b`),
(KF-01 and the two artefacts of `okPair` included).  `RequiredSpace` always prints; no other marker of the minify rule
sets can print nothing between two token fragments.  NOT covered: runs of several markers and runs containing
OpenBlock / CloseBlock / EndStatement — KF-02e (`a;{}` → `a{}`) lives there; it is not a lexical finding: `a` `{` lex
apart, the statement boundary is what is lost. -/
theorem separated_pairs_safe_minify_partial :
    sepOKMin Gen.Rules.rs_minify0 followMin0 = true ∧ sepOKMin Gen.Rules.rs_minify1 followMin1 = true :=
  ⟨sep_safe_min0, sep_safe_min1⟩

/-- each exclusion is needed: the witnesses' pairs are not `directSafe` and `required_space` does not match on their
edges (the printed witnesses are `kf02b_witness`, `kf02c_witness`, `kf02f_witness`, `kf01_witness` above) -/
theorem sep_exclusions_witnessed :
    (TokenAdj.kf02b (.regex 3) (mkLit "in") && !(okPair (.regex 3) (mkLit "in")) && !(mustSpace (.regex 3) (mkLit "in"))) = true ∧
    (TokenAdj.kf02c (.word 0 2) (mkLit "in") && !(okPair (.word 0 2) (mkLit "in")) && !(mustSpace (.word 0 2) (mkLit "in"))) = true ∧
    (TokenAdj.kf02f .numDot (mkLit "in") && !(okPair .numDot (mkLit "in")) && !(mustSpace .numDot (mkLit "in"))) = true ∧
    (kf01Pair .decInt (mkLit ".") && !(directSafe .decInt (mkLit "."))) = true ∧
    sig "/re/" = .regex 3 ∧ sig "a\u0300" = .word 0 2 ∧ sig "1." = .numDot ∧ sig "in" = mkLit "in" ∧ sig "1" = .decInt := by
  decide +kernel

/-- T `minify_relexes_partial` (chunk-stream level; see `pretty_relexes_partial` in Props/C01 for the reading and for
what is not proved).  For every tree that respects the slot typing, both `drop_semi` settings: token fragments with no
chunk between them are `okPair`; token fragments with exactly one layout chunk between them satisfy every decided
single-marker relation whose marker set contains the occurrence (`separated_pairs_safe_minify_partial`). -/
theorem minify_relexes_partial (d : Bool) (k : String) (as : List (String × Val))
    (hw : wfVal (if d then cxMin1 else cxMin0) (.node k as) = true) (cs : List Chunk)
    (h : walkChunks (minifyCfg d) (.node k as) () = .ok (cs, ())) :
    (∀ pre post f1 f2, cs = pre ++ .frag f1 :: .frag f2 :: post →
      okPair (canon (sig f1.text)) (canon (sig f2.text)) = true) ∧
    (∀ pre post f1 f2 mk hdl n, cs = pre ++ .frag f1 :: .layout mk hdl n :: .frag f2 :: post →
      ∃ x, eraseSym x = Sym.m mk (isKind (minifyCfg d).hd.headerKinds n) ∧
        ∀ markers ok, sepOK (if d then followMin1 else followMin0) markers ok = true → markers.testBit x = true →
          ok (canon (sig f1.text)) (canon (sig f2.text)) = true) := by
  cases d with
  | false =>
    obtain ⟨a, _, ha⟩ := minify0_stream_typed k as hw cs h
    constructor
    · intro pre post f1 f2 hcs
      rw [hcs] at ha
      exact directOK_spec followMin0 direct_safe_min0 _ _ (tcCode_sig_mem _) (tcCode_sig_mem _)
        (ann_adjacent_frags pre post f1 f2 ha)
    · intro pre post f1 f2 mk hdl n hcs
      rw [hcs] at ha
      obtain ⟨x, hx, h1, h2⟩ := ann_separated_frags pre post f1 f2 mk hdl n ha
      exact ⟨x, hx, fun markers ok hok hm =>
        sepOK_spec followMin0 markers ok hok _ _ (tcCode_sig_mem _) (tcCode_sig_mem _) x hm h1 h2⟩
  | true =>
    obtain ⟨a, _, ha⟩ := minify1_stream_typed k as hw cs h
    constructor
    · intro pre post f1 f2 hcs
      rw [hcs] at ha
      exact directOK_spec followMin1 direct_safe_min1 _ _ (tcCode_sig_mem _) (tcCode_sig_mem _)
        (ann_adjacent_frags pre post f1 f2 ha)
    · intro pre post f1 f2 mk hdl n hcs
      rw [hcs] at ha
      obtain ⟨x, hx, h1, h2⟩ := ann_separated_frags pre post f1 f2 mk hdl n ha
      exact ⟨x, hx, fun markers ok hok hm =>
        sepOK_spec followMin1 markers ok hok _ _ (tcCode_sig_mem _) (tcCode_sig_mem _) x hm h1 h2⟩

end CalmVerif.Props.C02
