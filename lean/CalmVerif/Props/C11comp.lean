/-
C11 (composition)  Every AST node position is self-consistent and lies on its own token — lifted from the
per-production table facts (Props/C11 `actions_anchor_ok`) to EVERY node built in EVERY run of the parser model.

Setting.  `Model.Parser.sem Grammar.cached` is the semantics the composed parser model runs the LR driver with
(`Model.Actions.leaf/reduce` on the regenerated action table `Gen.Actions.actions`, column lookup
`lexer.lookup_colno` of the lexer state at reduction time).  The theorems hold for ANY token source `R` over lexer
states (in particular `Model.Parser.source`, i.e. the lexer with `auto_semi` / `backtracked_token`), any start
state and any number of driver iterations: they quantify over every configuration `c` reachable from the initial
one (`Reach`, `run_reach`: the configurations a `run` passes through are of this kind) and over the call
`reduce p args st = .ok pv` of a semantic action that `step` makes at `c` (`ActionCall`; `reduceCall` is the call
site of `step`, lemma `reduceCall_step`).

What is proved (all without hypotheses on the tokens unless stated):
  1. `tracking_invariant`     ply's tracking: the value stack of every reachable configuration is related, value by
     value, to a stack of valid derivation trees of the regenerated grammar whose yields are the shifted tokens, such
     that (`Track`) a terminal's value is its token; a nonterminal of the set `tracked` has the (lexpos, lineno) of the
     FIRST token of its yield when the yield is not empty; string-shaped nonterminals carry the text of their single
     token; a node value other than the root has a non-empty yield.  `empty_production_pos`: an empty production
     gets the lexer's current position.
     ADJUSTMENT w.r.t. the prose argument: "tracked position = first token" is false for nonterminals that have a
     production starting with a symbol that derived the empty string followed by more symbols (ply copies the
     position of the empty symbol, i.e. the lexer position at that time).  In the regenerated grammar exactly
     `element_list` is such (`only_element_list_untracked`; `element_list : elision_opt assignment_expr`); the claim
     is proved for the closed set `tracked` (all other nonterminals), and the supplementary table check
     `extra_ok` shows that no node anchor, token-map entry or elision run reads the position of an untracked slot.
  2. `node_anchor_ok`         for every node built by the call (`BuiltNode`: the value of a node descriptor of the
     selected row; `built_nodes_cover`: every node descriptor of the row is built), its `@pos` satisfies `AnchorOK`
     w.r.t. derivation trees `trees` of the arguments whose yield is the most recent part of the shifted tokens
     (`ArgTrees`): it is the position `AtTok` of the first token of the production's yield; or, for
     BinOp/Assign/Conditional/Comma/DotAccessor/BracketAccessor/PostfixExpr/Label, of the single token of slot 2;
     or, for wrappers built inside another value, of the first token of the first slot they contain; or it is the
     for(;;) placeholder (one past a token), the PropIdentifier clone, or the root of an empty program.
     `AtTok lc t p` states self-consistency: `p = [t.lexpos, t.lineno, col]` with `col` the column the lexer's
     line table gives for (t.lineno, t.lexpos) at reduction time (0 if lineno = 0, as `findpos` does).
  3. `tokmap_entries_ok`      its `@tokmap` satisfies `TokmapOK`: every position recorded under `text` is `AtTok` of the
     single token of a terminal / pass-through slot whose value is `text`, or of the first token of a slot, of a
     terminal spelled `text` (VarDecl's `=`), or — Elision — of the first token of the yield, a `,`, for a comma run;
     `elision_runs_ok` the same for the position `spreadMod` stores when an elision run grows.
  4. `node_positions_summary` reader's form under the hypothesis `SpellingOK` on the shifted tokens (a token of a
     fixed-spelling terminal has that spelling as value; provided for the real lexer by Props.C06
     `punctuator_maximal_munch` / `keyword_exact`, not re-proved for the parser-driven token source here): every
     position is that of a token of the node's own yield with the recorded text.
Hypotheses kept explicit / not discharged here:
  * `AtTok` speaks of the column `lookup_colno` gives at reduction time.  That this equals the token's own `colno`
    (`TokOK`, lemma `AtTok.eq_of_tokOK`) and ES5 line counting is Props.C06 `positions_are_counted`, proved for
    stand-alone lexing; its transfer to the parser-driven lexer (stability of `newline_idx` entries under later
    `token` / `auto_semi` / `backtracked_token` calls) is not proved.  AUTOSEMI tokens have `colno = 0` and are not
    `TokOK`; nodes record for them the position of the offending token (the judge exempts them).
  * the table hypotheses are discharged by kernel evaluation: `C03.tables_valid`, `C11.actions_anchor_ok`, `extra_ok`.
-/
import CalmVerif.Proofs.NodePosRun
import CalmVerif.Props.C03
import CalmVerif.Props.C11
import CalmVerif.Model.Parser
namespace CalmVerif.Props.C11comp
open CalmVerif CalmVerif.Model CalmVerif.Model.LR CalmVerif.Model.Actions CalmVerif.Model.ActionDesc
open CalmVerif.Model.ActionFacts CalmVerif.Proofs.NodePos

/-- nonterminals whose tracked position is the first token of their yield (greatest closed set, see `trackedOK`) -/
def tracked : List Nat := trackedSet C11.g Gen.Tables.Cached.nonterminals.length

/-- [D] supplementary table facts: start production isolated; `tracked` closed; no row yields a bare attribute or is
    conditioned on an `ES5Program` value; every position read by a node anchor, token-map entry or elision run is read
    from a terminal or tracked slot -/
theorem extra_ok : extraOK C11.g tracked Gen.Actions.actions = true := by
  decide +kernel

/-- [D] the only nonterminal whose tracked position is not always its first token -/
theorem only_element_list_untracked :
    ((List.range Gen.Tables.Cached.nonterminals.length).filter (fun n => !tracked.contains n)).map
      (fun n => Gen.Tables.Cached.nonterminals[n]?) = [some "element_list"] := by
  decide +kernel

/-- non-vacuity of `trackedOK`: the set of all nonterminals is not closed -/
example : trackedOK C11.g (List.range Gen.Tables.Cached.nonterminals.length) = false := by
  decide +kernel

theorem gt : GT C11.g Grammar.cached := ⟨rfl, rfl⟩

abbrev S := Parser.sem Grammar.cached

/-- `lexer.lookup_colno` of the lexer state, as the semantic actions see it -/
def lcOf (st : Lexer.LexState) : Nat → Nat → Option Int := fun lineno lexpos =>
  match Lexer.lookupColno st lineno lexpos with
  | .ok c => some c
  | .error _ => none

def posOf (st : Lexer.LexState) : Nat × Nat := (st.lexpos, st.lineno)
def wcOf (st : Lexer.LexState) : Bool := st.withComments

theorem parser_actsem : ActSem S Parser.toTok Gen.Actions.actions wcOf lcOf posOf := by
  constructor
  · intro t; rfl
  · intro p args src v h
    simp only [S, Parser.sem] at h
    split at h
    · next v' hv' =>
      simp only [Except.ok.injEq] at h
      subst h
      exact hv'
    · simp at h

theorem terminals_length : Gen.Tables.Cached.terminals.length = Gen.Tables.Cached.numTerminals := by
  decide +kernel

theorem parser_ty_le (t : Lexer.Token) : S.ty t ≤ Grammar.cached.numTerminals := by
  simp only [S, Parser.sem, Grammar.termIdx]
  split
  · next h =>
    simp only [Option.getD_some]
    have := terminals_length
    simp only [Grammar.cached]
    omega
  · simp

variable {R : Source Lexer.Token Lexer.LexState Parser.PErr}

/-- a call of a semantic action made by the driver from a configuration reachable from the initial one -/
structure ActionCall (R : Source Lexer.Token Lexer.LexState Parser.PErr) (s : Lexer.LexState)
    (c : Config Lexer.Token PVal Lexer.LexState) (p : Nat) (args : List PVal) (st : Lexer.LexState) (pv : PVal) :
    Prop where
  reach : Reach Grammar.cached S R (initConfig s) c
  call : reduceCall Grammar.cached S R c = some (p, args, st)
  ok : S.reduce p args st = .ok pv

/-- derivation trees of the arguments of the call: valid instances spelling the right-hand side of `p`, whose yield
    is the most recent part of the shifted tokens, related to the arguments by `Track` -/
def ArgTrees (c : Config Lexer.Token PVal Lexer.LexState) (p : Nat) (args : List PVal)
    (trees : List (Tree Lexer.Token)) : Prop :=
  ∃ lhs before, Grammar.cached.prods[p]? = some (lhs, symList Grammar.cached S.ty trees) ∧
    validList Grammar.cached S.ty trees ∧ c.shifted.reverse = before ++ yieldList trees ∧
    All2 (Track C11.g Grammar.cached Parser.toTok tracked) args trees

/-- **1. ply's position tracking is an invariant of the value stack** -/
theorem tracking_invariant {s : Lexer.LexState} {c : Config Lexer.Token PVal Lexer.LexState}
    (hr : Reach Grammar.cached S R (initConfig s) c) :
    GInv Grammar.cached S (Track C11.g Grammar.cached Parser.toTok tracked) c :=
  Proofs.NodePos.tracking_invariant C03.tables_valid gt parser_ty_le C11.actions_anchor_ok extra_ok parser_actsem hr

/-- the result symbol of an empty production gets the lexer's current position -/
theorem empty_production_pos {p : Nat} {st : Lexer.LexState} {pv : PVal} (h : S.reduce p [] st = .ok pv) :
    (pv.lexpos, pv.lineno) = (st.lexpos, st.lineno) :=
  Proofs.NodePos.empty_production_pos (parser_actsem.reduce h)

/-- the whole composition, with one choice of derivation trees -/
theorem composition {s : Lexer.LexState} {c : Config Lexer.Token PVal Lexer.LexState} {p : Nat}
    {args : List PVal} {st : Lexer.LexState} {pv : PVal} (h : ActionCall R s c p args st pv) :
    ∃ trees, ArgTrees c p args trees ∧
      (∃ e, Gen.Actions.actions[p]? = some e ∧
        evalD (mkCtx args (posOf st) (lcOf st) (wcOf st)) (selectRow e (args.map (fun a => kindOf a.v))) = .ok pv.v ∧
        (∀ x ∈ nodesOfD true (selectRow e (args.map (fun a => kindOf a.v))),
          ∃ n pos tmv, BuiltNode Gen.Actions.actions (wcOf st) (lcOf st) p args (posOf st) x n pos tmv) ∧
        (∀ pd ∈ spreadsOfD (selectRow e (args.map (fun a => kindOf a.v))),
          ∃ q t rest, evalPos (mkCtx args (posOf st) (lcOf st) (wcOf st)) pd = .ok q ∧
            yieldList trees = t :: rest ∧ C11.g.termSpelling[S.ty t]? = some "," ∧
            AtTok (lcOf st) (Parser.toTok t) q)) ∧
      (∀ x n pos tmv, BuiltNode Gen.Actions.actions (wcOf st) (lcOf st) p args (posOf st) x n pos tmv →
        AnchorOK Parser.toTok (lcOf st) args trees x pos ∧
        TokmapOK C11.g S.ty Parser.toTok (lcOf st) args trees x tmv) := by
  obtain ⟨trees, lhs, before, hp, hval, hsh, hall, hcover, hnodes⟩ :=
    built_nodes_ok C03.tables_valid gt parser_ty_le C11.actions_anchor_ok extra_ok parser_actsem h.reach h.call h.ok
  exact ⟨trees, ⟨lhs, before, hp, hval, hsh, hall⟩, hcover, hnodes⟩

/-- the nodes a call builds are the values of the node descriptors of the selected row: the result of the call is
    the value of the row, and every node descriptor occurring in it is evaluated, in the same context -/
theorem built_nodes_cover {s : Lexer.LexState} {c : Config Lexer.Token PVal Lexer.LexState} {p : Nat}
    {args : List PVal} {st : Lexer.LexState} {pv : PVal} (h : ActionCall R s c p args st pv) :
    ∃ e, Gen.Actions.actions[p]? = some e ∧
      evalD (mkCtx args (posOf st) (lcOf st) (wcOf st)) (selectRow e (args.map (fun a => kindOf a.v))) = .ok pv.v ∧
      ∀ x ∈ nodesOfD true (selectRow e (args.map (fun a => kindOf a.v))),
        ∃ n pos tmv, BuiltNode Gen.Actions.actions (wcOf st) (lcOf st) p args (posOf st) x n pos tmv := by
  obtain ⟨_, _, ⟨e, he, hev, hcov, _⟩, _⟩ := composition h
  exact ⟨e, he, hev, hcov⟩

/-- **2. every node anchor is self-consistent and lies on a token of the node's own yield** (or is one of the three
    exempt shapes) -/
theorem node_anchor_ok {s : Lexer.LexState} {c : Config Lexer.Token PVal Lexer.LexState} {p : Nat}
    {args : List PVal} {st : Lexer.LexState} {pv : PVal} (h : ActionCall R s c p args st pv) :
    ∃ trees, ArgTrees c p args trees ∧
      ∀ x n pos tmv, BuiltNode Gen.Actions.actions (wcOf st) (lcOf st) p args (posOf st) x n pos tmv →
        AnchorOK Parser.toTok (lcOf st) args trees x pos := by
  obtain ⟨trees, ht, _, hn⟩ := composition h
  exact ⟨trees, ht, fun x n pos tmv hb => (hn x n pos tmv hb).1⟩

/-- **3. every token-map entry records its text at a token of the node's own yield with that text** -/
theorem tokmap_entries_ok {s : Lexer.LexState} {c : Config Lexer.Token PVal Lexer.LexState} {p : Nat}
    {args : List PVal} {st : Lexer.LexState} {pv : PVal} (h : ActionCall R s c p args st pv) :
    ∃ trees, ArgTrees c p args trees ∧
      ∀ x n pos tmv, BuiltNode Gen.Actions.actions (wcOf st) (lcOf st) p args (posOf st) x n pos tmv →
        TokmapOK C11.g S.ty Parser.toTok (lcOf st) args trees x tmv := by
  obtain ⟨trees, ht, _, hn⟩ := composition h
  exact ⟨trees, ht, fun x n pos tmv hb => (hn x n pos tmv hb).2⟩

/-- **3'. the comma run of a growing elision is recorded at the first token of the yield, a `,`** -/
theorem elision_runs_ok {s : Lexer.LexState} {c : Config Lexer.Token PVal Lexer.LexState} {p : Nat}
    {args : List PVal} {st : Lexer.LexState} {pv : PVal} (h : ActionCall R s c p args st pv) :
    ∃ trees e, ArgTrees c p args trees ∧ Gen.Actions.actions[p]? = some e ∧
      ∀ pd ∈ spreadsOfD (selectRow e (args.map (fun a => kindOf a.v))),
        ∃ q t rest, evalPos (mkCtx args (posOf st) (lcOf st) (wcOf st)) pd = .ok q ∧
          yieldList trees = t :: rest ∧ C11.g.termSpelling[S.ty t]? = some "," ∧
          AtTok (lcOf st) (Parser.toTok t) q := by
  obtain ⟨trees, ht, ⟨e, he, _, _, hs⟩, _⟩ := composition h
  exact ⟨trees, e, ht, he, hs⟩

/-- the tokens of the argument trees are shifted tokens -/
theorem ArgTrees.shifted {c : Config Lexer.Token PVal Lexer.LexState} {p : Nat} {args : List PVal}
    {trees : List (Tree Lexer.Token)} (h : ArgTrees c p args trees) {t : Lexer.Token}
    (ht : t ∈ yieldList trees) : t ∈ c.shifted := by
  obtain ⟨_, before, _, _, hsh, _⟩ := h
  have : t ∈ c.shifted.reverse := by rw [hsh]; simp [ht]
  simpa using this

/-- **4. reader's form**: if the shifted tokens of fixed-spelling terminals carry their spelling, then for every node
    built by the call the `@pos` is the self-consistent position of a shifted token of the production's own yield
    (or: placeholder one past such a token / PropIdentifier clone / root of an empty program), and every position
    recorded in a freshly built token map is the self-consistent position of a shifted token of the yield whose
    value is the recorded text (for the comma run of an elision: a `,`) -/
theorem node_positions_summary {s : Lexer.LexState} {c : Config Lexer.Token PVal Lexer.LexState} {p : Nat}
    {args : List PVal} {st : Lexer.LexState} {pv : PVal} (h : ActionCall R s c p args st pv)
    (hsp : ∀ t ∈ c.shifted, SpellingOK C11.g S.ty Parser.toTok t) :
    ∃ trees, ArgTrees c p args trees ∧
      ∀ x n pos tmv, BuiltNode Gen.Actions.actions (wcOf st) (lcOf st) p args (posOf st) x n pos tmv →
        ((∃ t ∈ yieldList trees, AtTok (lcOf st) (Parser.toTok t) pos) ∨
         (x.kind = "EmptyStatement" ∧
            ∃ t ∈ yieldList trees, IsPos (lcOf st) (Parser.toTok t).lexpos (Parser.toTok t).lineno 1 pos) ∨
         (x.kind = "PropIdentifier" ∧ ∃ j pv', x.pos = .ofNode j ∧ j ≠ 0 ∧ args[j - 1]? = some pv' ∧
            pos = (getAttr pv'.v "@pos").getD posUnset) ∨
         (x.kind = "ES5Program" ∧ ∀ tr, trees.head? = some tr → tr.yield = [])) ∧
        (x.tokmapOf = none → ∃ tm : TM, tmv = tokmapVal tm ∧ ∀ e ∈ tm, ∀ q ∈ e.2,
          ∃ t ∈ yieldList trees, AtTok (lcOf st) (Parser.toTok t) q ∧
            ((Parser.toTok t).value = e.1 ∨
             (x.kind = "Elision" ∧ (Parser.toTok t).value = "," ∧ ∃ k, e.1 = Model.Actions.commas k))) := by
  obtain ⟨trees, ht, _, hn⟩ := composition h
  refine ⟨trees, ht, ?_⟩
  intro x n pos tmv hb
  obtain ⟨ha, htm⟩ := hn x n pos tmv hb
  refine ⟨ha.on_yield, ?_⟩
  intro hnone
  unfold TokmapOK at htm
  rw [hnone] at htm
  obtain ⟨tm, htmv, hall⟩ := htm
  refine ⟨tm, htmv, ?_⟩
  intro e he q hq
  exact (hall e he q hq).on_yield (fun t ht' => hsp t (ht.shifted ht'))

/-- the configurations `Model.Parser.parse text withComments` passes through (the configuration after `n` driver
    iterations, or the one at which the run stopped, for every `n`) are reachable: all theorems above apply to them -/
theorem parse_configs_reachable (text : List Char) (withComments : Bool) (n : Nat) :
    Reach Grammar.cached S Parser.source (initConfig (Lexer.init text withComments false))
      (run Grammar.cached S Parser.source n (initConfig (Lexer.init text withComments false))).2 :=
  run_reach_snd n _

/-! ### non-vacuity -/

/-- Bool form of "the step at `c` calls a semantic action, which succeeds" -/
def callSucceeds (c : Config Lexer.Token PVal Lexer.LexState) : Bool :=
  match reduceCall Grammar.cached S Parser.source c with
  | some (p, args, st) => (match S.reduce p args st with | .ok _ => true | .error _ => false)
  | none => false

theorem callSucceeds_spec {c : Config Lexer.Token PVal Lexer.LexState} (h : callSucceeds c = true) :
    ∃ p args st pv, reduceCall Grammar.cached S Parser.source c = some (p, args, st) ∧
      S.reduce p args st = .ok pv := by
  unfold callSucceeds at h
  split at h
  · next p args st hc =>
    split at h
    · next pv hpv => exact ⟨p, args, st, pv, hc, hpv⟩
    · simp at h
  · simp at h

/-- the hypotheses of the theorems are satisfiable: parsing `x=1` with the real token source, after the first
    driver iteration (shift of `x`) the driver calls the action of `identifier : ID`, which builds an Identifier node -/
example : ∃ c p args st pv,
    ActionCall Parser.source (Lexer.init ['x', '=', '1'] false false) c p args st pv := by
  have hc : callSucceeds (run Grammar.cached S Parser.source 1
      (initConfig (Lexer.init ['x', '=', '1'] false false))).2 = true := by decide +kernel
  obtain ⟨p, args, st, pv, hcall, hok⟩ := callSucceeds_spec hc
  exact ⟨_, p, args, st, pv, run_reach_snd 1 _, hcall, hok⟩

end CalmVerif.Props.C11comp
