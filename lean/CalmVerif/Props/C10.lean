/-
C10  Base64-VLQ codec is a bijection in canonical Source Map V3 form.

Property theorems only (helper lemmas: Proofs/Vlq*.lean).  `Model.Vlq` mirrors
/repo/src/calmjs/parse/vlq.py over the regenerated constants `Gen.Vlq`;
`Spec.VlqV3` is the independent statement of the Source Map V3 encoding.
All statements are for ALL integers / lists / structures / strings (no bound).
Outcomes are `Except Err _`: `.ok` = the Python call returns, `.error` = it raises;
`x >>= f` feeds the returned value of the first call to the second.
-/
import CalmVerif.Proofs.VlqCanon
import CalmVerif.Proofs.VlqSpecDecode
import CalmVerif.Proofs.VlqMappings

namespace CalmVerif.Props.C10
open CalmVerif CalmVerif.Model.Vlq CalmVerif.Spec.VlqV3 CalmVerif.Proofs.Vlq

/-! ### D: obligations over the generated constants (break if /repo's values change) -/

/-- `vlq.INT_B64` is the RFC 4648 base64 alphabet -/
theorem gen_alphabet_is_rfc4648 : Gen.Vlq.INT_B64 = Spec.VlqV3.alphabet := by decide

/-- `vlq.B64_INT` is exactly the inverse table of the alphabet -/
theorem gen_b64int_is_inverse : Gen.Vlq.B64_INT = Spec.VlqV3.alphabet.zipIdx := by decide

/-- the numeric constants are those of the V3 format (5 payload bits, continuation bit 32) -/
theorem gen_constants :
    Gen.Vlq.VLQ_SHIFT = 5 ∧ Gen.Vlq.VLQ_CONT = 2 ^ Gen.Vlq.VLQ_SHIFT ∧
    Gen.Vlq.VLQ_BASE_MASK = Gen.Vlq.VLQ_CONT - 1 ∧
    1 ≤ Gen.Vlq.VLQ_MULTI_CHAR ∧ Gen.Vlq.VLQ_MULTI_CHAR ≤ Gen.Vlq.VLQ_CONT := by decide

/-! ### the encoder is the canonical V3 encoder (and never raises) -/

/-- `encode_vlq(i)` returns the Source Map V3 canonical Base64-VLQ of `i` -/
theorem encode_is_spec : ∀ i : Int, encodeVlq i = .ok (Spec.VlqV3.encode i) := encodeVlq_eq

theorem encodes_is_spec : ∀ l : List Int, encodeVlqs l = .ok (Spec.VlqV3.encodeList l) := encodeVlqs_eq

example : encodeVlq 123 = .ok ['2', 'H'] := by decide
example : Spec.VlqV3.encode (-123456) = ['h', 'k', 'x', 'H'] := by decide

/-- the `while raw:` loop terminates (the model's fuel is never exhausted) -/
theorem encode_loop_terminates : ∀ raw : Nat, encLoop raw raw ≠ .error .nonTermination := encLoop_fuel

/-- every character produced is a base64 digit -/
theorem encode_alphabet : ∀ (i : Int), ∀ c ∈ Spec.VlqV3.encode i, c ∈ Spec.VlqV3.alphabet :=
  fun _ c hc => mem_encodeRaw _ c hc

/-! ### encode then decode -/

/-- law 1: `decode_vlqs(encode_vlq(i)) == (i,)` for every integer -/
theorem decode_encode : ∀ i : Int, (encodeVlq i >>= decodeVlqs) = .ok [i] := by
  intro i
  rw [encodeVlq_eq, ok_bind]
  have := decodeVlqs_encodeList [i]
  simpa [encodeList] using this

/-- law 1 for `decode_vlq` (first integer; whatever follows is not even looked at) -/
theorem decode_vlq_encode : ∀ (i : Int) (rest : List Char),
    (encodeVlq i >>= fun s => decodeVlq (s ++ rest)) = .ok i := by
  intro i rest
  rw [encodeVlq_eq, ok_bind]
  exact decodeVlq_encode_append i rest

/-- law 2: `decode_vlqs(encode_vlqs(l)) == tuple(l)` for every list of integers -/
theorem decodes_encodes : ∀ l : List Int, (encodeVlqs l >>= decodeVlqs) = .ok l := by
  intro l
  rw [encodeVlqs_eq, ok_bind]
  exact decodeVlqs_encodeList l

example : (encodeVlqs [0, -1, 16, -1000000] >>= decodeVlqs) = .ok [0, -1, 16, -1000000] := by decide

/-- the encoding is injective -/
theorem encodes_injective : ∀ l₁ l₂ : List Int, encodeVlqs l₁ = encodeVlqs l₂ → l₁ = l₂ := by
  intro l₁ l₂ h
  have h1 := decodes_encodes l₁
  have h2 := decodes_encodes l₂
  rw [h, h2] at h1
  exact (Except.ok.inj h1).symm

/-- law 3: `decode_mappings(encode_mappings(m)) == m` for every mappings structure with at
least one line and no empty segment (`WFMappings`, exactly the guard the code needs) -/
theorem mappings_roundtrip : ∀ m : Mappings, WFMappings m →
    (encodeMappings m >>= decodeMappings) = .ok m := by
  intro m h
  rw [encodeMappings_eq, ok_bind]
  exact decodeMappings_join m h.1 h.2

-- the hypothesis is satisfiable by a non-trivial value, and the conclusion computes
example : WFMappings [[[0, 0, 0, 0], [5, 0, -1, 3, 1]], [], [[-7]]] := by decide
example : encodeMappings [[[0, 0, 0, 0], [5, 0, -1, 3, 1]], [], [[-7]]]
    = .ok ['A', 'A', 'A', 'A', ',', 'K', 'A', 'D', 'G', 'C', ';', ';', 'P'] := by decide
-- why each guard is needed: no line at all comes back as one empty line …
example : (encodeMappings [] >>= decodeMappings) = .ok [[]] := by decide
-- … and an empty segment is dropped by `if frags`
example : (encodeMappings [[[1], []]] >>= decodeMappings) = .ok [[[1]]] := by decide
example : ¬ WFMappings [] ∧ ¬ WFMappings [[[1], []]] := by decide

/-! ### decode then encode, on canonical strings -/

/-- law 4: `encode_vlqs(decode_vlqs(s)) == s` for every canonical VLQ string -/
theorem encode_decode : ∀ s : List Char, Canonical s → (decodeVlqs s >>= encodeVlqs) = .ok s := by
  intro s h
  obtain ⟨l, rfl⟩ := canonical_surj h
  rw [decodeVlqs_encodeList, ok_bind]
  exact encodeVlqs_eq l

example : Canonical ['2', 'H', 'A', 'h', 'k', 'x', 'H', 'D'] := by decide
-- "gA" (redundant zero digit) and "B" (negative zero) decode, but are not canonical and do not come back
example : decodeVlqs ['g', 'A'] = .ok [0] ∧ ¬ Canonical ['g', 'A'] ∧
    (decodeVlqs ['g', 'A'] >>= encodeVlqs) = .ok ['A'] := by decide
example : decodeVlqs ['B'] = .ok [0] ∧ ¬ Canonical ['B'] ∧
    (decodeVlqs ['B'] >>= encodeVlqs) = .ok ['A'] := by decide
-- an unterminated trailing group is dropped silently by the decoder; not canonical either
example : decodeVlqs ['C', 'g'] = .ok [1] ∧ ¬ Canonical ['C', 'g'] := by decide
-- a character outside the alphabet is a KeyError
example : decodeVlqs ['C', '!'] = .error (.keyError '!') ∧ ¬ Canonical ['C', '!'] := by decide

/-- on ANY string the decoder either returns or raises the KeyError of a character
outside the base64 alphabet; in particular it returns on every alphabet-only string -/
theorem decode_raises_only_keyError : ∀ (s : List Char) (e : Err), decodeVlqs s = .error e →
    ∃ c ∈ s, c ∉ Spec.VlqV3.alphabet ∧ e = .keyError c :=
  fun s e h => vlqDecoder_error s 0 0 e h

/-- the canonical strings are exactly the encoder's outputs -/
theorem canonical_iff_encoding : ∀ s : List Char, Canonical s ↔ ∃ l : List Int, encodeVlqs l = .ok s := by
  intro s
  constructor
  · intro h
    obtain ⟨l, rfl⟩ := canonical_surj h
    exact ⟨l, encodeVlqs_eq l⟩
  · rintro ⟨l, hl⟩
    rw [encodeVlqs_eq] at hl
    cases hl
    exact canonical_encodeList l

/-- in particular every output of `encode_vlqs` is canonical -/
theorem canonical_encodes : ∀ l : List Int, ∃ s, encodeVlqs l = .ok s ∧ Canonical s :=
  fun l => ⟨encodeList l, encodeVlqs_eq l, canonical_encodeList l⟩

/-! ### independent decoders agree -/

/-- the independent V3 decoder reads every encoding back -/
theorem spec_decode_encode : ∀ i : Int, Spec.VlqV3.decode (Spec.VlqV3.encode i) = some [i] := by
  intro i
  have := decode_encodeList [i]
  simpa [encodeList] using this

theorem spec_decode_encodeList : ∀ l : List Int, Spec.VlqV3.decode (Spec.VlqV3.encodeList l) = some l :=
  decode_encodeList

example : Spec.VlqV3.decode ['2', 'H', 'F'] = some [123, -2] := by decide

/-- on canonical strings the code's decoder and the independent V3 decoder agree -/
theorem decoders_agree : ∀ s : List Char, Canonical s →
    ∃ l, decodeVlqs s = .ok l ∧ Spec.VlqV3.decode s = some l := by
  intro s h
  obtain ⟨l, rfl⟩ := canonical_surj h
  exact ⟨l, decodeVlqs_encodeList l, decode_encodeList l⟩

end CalmVerif.Props.C10
