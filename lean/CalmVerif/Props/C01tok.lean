/-
C01 / C20 (token level)  The token-level hypothesis `TokenTextsOK` of Props/C01typed (`parsed_tree_well_typed`) and
Props/C20typed, discharged from the lexer's regular expressions for every parse, modulo TWO decidable corner
conditions on the shifted ID tokens.

`token_texts_ok`: for every text and flag, if
  (1) `NoReservedAfterPeriod text wc`: no shifted token of type ID is spelled like a reserved word.  Since repo fix
      6e2598b the lexer types a reserved word directly after `.` as ID (Props.C06.id_keyword_iff: this is the ONLY way
      an ID token can have a reserved spelling); `sig "if"` is a reserved-word literal, which the bottom-up typing of
      Props/C01typed cannot place in `Identifier.value` (see the header of Props/C01typed.lean).  Known limitation,
      kept out as agreed.
  (2) `NoOddIdentStart text wc`: no shifted ID token STARTS with a character of `charKind` 2, i.e. an identifier
      character that Python's `\w` (the `required_space` regex of the unparser) does not match and that is not `$`.
      FINDING (genuine disagreement between the lexer and the printer's view of identifiers, not papered over):
      the lexer's identifier_start table (from UglifyJS) contains U+1885 and U+1886 (MONGOLIAN LETTER ALI GALI BALUDA /
      THREE BALUDA; general category Mn since Unicode 9, so not `\w`); they are the only such code points (enumerated
      over all code points in Python, not proved in Lean).  rt's slot class for `Identifier.value` (`wordSigs`) has
      no signature `word 2 _`, because the printers are really wrong there: `typeof ᢅ;` minifies to `typeofᢅ;`
      (one identifier — a different program) and `a in ᢅ` to `a inᢅ` (rejected).  This is the identifier-START
      sibling of KF-02c (`à in b` → `àin b`).
then `TokenTextsOK text wc`.  What is proved about the regular expressions versus `TokenAdj.sig`
(Proofs/TokenTexts*.lean): an ID lexeme is a run of identifier_start characters followed by identifier_part
characters, is no punctuator / `var `, hence has a `word f l` signature with `f ∈ {0,1}` under (2) and `l ∈ {0,1,2}`;
a NUMBER lexeme starts with a digit or `.digit` and ends with a digit, hex letter or `.`: signature `decInt`,
`numDot`, `num false 0` or `num true 0`; a STRING lexeme starts (and ends) with a quote: `str`; a REGEX lexeme is
`/x…/flags` with `x ∉ {/, *}`, at least 3 characters, ending in `/` or an alphanumeric flag: `regex 3` / `regex 0`;
a LINE_COMMENT starts with `//`, a BLOCK_COMMENT with `/*` (hidden comments are comment tokens of the text:
Proofs.Comments.reach_cfgOK); none of them ends with a line terminator.  Token types other than these four either
have a fixed spelling or are LINE_TERMINATOR / comments, which are never shifted (the parser has no action on them:
`markers_no_action`, and every shifted token had a shift action: `reach_hadShift`).
No other disagreement between `sig` and the token regular expressions was found: numbers (all spellings incl. `00`,
`08`→`0`,`8`, `1.`, `.5e3`, `0x1F`), strings, regular expressions with any flags, comments are all classified as
the slot table expects.
-/
import CalmVerif.Props.C01typed
import CalmVerif.Props.C20typed
import CalmVerif.Proofs.TokenTextsAll

namespace CalmVerif.Props.C01tok
open CalmVerif CalmVerif.Model CalmVerif.Model.LR CalmVerif.Model.Actions CalmVerif.TokenAdj CalmVerif.Unparse
open CalmVerif.Props.C01typed CalmVerif.Props.C11comp
open CalmVerif.Proofs.TokenTexts

/-- no shifted ID token is spelled like a reserved word (only possible directly after `.`, repo fix 6e2598b) -/
def NoReservedAfterPeriod (text : List Char) (wc : Bool) : Prop :=
  ∀ t ∈ shiftedTokens text wc, t.type = "ID" → reservedWords.contains (String.ofList t.value) = false

/-- no shifted ID token starts with an identifier character that is neither `\w` nor `$` (U+1885, U+1886) -/
def NoOddIdentStart (text : List Char) (wc : Bool) : Prop :=
  ∀ t ∈ shiftedTokens text wc, t.type = "ID" → ∀ c, t.value.head? = some c → charKind c ≠ 2

instance (text : List Char) (wc : Bool) : Decidable (NoReservedAfterPeriod text wc) := by
  unfold NoReservedAfterPeriod; infer_instance

instance (text : List Char) (wc : Bool) : Decidable (NoOddIdentStart text wc) := by
  unfold NoOddIdentStart
  exact List.decidableBAll _ _

/-- **T `token_texts_ok`** -/
theorem token_texts_ok (text : List Char) (wc : Bool)
    (h1 : NoReservedAfterPeriod text wc) (h2 : NoOddIdentStart text wc) : TokenTextsOK text wc := by
  have hreach : Reach Grammar.cached S Parser.source (C11tok.cfg0 text wc)
      (run Grammar.cached S Parser.source (Parser.parseFuel text) (C11tok.cfg0 text wc)).2 :=
    run_reach_snd (Parser.parseFuel text) _
  have := shifted_tokTextsOK hreach
    (fun t ht hty hm => by
      have := h1 t ht hty
      simp only [List.contains_eq_mem, decide_eq_false_iff_not] at this
      exact this hm)
    (fun t ht hty => h2 t ht hty)
  intro t ht
  exact this t ht

/-- `parsed_tree_well_typed` without a hypothesis on the token texts (modulo the two corner conditions) -/
theorem parsed_tree_well_typed' (text : List Char) (wc : Bool) (pv : PVal)
    (hparse : Parser.parse text wc = .accepted pv)
    (h1 : NoReservedAfterPeriod text wc) (h2 : NoOddIdentStart text wc) :
    (∃ attrs, pv.v = .node "ES5Program" attrs) ∧
    wfVal cxPretty pv.v = true ∧ wfVal cxMin0 pv.v = true ∧ wfVal cxMin1 pv.v = true ∧
    valAll endsOK anyStr pv.v = true :=
  parsed_tree_well_typed text wc pv hparse (token_texts_ok text wc h1 h2)

/-- C20 for parsed programs: every printed line is indented by the structural depth -/
theorem parsed_pretty_lines_indented' (text : List Char) (wc : Bool) (pv : PVal)
    (hparse : Parser.parse text wc = .accepted pv)
    (h1 : NoReservedAfterPeriod text wc) (h2 : NoOddIdentStart text wc)
    (indent : Option String) (chunks : List Chunk)
    (hw : walkChunks (prettyCfg indent) pv.v () = .ok (chunks, ()))
    (hi : indentOK (effIndent hdataGen indent) = true) :
    checkLines (effIndent hdataGen indent) (flushAll (prettyCfg indent) chunks none [] 0).1
        (printingDepths chunks 0) (some []) = true ∧
    (flushAll (prettyCfg indent) chunks none [] 0).2 = 0 :=
  C20typed.parsed_pretty_lines_indented text wc pv hparse (token_texts_ok text wc h1 h2) indent chunks hw hi

/-- C20 for parsed programs: the printed text ends with exactly one newline (or is empty) -/
theorem parsed_pretty_ends_with_one_newline' (text : List Char) (wc : Bool) (pv : PVal)
    (hparse : Parser.parse text wc = .accepted pv)
    (h1 : NoReservedAfterPeriod text wc) (h2 : NoOddIdentStart text wc)
    (indent : Option String) (chunks : List Chunk)
    (hw : walkChunks (prettyCfg indent) pv.v () = .ok (chunks, ()))
    (hi : indentOK (effIndent hdataGen indent) = true) :
    EndsWithOneNewline (charsOf (flushAll (prettyCfg indent) chunks none [] 0).1) :=
  C20typed.parsed_pretty_ends_with_one_newline text wc pv hparse (token_texts_ok text wc h1 h2) indent chunks hw hi

/-- the finding, as kernel-checked facts: U+1885 is an identifier_start character of the lexer with `charKind` 2, so
    the identifier `ᢅ` has the signature `word 2 2`, which `Identifier.value` does not admit; the side conditions
    hold for an ordinary text -/
example :
    TokenAdj.isIdStart (Char.ofNat 0x1885) = true ∧ charKind (Char.ofNat 0x1885) = 2 ∧
    sig (String.ofList [Char.ofNat 0x1885]) = .word 2 2 ∧
    wordSigs.contains (.word 2 2) = false := by
  decide +kernel

/-- non-vacuity: the side conditions hold for an ordinary program (so `token_texts_ok` applies to it), and (1) fails
    exactly in the corner it names -/
example :
    NoReservedAfterPeriod "a.b = /r/g + 0x1F;".toList false ∧ NoOddIdentStart "a.b = /r/g + 0x1F;".toList false ∧
    ¬ NoReservedAfterPeriod "a.if;".toList false := by
  decide +kernel

end CalmVerif.Props.C01tok
