/-
C08 / C11, end to end on the models: the positions the printers emit point at the source tokens.

`printed_positions_point_at_source_tokens`.  Take ANY text that `Model.Parser.parse text withComments` accepts, with
tree `pv.v`; ANY printer users can build from the generated rule sets (`Gen.Rules.ruleSets`: pretty printer with any
indent string, minifier with either `drop_semi`, the default printer, and the obfuscating ones — the Resolve hook is
arbitrary as long as it answers with strings, and so is its state); and ANY fragment `f` of the fragment stream
`Unparse.unparse cfg pv.v s` that carries an explicit position `(line, col)` other than the implied `(0, 0)`.  Then
  * there is a token `t` the parse SHIFTED (`shiftedTokens`) with `(line, col) = Spec.Lines.lineCol text t.lexpos`
    (1-based, ES5 line counting — the numbers the implementation stores), whose text is the text the position was
    looked up under (`posKey f`: the fragment's text, or the original name a renamed identifier records), or is the
    `,` that begins the comma run `posKey f` of an elision; `t` is a real token, in which case `text` at `t.lexpos`
    starts with `t.value`, or it is an inserted `AUTOSEMI` `;` (then the position is that of the token before
    which the semicolon was inserted: the one exempt case, a `;` that is not in the source);
  * or (only with comments) the position is the recorded position of a comment token `h` hidden under a shifted
    token, and `h`'s text is `posKey f`.
No hypothesis on tokens, trees or tables remains; the table facts are kernel decisions over the regenerated tables.

How it composes
  parser side   Props/C11tok `node_positions_ok` + `elision_runs_counted` (every node BUILT by a reduce call records its
                token texts at ES5-counted positions of shifted tokens) are lifted to every node OCCURRING in the
                accepted tree by the whole-tree lemma `Proofs.EndToEnd.allN_evalD` and the stack invariant `TreeInv`
                (Proofs/EndToEndRun.lean) — the bridge that was missing: `built_nodes_cover` alone does not say that the
                nodes of the returned tree are the built ones; `parsed_tree_designates` is that statement;
  unparser side Props/C08 `fragment_position_from_tokmap` (every explicit position is an entry, under `posKey f`, of the
                token map of a node of the tree the walk interpreted, or of the surrogate elision separator, whose
                map is empty);
  lexer side    `GoodCfg` (Proofs/ParserReach): a real shifted token is a rule match at its offset.
The source-map leg (Props/C09 `write_decodes`) is stated over `Model.SourceMap.Frag`, a different record from
`Unparse.Frag`; `sourcemap_segments_point_at_source_tokens` goes through the field-by-field conversion `toSmFrag`
(defined here — it is not part of any tied model; in the implementation the same tuples are passed on).
-/
import CalmVerif.Proofs.EndToEndRun
import CalmVerif.Props.C08
import CalmVerif.Props.C09
namespace CalmVerif.Props.C08end
open CalmVerif CalmVerif.Model CalmVerif.Model.LR CalmVerif.Model.Actions CalmVerif.Model.ActionDesc
open CalmVerif.Proofs.NodePos CalmVerif.Proofs.ActionsTotal CalmVerif.Proofs.ParserDrive
open CalmVerif.Proofs.LexerDrive CalmVerif.Proofs.EndToEnd
open CalmVerif.Props.C11comp CalmVerif.Props.C11tok
open CalmVerif.Unparse

/-- [D] attribute names of node descriptors never collide with `@pos` / `@tokmap` / `@comments` -/
theorem attr_names_ok : attrNamesOK Gen.Actions.actions = true := by
  decide +kernel

/-- the configuration at which `parse text wc` stops -/
def finalCfg (text : List Char) (wc : Bool) : PCfg :=
  (run Grammar.cached S Parser.source (Parser.parseFuel text) (cfg0 text wc)).2

/-- the tokens the parse of `text` shifted -/
def shiftedTokens (text : List Char) (wc : Bool) : List Lexer.Token := (finalCfg text wc).shifted

/-- **the accepted tree**: every token-map entry of every node occurring in it designates a shifted token (`Des`) -/
theorem parsed_tree_designates {text : List Char} {wc : Bool} {pv : PVal}
    (h : Parser.parse text wc = .accepted pv) :
    AllN (NodeP text (shiftedTokens text wc)) pv.v ∧ GoodCfg text (finalCfg text wc) := by
  have hreach : Reach Grammar.cached S Parser.source (cfg0 text wc) (finalCfg text wc) :=
    run_reach_snd (Parser.parseFuel text) _
  have hinv := reach_treeinv attr_names_ok hreach
  refine ⟨?_, config_good hreach⟩
  cases hr : run Grammar.cached S Parser.source (Parser.parseFuel text) (cfg0 text wc) with
  | mk o c' =>
    have ho : o = .accepted pv := by
      have : (run Grammar.cached S Parser.source (Parser.parseFuel text) (cfg0 text wc)).1 = .accepted pv := h
      rw [hr] at this; exact this
    have hc : finalCfg text wc = c' := by simp only [finalCfg, hr]
    subst ho
    rcases run_outcome _ _ _ _ hr with ho | ho
    · cases ho
    · have hmem := step_accepted_mem ho
      simp only [shiftedTokens, hc]
      rw [hc] at hinv
      exact (hinv pv hmem).1

theorem allN_subterm {P : String → List (String × Val) → Prop} {root n : Val} (h : AllN P root)
    (hs : Subterm root n) : AllN P n := by
  induction hs with
  | refl => exact h
  | attr k as a v _ hm ih => exact (allNAttrs_iff.mp ih.2) (a, v) hm
  | item xs v _ hm ih => exact (allNList_iff.mp ih) v hm

/-- the surrogate separator of `ElisionJoinAttr` never contributes an explicit position -/
theorem sep_no_position {n : Val} (hs : Subterm Gen.Defs.elisionSep n) (f : Frag) : ¬ FromTokmap n f := by
  have hcases : n = Gen.Defs.elisionSep ∨ n = .list [] ∨ n = .int 1 := by
    induction hs with
    | refl => exact Or.inl rfl
    | attr k as a v _ hm ih =>
      rcases ih with ih | ih | ih
      · simp only [Gen.Defs.elisionSep, Val.node.injEq] at ih
        obtain ⟨_, rfl⟩ := ih
        simp only [List.mem_cons, Prod.mk.injEq, List.mem_nil_iff, or_false] at hm
        rcases hm with ⟨_, rfl⟩ | ⟨_, rfl⟩
        · exact Or.inr (Or.inl rfl)
        · exact Or.inr (Or.inr rfl)
      · cases ih
      · cases ih
    | item xs v _ hm ih =>
      rcases ih with ih | ih | ih
      · simp [Gen.Defs.elisionSep] at ih
      · simp only [Val.list.injEq] at ih; subst ih; simp at hm
      · cases ih
  rintro ⟨tm, ps, p, htm, hget, hp, _⟩
  rcases hcases with rfl | rfl | rfl
  · simp only [Gen.Defs.elisionSep, nodeAttr, lookupAttr, beq_self_eq_true, if_true, Option.some.injEq,
      Val.list.injEq] at htm
    subst htm
    simp only [tokmapGet, Except.ok.injEq] at hget
    subst hget
    simp at hp
  · simp [nodeAttr] at htm
  · simp [nodeAttr] at htm

/-- **T `printed_positions_point_at_source_tokens`** -/
theorem printed_positions_point_at_source_tokens {σ : Type} (text : List Char) (wc : Bool) (pv : PVal)
    (hparse : Parser.parse text wc = .accepted pv)
    (rs : RuleSet) (hrs : rs ∈ Gen.Rules.ruleSets) (indent : Option String)
    (hook : Path → Val → σ → Except Unparse.Err (Val × σ))
    (hhook : ∀ path node s v s', hook path node s = .ok (v, s') → ∃ t, v = .str t)
    (s : σ) (fs : List Frag) (hun : unparse (mkCfg tablesGen rs indent hook) pv.v s = .ok fs) :
    ∀ f ∈ fs, ∀ l c : Int, f.line = some l → f.col = some c → ¬ (l = 0 ∧ c = 0) →
      (∃ t ∈ shiftedTokens text wc,
        l = ((Spec.Lines.lineCol text t.lexpos).1 : Int) ∧ c = ((Spec.Lines.lineCol text t.lexpos).2 : Int) ∧
        (String.ofList t.value = posKey f ∨ (String.ofList t.value = "," ∧ ∃ k, posKey f = Actions.commas k)) ∧
        ((t.auto = false ∧ (text.drop t.lexpos).take t.value.length = t.value) ∨
         (t.auto = true ∧ t.type = "AUTOSEMI" ∧ t.value = [';']))) ∨
      (∃ t ∈ shiftedTokens text wc, ∃ h ∈ t.hidden,
        l = (h.lineno : Int) ∧ c = h.colno ∧ String.ofList h.value = posKey f) := by
  obtain ⟨htree, hgood⟩ := parsed_tree_designates hparse
  intro f hf l c hl hc hne
  have hpos := C08.fragment_position_from_tokmap (mkCfg tablesGen rs indent hook) C08.space_fragments_unpositioned
    (C08.mkCfg_resolveStr rs hrs indent hook hhook) pv.v s fs hun f hf
  rcases hpos with ⟨h1, _⟩ | ⟨h1, h2⟩ | ⟨n, src, _, hsub, hft⟩
  · rw [hl] at h1; cases h1
  · rw [hl] at h1; rw [hc] at h2
    simp only [Option.some.injEq] at h1 h2
    exact absurd ⟨h1, h2⟩ hne
  · rcases hsub with hsub | hsub
    · -- a node of the parsed tree
      obtain ⟨tm, ps, p, htm, hget, hp, hposOf⟩ := hft
      have hn := allN_subterm htree hsub
      cases n with
      | node k as =>
        simp only [nodeAttr] at htm
        have hdes := hn.1 tm (posKey f) ps p htm hget hp
        rcases hdes with ⟨t, ht, hcp, hval⟩ | ⟨t, ht, h, hh, rfl, hval⟩
        · left
          have hg : Good text (finalCfg text wc).src.newlineIdx t := hgood.2.1 t ht
          have hauto : (t.auto = false ∧ (text.drop t.lexpos).take t.value.length = t.value) ∨
              (t.auto = true ∧ t.type = "AUTOSEMI" ∧ t.value = [';']) := by
            cases ha : t.auto with
            | false => exact Or.inl ⟨rfl, (hg.1 ha).2.2.1⟩
            | true => exact Or.inr ⟨rfl, (hg.2 ha).1, (hg.2 ha).2.1⟩
          rcases hcp with ⟨_, hln, rfl⟩ | ⟨_, _, rfl⟩
          · simp only [posVal, Unparse.posOf, Except.ok.injEq, Prod.mk.injEq] at hposOf
            rw [hl, hc] at hposOf
            simp only [Option.some.injEq] at hposOf
            refine ⟨t, ht, ?_, ?_, hval, hauto⟩
            · rw [← hposOf.1, hln]
            · rw [← hposOf.2]; simp
          · -- the AUTOSEMI inserted at the end of the input records (0, 0)
            exfalso
            simp only [posVal, Unparse.posOf, Except.ok.injEq, Prod.mk.injEq] at hposOf
            rw [hl, hc] at hposOf
            simp only [Option.some.injEq] at hposOf
            exact hne ⟨by simpa using hposOf.1.symm, by simpa using hposOf.2.symm⟩
        · right
          simp only [posVal, Unparse.posOf, Except.ok.injEq, Prod.mk.injEq] at hposOf
          rw [hl, hc] at hposOf
          simp only [Option.some.injEq] at hposOf
          exact ⟨t, ht, h, hh, hposOf.1.symm, hposOf.2.symm, hval⟩
      | _ => simp [nodeAttr] at htm
    · exact absurd hft (sep_no_position hsub f)

/-! ### through the source map -/

/-- the `source` element as `sourcemap.write` sees it -/
def toSmSrc : Unparse.Src → Option SourceMap.Src
  | .none => none
  | .notImpl => some .invalid
  | .path s => some (.path s.toList)

/-- a fragment of the printers, field by field, as the record of `Model.SourceMap` (`sourcemap.write` receives the
    very tuples the printer yields; line and column are never negative) -/
def toSmFrag (f : Unparse.Frag) : SourceMap.Frag :=
  { text := f.text.toList, lineno := f.line.map Int.toNat, colno := f.col.map Int.toNat,
    name := f.name.map String.toList, source := toSmSrc f.source }

open CalmVerif.Model.SourceMap CalmVerif.Spec.SourceMapV3 CalmVerif.Proofs.SourceMap in
/-- **T `sourcemap_segments_point_at_source_tokens`**: parse, print with any printer of the generated rule sets, write
    the source map of the fragment stream (`normalize = False`) and decode it with the Spec V3 decoder.  For the
    `i`-th fragment `f`, non-empty and explicitly positioned at (line `l + 1`, column `c + 1`): at the generated
    position of `f` (`genLC`) the decoded map has a segment whose source line / column are `l` / `c` (zero-based) and
    whose name index designates the recorded original name — and (`l + 1`, `c + 1`) is the ES5-counted position in
    `text` of a shifted token with the text `posKey f` (… as in `printed_positions_point_at_source_tokens`).
    `NoSplitCRLF` (no CR LF pair split across two fragments) is the guard of Props/C09, necessary there. -/
theorem sourcemap_segments_point_at_source_tokens {σ : Type} (text : List Char) (wc : Bool) (pv : PVal)
    (hparse : Parser.parse text wc = .accepted pv)
    (rs : RuleSet) (hrs : rs ∈ Gen.Rules.ruleSets) (indent : Option String)
    (hook : Path → Val → σ → Except Unparse.Err (Val × σ))
    (hhook : ∀ path node s v s', hook path node s = .ok (v, s') → ∃ t, v = .str t)
    (s : σ) (fs : List Unparse.Frag) (hun : unparse (mkCfg tablesGen rs indent hook) pv.v s = .ok fs)
    (cc : CharClasses) (hcc : ClassesOK cc) (hns : C09.NoSplitCRLF (fs.map toSmFrag))
    (i : Nat) (f : Unparse.Frag) (l c : Nat) (hi : fs[i]? = some f) (hne : f.text ≠ "")
    (hl : f.line = some ((l + 1 : Nat) : Int)) (hc : f.col = some ((c + 1 : Nat) : Int)) :
    (∃ r D e, ∃ si : Nat,
      write cc false (fs.map toSmFrag) = some r ∧ decode r.mappings = some D ∧
      exactAt (lineAt D (C09.genLC (fs.map toSmFrag) i).1) (C09.genLC (fs.map toSmFrag) i).2 = some e ∧
      e.genCol = (C09.genLC (fs.map toSmFrag) i).2 ∧
      e.src = some ((si : Int), (l : Int), (c : Int)) ∧
      C09.SourceClause (fs.map toSmFrag) i r.sources si ∧
      (match f.name with
        | none => e.name = none
        | some nm => ∃ ni : Nat, e.name = some (ni : Int) ∧ r.names[ni]? = some nm.toList)) ∧
    ((∃ t ∈ shiftedTokens text wc,
        (Spec.Lines.lineCol text t.lexpos).1 = l + 1 ∧ (Spec.Lines.lineCol text t.lexpos).2 = c + 1 ∧
        (String.ofList t.value = posKey f ∨ (String.ofList t.value = "," ∧ ∃ k, posKey f = Actions.commas k)) ∧
        ((t.auto = false ∧ (text.drop t.lexpos).take t.value.length = t.value) ∨
         (t.auto = true ∧ t.type = "AUTOSEMI" ∧ t.value = [';']))) ∨
     (∃ t ∈ shiftedTokens text wc, ∃ h ∈ t.hidden,
        h.lineno = l + 1 ∧ h.colno = ((c + 1 : Nat) : Int) ∧ String.ofList h.value = posKey f)) := by
  constructor
  · have hex : C09.ExplicitAt (fs.map toSmFrag) i (toSmFrag f) l c := by
      refine ⟨by simp [hi], ?_, by simp [toSmFrag, hl], by simp [toSmFrag, hc]⟩
      intro h
      apply hne
      simp only [toSmFrag] at h
      exact String.ext (by simpa using h)
    obtain ⟨r, D, e, si, h1, h2, h3, h4, h5, h6, h7⟩ := C09.write_decodes cc hcc (fs.map toSmFrag) hns i _ l c hex
    refine ⟨r, D, e, si, h1, h2, h3, h4, h5, h6, ?_⟩
    cases hn : f.name with
    | none => simpa [toSmFrag, hn] using h7
    | some nm => simpa [toSmFrag, hn] using h7
  · have hmem : f ∈ fs := List.mem_of_getElem? hi
    have := printed_positions_point_at_source_tokens text wc pv hparse rs hrs indent hook hhook s fs hun f hmem
      _ _ hl hc (by intro h; have := h.1; omega)
    rcases this with ⟨t, ht, h1, h2, h3, h4⟩ | ⟨t, ht, h, hh, h1, h2, h3⟩
    · exact Or.inl ⟨t, ht, by omega, by omega, h3, h4⟩
    · exact Or.inr ⟨t, ht, h, hh, by omega, h2.symm, h3⟩

/-! ### non-vacuity -/

/-- `a⏎;` parses, and the pretty printer's fragment stream carries the explicit positions 1:1 for `a` and 2:1 for the
    `;` (a real token on the second line) -/
def demo : Bool :=
  match Parser.parse ['a', '\n', ';'] false with
  | .accepted pv =>
    (match unparse (prettyCfg none) pv.v () with
     | .ok fs => fs.map (fun (f : Unparse.Frag) => (f.text, f.line, f.col)) ==
         [("a", some 1, some 1), (";", some 2, some 1), ("\n", some 0, some 0)]
     | .error _ => false)
  | _ => false

set_option maxRecDepth 100000 in
/-- the hypotheses of the theorems are satisfiable (accepted parse, successful print, explicit positions) -/
example : demo = true := by decide +kernel

end CalmVerif.Props.C08end
