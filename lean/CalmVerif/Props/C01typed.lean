/-
C01 / C02 / C20  Every tree the parser model accepts is WELL TYPED under builder rt's slot typing of ES5 trees
(`TokenAdj.es5Slot` / `wfVal`) — the tree hypothesis of the typed theorems `C01.pretty_stream_typed`,
`C02.minify0/1_stream_typed`, `C20.pretty_lines_indented_typed`, `C20.pretty_text_ends_with_one_newline_typed` (corollaries: Props/C20typed.lean) —
and none of its printed string values ends with a line terminator (`valAll endsOK anyStr`, the other tree hypothesis of
the C20 theorems).

WHICH VALUE.  The typed theorems quantify over `Val` trees `.node K attrs`; the unparser model is run on exactly the
value `pv.v` that `Model.Parser.parse text wc = .accepted pv` returns (attributes in construction order, `@pos` /
`@tokmap` / `@comments` included): no conversion is applied, none is assumed.  (`drv_rt wf` of the harness evaluates
`wfVal` on the treedump of the implementation's tree, i.e. the `Actions.canon` form — attributes sorted; `wfVal` and
`valAll` do not depend on attribute order, but that invariance is NOT proved here.)  `wfVal cx` reads only `cx.slot`,
which is `es5Slot` for `cxPretty`, `cxMin0` and `cxMin1`: the three statements are proved alike.

HOW.  A typing of the semantic values of the parser model (Proofs/ParsedTypedDefs.lean): per grammar symbol the types
none / int ≥ 1 / string with boundary signature in a set / well-typed node of kind k / list of well-typed nodes of
given kinds / `idname` (the transient `Identifier` node of a reserved word used as a property name: it only ever feeds
`PropIdentifier`, whose slot allows reserved words — such a node is NOT well typed and never reaches the tree).
  * `cert`               the UNTRUSTED certificate (Proofs/ParsedTypedCert.lean), computed from the regenerated
                         `Gen.Actions.shapes` / `listElems` and the grammar and normalised at elaboration time;
                         terminals: the signature of their fixed spelling, or the class of ID / NUMBER / STRING / REGEX;
  * `actions_typed` [D]  the kernel decides `closedT`: for every production and every row of its action, under the row's
                         conditions, every attribute of every node the row builds gets a value whose type fits
                         `es5Slot kind attribute`, and the type of the result is in the certificate of the left-hand side;
  * `accept_entry_ok` [D] the accepted value belongs to a nonterminal whose only type is `wf "ES5Program"`;
  * soundness            Proofs/ParsedTyped.lean (`tyD_sound`, through `evalD` incl. the elision mutations and the comment
                         nodes), lifted to all reachable configurations by `Lifts` / `reach_ginv` (Proofs/ParsedTypedRun).

THE TOKEN-LEVEL HYPOTHESIS `TokenTextsOK text wc`, exactly: for every token `t` the parse shifts
  (a) if the terminal of `t` has no fixed spelling (these are ID, NUMBER, STRING, REGEX: `variable_text_terminals`):
      `sig t.value` is in the class of that terminal — an identifier-like word that is no reserved word for ID; a
      number spelling for NUMBER; starts with a quote for STRING; a regular-expression literal for REGEX — and
      `t.value` does not end with a line terminator;
  (b) every comment token hidden under `t`: a LINE_COMMENT starts with `//`, a BLOCK_COMMENT with `/*`
      (`sig … = lineComment / blockComment`), and its text does not end with a line terminator.
LIMITATION of (a) since repo fix 6e2598b (a reserved word directly after `.` is typed ID by the lexer): for a text such
as `a.if` the ID token `if` is NOT identifier-like (`sig "if"` is a reserved-word literal), so `TokenTextsOK` is false
of it and the theorem says nothing, although the tree is well typed (the transient `Identifier` node feeds
`PropIdentifier`, whose slot allows reserved words).  Covering it needs a context-sensitive fact this bottom-up typing
cannot express: "an ID token with a reserved spelling is shifted only directly after PERIOD, where only
`identifier_name_string` can follow".  Reserved words as property names in object literals (`{if: 1}`, keyword tokens,
`reserved_word` productions) ARE covered (type `idname`).
These are facts about the lexer's regular expressions (the ID rule matches identifier spellings only, …; the line
comment rule stops before the terminator) that no delivered lexer theorem states in terms of `TokenAdj.sig`; they are
NOT proved here.  For all terminals WITH a fixed spelling (punctuators, keywords, AUTOSEMI, get / set) the facts are
proved: `Props.C11tok.shifted_tokens_spellingOK` + the kernel decision `fixed_spellings_ok`.
-/
import CalmVerif.Proofs.ParsedTypedCert2
import CalmVerif.Props.C11tok
import CalmVerif.Proofs.RoundTripCertPretty
import CalmVerif.Proofs.RoundTripCertMin0
import CalmVerif.Proofs.RoundTripCertMin1
namespace CalmVerif.Props.C01typed
open CalmVerif CalmVerif.Model CalmVerif.Model.LR CalmVerif.Model.Actions CalmVerif.Model.ActionDesc
open CalmVerif.Proofs.NodePos CalmVerif.Proofs.ParsedTyped CalmVerif.TokenAdj CalmVerif.Unparse
open CalmVerif.Props.C11comp
open CalmVerif.Gen.Tables.Cached

/-! ### D: the table obligations (decided in Proofs/ParsedTypedCert*.lean, about the certificate `cert` defined there) -/

/-- [D] every semantic action builds well-typed nodes from well-typed arguments -/
theorem actions_typed : closedT cert Grammar.cached Gen.Actions.actions = true := cert_closed

/-- [D] the accepted value belongs to a nonterminal whose only type is a well-typed `ES5Program` node -/
theorem accept_entry_ok : acceptEntryOK cert Grammar.cached Gen.Tables.Cert.acc = true := cert_accept_entry

/-- [D] the terminals without a fixed spelling -/
theorem variable_text_terminals :
    ((List.range numTerminals).filter fun i => (termSpelling[i]?).getD "" == "").map (fun i => (terminals[i]?).getD "")
      = ["$end", "ID", "NUMBER", "REGEX", "STRING", "error"] := variable_text_terminals_dec

/-- [D] a fixed spelling has the signature the certificate gives its terminal, and does not end with a line
    terminator -/
theorem fixed_spellings_ok {i : Nat} {s : String} (hs : termSpelling[i]? = some s) (hne : s ≠ "") :
    ((cert.termSigs[i]?).getD []).contains (sig s) = true ∧ endsOK s = true := fixed_spelling_ok hs hne

theorem prod0_ok : prod0OK C11.g = true := by
  have := extra_ok
  simp only [extraOK, Bool.and_eq_true] at this
  exact this.1.1

/-- non-vacuity of the check: if `Identifier.value` did not allow identifier spellings (here: only numbers), the
    action of `identifier : ID` would not type -/
example : tyD [[Ty.str [.decInt]]] (.node "Identifier" [("value", .slot 1)] (.at 1 0) [1] [] none) = none := by
  decide +kernel

/-! ### the token-level hypothesis -/

/-- the tokens the parse of `text` shifted -/
def shiftedTokens (text : List Char) (wc : Bool) : List Lexer.Token :=
  (run Grammar.cached S Parser.source (Parser.parseFuel text) (C11tok.cfg0 text wc)).2.shifted

/-- see the file header: the class of the text of ID / NUMBER / STRING / REGEX tokens, the spelling of hidden comment
    tokens, and no such text ends with a line terminator -/
def TokenTextsOK (text : List Char) (wc : Bool) : Prop :=
  ∀ t ∈ shiftedTokens text wc,
    ((termSpelling[S.ty t]?).getD "" = "" →
      ((cert.termSigs[S.ty t]?).getD []).contains (sig (String.ofList t.value)) = true ∧
      endsOK (String.ofList t.value) = true) ∧
    ∀ h ∈ t.hidden,
      (h.type = "LINE_COMMENT" → sig (String.ofList h.value) = .lineComment) ∧
      (h.type = "BLOCK_COMMENT" → sig (String.ofList h.value) = .blockComment) ∧
      endsOK (String.ofList h.value) = true

instance (text : List Char) (wc : Bool) : Decidable (TokenTextsOK text wc) := by
  unfold TokenTextsOK; infer_instance

theorem tokTextOK_of {text : List Char} {wc : Bool} (h : TokenTextsOK text wc) :
    ∀ t ∈ shiftedTokens text wc, TokTextOK cert S.ty t := by
  intro t ht
  obtain ⟨hvar, hhid⟩ := h t ht
  have hreach : Reach Grammar.cached S Parser.source (C11tok.cfg0 text wc)
      (run Grammar.cached S Parser.source (Parser.parseFuel text) (C11tok.cfg0 text wc)).2 :=
    run_reach_snd (Parser.parseFuel text) _
  by_cases hs : (termSpelling[S.ty t]?).getD "" = ""
  · exact ⟨(hvar hs).1, (hvar hs).2, hhid⟩
  · -- a terminal with a fixed spelling: the token has that spelling
    have hlt : S.ty t < numTerminals := by
      by_cases hlt : S.ty t < numTerminals
      · exact hlt
      · exfalso
        apply hs
        have hlen : termSpelling.length ≤ S.ty t := by
          have : termSpelling.length = numTerminals := termSpelling_length
          omega
        rw [List.getElem?_eq_none hlen]; rfl
    obtain ⟨s, hsome⟩ : ∃ s, termSpelling[S.ty t]? = some s := by
      cases hq : termSpelling[S.ty t]? with
      | none => rw [hq] at hs; exact absurd rfl hs
      | some s => exact ⟨s, rfl⟩
    have hne : s ≠ "" := by
      intro h0; apply hs; rw [hsome, h0]; rfl
    have hval : String.ofList t.value = s :=
      C11tok.shifted_tokens_spellingOK hreach t ht s hsome hne
    obtain ⟨h1, h2⟩ := fixed_spellings_ok hsome hne
    refine ⟨?_, ?_, hhid⟩
    · rw [hval]; exact h1
    · rw [hval]; exact h2

/-! ### the theorems -/

/-- the accepted tree, for any context whose slot typing is `es5Slot` -/
theorem parsed_good {cx : TokenAdj.Ctx} (hslot : cx.slot = es5Slot) {text : List Char} {wc : Bool} {pv : PVal}
    (hparse : Parser.parse text wc = .accepted pv) (htok : TokenTextsOK text wc) :
    ∃ attrs, pv.v = .node "ES5Program" attrs ∧ wfVal cx pv.v = true ∧ valAll endsOK anyStr pv.v = true := by
  have hreach : Reach Grammar.cached S Parser.source (C11tok.cfg0 text wc)
      (run Grammar.cached S Parser.source (Parser.parseFuel text) (C11tok.cfg0 text wc)).2 :=
    run_reach_snd (Parser.parseFuel text) _
  have hinv := reach_ginv C03.tables_valid
    (ty_lifts (cx := cx) (cert := cert) hslot gt prod0_ok parser_ty_le actions_typed parser_actsem)
    (ginv_init _) hreach
  have htoks := tokTextOK_of htok
  unfold shiftedTokens at htoks
  cases hr : run Grammar.cached S Parser.source (Parser.parseFuel text) (C11tok.cfg0 text wc) with
  | mk o c' =>
    have ho : o = .accepted pv := by
      have : (run Grammar.cached S Parser.source (Parser.parseFuel text) (C11tok.cfg0 text wc)).1 = .accepted pv :=
        hparse
      rw [hr] at this; exact this
    rw [hr] at hinv htoks
    subst ho
    rcases run_outcome _ _ _ _ hr with ho | ho
    · cases ho
    · obtain ⟨as, hv, hg⟩ := accepted_good hslot C03.tables_valid accept_entry_ok hinv htoks ho
      exact ⟨as, hv, hg.1, hg.2⟩

/-- **T `parsed_tree_well_typed`**: the tree `parse` returns is an `ES5Program` node that respects the slot typing
    `es5Slot` — in the context of the pretty printer and of both minifiers — and none of its printed string values
    ends with a line terminator; under the token-level hypothesis `TokenTextsOK` (file header) only -/
theorem parsed_tree_well_typed (text : List Char) (wc : Bool) (pv : PVal)
    (hparse : Parser.parse text wc = .accepted pv) (htok : TokenTextsOK text wc) :
    (∃ attrs, pv.v = .node "ES5Program" attrs) ∧
    wfVal cxPretty pv.v = true ∧ wfVal cxMin0 pv.v = true ∧ wfVal cxMin1 pv.v = true ∧
    valAll endsOK anyStr pv.v = true := by
  obtain ⟨as, hv, h1, he⟩ := parsed_good (cx := cxPretty) rfl hparse htok
  obtain ⟨_, _, h2, _⟩ := parsed_good (cx := cxMin0) rfl hparse htok
  obtain ⟨_, _, h3, _⟩ := parsed_good (cx := cxMin1) rfl hparse htok
  exact ⟨⟨as, hv⟩, h1, h2, h3, he⟩

/-! ### non-vacuity -/

/-- the token-level hypothesis is satisfiable (and decidable for a concrete text): `x={if:1}` — a reserved word
    used as a property name, the case the transient type `idname` is for -/
example : TokenTextsOK ['x', '=', '{', 'i', 'f', ':', '1', '}'] false := by decide +kernel

end CalmVerif.Props.C01typed
