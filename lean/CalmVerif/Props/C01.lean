/-
C01  Pretty-printed output parses back to the same tree and is a fixpoint.

Property theorems only (helper lemmas: Proofs/RoundTrip*.lean).  `Model.Unparse` mirrors the unparser over the
regenerated tables `Gen.Defs` / `Gen.Rules`; `prettyCfg indent` is the Dispatcher of
`pretty_printer(indent_str=indent)`, `unparse cfg tree ()` the fragment list or the exception raised,
`textOf` the printed text.  Trees are generic `Val`s (wire format of harness/treedump.py).

What is proved here
  (b) fixpoint reduction, for ALL trees and ALL indent strings:
      `print_ignores_positions`  erasing `@pos`, `@tokmap`, `@sourcepath` everywhere never changes the printed text
                                 (and can only remove exceptions);
      `pretty_fixpoint`          if the tree read back from the output has the same structure as `t`, printing it
                                 reproduces the output byte for byte.
  (a)/(c) table-level facts about the separator decision (`required_space` truth table) and the negation of the
      full round-trip statement on the witness of the known finding KF-01 (`1 .x` prints `1.x`).
What is NOT proved (rests on the judge of harness/checks/C01.py, which runs the real parser and the ES5 reference
parser on every output): the lexical layer for all trees (`pretty_relexes`) and the grammar layer.
-/
import CalmVerif.Proofs.RoundTripFuel
import CalmVerif.Proofs.RoundTripSafePretty
import CalmVerif.Proofs.RoundTripSepPretty
import CalmVerif.Proofs.RoundTripPairs
namespace CalmVerif.Props.C01
open CalmVerif CalmVerif.Unparse CalmVerif.TokenAdj

/-- the text `pretty_print(tree, indent_str=indent)` returns, or the exception -/
def prettyText (indent : Option String) (tree : Val) : Except Err String :=
  (unparse (prettyCfg indent) tree ()).map textOf

/-! ### (b) the printed text depends on kinds, attributes and string values only -/

/-- `print_ignores_positions`.  For every tree, every indent string: if the pretty printer prints `tree`, it prints
the tree with ALL positional metadata erased (`eraseVal`: no `@pos`, `@tokmap`, `@sourcepath` on any node, comments
kept) to the same text, run with the same fuel.  (Erasing can only remove exceptions: `getpos` on a node without a
token map never raises — hence one direction.) -/
theorem print_ignores_positions (indent : Option String) (tree : Val) (fs : List Frag)
    (h : unparse (prettyCfg indent) tree () = .ok fs) :
    ∃ fs', unparseAt (prettyCfg indent) (fuelFor (prettyCfg indent) tree) (eraseVal tree) () = .ok fs' ∧
      textOf fs' = textOf fs := by
  rw [unparse_eq_unparseAt] at h
  exact unparseAt_erase (prettyCfg_noHooks indent) (prettyCfg_plainTok indent) _ tree () fs h

/-- the same for every plain Dispatcher configuration (no Declare / Resolve / Structure hooks, default token
handler): in particular the minifier without obfuscation (Props/C02) -/
theorem print_ignores_positions_any {σ : Type} (cfg : Cfg σ) (hc : NoHooks cfg) (ht : PlainTok cfg) (fuel : Nat)
    (tree : Val) (s : σ) (fs : List Frag) (h : unparseAt cfg fuel tree s = .ok fs) :
    ∃ fs', unparseAt cfg fuel (eraseVal tree) s = .ok fs' ∧ textOf fs' = textOf fs :=
  unparseAt_erase hc ht fuel tree s fs h

/-- more fuel never changes a successful print (the fuel is a model artefact) -/
theorem print_fuel_irrelevant {σ : Type} (cfg : Cfg σ) (fuel fuel' : Nat) (hle : fuel ≤ fuel') (tree : Val) (s : σ)
    (fs : List Frag) (h : unparseAt cfg fuel tree s = .ok fs) : unparseAt cfg fuel' tree s = .ok fs :=
  unparseAt_mono cfg fuel fuel' hle tree s fs h

/-- `pretty_fixpoint`.  Let `out` be the pretty print of `t`.  For ANY tree `t'` with the same structure as `t`
(`SameStructure t t'`: equal after erasing positions — in particular the tree the parser reads back from `out` when
the round trip `parse (P t) ≅ t` holds), whenever `t'` prints at all it prints exactly `out`:
`parse (P t) ≅ t → P (parse (P t)) = P t`. -/
theorem pretty_fixpoint (indent : Option String) (t t' : Val) (out out' : String)
    (h : prettyText indent t = .ok out) (hs : SameStructure t t') (h' : prettyText indent t' = .ok out') :
    out' = out := by
  obtain ⟨fs, h1, rfl⟩ := except_map_ok h
  obtain ⟨fs', h2, rfl⟩ := except_map_ok h'
  exact unparse_sameStructure (prettyCfg_noHooks indent) (prettyCfg_plainTok indent) t t' () fs fs' hs h1 h2

/-- non-vacuity: `{ a; }` parsed (positions, token maps) and hand-built (none) have the same structure, both print -/
def withPos : Val :=
  .node "ES5Program" [("@pos", .list [.int 0, .int 1, .int 1]), ("@tokmap", .list []), ("children", .list [
    .node "Block" [("@pos", .list [.int 0, .int 1, .int 1]),
      ("@tokmap", .list [.list [.str "{", .list [.list [.int 0, .int 1, .int 1]]], .list [.str "}", .list [.list [.int 5, .int 1, .int 6]]]]),
      ("children", .list [
        .node "ExprStatement" [("@pos", .list [.int 2, .int 1, .int 3]), ("@tokmap", .list [.list [.str ";", .list [.list [.int 3, .int 1, .int 4]]]]),
          ("expr", .node "Identifier" [("@pos", .list [.int 2, .int 1, .int 3]), ("@tokmap", .list [.list [.str "a", .list [.list [.int 2, .int 1, .int 3]]]]),
            ("value", .str "a")])]])]])]

def withoutPos : Val :=
  .node "ES5Program" [("children", .list [
    .node "Block" [("children", .list [
      .node "ExprStatement" [("expr", .node "Identifier" [("value", .str "a")])]])]])]

example : SameStructure withPos withoutPos := by
  simp [SameStructure, withPos, withoutPos, eraseVal, eraseList, eraseAttrs, posMeta]
set_option maxRecDepth 100000 in
example : prettyText (some "\t") withPos = .ok "{\n\ta;\n}\n" ∧ prettyText (some "\t") withoutPos = .ok "{\n\ta;\n}\n" :=
  ⟨printsText_spec (by decide), printsText_spec (by decide)⟩

/-! ### D: the separator decision over the regenerated `required_space` truth table -/

def asciiWord : List Char := "abcdefghijklmnopqrstuvwxyzABCDEFGHIJKLMNOPQRSTUVWXYZ0123456789_".toList

/-- `required_space` (as compiled, evaluated by the translator on every code point) asks for a separator between
any two ASCII word characters, between a word character and `$` either way, between `+ +` and between `- -`;
and it does not between `+ -`, `- +`, `$ $`. -/
theorem space_table_word_pairs :
    (asciiWord.all fun a => asciiWord.all fun b => requiredSpaceGen a b) = true ∧
    (asciiWord.all fun a => requiredSpaceGen a '$' && requiredSpaceGen '$' a) = true ∧
    requiredSpaceGen '+' '+' = true ∧ requiredSpaceGen '-' '-' = true ∧
    requiredSpaceGen '+' '-' = false ∧ requiredSpaceGen '-' '+' = false ∧ requiredSpaceGen '$' '$' = false := by
  decide +kernel

/-- the pretty rule set separates the operands of every binary operator by an unconditional space
(`Space ↦ space_imply`), so no two operand / operator tokens of a `BinOp` ever touch in pretty output -/
theorem pretty_binop_spaces_unconditional :
    lookupLayout Gen.Rules.rs_indent.layout (LKey.single .Space) = some .spaceImply ∧
    lookupLayout Gen.Rules.rs_indent.layout (LKey.single .RequiredSpace) = some .spaceImply ∧
    defTags Gen.Defs.definitions "BinOp" =
      some ["comments", "attr:left", "layout:Space", "operator:op", "layout:Space", "attr:right"] := by
  decide

/-! ### the full statement is false of the code: KF-01 -/

/-- `1 .x;` as the parser reads it (structure) -/
def kf01 : Val := (.node "ES5Program" [("children", (.list [(.node "ExprStatement" [("expr", (.node "DotAccessor" [("identifier", (.node "PropIdentifier" [("value", (.str "x"))])), ("node", (.node "Number" [("value", (.str "1"))]))]))])]))])

/-- the `DotAccessor` definition puts nothing between the object and the `.` -/
theorem dotaccessor_has_no_separator :
    defTags Gen.Defs.definitions "DotAccessor" = some ["comments", "attr:node", "text:.", "attr:identifier"] := by
  decide

set_option maxRecDepth 100000 in
/-- negation of the round trip on the witness: the member access on the integer literal `1` prints as `1.x;` — the
characters of the number token `1.` followed by an identifier, which every ES5 lexer rejects (7.8.3) -/
theorem kf01_witness : prettyText (some "  ") kf01 = .ok "1.x;\n" := printsText_spec (by decide)

/-! ### (a) lexical layer, parts (1)–(3): token classes, first / last certificates, the follow relation

`Model/TokenAdj.lean`: `classify` / `sig` (class and boundary signature of a fragment text), `Sym` (token signature
or layout marker), the slot typing `es5Slot` of ES5 trees with `wfVal` (a tree respects it), the abstract
interpretation `absRules` of a definition, `certPretty` (first / last symbol sets per node kind, computed by fixpoint
iteration over Gen.Defs × Gen.Rules.rs_indent), `followPretty` (all pairs of symbols that can be adjacent). -/

/-- (1) `classify` agrees with the lexer's tables: every fixed-text token of the lexer is its own punctuator class,
every reserved word is a keyword; sample spellings of the other classes -/
theorem token_classes_consistent :
    (punctuators.all fun p => classify p == .punct p) = true ∧
    (reservedWords.all fun w => classify w == .keyword) = true ∧
    classify "a$" = .word ∧ classify "1" = .decInt ∧ classify "0" = .decInt ∧ classify "1." = .numDot ∧
    classify ".5" = .number ∧ classify "1e3" = .number ∧ classify "0x1" = .number ∧ classify "'a'" = .string ∧
    classify "/re/g" = .regex ∧ classify "// c" = .comment ∧ classify "/* c */" = .comment ∧ classify ",," = .punct "," ∧
    sig "a\u0300" = .word 0 2 ∧ sig "/re/g" = .regex 0 ∧ sig "/re/" = .regex 3 := by decide +kernel

/-- (2) D `first_last_closed`: the certificates are closed under the definitions: the summary (nullable, first
symbols, last symbols) of every definition of Gen.Defs, computed under the certificates and the slot typing, is below
the certificate of its kind, and no rule or slot is unsupported.  Kernel decision; breaks when a definition, the
`indent` rule set or a slot type changes. -/
theorem first_last_closed_pretty : closedCert cxPretty Gen.Defs.definitions = true := certPretty_closed

/-- (2)+(3) T `first_last_sound` / `adjacent_sound`.  For EVERY tree that respects the slot typing (`wfVal`), every
indent string: the chunk stream the pretty printer's walk yields has an ANNOTATION (`Ann`: a symbol string that maps
chunk by chunk onto it — the signature of each token fragment, and for each layout chunk one OCCURRENCE of a layout
rule of that marker in the definitions, `eraseSym` forgets which) that is described by the certificate of the root's
kind — empty only if the certificate is nullable, first symbol in the first set, last symbol in the last set — and
in which every two consecutive symbols are in the follow relation `followPretty`.
(Induction on the walk, Proofs/RoundTripTyped*.lean.) -/
theorem pretty_stream_typed (indent : Option String) (k : String) (as : List (String × Val))
    (hw : wfVal cxPretty (.node k as) = true) (cs : List Chunk)
    (h : walkChunks (prettyCfg indent) (.node k as) () = .ok (cs, ())) :
    ∃ a, certOf cxPretty k = some a ∧ Ann (prettyCfg indent).hd followPretty a cs :=
  walkChunks_typed (prettyTyped indent certPretty) followPretty followPretty_closed k as hw () cs () h

/-- (4)+(5), table level, partial: `directSafe a b` = token `a` printed directly before token `b` still lexes as
`a` then `b` under longest match (no identifier / keyword / number glued, no punctuator extended, no `//` or `/*`
formed, no regular-expression flag absorbed, no `.` after an integer).  Every pair of TOKEN signatures in the follow
relation — i.e. every two tokens the pretty printer can print with nothing between them — is `directSafe`, except
KF-01 (`kf01Pair`: decimal integer before `.`) and two artefacts of the abstraction (`artefactPair`).
NOT proved: the link of `directSafe` to the lexer models, and the pairs separated by layout markers. -/
theorem direct_adjacent_safe_pretty_partial : directOK followPretty = true := direct_safe_pretty

/-- non-vacuity: the witness of KF-01 and `{ a; }` respect the slot typing; KF-01's pair is in the exclusion -/
example : wfVal cxPretty kf01 = true ∧ wfVal cxPretty withoutPos = true ∧ wfVal cxPretty withPos = true := by
  decide +kernel
example : directSafe .decInt (mkLit ".") = false ∧ directSafe (.word 0 0) (mkLit ".") = true ∧
    directSafe (mkLit "+") (mkLit "+") = false ∧ directSafe (mkLit "/") (.regex 3) = false ∧
    directSafe (.regex 3) (mkLit "in") = false ∧ directSafe (mkLit ")") (mkLit "{") = true := by decide +kernel

/-- what `directOK` says (it is evaluated on bit sets): for all token codes `a`, `b`, if `a` may be directly followed
by `b` in the follow relation, the pair is `directSafe`, KF-01 or an artefact; and the codes are faithful: every
table spelling and every signature class has its own code (`tcOfCode (tcCode c) = c` on `tokCodes`) -/
theorem direct_adjacent_safe_meaning (a b : Nat) (ha : a ∈ tokCodes) (hb : b ∈ tokCodes)
    (hf : InF followPretty (2 * a) (2 * b)) : okPair (tcOfCode a) (tcOfCode b) = true :=
  directOK_spec followPretty direct_safe_pretty a b ha hb hf

theorem token_codes_faithful :
    (tokCodes.all fun c => tcCode (tcOfCode c) == c) = true ∧
    (litTable.all fun s => litText ((litIdx s).getD 0) == s && (litIdx s).isSome) = true := by decide +kernel

/-! ### token pairs separated by one layout marker; the lifted statements -/

/-- D `separated_pairs_safe_pretty` (partial: runs of exactly ONE layout marker).  For every occurrence `x` of a layout
rule and all token signatures `a`, `b` such that `a · x · b` can occur in a chunk stream (follow relation), what the
handler of `x` prints between them makes the pair safe:
  * OptionalSpace (`space_optional_pretty`): a space is certain (header node and `b` not `)` `;`, or `required_space`
    on the edge characters, or `b` an assignment operator) or the pair is `directSafe`;
  * Indent / Dedent / OptionalNewline (may print nothing): the pair is `directSafe`;
  * Newline: `a` is not `return` / `throw` / `break` / `continue` (no line break inside a restricted production; the
    line break that follows a comment is left out, see `sepOKPrettyB`);
  * Space, RequiredSpace always print a space.
(the relation for OptionalSpace carries the same exclusion list KF-02b / KF-02c / KF-02f as the minifier's).  NOT covered: runs of two or more markers, and runs containing
OpenBlock / CloseBlock / EndStatement (they print `{` `}` `;`; tuple normalisation — `(Space, EndStatement)` etc. —
decides what the neighbours print). -/
theorem separated_pairs_safe_pretty_partial : sepOKPretty followPretty = true := sep_safe_pretty

/-- a single marker is handled by its own handler: no layout key of the three rule sets is a tuple of one marker -/
theorem no_unit_tuples :
    noUnitTuples Gen.Rules.rs_indent.layout = true ∧ noUnitTuples Gen.Rules.rs_minify0.layout = true ∧
    noUnitTuples Gen.Rules.rs_minify1.layout = true := by decide

/-- T `pretty_relexes_partial` (chunk-stream level, by the signature rules `directSafe`; see the notes below).
For EVERY tree that respects the slot typing and every indent string, in the chunk stream of the pretty printer:
  (1) two token fragments with NO chunk between them are `directSafe`, KF-01 or an artefact (`okPair`), and
  (2) two token fragments with exactly ONE layout chunk between them: there is an occurrence `x` of that chunk's marker
      such that every decided single-marker relation whose marker set contains `x` holds of the pair
      (`separated_pairs_safe_pretty_partial` supplies the four relations of the pretty rule set).
Signatures are taken up to `canon` (out-of-range payloads).  What is NOT proved: that `directSafe` is sound for the
lexer models (Spec.Es5Lex / Model.PlyLex), and the step from chunks to the text `flushAll` prints between them for
runs of several markers. -/
theorem pretty_relexes_partial (indent : Option String) (k : String) (as : List (String × Val))
    (hw : wfVal cxPretty (.node k as) = true) (cs : List Chunk)
    (h : walkChunks (prettyCfg indent) (.node k as) () = .ok (cs, ())) :
    (∀ pre post f1 f2, cs = pre ++ .frag f1 :: .frag f2 :: post →
      okPair (canon (sig f1.text)) (canon (sig f2.text)) = true) ∧
    (∀ pre post f1 f2 mk hdl n, cs = pre ++ .frag f1 :: .layout mk hdl n :: .frag f2 :: post →
      ∃ x, eraseSym x = Sym.m mk (isKind (prettyCfg indent).hd.headerKinds n) ∧
        ∀ markers ok, sepOK followPretty markers ok = true → markers.testBit x = true →
          ok (canon (sig f1.text)) (canon (sig f2.text)) = true) := by
  obtain ⟨a, _, ha⟩ := pretty_stream_typed indent k as hw cs h
  constructor
  · intro pre post f1 f2 hcs
    rw [hcs] at ha
    exact directOK_spec followPretty direct_safe_pretty _ _ (tcCode_sig_mem _) (tcCode_sig_mem _)
      (ann_adjacent_frags pre post f1 f2 ha)
  · intro pre post f1 f2 mk hdl n hcs
    rw [hcs] at ha
    obtain ⟨x, hx, h1, h2⟩ := ann_separated_frags pre post f1 f2 mk hdl n ha
    exact ⟨x, hx, fun markers ok hok hm =>
      sepOK_spec followPretty markers ok hok _ _ (tcCode_sig_mem _) (tcCode_sig_mem _) x hm h1 h2⟩

end CalmVerif.Props.C01
