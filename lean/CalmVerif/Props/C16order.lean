/-
C16 (document order) — the order of `children()` is the order in which the unparser definition of the same node kind
prints the node-holding attributes.

`walk_is_preorder_partial` (Props/C16) fixes the walk order as "parents first, sibling attributes in children() order".
The title of C16 asks for DOCUMENT order.  Two regenerated tables are compared here, entry by entry, in the kernel:
`Gen.Children.table` (the recipe of every class's `children()`, reflected from /repo) and `Gen.Defs.definitions` (the unparser
definitions, reflected from /repo).  For every node class that has a definition, the attributes `children()` returns are exactly
the node-holding attributes the definition reads, in the order it prints them (the body of an `Optional` included, `Iter()` standing
for the node's own list attribute, `Operator(attr=…)` for the attribute it prints).  Printed order is source order for parser
output by C01 (the printed text re-parses to the same tree).  Until f7ec55b `DoWhile.children()` returned the predicate first
(finding KF-16b); `old_dowhile_order_rejected` shows the checker refutes that order.
-/
import CalmVerif.Gen.Children
import CalmVerif.Gen.Defs
namespace CalmVerif.Props.C16order
open CalmVerif CalmVerif.Unparse CalmVerif.Gen.Children

def srcNames : AttrSrc → List String
  | .name a => [a]
  | .declare a => [a]
  | .iter => ["@iter"]
  | _ => []

mutual
/-- attribute names a rule reads, in printing order -/
def ruleReads : Rule → List String
  | .attr src _ => srcNames src
  | .joinAttr src _ _ => srcNames src
  | .elisionJoinAttr src _ _ => srcNames src
  | .operator (some a) _ _ => [a]
  | .optional _ body => rulesRead body
  | _ => []
def rulesRead : List Rule → List String
  | [] => []
  | r :: rs => ruleReads r ++ rulesRead rs
end

def holdsNodes (row : Row) (a : String) : Bool :=
  row.attrs.any (fun p => p.1 == a && (p.2 == .node || p.2 == .nodeList))

def listAttrs (row : Row) : List String :=
  (row.attrs.filter (fun p => p.2 == .nodeList)).map (·.1)

/-- node-holding attributes in the order the definition prints them (`Iter()` = the node's own list attribute) -/
def printOrder (row : Row) (rules : List Rule) : List String :=
  ((rulesRead rules).flatMap (fun a => if a == "@iter" then listAttrs row else [a])).filter (holdsNodes row)

def recipeNames (row : Row) : List String :=
  row.recipe.map (fun | .one a => a | .many a => a)

def rowInPrintOrder (defs : Defs) (row : Row) : Bool :=
  match defs.lookup row.kind with
  | some rules => printOrder row rules == recipeNames row
  | none => true

/-- D: for every class with an unparser definition, `children()` lists the node-holding attributes in the order the
definition prints them -/
theorem children_in_print_order :
    Gen.Children.table.all (rowInPrintOrder Gen.Defs.definitions) = true := by decide +kernel

/-- the node-holding attributes of a row, as stored -/
def nodeAttrs (row : Row) : List String :=
  (row.attrs.filter (fun p => p.2 == .node || p.2 == .nodeList)).map (·.1)

def rowReadOnce (defs : Defs) (row : Row) : Bool :=
  match defs.lookup row.kind with
  | some rules =>
    let po := printOrder row rules
    (nodeAttrs row).all (fun a => po.count a == 1) && po.all (fun a => (nodeAttrs row).contains a)
  | none => true

/-- D (corollary for the printers, C01/C02): the definition of every class reads every attribute that can hold a node or a
node list exactly once — no definition hides a sub-node from printing or prints it twice -/
theorem definitions_read_every_child_once :
    Gen.Children.table.all (rowReadOnce Gen.Defs.definitions) = true := by decide +kernel

/-- non-vacuity: 56 classes have a definition (the other five are abstract bases) and e.g. `If`, `For`, `Try` have several
node-holding attributes each -/
theorem children_in_print_order_nonvacuous :
    (Gen.Children.table.filter (fun r => (Gen.Defs.definitions.lookup r.kind).isSome)).length ≥ 50 ∧
    (Gen.Children.table.filter (fun r => (Gen.Defs.definitions.lookup r.kind).isNone)).map (·.kind)
      = ["Comment", "FuncBase", "List", "Node", "Program"] ∧
    recipeNames row_For = ["init", "cond", "count", "statement"] ∧
    recipeNames row_DoWhile = ["statement", "predicate"] := by decide +kernel

/-- the order `DoWhile.children()` had before f7ec55b (KF-16b) is refuted by the checker -/
theorem old_dowhile_order_rejected :
    rowInPrintOrder Gen.Defs.definitions
      { row_DoWhile with recipe := [.one "predicate", .one "statement"] } = false := by decide +kernel

end CalmVerif.Props.C16order
