/-
C08  Emitted fragments carry the true source position of their token — the UNPARSER side.

(The parser side is Props/C11.lean: every `_token_map` entry of every node records its key text at a
position where exactly that text occurs.)  Property theorems only; lemmas: Proofs/UnparsePos.lean.
`Model.Unparse` mirrors calmjs.parse.unparsers.walker / ruletypes / handlers over `Gen.Defs`, `Gen.Rules`.

Vocabulary (Proofs/UnparsePos.lean)
  SrcAt tree sep n s   the walk of `tree` interprets node `n` with `s` on top of the sourcepath stack
                       (`sep` = ElisionJoinAttr.sep, the surrogate separator node).  `srcAt_subterm`: such an
                       `n` occurs in `tree` (or is `sep`); `srcAt_source` / `srcAt_own`: `s` is NotImplemented
                       or the non-empty `sourcepath` of a node of the tree, and a node's own non-empty
                       `sourcepath` wins — i.e. `s` is the innermost sourcepath.
  posKey f             the text `f`'s position was looked up under: `name` if the fragment records a
                       non-empty original name, else `text`   (`getpos(original or subnode, token.pos)`)
  FromTokmap n f       (f.line, f.col) is an entry (·, line, col) of `n.@tokmap[posKey f]`
  PosFrom n f          f has no position (None, None), the implied position (0, 0), or `FromTokmap n f`

Adjustments to the statement asked for
  * instead of the hypothesis "line ≠ 0 ∧ col ≠ 0" the conclusion is the three-way alternative `PosFrom`
    (a token map may legitimately hold a position with line or column 0);
  * the key is `posKey f`, not `name.getD text`: an EMPTY recorded original name is falsy in
    `original or subnode`, so the look-up then uses the text;
  * the comma run of an elision (`",,"`) looks up its own text; the surrogate separator `sep` has an empty
    token map in the generated tables, so its comma always gets the implied position;
  * a normalised layout tuple is handled with the node of the FIRST buffered chunk of the flush
    (`layout_rule_chunks[idx].node`, finding KF-08a): the theorem only says the node is one the walk
    interpreted — which `;` of that node's map is the right one is the business of C08's grammar facts.
All statements are for ALL trees, ALL rule sets of `Gen.Rules.ruleSets`, all indent strings, all hook states
and every Resolve hook that answers with a string (as `Obfuscator.resolve` does).
-/
import CalmVerif.Proofs.UnparsePos
import CalmVerif.Model.UnparseInst

namespace CalmVerif.Props.C08
open CalmVerif CalmVerif.Unparse

/-! ### D: obligations over the generated data -/

/-- `space_imply` / `space_drop` carry no source and the implied / no position -/
theorem space_fragments_unpositioned : HDataPos hdataGen := ⟨by decide, by decide⟩

/-- every rule set maps the `Resolve` deferrable to nothing or to `Obfuscator.resolve` (the hook) -/
theorem resolve_is_hook_or_absent :
    Gen.Rules.ruleSets.all (fun rs =>
      deferLookup rs.deferrable .resolve == none || deferLookup rs.deferrable .resolve == some .obfResolve) = true := by
  decide

/-- the configuration of a printer built from a generated rule set, with a Resolve hook that returns names -/
theorem mkCfg_resolveStr {σ : Type} (rs : RuleSet) (hrs : rs ∈ Gen.Rules.ruleSets) (indent : Option String)
    (hook : Path → Val → σ → Except Err (Val × σ))
    (hhook : ∀ path node s v s', hook path node s = .ok (v, s') → ∃ t, v = .str t) :
    ResolveStr (mkCfg tablesGen rs indent hook) := by
  have h := resolve_is_hook_or_absent
  simp only [List.all_eq_true] at h
  have hr := h rs hrs
  simp only [Bool.or_eq_true, beq_iff_eq] at hr
  intro f hf
  simp only [mkCfg] at hf
  rcases hr with hr | hr
  · rw [hr] at hf; cases hf
  · rw [hr] at hf
    simp only [Option.some.injEq] at hf
    subst hf
    exact hhook

/-! ### T: positions and sources -/

/--
`fragment_position_from_tokmap`.  Every fragment of `list(printer(tree))` has no position, the implied
position (0, 0), or a position that is an entry of the token map of a node the walk interpreted, under
the fragment's text (or the original name it records) — positions are only ever looked up, never invented.
-/
theorem fragment_position_from_tokmap {σ : Type} (cfg : Cfg σ) (hp : HDataPos cfg.hd) (hc : ResolveStr cfg)
    (tree : Val) (s : σ) (fs : List Frag) (h : unparse cfg tree s = .ok fs) :
    ∀ f ∈ fs, (f.line = none ∧ f.col = none) ∨ (f.line = some 0 ∧ f.col = some 0) ∨
      ∃ n src, SrcAt tree cfg.elisionSep n src ∧ (Subterm tree n ∨ Subterm cfg.elisionSep n) ∧ FromTokmap n f := by
  intro f hf
  rcases unparse_pos cfg hp hc tree s fs h f hf with ⟨n, src, hs, _, hpos⟩ | ⟨_, n, src, hs, hpos⟩
  all_goals
    rcases hpos with h1 | h1 | h1
    · exact Or.inl h1
    · exact Or.inr (Or.inl h1)
    · exact Or.inr (Or.inr ⟨n, src, hs, srcAt_subterm hs, h1⟩)

/--
`fragment_source_is_stack_top`.  Every fragment is either a token-handler fragment — its `source` is the
top of the sourcepath stack of the node it was emitted for (the innermost `sourcepath`; `NotImplemented`
when no enclosing node has one) and its position comes from THAT node's token map — or a layout-handler
fragment, whose `source` is None.
-/
theorem fragment_source_is_stack_top {σ : Type} (cfg : Cfg σ) (hp : HDataPos cfg.hd) (hc : ResolveStr cfg)
    (tree : Val) (s : σ) (fs : List Frag) (h : unparse cfg tree s = .ok fs) :
    ∀ f ∈ fs,
      (∃ n src, SrcAt tree cfg.elisionSep n src ∧ f.source = src ∧ PosFrom n f ∧
        (src = .notImpl ∨ ∃ m p, (Subterm tree m ∨ Subterm cfg.elisionSep m) ∧
          nodeAttr m "@sourcepath" = some (.str p) ∧ p ≠ "" ∧ src = .path p) ∧
        (∀ p, nodeAttr n "@sourcepath" = some (.str p) → p ≠ "" → src = .path p)) ∨
      (f.source = .none ∧ ∃ n src, SrcAt tree cfg.elisionSep n src ∧ PosFrom n f) := by
  intro f hf
  rcases unparse_pos cfg hp hc tree s fs h f hf with ⟨n, src, hs, hsrc, hpos⟩ | h2
  · exact Or.inl ⟨n, src, hs, hsrc, hpos, srcAt_source hs, fun p hp' hne => srcAt_own hs p hp' hne⟩
  · exact Or.inr h2

/-- both statements for every printer users can build from the generated rule sets -/
theorem fragments_of_all_rule_sets {σ : Type} (rs : RuleSet) (hrs : rs ∈ Gen.Rules.ruleSets)
    (indent : Option String) (hook : Path → Val → σ → Except Err (Val × σ))
    (hhook : ∀ path node s v s', hook path node s = .ok (v, s') → ∃ t, v = .str t)
    (tree : Val) (s : σ) (fs : List Frag) (h : unparse (mkCfg tablesGen rs indent hook) tree s = .ok fs) :
    ∀ f ∈ fs, OutFragOK tree Gen.Defs.elisionSep f :=
  unparse_pos (mkCfg tablesGen rs indent hook) space_fragments_unpositioned
    (mkCfg_resolveStr rs hrs indent hook hhook) tree s fs h

/-- the default hook (no renaming) answers with the node's `value`: a string on identifiers that carry one.
In general the hypothesis on the hook is the obligation of the obfuscation model that supplies it. -/
example (path : Path) (s : Unit) (v : Val) (s' : Unit)
    (h : defaultResolve path (.node "Identifier" [("value", .str "a")]) s = .ok (v, s')) : ∃ t, v = .str t := by
  simp [defaultResolve, getattrVal, nodeAttr, lookupAttr, Except.map, Val.isMeta] at h
  exact ⟨"a", h.symm⟩

/-! ### non-vacuity: `a;` with token maps, one sourcepath -/

def exampleTree : Val :=
  .node "ES5Program" [("@sourcepath", .str "x.js"), ("@tokmap", .list []), ("children", .list [
    .node "ExprStatement" [("@tokmap", .list [.list [.str ";", .list [.list [.int 1, .int 1, .int 2]]]]),
      ("expr", .node "Identifier" [("@tokmap", .list [.list [.str "a", .list [.list [.int 0, .int 1, .int 1]]]]),
        ("value", .str "a")])]])]

set_option maxRecDepth 100000 in
example : (match unparse (prettyCfg none) exampleTree () with
    | .ok fs => fs.map (fun f => (f.text, f.line, f.col, f.source)) ==
        [("a", some 1, some 1, .path "x.js"), (";", some 1, some 2, .none), ("\n", some 0, some 0, .none)]
    | .error _ => false) = true := by decide

end CalmVerif.Props.C08
