/-
C20  Pretty output is indented exactly by block depth, ends with one newline.

Property theorems only (helper lemmas: Proofs/Unparse*.lean).  `Model.Unparse` mirrors
calmjs.parse.unparsers.walker / ruletypes / handlers over the regenerated tables `Gen.Defs`
(the unparser `definitions`) and `Gen.Rules` (the `indent` rule set of `rules.indent` /
`es5.pretty_printer`).  `prettyCfg indent` is the Dispatcher of `pretty_printer(indent_str=indent)`;
`unparseWith cfg tree s` = `.ok (fragments, final Indentator level)` or the exception raised.
All statements are for ALL trees (generic `Val`), all indent strings, any fuel outcome.
-/
import CalmVerif.Proofs.UnparseLevel
import CalmVerif.Model.UnparseInst

namespace CalmVerif.Props.C20
open CalmVerif CalmVerif.Unparse

/-! ### D: obligations over the generated tables (break if /repo's definitions or rule sets change) -/

/-- every definition (and every nested Optional body / JoinAttr separator) has as many `Indent` as
`Dedent` markers under the `indent` rule set -/
theorem defs_indent_net_zero :
    defsNetOK Gen.Rules.rs_indent.layout Gen.Defs.definitions = true := by decide

/-- every handler of the `indent` layout table — in particular every tuple normalisation, e.g.
`(Indent, Newline, Dedent) ↦ noop` — changes the Indentator level by exactly the sum of the changes
of the markers its key is made of -/
theorem indent_table_normalisations_balanced :
    tableNetOK Gen.Rules.rs_indent.layout = true := by decide

/-! ### T: level returns to zero -/

/-- After pretty-printing ANY tree with ANY indent string the Indentator level is 0 again. -/
theorem level_returns_to_zero (indent : Option String) (tree : Val) (fs : List Frag) (lvl : Int)
    (h : unparseWith (prettyCfg indent) tree () = .ok (fs, lvl)) : lvl = 0 :=
  unparseWith_level (prettyCfg indent) defs_indent_net_zero indent_table_normalisations_balanced tree () fs lvl h

/-- the same for every Dispatcher configuration that uses the generated definitions and the `indent`
layout table, whatever its hooks and hook state (e.g. `indent` + `obfuscate`) -/
theorem level_returns_to_zero_any {σ : Type} (cfg : Cfg σ)
    (hl : cfg.layout = Gen.Rules.rs_indent.layout) (hd : cfg.defs = Gen.Defs.definitions)
    (tree : Val) (s : σ) (fs : List Frag) (lvl : Int)
    (h : unparseWith cfg tree s = .ok (fs, lvl)) : lvl = 0 :=
  unparseWith_level cfg (by rw [hl, hd]; exact defs_indent_net_zero)
    (by rw [hl]; exact indent_table_normalisations_balanced) tree s fs lvl h

/-- `{ a; }` (non-vacuity: the hypothesis is satisfiable, the level does move) -/
def exampleTree : Val :=
  .node "ES5Program" [("children", .list [
    .node "Block" [("children", .list [
      .node "ExprStatement" [("expr", .node "Identifier" [("value", .str "a")])]])]])]

def printsAs (indent : Option String) (tree : Val) (text : String) : Bool :=
  match unparseWith (prettyCfg indent) tree () with
  | .ok r => textOf r.1 == text && r.2 == 0
  | .error _ => false

set_option maxRecDepth 100000 in
example : printsAs (some "\t") exampleTree "{\n\ta;\n}\n" = true := by decide

/-! ### finding KF-20a: an EMPTY indent string is not used as given -/

/-- `Indentator('')`: `self.indent_str if self.indent_str else dispatcher.indent_str` — the empty string
is falsy, so `pretty_printer(indent_str='')` indents by the Dispatcher default (two spaces), not by
"" × depth.  (Stated under the probed flag so that it survives a repair of /repo.) -/
theorem empty_indent_string_falls_back :
    Gen.Rules.indentatorEmptyFallsBack = true →
      printsAs (some "") exampleTree "{\n  a;\n}\n" = true ∧
      printsAs (some "") exampleTree "{\na;\n}\n" = false := by
  set_option maxRecDepth 100000 in decide


end CalmVerif.Props.C20
