/-
C20  Pretty output is indented exactly by block depth, ends with one newline.

Property theorems only (helper lemmas: Proofs/Unparse*.lean).  `Model.Unparse` mirrors
calmjs.parse.unparsers.walker / ruletypes / handlers over the regenerated tables `Gen.Defs`
(the unparser `definitions`) and `Gen.Rules` (the `indent` rule set of `rules.indent` /
`es5.pretty_printer`).  `prettyCfg indent` is the Dispatcher of `pretty_printer(indent_str=indent)`;
`unparseWith cfg tree s` = `.ok (fragments, final Indentator level)` or the exception raised.
All statements are for ALL trees (generic `Val`), all indent strings, any fuel outcome.
-/
import CalmVerif.Proofs.UnparseLevel
import CalmVerif.Proofs.UnparseBalanced
import CalmVerif.Proofs.UnparseEnd
import CalmVerif.Proofs.UnparseTokens
import CalmVerif.Proofs.UnparseDepth
import CalmVerif.Proofs.UnparseFuel
import CalmVerif.Proofs.UnparseLines
import CalmVerif.Proofs.UnparsePos
import CalmVerif.Proofs.UnparseLineCertPretty
import CalmVerif.Proofs.UnparseTokEdge
import CalmVerif.Model.UnparseInst

namespace CalmVerif.Props.C20
open CalmVerif CalmVerif.Unparse

/-! ### D: obligations over the generated tables (break if /repo's definitions or rule sets change) -/

/-- every definition (and every nested Optional body / JoinAttr separator) has as many `Indent` as
`Dedent` markers under the `indent` rule set -/
theorem defs_indent_net_zero :
    defsNetOK Gen.Rules.rs_indent.layout Gen.Defs.definitions = true := by decide

/-- every handler of the `indent` layout table — in particular every tuple normalisation, e.g.
`(Indent, Newline, Dedent) ↦ noop` — changes the Indentator level by exactly the sum of the changes
of the markers its key is made of -/
theorem indent_table_normalisations_balanced :
    tableNetOK Gen.Rules.rs_indent.layout = true := by decide

/-- `defs_indent_balanced`.  In every definition, on every path through its `Optional` bodies, `Indent`
immediately follows each block opener (`OpenBlock`, a literal `{`, the `:` of `Case` / `Default`) and
`Dedent` precedes its closer (`CloseBlock`, a literal `}`, the end of a `Case` / `Default` definition)
with nothing but newline markers in between, groups nest in bracket order, and separator definitions
contain none of these (checker: Proofs/UnparseBalanced.lean);  every tuple normalisation of the `indent`
table that mentions `Indent` / `Dedent` is balanced and resolves to the no-op handler
(`(Indent, Newline, Dedent) ↦ noop`). -/
theorem defs_indent_balanced :
    defsIndentBalanced Gen.Defs.definitions = true ∧
    tupleNormsBalanced Gen.Rules.rs_indent.layout = true := by decide

/-- non-vacuity of the checker: it rejects `Case` without its `Dedent`, and an `Object` that indents twice -/
example : defBalanced "Case" [.text "case" (some 0), .attr (.name "expr") (some 0), .text ":" (some 0),
    .layout .Indent, .layout .Newline, .joinAttr (.name "elements") [.layout .Newline] (some 0)] = false := by
  decide
example : defBalanced "Object" [.text "{" (some 0), .optional "properties" [.layout .Indent, .layout .Indent,
    .layout .Newline, .joinAttr (.name "properties") [.text "," (some 0), .layout .Newline] (some 0),
    .layout .Dedent, .layout .Newline], .text "}" (some 0)] = false := by decide

/-- the program definition ends with `OptionalNewline`, whose handler is the Indentator's optional newline,
and no tuple normalisation of the table ends with `OptionalNewline` -/
theorem program_ends_with_optional_newline :
    ((lookupDef Gen.Defs.definitions "ES5Program").map (rulesEndWith .OptionalNewline) = some true) ∧
    lookupLayout Gen.Rules.rs_indent.layout (LKey.single .OptionalNewline) = some .indNewlineOptional ∧
    noTupleEndsWith Gen.Rules.rs_indent.layout .OptionalNewline = true := by decide

/-! ### T: level returns to zero -/

/-- After pretty-printing ANY tree with ANY indent string the Indentator level is 0 again. -/
theorem level_returns_to_zero (indent : Option String) (tree : Val) (fs : List Frag) (lvl : Int)
    (h : unparseWith (prettyCfg indent) tree () = .ok (fs, lvl)) : lvl = 0 :=
  unparseWith_level (prettyCfg indent) defs_indent_net_zero indent_table_normalisations_balanced tree () fs lvl h

/-- the same for every Dispatcher configuration that uses the generated definitions and the `indent`
layout table, whatever its hooks and hook state (e.g. `indent` + `obfuscate`) -/
theorem level_returns_to_zero_any {σ : Type} (cfg : Cfg σ)
    (hl : cfg.layout = Gen.Rules.rs_indent.layout) (hd : cfg.defs = Gen.Defs.definitions)
    (tree : Val) (s : σ) (fs : List Frag) (lvl : Int)
    (h : unparseWith cfg tree s = .ok (fs, lvl)) : lvl = 0 :=
  unparseWith_level cfg (by rw [hl, hd]; exact defs_indent_net_zero)
    (by rw [hl]; exact indent_table_normalisations_balanced) tree s fs lvl h

/-- `{ a; }` (non-vacuity: the hypothesis is satisfiable, the level does move) -/
def exampleTree : Val :=
  .node "ES5Program" [("children", .list [
    .node "Block" [("children", .list [
      .node "ExprStatement" [("expr", .node "Identifier" [("value", .str "a")])]])]])]

def printsAs (indent : Option String) (tree : Val) (text : String) : Bool :=
  match unparseWith (prettyCfg indent) tree () with
  | .ok r => textOf r.1 == text && r.2 == 0
  | .error _ => false

set_option maxRecDepth 100000 in
example : printsAs (some "\t") exampleTree "{\n\ta;\n}\n" = true := by decide

/-! ### T: non-empty output ends with exactly one newline -/

/-- the Dispatcher / handler constants the newline handlers rely on -/
theorem hdata_pretty (indent : Option String)
    (hi : ∀ c ∈ (effIndent hdataGen indent).toList, isLT c = false) : HDataPretty hdataGen indent :=
  ⟨by decide, by decide, by decide, hi⟩

/--
`ends_with_one_newline` (partial: the three hypotheses below are explicit and decidable).
For every program tree (root `ES5Program`, ANY attributes) and indent string whose effective indentation
contains no line terminator: if, in the chunk stream of the walk,
  * every token fragment has a non-empty text that does not end with a line terminator (`tokensCleanB`), and
  * every unconditional `Newline` among the layout markers after the last token is followed by a marker that
    always prints (`;` `{` `}`)  (`tailSafe`; true of parser output: every `Newline` rule of the definitions is
    followed by a token or a non-empty child — checked on every program of the tie by `drv_unparse tailsafe`),
then the printed text ends with a `\n` that is not preceded by another line terminator.
(An empty program prints exactly "\n".)
-/
theorem ends_with_one_newline_partial (indent : Option String) (attrs : List (String × Val))
    (chunks : List Chunk)
    (hw : walkChunks (prettyCfg indent) (.node "ES5Program" attrs) () = .ok (chunks, ()))
    (hi : ∀ c ∈ (effIndent hdataGen indent).toList, isLT c = false)
    (hclean : tokensCleanB chunks = true)
    (hsafe : tailSafe (normalize Gen.Rules.rs_indent.layout (trailing chunks [])) = true) :
    EndsWithOneNewline (charsOf (flushAll (prettyCfg indent) chunks none [] 0).1) := by
  obtain ⟨hdef, hl, hnt⟩ := program_ends_with_optional_newline
  obtain ⟨rs, hrs⟩ : ∃ rs, lookupDef Gen.Defs.definitions "ES5Program" = some (rs ++ [.layout .OptionalNewline]) := by
    cases hd : lookupDef Gen.Defs.definitions "ES5Program" with
    | none => rw [hd] at hdef; simp at hdef
    | some d =>
      rw [hd] at hdef
      simp only [Option.map_some, Option.some.injEq] at hdef
      obtain ⟨rs, rfl⟩ := rulesEndWith_spec _ d hdef
      exact ⟨rs, rfl⟩
  obtain ⟨cs0, rfl⟩ := walkNode_last_marker (prettyCfg indent) "ES5Program" attrs rs .OptionalNewline
    .indNewlineOptional hrs hl _ _ _ _ _ _ hw
  have hlevel : (flushAll (prettyCfg indent)
      (cs0 ++ [.layout .OptionalNewline .indNewlineOptional (.node "ES5Program" attrs)]) none [] 0).2 = 0 := by
    exact level_returns_to_zero indent (.node "ES5Program" attrs) (flushAll (prettyCfg indent)
      (cs0 ++ [.layout .OptionalNewline .indNewlineOptional (.node "ES5Program" attrs)]) none [] 0).1 _
      (by simp only [unparseWith, hw])
  exact flushAll_ends_one_newline (prettyCfg indent) (hdata_pretty indent hi) cs0 _ hnt
    (tokensCleanB_spec _ hclean) hsafe hlevel

set_option maxRecDepth 100000 in
/-- non-vacuity: the hypotheses hold for `{ a; }` (and the conclusion is about "{\n\ta;\n}\n") -/
example : (match walkChunks (prettyCfg (some "\t")) exampleTree () with
    | .ok (chunks, _) => tailSafe (normalize Gen.Rules.rs_indent.layout (trailing chunks [])) &&
        tokensCleanB chunks && (tokenFrags chunks).all (fun f => f.text == "a")
    | .error _ => false) = true := by decide

/-! ### T: lines not started by a newline handler are interiors of string / comment tokens -/

/-- the constants of the definitions contain no line terminator; the pretty printer has no handler that
rewrites literals and no Resolve hook -/
theorem pretty_cfg_lineSafe (indent : Option String) : CfgOK (prettyCfg indent) lineSafe lineSafe anyStr where
  defs := by
    show defsOK lineSafe lineSafe Gen.Defs.definitions = true
    decide
  sep := by
    show valAll lineSafe anyStr Gen.Defs.elisionSep = true
    decide
  mul := lineSafe_strMul
  cont := by
    intro h
    have h1 : (prettyCfg indent).literal = none := by
      show deferLookup Gen.Rules.rs_indent.deferrable .literal = none; decide
    have h2 : (prettyCfg indent).lineComment = some .comment := by
      show deferLookup Gen.Rules.rs_indent.deferrable .lineComment = some .comment; decide
    have h3 : (prettyCfg indent).blockComment = some .comment := by
      show deferLookup Gen.Rules.rs_indent.deferrable .blockComment = some .comment; decide
    rw [h1, h2, h3] at h
    simp at h
  resolve := by
    intro f hf
    have : (prettyCfg indent).resolve = none := rfl
    rw [this] at hf; cases hf

/--
`other_lines_are_token_interiors`.  Let every string the tree prints (attribute values outside the `@…`
metadata) be free of line terminators unless it is spelled as a string literal or a comment
(`valAll lineSafe`; true of parser output: identifiers, numbers, regular expressions and operators cannot
contain one).  Then every fragment of the pretty-printed stream that contains a line terminator is either
the `"\n"` fragment of a newline handler or a token fragment of the walk that is a string literal or a
comment — so a line of the output either starts right after a newline-handler fragment (and is indented
by that handler) or continues a multi-line string / comment token.
-/
theorem other_lines_are_token_interiors (indent : Option String) (tree : Val) (chunks : List Chunk)
    (hw : walkChunks (prettyCfg indent) tree () = .ok (chunks, ()))
    (ht : valAll lineSafe anyStr tree = true)
    (hi : ∀ c ∈ (effIndent hdataGen indent).toList, isLT c = false) :
    ∀ f ∈ (flushAll (prettyCfg indent) chunks none [] 0).1, (∃ c ∈ f.text.toList, isLT c = true) →
      f = newlineFrag hdataGen ∨ (f ∈ tokenFrags chunks ∧ isLiteralOrComment f.text = true) := by
  intro f hf hlt
  have hout := walkChunks_out (pretty_cfg_lineSafe indent) tree ht () chunks () hw
  rcases flushAll_frags (prettyCfg indent) chunks none [] 0 f hf with h | h
  · right
    refine ⟨h, ?_⟩
    have hs : lineSafe f.text = true := by
      rcases out_tokens hout f h with h1 | h1 <;> exact h1
    simp only [lineSafe, Bool.or_eq_true] at hs
    rcases hs with hs | hs
    · exfalso
      obtain ⟨c, hc, hl⟩ := hlt
      simp only [noLT, List.all_eq_true] at hs
      have := hs c hc
      simp [hl] at this
    · exact hs
  · left
    exact layoutFrag_LT (hdata_pretty indent hi) h hlt

/-- the token fragments are exactly the walk's, in order (nothing is dropped or reordered by the layout pass) -/
theorem tokens_preserved (indent : Option String) (chunks : List Chunk) :
    (tokenFrags chunks).Sublist (flushAll (prettyCfg indent) chunks none [] 0).1 :=
  flushAll_tokens_sublist _ _ _ _ _

/-! ### T: level is depth -/

/-- D: run symbolically over every definition (children = ordinary tokens, `Optional` bodies taken or skipped),
the bracket automaton of Proofs/UnparseStruct.lean returns to its start state: every opening brace
(`OpenBlock`, literal `{`) is immediately followed by `Indent` or by its closing brace, every `Dedent` is
followed by nothing but newline markers and then its closing brace, no newline marker stands between an
opening brace and its `Indent`, and only `Case` / `Default` open an indentation level without a brace;
and the handler of every marker changes the Indentator level as its name says. -/
theorem defs_bracket_structure :
    defsStructOK Gen.Rules.rs_indent.layout caseKinds Gen.Defs.definitions = true ∧
    markersOK Gen.Rules.rs_indent.layout = true := by decide

theorem pretty_cfg_braceFree (indent : Option String) (k : String → Bool) (hk : k "Elision" = true) :
    CfgOK (prettyCfg indent) braceFree anyStr k where
  defs := by
    show defsOK braceFree anyStr Gen.Defs.definitions = true
    decide
  sep := by
    show valAll braceFree k Gen.Defs.elisionSep = true
    simp only [Gen.Defs.elisionSep, valAll, attrsAll, listAll, hk, Bool.true_and, Bool.and_true, Bool.or_true]
  mul := braceFree_strMul
  cont := by
    intro h
    have h1 : (prettyCfg indent).literal = none := by
      show deferLookup Gen.Rules.rs_indent.deferrable .literal = none; decide
    have h2 : (prettyCfg indent).lineComment = some .comment := by
      show deferLookup Gen.Rules.rs_indent.deferrable .lineComment = some .comment; decide
    have h3 : (prettyCfg indent).blockComment = some .comment := by
      show deferLookup Gen.Rules.rs_indent.deferrable .blockComment = some .comment; decide
    rw [h1, h2, h3] at h
    simp at h
  resolve := by
    intro f hf
    have : (prettyCfg indent).resolve = none := rfl
    rw [this] at hf; cases hf

/--
`chunk_stream_structure`.  For EVERY tree none of whose printed strings is itself `{` or `}`
(`valAll braceFree`; identifiers, literals and operators never are), the chunk stream of the walk is
accepted by the bracket automaton: brace tokens, `Indent` / `Dedent` and newline markers nest as
  S ::= (token | newline | `{` `}` | `{` Indent S Dedent newline* `}` | Indent S Dedent)*.
-/
theorem chunk_stream_structure (indent : Option String) (tree : Val) (chunks : List Chunk)
    (hw : walkChunks (prettyCfg indent) tree () = .ok (chunks, ()))
    (ht : valAll braceFree anyStr tree = true) :
    run true (syms chunks) [] = some [] := by
  have hout := walkChunks_out (pretty_cfg_braceFree indent anyStr rfl) tree ht () chunks () hw
  have := out_struct (ck := caseKinds) true (fun t h => h) (fun _ _ _ => rfl) defs_bracket_structure.1 hout
  exact this [] rfl

/--
`level_is_structural_depth` (all node kinds).  At every newline marker of the chunk stream, the Indentator
level in force (`netChunks pre` = Indent minus Dedent markers before it — the level the newline handler
multiplies the indentation string with, see `newline_handler_indents_by_level`) equals
  the number of brace tokens opened and not yet closed before it  (`braceDepth pre`, counted on the tokens)
  + the number of open brace-less indentation groups (`caseOf`: bodies of `case` / `default` clauses)
  − 1 if the next token that follows the newline markers is a closing brace.
-/
theorem level_is_structural_depth (indent : Option String) (tree : Val) (chunks : List Chunk)
    (hw : walkChunks (prettyCfg indent) tree () = .ok (chunks, ()))
    (ht : valAll braceFree anyStr tree = true)
    (pre post : List Chunk) (ch : Chunk) (hsplit : chunks = pre ++ ch :: post) (hnl : symOfChunk ch = .nl) :
    ∃ st, run true (syms pre) [] = some st ∧
      netChunks pre = braceDepth pre + caseOf st - (if closerNext (syms post) then 1 else 0) := by
  have hacc := chunk_stream_structure indent tree chunks hw ht
  have hout := walkChunks_outAny (prettyCfg indent) tree () chunks () hw
  subst hsplit
  exact depth_at_newline true defs_bracket_structure.2 pre post ch hnl hacc (out_chunkOK hout)

/--
`level_is_depth_partial` — exclusion: the tree contains no `Case` / `Default` node (`notCaseKind`; decidable).
For every such tree whose printed strings are not themselves braces, at every newline marker of the chunk
stream the Indentator level equals the brace depth computed on the TOKENS emitted before it (`{` / `}`
fragments and `OpenBlock` / `CloseBlock` markers, which the layout pass prints as exactly `{` / `}`), minus one
when the line about to start begins with a closing brace.  (With `case` bodies the additional term is the
number of open brace-less groups: `level_is_structural_depth`; that this number is the number of enclosing
`case` / `default` bodies as a token-level machine would count them is NOT proved — see the report.)
-/
theorem level_is_depth_partial (indent : Option String) (tree : Val) (chunks : List Chunk)
    (hw : walkChunks (prettyCfg indent) tree () = .ok (chunks, ()))
    (ht : valAll braceFree notCaseKind tree = true)
    (pre post : List Chunk) (ch : Chunk) (hsplit : chunks = pre ++ ch :: post) (hnl : symOfChunk ch = .nl) :
    netChunks pre = braceDepth pre - (if closerNext (syms post) then 1 else 0) := by
  have hout := walkChunks_out (pretty_cfg_braceFree indent notCaseKind (by decide)) tree ht () chunks () hw
  have hneutral := out_struct (ck := caseKinds) false (fun t h => h)
    (fun kind hk hc => by simp only [notCaseKind, hc] at hk; cases hk) defs_bracket_structure.1 hout
  have hacc : run false (syms chunks) [] = some [] := hneutral [] rfl
  subst hsplit
  obtain ⟨st, hst, heq⟩ := depth_at_newline false defs_bracket_structure.2 pre post ch hnl hacc (out_chunkOK hout)
  have : caseOf st = 0 := noCase_caseOf st (run_noCase _ [] st rfl hst)
  omega

/-- what a newline handler prints at level `lvl`: (the newline, unless suppressed, then) exactly the
indentation string repeated `lvl` times — nothing when that is empty -/
theorem newline_handler_indents_by_level (hd : HData) (is : Option String) (node : Val)
    (before after prev : Option String) (lvl : Int) :
    (runHandler hd is .indNewline node before after prev lvl).1 = newlineFrag hd :: generateIndents hd is lvl ∧
    (∃ nl, (nl = [] ∨ nl = [newlineFrag hd]) ∧
      ((runHandler hd is .indNewlineOptional node before after prev lvl).1 = nl ++ generateIndents hd is lvl ∨
       (runHandler hd is .indNewlineOptional node before after prev lvl).1 = [])) ∧
    (generateIndents hd is lvl = [] ∨ generateIndents hd is lvl = [indentFrag hd is lvl]) := by
  refine ⟨rfl, ?_, ?_⟩
  · simp only [runHandler]
    split
    · exact ⟨[], Or.inl rfl, Or.inr rfl⟩
    · split
      · exact ⟨[newlineFrag hd], Or.inr rfl, Or.inl rfl⟩
      · exact ⟨[], Or.inl rfl, Or.inl rfl⟩
  · rcases generateIndents_cases hd is lvl with ⟨h, _⟩ | ⟨h, _⟩
    · exact Or.inl h
    · exact Or.inr h

set_option maxRecDepth 100000 in
/-- non-vacuity: `{ a; }` satisfies the hypotheses; its stream has newline markers at depth 1 and 0 -/
example : valAll braceFree notCaseKind exampleTree = true ∧
    (match walkChunks (prettyCfg none) exampleTree () with
     | .ok (chunks, _) => (chunks.map symOfChunk) ==
         [.opener, .indent, .nl, .other, .other, .dedent, .nl, .closer, .nl]
     | .error _ => false) = true := by decide

/-! ### T: the lines of the FINAL text are indented by structural depth -/

/-- D: the facts about the `indent` layout table the lifting from chunks to text uses: its only tuple
normalisations are (Indent, Newline, Dedent) ↦ noop and (OptionalSpace | Space, EndStatement) ↦ `;`; the
handlers of Indent / Dedent / Newline / the spaces / EndStatement are the expected ones; no other handler occurs. -/
theorem indent_table_facts : IndentTable Gen.Rules.rs_indent.layout where
  tuples := by decide
  indent := by decide
  dedent := by decide
  newline := by decide
  optSpace := by decide
  space := by decide
  endStatement := by decide
  handlers := handlers_of_B (by decide)
  net := indent_table_normalisations_balanced

/-- the handler constants: newline string "\n", the implied space " " without source; the indentation in force
is made of white space that is no line terminator (hypothesis on the indent string) -/
theorem hdata_lines (indent : Option String) (hi : indentOK (effIndent hdataGen indent) = true) :
    HDataLines hdataGen indent := ⟨by decide, by decide, by decide, hi⟩

/-- every token fragment of the walk carries a source (NotImplemented or a sourcepath, never None) and — under
`tokensEdgeB` — a text with clean edges; every layout chunk carries the table's handler -/
theorem pretty_chunks_line (indent : Option String) (tree : Val) (chunks : List Chunk)
    (hw : walkChunks (prettyCfg indent) tree () = .ok (chunks, ())) (ht : tokensEdgeB chunks = true) :
    ∀ c ∈ chunks, ChunkLine (prettyCfg indent).layout c := by
  have hok := out_chunkOK (walkChunks_outAny (prettyCfg indent) tree () chunks () hw)
  have hres : ResolveStr (prettyCfg indent) := by
    intro f hf
    have : (prettyCfg indent).resolve = none := rfl
    rw [this] at hf; cases hf
  have hpos := walkChunks_pos (prettyCfg indent) hres tree () chunks () hw
  intro c hc
  cases c with
  | layout m h n => exact hok _ hc
  | frag f =>
    refine ⟨?_, tokensEdgeB_spec ht (tokenFrags_mem hc)⟩
    obtain ⟨n, s, hs, hsrc, _⟩ : TokFrag tree (prettyCfg indent).elisionSep f := hpos _ hc
    rw [hsrc]
    rcases srcAt_source hs with h | ⟨_, p, _, _, _, h⟩ <;> rw [h] <;> simp

/--
`pretty_lines_indented`.  For EVERY tree and every indent string whose effective indentation consists of
white space that is no line terminator, let `chunks` be the chunk stream of the walk and the final text the
fragments `flushAll … chunks` (= `list(pretty_printer(indent)(tree))`).  Under two decidable hypotheses on the
stream —
  * `tokensEdgeB`:       every token text is non-empty, does not begin with CR / LF and does not end with a line
                         terminator (line terminators INSIDE tokens are allowed: lines that start inside a
                         multi-line string or comment are not judged, exactly as in the check's judge);
  * `lineStartsStable`:  the definitions issue no `Indent`, `Dedent` or space marker between the newline marker
                         that starts a line and the first token of that line
— `checkLines` accepts the final fragment stream: split it at the `"\n"` fragments of the newline handlers; every
line that starts with a token (a token fragment, or `;` `{` `}` of a layout handler) consists, before that token,
of EXACTLY the indentation string repeated `depth` times (nothing when that is empty), where `depth` is the
STRUCTURAL DEPTH of that token (`printingDepths`: `Indent` minus `Dedent` markers of the enclosing definitions:
block / function / object / switch braces and the bodies of case / default clauses); and the Indentator level
is 0 again at the end.  No restriction on node kinds (switch statements included).
Read on the TOKENS the structural depth is: brace tokens opened and not closed + open case / default bodies
(brace-less `Indent` groups) − 1 if the line starts with a closing brace (`level_is_structural_depth`).
Both hypotheses are evaluated by the model on every program of the tie (`drv_unparse linesok`: all hold) and are
needed: see the kernel-evaluated witnesses below.
-/
theorem pretty_lines_indented (indent : Option String) (tree : Val) (chunks : List Chunk)
    (hw : walkChunks (prettyCfg indent) tree () = .ok (chunks, ()))
    (hi : indentOK (effIndent hdataGen indent) = true)
    (ht : tokensEdgeB chunks = true)
    (hs : lineStartsStable chunks = true) :
    checkLines (effIndent hdataGen indent) (flushAll (prettyCfg indent) chunks none [] 0).1
        (printingDepths chunks 0) (some []) = true ∧
    (flushAll (prettyCfg indent) chunks none [] 0).2 = 0 := by
  refine ⟨?_, ?_⟩
  · exact flushAll_checkLines (prettyCfg indent) (hdata_lines indent hi) indent_table_facts chunks
      (pretty_chunks_line indent tree chunks hw ht) hs
  · exact level_returns_to_zero indent tree (flushAll (prettyCfg indent) chunks none [] 0).1 _
      (by simp only [unparseWith, hw])

/-- an indent string of non-terminator white space contains no line terminator -/
theorem indentOK_clean (s : String) (h : indentOK s = true) : ∀ c ∈ s.toList, isLT c = false := by
  intro c hc
  simp only [indentOK, List.all_eq_true] at h
  have := indentChar_facts c (h c hc)
  simp only [isLT, Bool.or_eq_false_iff, beq_eq_false_iff_ne, ne_eq]
  refine ⟨⟨⟨this.1, this.2.1⟩, ?_⟩, ?_⟩ <;> (intro he; subst he; have := h _ hc; revert this; decide)

/--
`pretty_text_ends_with_one_newline`: the end of the text under the same token hypothesis and `tailSafe`
(every unconditional `Newline` among the markers after the last token is followed by a marker that always prints).
-/
theorem pretty_text_ends_with_one_newline (indent : Option String) (attrs : List (String × Val))
    (chunks : List Chunk)
    (hw : walkChunks (prettyCfg indent) (.node "ES5Program" attrs) () = .ok (chunks, ()))
    (hi : indentOK (effIndent hdataGen indent) = true)
    (ht : tokensEdgeB chunks = true)
    (hsafe : tailSafe (normalize Gen.Rules.rs_indent.layout (trailing chunks [])) = true) :
    EndsWithOneNewline (charsOf (flushAll (prettyCfg indent) chunks none [] 0).1) :=
  ends_with_one_newline_partial indent attrs chunks hw (indentOK_clean _ hi) (tokensEdgeB_clean ht) hsafe

/-! #### non-vacuity and necessity of the hypotheses (all evaluated by the kernel) -/

def idn (s : String) : Val := .node "Identifier" [("value", .str s)]
def stmt (v : Val) : Val := .node "ExprStatement" [("expr", v)]
/-- a node that prints nothing: a `Comments` node without children -/
def printsNothing : Val := .node "Comments" [("children", .list [])]

/-- `function f() { switch (a) { case 1: b; break; case 2: default: { ({k: c}); } } }` -/
def switchTree : Val :=
  .node "ES5Program" [("children", .list [
    .node "FuncDecl" [("elements", .list [
        .node "Switch" [("case_block", .node "CaseBlock" [("children", .list [
            .node "Case" [("elements", .list [stmt (idn "b"), .node "Break" [("identifier", .none)]]),
              ("expr", .node "Number" [("value", .str "1")])],
            .node "Case" [("elements", .list []), ("expr", .node "Number" [("value", .str "2")])],
            .node "Default" [("elements", .list [.node "Block" [("children", .list [
              stmt (.node "Object" [("properties", .list [.node "Assign" [
                ("left", .node "PropIdentifier" [("value", .str "k")]), ("op", .str ":"), ("right", idn "c")]])])])]])]])]),
          ("expr", idn "a")]]),
      ("identifier", idn "f"), ("parameters", .list [])]])]

/-- hypotheses, conclusion and printed text of one tree -/
def linesReport (indent : Option String) (t : Val) : Option (Bool × Bool × Bool × Bool × String) :=
  match walkChunks (prettyCfg indent) t () with
  | .ok (cs, _) =>
    let fs := (flushAll (prettyCfg indent) cs none [] 0).1
    some (tokensEdgeB cs, lineStartsStable cs, tailSafe (normalize Gen.Rules.rs_indent.layout (trailing cs [])),
      checkLines (effIndent hdataGen indent) fs (printingDepths cs 0) (some []), textOf fs)
  | .error _ => none

set_option maxRecDepth 1000000 in
/-- a nested program with a switch, indent "\t": all hypotheses hold, every line is indented by its depth -/
example : linesReport (some "\t") switchTree = some (true, true, true, true,
    "function f() {\n\tswitch (a) {\n\t\tcase 1:\n\t\t\tb;\n\t\t\tbreak;\n\t\tcase 2:\n\t\tdefault:\n\t\t\t{\n\t\t\t\t{\n\t\t\t\t\tk: c\n\t\t\t\t};\n\t\t\t}\n\t}\n}\n") := by
  decide

set_option maxRecDepth 1000000 in
/-- the same with indent "  " -/
example : linesReport (some "  ") switchTree = some (true, true, true, true,
    "function f() {\n  switch (a) {\n    case 1:\n      b;\n      break;\n    case 2:\n    default:\n      {\n        {\n          k: c\n        };\n      }\n  }\n}\n") := by
  decide

set_option maxRecDepth 1000000 in
/-- `lineStartsStable` is needed: a `case` clause whose statements print nothing, used as an expression — the `;`
starts a line at structural depth 0 but is indented by one level -/
example : linesReport (some "  ") (.node "ES5Program" [("children", .list [
      stmt (.node "Case" [("elements", .list [printsNothing, printsNothing]), ("expr", idn "a")])])])
    = some (true, false, true, false, "case a:\n  \n  ;\n") := by decide

set_option maxRecDepth 1000000 in
/-- `tailSafe` is needed: statements that print nothing at the end of the program leave two newlines -/
example : linesReport (some "  ") (.node "ES5Program" [("children", .list [stmt (idn "a"), printsNothing, printsNothing])])
    = some (true, true, false, true, "a;\n\n") := by decide

set_option maxRecDepth 1000000 in
/-- `tokensEdgeB` is needed: after a token that ends with a line terminator the final newline is suppressed -/
example : linesReport (some "  ") (.node "ES5Program" [("children", .list [stmt (idn "a\n")])])
    = some (false, true, true, true, "a\n;") := by decide

/-! ### every well-typed tree: the two stream hypotheses follow from the slot typing

`wfVal cxPretty` is builder rt's slot typing of ES5 trees (`es5Slot`, Model/TokenAdj.lean; evaluated on every parsed
tree of the C01 / C02 checks): required children are present and of an admissible kind, list slots hold nodes of
admissible kinds, token slots hold strings, an elision counts at least one comma.  The first / last / follow
certificates of C01 are too coarse for line structure (they put `Newline` into the last set of `If`, `For`, `While`, …
because `Optional a body` is not correlated with `Attr a` being present, so they allow "`Newline` then `Space`").
Hence an own certificate: `lcertPretty` maps every kind and every line state before the node (mid-line / start of a
line / start of a line with level change or space pending; unconditional newline owed or not) to the possible states
after it, computed by fixpoint iteration over Gen.Defs, Gen.Rules and `es5Slot`, attributes tested by an enclosing
`Optional` known non-empty; its closure is decided by the kernel and is sound for the walk
(`walkChunks_sound`, Proofs/UnparseTyped.lean, by induction on the walk). -/

open TokenAdj in
/-- D obligation: the line-structure certificate is closed under every definition (each claim "kind K from state s
ends in one of E" is reproduced by running K's definition symbolically, children looked up in the certificate, no
token ever printed on a dirty line), and a program that starts at the start of a line ends at the start of a line
with no unconditional newline owed.  Breaks when a definition, the layout table or `es5Slot` changes this. -/
theorem line_certificate_closed :
    lcertClosed lxPretty Gen.Defs.definitions = true ∧
    lcertOf lcertPretty "ES5Program" (.fresh, false) = some [(.fresh, false)] :=
  ⟨lcertPretty_closed, lcertPretty_program⟩

open TokenAdj in
/-- the hypothesis `lineStartsStable` of `pretty_lines_indented` holds for every well-typed node of any kind -/
theorem typed_line_starts_stable (indent : Option String) (K : String) (attrs : List (String × Val))
    (chunks : List Chunk)
    (hwf : wfVal cxPretty (.node K attrs) = true)
    (hw : walkChunks (prettyCfg indent) (.node K attrs) () = .ok (chunks, ())) :
    lineStartsStable chunks = true := by
  obtain ⟨st', h⟩ := pretty_node_scan indent K attrs hwf chunks hw
  exact lineStartsStable_of_ls chunks false st' h

open TokenAdj in
/-- the hypothesis `tailSafe` of `pretty_text_ends_with_one_newline` holds for every well-typed program -/
theorem typed_program_tail_safe (indent : Option String) (attrs : List (String × Val)) (chunks : List Chunk)
    (hwf : wfVal cxPretty (.node "ES5Program" attrs) = true)
    (hw : walkChunks (prettyCfg indent) (.node "ES5Program" attrs) () = .ok (chunks, ())) :
    tailSafe (normalize Gen.Rules.rs_indent.layout (trailing chunks [])) = true :=
  tailSafe_of_ls indent_table_facts chunks
    (out_chunkOK (walkChunks_outAny (prettyCfg indent) _ () chunks () hw)) .fresh .fresh
    (pretty_program_scan indent attrs hwf chunks hw)

open TokenAdj in
/-- the hypothesis `tokensEdgeB` of both theorems (every printed token is non-empty, does not begin with CR / LF and
does not end with a line terminator) holds for every well-typed node in which no string value ends with a line
terminator (`valAll endsOK`: a condition on the attribute values of the tree outside the `@…` metadata).
Non-empty / first character: every printed token has one of the signatures of C01's first sets and follow relation
(`walkChunks_typed`, builder rt), which contain neither `other` nor `empty` (kernel decision on the certificate).
Last character: every printed token is a string value of the tree, `","` repeated, or a constant of a definition
(`walkChunks_out`).  The extra condition is needed: the typing classifies string values by `sig`, which does not look
at the last character of a string, comment, number or regular-expression spelling. -/
theorem typed_tokens_edge (indent : Option String) (K : String) (attrs : List (String × Val))
    (chunks : List Chunk)
    (hwf : wfVal cxPretty (.node K attrs) = true)
    (he : valAll endsOK anyStr (.node K attrs) = true)
    (hw : walkChunks (prettyCfg indent) (.node K attrs) () = .ok (chunks, ())) :
    tokensEdgeB chunks = true :=
  tokensEdgeB_of_tree indent K attrs hwf he chunks hw

open TokenAdj in
/--
`pretty_lines_indented_typed` (2): for EVERY well-typed node (`wfVal cxPretty`, any kind: a program, a statement,
an expression) in which no string value ends with a line terminator, printed by
`pretty_printer(indent_str=indent)` with a white-space indent string: every line that starts with a token consists,
before that token, of exactly the indentation string × the structural depth of that token, and the Indentator level
is 0 again at the end.  All hypotheses are decidable conditions on the TREE and the indent string; no hypothesis on
the chunk stream is left (`hw` only names the result of the walk).
-/
theorem pretty_lines_indented_typed (indent : Option String) (K : String) (attrs : List (String × Val))
    (chunks : List Chunk)
    (hwf : wfVal cxPretty (.node K attrs) = true)
    (he : valAll endsOK anyStr (.node K attrs) = true)
    (hw : walkChunks (prettyCfg indent) (.node K attrs) () = .ok (chunks, ()))
    (hi : indentOK (effIndent hdataGen indent) = true) :
    checkLines (effIndent hdataGen indent) (flushAll (prettyCfg indent) chunks none [] 0).1
        (printingDepths chunks 0) (some []) = true ∧
    (flushAll (prettyCfg indent) chunks none [] 0).2 = 0 :=
  pretty_lines_indented indent (.node K attrs) chunks hw hi
    (typed_tokens_edge indent K attrs chunks hwf he hw)
    (typed_line_starts_stable indent K attrs chunks hwf hw)

open TokenAdj in
/--
`pretty_text_ends_with_one_newline_typed` (3): the text printed for EVERY well-typed program in which no string value
ends with a line terminator ends with exactly one newline (or is empty).  Tree-level hypotheses only.
-/
theorem pretty_text_ends_with_one_newline_typed (indent : Option String) (attrs : List (String × Val))
    (chunks : List Chunk)
    (hwf : wfVal cxPretty (.node "ES5Program" attrs) = true)
    (he : valAll endsOK anyStr (.node "ES5Program" attrs) = true)
    (hw : walkChunks (prettyCfg indent) (.node "ES5Program" attrs) () = .ok (chunks, ()))
    (hi : indentOK (effIndent hdataGen indent) = true) :
    EndsWithOneNewline (charsOf (flushAll (prettyCfg indent) chunks none [] 0).1) :=
  pretty_text_ends_with_one_newline indent attrs chunks hw hi
    (typed_tokens_edge indent "ES5Program" attrs chunks hwf he hw)
    (typed_program_tail_safe indent attrs chunks hwf hw)

set_option maxRecDepth 1000000 in
/-- non-vacuity: the nested switch program above satisfies both tree hypotheses; the two witnesses for the necessity
of `lineStartsStable` and `tailSafe` are not well-typed (a `case` clause in expression position, a `Comments` node in
statement position) and the witness for `tokensEdgeB` has a string value that ends with a line terminator: the tree
hypotheses are what excludes them -/
example :
    TokenAdj.wfVal TokenAdj.cxPretty switchTree = true ∧ valAll endsOK anyStr switchTree = true ∧
    TokenAdj.wfVal TokenAdj.cxPretty (.node "ES5Program" [("children", .list [
      stmt (.node "Case" [("elements", .list [printsNothing, printsNothing]), ("expr", idn "a")])])]) = false ∧
    TokenAdj.wfVal TokenAdj.cxPretty
      (.node "ES5Program" [("children", .list [stmt (idn "a"), printsNothing, printsNothing])]) = false ∧
    valAll endsOK anyStr (.node "ES5Program" [("children", .list [stmt (idn "a\n")])]) = false := by
  decide

/-! ### the fuel of the walk -/

/-- The model's walk recurses on explicit fuel.  A result other than the artefact `.error .fuel` is
independent of the amount of fuel: supplying more never changes it (for every configuration, hooks included).
So every theorem above ("if the walk returns `chunks` then …") speaks about THE result of the walk.
(Not proved: that `fuelFor` always suffices, i.e. that `.error .fuel` is never returned; the tie never met it.) -/
theorem fuel_is_only_a_recursion_device {σ : Type} (cfg : Cfg σ) (fuel extra : Nat) (path : Path) (src : Src)
    (node : Val) (defn : Option (List Rule)) (s : σ)
    (h : walkNode cfg fuel path src node defn s ≠ .error .fuel) :
    walkNode cfg (fuel + extra) path src node defn s = walkNode cfg fuel path src node defn s :=
  walk_fuel_ge cfg fuel extra path src node defn s h

/-! ### fixed finding KF-20a: an EMPTY indent string is used as given -/

/-- `Indentator('')` once fell back to the Dispatcher's indent string (`self.indent_str if self.indent_str
else …`: the empty string is falsy), so `pretty_printer(indent_str='')` indented by two spaces instead of
"" × depth.  Repaired in /repo (`is not None`); the translator probes the behaviour
(`Gen.Rules.indentatorEmptyFallsBack`) and this obligation breaks if it returns. -/
theorem empty_indent_string_is_used :
    Gen.Rules.indentatorEmptyFallsBack = false ∧
      printsAs (some "") exampleTree "{\na;\n}\n" = true ∧
      printsAs none exampleTree "{\n  a;\n}\n" = true := by
  set_option maxRecDepth 100000 in decide

end CalmVerif.Props.C20
