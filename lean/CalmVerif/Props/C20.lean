/-
C20  Pretty output is indented exactly by block depth, ends with one newline.

Property theorems only (helper lemmas: Proofs/Unparse*.lean).  `Model.Unparse` mirrors
calmjs.parse.unparsers.walker / ruletypes / handlers over the regenerated tables `Gen.Defs`
(the unparser `definitions`) and `Gen.Rules` (the `indent` rule set of `rules.indent` /
`es5.pretty_printer`).  `prettyCfg indent` is the Dispatcher of `pretty_printer(indent_str=indent)`;
`unparseWith cfg tree s` = `.ok (fragments, final Indentator level)` or the exception raised.
All statements are for ALL trees (generic `Val`), all indent strings, any fuel outcome.
-/
import CalmVerif.Proofs.UnparseLevel
import CalmVerif.Proofs.UnparseBalanced
import CalmVerif.Proofs.UnparseEnd
import CalmVerif.Model.UnparseInst

namespace CalmVerif.Props.C20
open CalmVerif CalmVerif.Unparse

/-! ### D: obligations over the generated tables (break if /repo's definitions or rule sets change) -/

/-- every definition (and every nested Optional body / JoinAttr separator) has as many `Indent` as
`Dedent` markers under the `indent` rule set -/
theorem defs_indent_net_zero :
    defsNetOK Gen.Rules.rs_indent.layout Gen.Defs.definitions = true := by decide

/-- every handler of the `indent` layout table — in particular every tuple normalisation, e.g.
`(Indent, Newline, Dedent) ↦ noop` — changes the Indentator level by exactly the sum of the changes
of the markers its key is made of -/
theorem indent_table_normalisations_balanced :
    tableNetOK Gen.Rules.rs_indent.layout = true := by decide

/-- `defs_indent_balanced`.  In every definition, on every path through its `Optional` bodies, `Indent`
immediately follows each block opener (`OpenBlock`, a literal `{`, the `:` of `Case` / `Default`) and
`Dedent` precedes its closer (`CloseBlock`, a literal `}`, the end of a `Case` / `Default` definition)
with nothing but newline markers in between, groups nest in bracket order, and separator definitions
contain none of these (checker: Proofs/UnparseBalanced.lean);  every tuple normalisation of the `indent`
table that mentions `Indent` / `Dedent` is balanced and resolves to the no-op handler
(`(Indent, Newline, Dedent) ↦ noop`). -/
theorem defs_indent_balanced :
    defsIndentBalanced Gen.Defs.definitions = true ∧
    tupleNormsBalanced Gen.Rules.rs_indent.layout = true := by decide

/-- non-vacuity of the checker: it rejects `Case` without its `Dedent`, and an `Object` that indents twice -/
example : defBalanced "Case" [.text "case" (some 0), .attr (.name "expr") (some 0), .text ":" (some 0),
    .layout .Indent, .layout .Newline, .joinAttr (.name "elements") [.layout .Newline] (some 0)] = false := by
  decide
example : defBalanced "Object" [.text "{" (some 0), .optional "properties" [.layout .Indent, .layout .Indent,
    .layout .Newline, .joinAttr (.name "properties") [.text "," (some 0), .layout .Newline] (some 0),
    .layout .Dedent, .layout .Newline], .text "}" (some 0)] = false := by decide

/-- the program definition ends with `OptionalNewline`, whose handler is the Indentator's optional newline,
and no tuple normalisation of the table ends with `OptionalNewline` -/
theorem program_ends_with_optional_newline :
    ((lookupDef Gen.Defs.definitions "ES5Program").map (rulesEndWith .OptionalNewline) = some true) ∧
    lookupLayout Gen.Rules.rs_indent.layout (LKey.single .OptionalNewline) = some .indNewlineOptional ∧
    noTupleEndsWith Gen.Rules.rs_indent.layout .OptionalNewline = true := by decide

/-! ### T: level returns to zero -/

/-- After pretty-printing ANY tree with ANY indent string the Indentator level is 0 again. -/
theorem level_returns_to_zero (indent : Option String) (tree : Val) (fs : List Frag) (lvl : Int)
    (h : unparseWith (prettyCfg indent) tree () = .ok (fs, lvl)) : lvl = 0 :=
  unparseWith_level (prettyCfg indent) defs_indent_net_zero indent_table_normalisations_balanced tree () fs lvl h

/-- the same for every Dispatcher configuration that uses the generated definitions and the `indent`
layout table, whatever its hooks and hook state (e.g. `indent` + `obfuscate`) -/
theorem level_returns_to_zero_any {σ : Type} (cfg : Cfg σ)
    (hl : cfg.layout = Gen.Rules.rs_indent.layout) (hd : cfg.defs = Gen.Defs.definitions)
    (tree : Val) (s : σ) (fs : List Frag) (lvl : Int)
    (h : unparseWith cfg tree s = .ok (fs, lvl)) : lvl = 0 :=
  unparseWith_level cfg (by rw [hl, hd]; exact defs_indent_net_zero)
    (by rw [hl]; exact indent_table_normalisations_balanced) tree s fs lvl h

/-- `{ a; }` (non-vacuity: the hypothesis is satisfiable, the level does move) -/
def exampleTree : Val :=
  .node "ES5Program" [("children", .list [
    .node "Block" [("children", .list [
      .node "ExprStatement" [("expr", .node "Identifier" [("value", .str "a")])]])]])]

def printsAs (indent : Option String) (tree : Val) (text : String) : Bool :=
  match unparseWith (prettyCfg indent) tree () with
  | .ok r => textOf r.1 == text && r.2 == 0
  | .error _ => false

set_option maxRecDepth 100000 in
example : printsAs (some "\t") exampleTree "{\n\ta;\n}\n" = true := by decide

/-! ### T: non-empty output ends with exactly one newline -/

/-- the Dispatcher / handler constants the newline handlers rely on -/
theorem hdata_pretty (indent : Option String)
    (hi : ∀ c ∈ (effIndent hdataGen indent).toList, isLT c = false) : HDataPretty hdataGen indent :=
  ⟨by decide, by decide, by decide, hi⟩

/--
`ends_with_one_newline` (partial: the three hypotheses below are explicit and decidable).
For every program tree (root `ES5Program`, ANY attributes) and indent string whose effective indentation
contains no line terminator: if, in the chunk stream of the walk,
  * every token fragment has a non-empty text that does not end with a line terminator (`tokensCleanB`), and
  * every unconditional `Newline` among the layout markers after the last token is followed by a marker that
    always prints (`;` `{` `}`)  (`tailSafe`; true of parser output: every `Newline` rule of the definitions is
    followed by a token or a non-empty child — checked on every program of the tie by `drv_unparse tailsafe`),
then the printed text ends with a `\n` that is not preceded by another line terminator.
(An empty program prints exactly "\n".)
-/
theorem ends_with_one_newline_partial (indent : Option String) (attrs : List (String × Val))
    (chunks : List Chunk)
    (hw : walkChunks (prettyCfg indent) (.node "ES5Program" attrs) () = .ok (chunks, ()))
    (hi : ∀ c ∈ (effIndent hdataGen indent).toList, isLT c = false)
    (hclean : tokensCleanB chunks = true)
    (hsafe : tailSafe (normalize Gen.Rules.rs_indent.layout (trailing chunks [])) = true) :
    EndsWithOneNewline (charsOf (flushAll (prettyCfg indent) chunks none [] 0).1) := by
  obtain ⟨hdef, hl, hnt⟩ := program_ends_with_optional_newline
  obtain ⟨rs, hrs⟩ : ∃ rs, lookupDef Gen.Defs.definitions "ES5Program" = some (rs ++ [.layout .OptionalNewline]) := by
    cases hd : lookupDef Gen.Defs.definitions "ES5Program" with
    | none => rw [hd] at hdef; simp at hdef
    | some d =>
      rw [hd] at hdef
      simp only [Option.map_some, Option.some.injEq] at hdef
      obtain ⟨rs, rfl⟩ := rulesEndWith_spec _ d hdef
      exact ⟨rs, rfl⟩
  obtain ⟨cs0, rfl⟩ := walkNode_last_marker (prettyCfg indent) "ES5Program" attrs rs .OptionalNewline
    .indNewlineOptional hrs hl _ _ _ _ _ _ hw
  have hlevel : (flushAll (prettyCfg indent)
      (cs0 ++ [.layout .OptionalNewline .indNewlineOptional (.node "ES5Program" attrs)]) none [] 0).2 = 0 := by
    exact level_returns_to_zero indent (.node "ES5Program" attrs) (flushAll (prettyCfg indent)
      (cs0 ++ [.layout .OptionalNewline .indNewlineOptional (.node "ES5Program" attrs)]) none [] 0).1 _
      (by simp only [unparseWith, hw])
  exact flushAll_ends_one_newline (prettyCfg indent) (hdata_pretty indent hi) cs0 _ hnt
    (tokensCleanB_spec _ hclean) hsafe hlevel

set_option maxRecDepth 100000 in
/-- non-vacuity: the hypotheses hold for `{ a; }` (and the conclusion is about "{\n\ta;\n}\n") -/
example : (match walkChunks (prettyCfg (some "\t")) exampleTree () with
    | .ok (chunks, _) => tailSafe (normalize Gen.Rules.rs_indent.layout (trailing chunks [])) &&
        tokensCleanB chunks && (tokenFrags chunks).all (fun f => f.text == "a")
    | .error _ => false) = true := by decide

/-! ### fixed finding KF-20a: an EMPTY indent string is used as given -/

/-- `Indentator('')` once fell back to the Dispatcher's indent string (`self.indent_str if self.indent_str
else …`: the empty string is falsy), so `pretty_printer(indent_str='')` indented by two spaces instead of
"" × depth.  Repaired in /repo (`is not None`); the translator probes the behaviour
(`Gen.Rules.indentatorEmptyFallsBack`) and this obligation breaks if it returns. -/
theorem empty_indent_string_is_used :
    Gen.Rules.indentatorEmptyFallsBack = false ∧
      printsAs (some "") exampleTree "{\na;\n}\n" = true ∧
      printsAs none exampleTree "{\n  a;\n}\n" = true := by
  set_option maxRecDepth 100000 in decide

end CalmVerif.Props.C20
