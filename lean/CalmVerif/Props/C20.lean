/-
C20  Pretty output is indented exactly by block depth, ends with one newline.

Property theorems only (helper lemmas: Proofs/Unparse*.lean).  `Model.Unparse` mirrors
calmjs.parse.unparsers.walker / ruletypes / handlers over the regenerated tables `Gen.Defs`
(the unparser `definitions`) and `Gen.Rules` (the `indent` rule set of `rules.indent` /
`es5.pretty_printer`).  `prettyCfg indent` is the Dispatcher of `pretty_printer(indent_str=indent)`;
`unparseWith cfg tree s` = `.ok (fragments, final Indentator level)` or the exception raised.
All statements are for ALL trees (generic `Val`), all indent strings, any fuel outcome.
-/
import CalmVerif.Proofs.UnparseLevel
import CalmVerif.Proofs.UnparseBalanced
import CalmVerif.Proofs.UnparseEnd
import CalmVerif.Proofs.UnparseTokens
import CalmVerif.Proofs.UnparseDepth
import CalmVerif.Proofs.UnparseFuel
import CalmVerif.Model.UnparseInst

namespace CalmVerif.Props.C20
open CalmVerif CalmVerif.Unparse

/-! ### D: obligations over the generated tables (break if /repo's definitions or rule sets change) -/

/-- every definition (and every nested Optional body / JoinAttr separator) has as many `Indent` as
`Dedent` markers under the `indent` rule set -/
theorem defs_indent_net_zero :
    defsNetOK Gen.Rules.rs_indent.layout Gen.Defs.definitions = true := by decide

/-- every handler of the `indent` layout table — in particular every tuple normalisation, e.g.
`(Indent, Newline, Dedent) ↦ noop` — changes the Indentator level by exactly the sum of the changes
of the markers its key is made of -/
theorem indent_table_normalisations_balanced :
    tableNetOK Gen.Rules.rs_indent.layout = true := by decide

/-- `defs_indent_balanced`.  In every definition, on every path through its `Optional` bodies, `Indent`
immediately follows each block opener (`OpenBlock`, a literal `{`, the `:` of `Case` / `Default`) and
`Dedent` precedes its closer (`CloseBlock`, a literal `}`, the end of a `Case` / `Default` definition)
with nothing but newline markers in between, groups nest in bracket order, and separator definitions
contain none of these (checker: Proofs/UnparseBalanced.lean);  every tuple normalisation of the `indent`
table that mentions `Indent` / `Dedent` is balanced and resolves to the no-op handler
(`(Indent, Newline, Dedent) ↦ noop`). -/
theorem defs_indent_balanced :
    defsIndentBalanced Gen.Defs.definitions = true ∧
    tupleNormsBalanced Gen.Rules.rs_indent.layout = true := by decide

/-- non-vacuity of the checker: it rejects `Case` without its `Dedent`, and an `Object` that indents twice -/
example : defBalanced "Case" [.text "case" (some 0), .attr (.name "expr") (some 0), .text ":" (some 0),
    .layout .Indent, .layout .Newline, .joinAttr (.name "elements") [.layout .Newline] (some 0)] = false := by
  decide
example : defBalanced "Object" [.text "{" (some 0), .optional "properties" [.layout .Indent, .layout .Indent,
    .layout .Newline, .joinAttr (.name "properties") [.text "," (some 0), .layout .Newline] (some 0),
    .layout .Dedent, .layout .Newline], .text "}" (some 0)] = false := by decide

/-- the program definition ends with `OptionalNewline`, whose handler is the Indentator's optional newline,
and no tuple normalisation of the table ends with `OptionalNewline` -/
theorem program_ends_with_optional_newline :
    ((lookupDef Gen.Defs.definitions "ES5Program").map (rulesEndWith .OptionalNewline) = some true) ∧
    lookupLayout Gen.Rules.rs_indent.layout (LKey.single .OptionalNewline) = some .indNewlineOptional ∧
    noTupleEndsWith Gen.Rules.rs_indent.layout .OptionalNewline = true := by decide

/-! ### T: level returns to zero -/

/-- After pretty-printing ANY tree with ANY indent string the Indentator level is 0 again. -/
theorem level_returns_to_zero (indent : Option String) (tree : Val) (fs : List Frag) (lvl : Int)
    (h : unparseWith (prettyCfg indent) tree () = .ok (fs, lvl)) : lvl = 0 :=
  unparseWith_level (prettyCfg indent) defs_indent_net_zero indent_table_normalisations_balanced tree () fs lvl h

/-- the same for every Dispatcher configuration that uses the generated definitions and the `indent`
layout table, whatever its hooks and hook state (e.g. `indent` + `obfuscate`) -/
theorem level_returns_to_zero_any {σ : Type} (cfg : Cfg σ)
    (hl : cfg.layout = Gen.Rules.rs_indent.layout) (hd : cfg.defs = Gen.Defs.definitions)
    (tree : Val) (s : σ) (fs : List Frag) (lvl : Int)
    (h : unparseWith cfg tree s = .ok (fs, lvl)) : lvl = 0 :=
  unparseWith_level cfg (by rw [hl, hd]; exact defs_indent_net_zero)
    (by rw [hl]; exact indent_table_normalisations_balanced) tree s fs lvl h

/-- `{ a; }` (non-vacuity: the hypothesis is satisfiable, the level does move) -/
def exampleTree : Val :=
  .node "ES5Program" [("children", .list [
    .node "Block" [("children", .list [
      .node "ExprStatement" [("expr", .node "Identifier" [("value", .str "a")])]])]])]

def printsAs (indent : Option String) (tree : Val) (text : String) : Bool :=
  match unparseWith (prettyCfg indent) tree () with
  | .ok r => textOf r.1 == text && r.2 == 0
  | .error _ => false

set_option maxRecDepth 100000 in
example : printsAs (some "\t") exampleTree "{\n\ta;\n}\n" = true := by decide

/-! ### T: non-empty output ends with exactly one newline -/

/-- the Dispatcher / handler constants the newline handlers rely on -/
theorem hdata_pretty (indent : Option String)
    (hi : ∀ c ∈ (effIndent hdataGen indent).toList, isLT c = false) : HDataPretty hdataGen indent :=
  ⟨by decide, by decide, by decide, hi⟩

/--
`ends_with_one_newline` (partial: the three hypotheses below are explicit and decidable).
For every program tree (root `ES5Program`, ANY attributes) and indent string whose effective indentation
contains no line terminator: if, in the chunk stream of the walk,
  * every token fragment has a non-empty text that does not end with a line terminator (`tokensCleanB`), and
  * every unconditional `Newline` among the layout markers after the last token is followed by a marker that
    always prints (`;` `{` `}`)  (`tailSafe`; true of parser output: every `Newline` rule of the definitions is
    followed by a token or a non-empty child — checked on every program of the tie by `drv_unparse tailsafe`),
then the printed text ends with a `\n` that is not preceded by another line terminator.
(An empty program prints exactly "\n".)
-/
theorem ends_with_one_newline_partial (indent : Option String) (attrs : List (String × Val))
    (chunks : List Chunk)
    (hw : walkChunks (prettyCfg indent) (.node "ES5Program" attrs) () = .ok (chunks, ()))
    (hi : ∀ c ∈ (effIndent hdataGen indent).toList, isLT c = false)
    (hclean : tokensCleanB chunks = true)
    (hsafe : tailSafe (normalize Gen.Rules.rs_indent.layout (trailing chunks [])) = true) :
    EndsWithOneNewline (charsOf (flushAll (prettyCfg indent) chunks none [] 0).1) := by
  obtain ⟨hdef, hl, hnt⟩ := program_ends_with_optional_newline
  obtain ⟨rs, hrs⟩ : ∃ rs, lookupDef Gen.Defs.definitions "ES5Program" = some (rs ++ [.layout .OptionalNewline]) := by
    cases hd : lookupDef Gen.Defs.definitions "ES5Program" with
    | none => rw [hd] at hdef; simp at hdef
    | some d =>
      rw [hd] at hdef
      simp only [Option.map_some, Option.some.injEq] at hdef
      obtain ⟨rs, rfl⟩ := rulesEndWith_spec _ d hdef
      exact ⟨rs, rfl⟩
  obtain ⟨cs0, rfl⟩ := walkNode_last_marker (prettyCfg indent) "ES5Program" attrs rs .OptionalNewline
    .indNewlineOptional hrs hl _ _ _ _ _ _ hw
  have hlevel : (flushAll (prettyCfg indent)
      (cs0 ++ [.layout .OptionalNewline .indNewlineOptional (.node "ES5Program" attrs)]) none [] 0).2 = 0 := by
    exact level_returns_to_zero indent (.node "ES5Program" attrs) (flushAll (prettyCfg indent)
      (cs0 ++ [.layout .OptionalNewline .indNewlineOptional (.node "ES5Program" attrs)]) none [] 0).1 _
      (by simp only [unparseWith, hw])
  exact flushAll_ends_one_newline (prettyCfg indent) (hdata_pretty indent hi) cs0 _ hnt
    (tokensCleanB_spec _ hclean) hsafe hlevel

set_option maxRecDepth 100000 in
/-- non-vacuity: the hypotheses hold for `{ a; }` (and the conclusion is about "{\n\ta;\n}\n") -/
example : (match walkChunks (prettyCfg (some "\t")) exampleTree () with
    | .ok (chunks, _) => tailSafe (normalize Gen.Rules.rs_indent.layout (trailing chunks [])) &&
        tokensCleanB chunks && (tokenFrags chunks).all (fun f => f.text == "a")
    | .error _ => false) = true := by decide

/-! ### T: lines not started by a newline handler are interiors of string / comment tokens -/

/-- the constants of the definitions contain no line terminator; the pretty printer has no handler that
rewrites literals and no Resolve hook -/
theorem pretty_cfg_lineSafe (indent : Option String) : CfgOK (prettyCfg indent) lineSafe lineSafe anyStr where
  defs := by
    show defsOK lineSafe lineSafe Gen.Defs.definitions = true
    decide
  sep := by
    show valAll lineSafe anyStr Gen.Defs.elisionSep = true
    decide
  mul := lineSafe_strMul
  cont := by
    intro h
    have h1 : (prettyCfg indent).literal = none := by
      show deferLookup Gen.Rules.rs_indent.deferrable .literal = none; decide
    have h2 : (prettyCfg indent).lineComment = some .comment := by
      show deferLookup Gen.Rules.rs_indent.deferrable .lineComment = some .comment; decide
    have h3 : (prettyCfg indent).blockComment = some .comment := by
      show deferLookup Gen.Rules.rs_indent.deferrable .blockComment = some .comment; decide
    rw [h1, h2, h3] at h
    simp at h
  resolve := by
    intro f hf
    have : (prettyCfg indent).resolve = none := rfl
    rw [this] at hf; cases hf

/--
`other_lines_are_token_interiors`.  Let every string the tree prints (attribute values outside the `@…`
metadata) be free of line terminators unless it is spelled as a string literal or a comment
(`valAll lineSafe`; true of parser output: identifiers, numbers, regular expressions and operators cannot
contain one).  Then every fragment of the pretty-printed stream that contains a line terminator is either
the `"\n"` fragment of a newline handler or a token fragment of the walk that is a string literal or a
comment — so a line of the output either starts right after a newline-handler fragment (and is indented
by that handler) or continues a multi-line string / comment token.
-/
theorem other_lines_are_token_interiors (indent : Option String) (tree : Val) (chunks : List Chunk)
    (hw : walkChunks (prettyCfg indent) tree () = .ok (chunks, ()))
    (ht : valAll lineSafe anyStr tree = true)
    (hi : ∀ c ∈ (effIndent hdataGen indent).toList, isLT c = false) :
    ∀ f ∈ (flushAll (prettyCfg indent) chunks none [] 0).1, (∃ c ∈ f.text.toList, isLT c = true) →
      f = newlineFrag hdataGen ∨ (f ∈ tokenFrags chunks ∧ isLiteralOrComment f.text = true) := by
  intro f hf hlt
  have hout := walkChunks_out (pretty_cfg_lineSafe indent) tree ht () chunks () hw
  rcases flushAll_frags (prettyCfg indent) chunks none [] 0 f hf with h | h
  · right
    refine ⟨h, ?_⟩
    have hs : lineSafe f.text = true := by
      rcases out_tokens hout f h with h1 | h1 <;> exact h1
    simp only [lineSafe, Bool.or_eq_true] at hs
    rcases hs with hs | hs
    · exfalso
      obtain ⟨c, hc, hl⟩ := hlt
      simp only [noLT, List.all_eq_true] at hs
      have := hs c hc
      simp [hl] at this
    · exact hs
  · left
    exact layoutFrag_LT (hdata_pretty indent hi) h hlt

/-- the token fragments are exactly the walk's, in order (nothing is dropped or reordered by the layout pass) -/
theorem tokens_preserved (indent : Option String) (chunks : List Chunk) :
    (tokenFrags chunks).Sublist (flushAll (prettyCfg indent) chunks none [] 0).1 :=
  flushAll_tokens_sublist _ _ _ _ _

/-! ### T: level is depth -/

/-- D: run symbolically over every definition (children = ordinary tokens, `Optional` bodies taken or skipped),
the bracket automaton of Proofs/UnparseStruct.lean returns to its start state: every opening brace
(`OpenBlock`, literal `{`) is immediately followed by `Indent` or by its closing brace, every `Dedent` is
followed by nothing but newline markers and then its closing brace, no newline marker stands between an
opening brace and its `Indent`, and only `Case` / `Default` open an indentation level without a brace;
and the handler of every marker changes the Indentator level as its name says. -/
theorem defs_bracket_structure :
    defsStructOK Gen.Rules.rs_indent.layout caseKinds Gen.Defs.definitions = true ∧
    markersOK Gen.Rules.rs_indent.layout = true := by decide

theorem pretty_cfg_braceFree (indent : Option String) (k : String → Bool) (hk : k "Elision" = true) :
    CfgOK (prettyCfg indent) braceFree anyStr k where
  defs := by
    show defsOK braceFree anyStr Gen.Defs.definitions = true
    decide
  sep := by
    show valAll braceFree k Gen.Defs.elisionSep = true
    simp only [Gen.Defs.elisionSep, valAll, attrsAll, listAll, hk, Bool.true_and, Bool.and_true, Bool.or_true]
  mul := braceFree_strMul
  cont := by
    intro h
    have h1 : (prettyCfg indent).literal = none := by
      show deferLookup Gen.Rules.rs_indent.deferrable .literal = none; decide
    have h2 : (prettyCfg indent).lineComment = some .comment := by
      show deferLookup Gen.Rules.rs_indent.deferrable .lineComment = some .comment; decide
    have h3 : (prettyCfg indent).blockComment = some .comment := by
      show deferLookup Gen.Rules.rs_indent.deferrable .blockComment = some .comment; decide
    rw [h1, h2, h3] at h
    simp at h
  resolve := by
    intro f hf
    have : (prettyCfg indent).resolve = none := rfl
    rw [this] at hf; cases hf

/--
`chunk_stream_structure`.  For EVERY tree none of whose printed strings is itself `{` or `}`
(`valAll braceFree`; identifiers, literals and operators never are), the chunk stream of the walk is
accepted by the bracket automaton: brace tokens, `Indent` / `Dedent` and newline markers nest as
  S ::= (token | newline | `{` `}` | `{` Indent S Dedent newline* `}` | Indent S Dedent)*.
-/
theorem chunk_stream_structure (indent : Option String) (tree : Val) (chunks : List Chunk)
    (hw : walkChunks (prettyCfg indent) tree () = .ok (chunks, ()))
    (ht : valAll braceFree anyStr tree = true) :
    run true (syms chunks) [] = some [] := by
  have hout := walkChunks_out (pretty_cfg_braceFree indent anyStr rfl) tree ht () chunks () hw
  have := out_struct (ck := caseKinds) true (fun t h => h) (fun _ _ _ => rfl) defs_bracket_structure.1 hout
  exact this [] rfl

/--
`level_is_structural_depth` (all node kinds).  At every newline marker of the chunk stream, the Indentator
level in force (`netChunks pre` = Indent minus Dedent markers before it — the level the newline handler
multiplies the indentation string with, see `newline_handler_indents_by_level`) equals
  the number of brace tokens opened and not yet closed before it  (`braceDepth pre`, counted on the tokens)
  + the number of open brace-less indentation groups (`caseOf`: bodies of `case` / `default` clauses)
  − 1 if the next token that follows the newline markers is a closing brace.
-/
theorem level_is_structural_depth (indent : Option String) (tree : Val) (chunks : List Chunk)
    (hw : walkChunks (prettyCfg indent) tree () = .ok (chunks, ()))
    (ht : valAll braceFree anyStr tree = true)
    (pre post : List Chunk) (ch : Chunk) (hsplit : chunks = pre ++ ch :: post) (hnl : symOfChunk ch = .nl) :
    ∃ st, run true (syms pre) [] = some st ∧
      netChunks pre = braceDepth pre + caseOf st - (if closerNext (syms post) then 1 else 0) := by
  have hacc := chunk_stream_structure indent tree chunks hw ht
  have hout := walkChunks_outAny (prettyCfg indent) tree () chunks () hw
  subst hsplit
  exact depth_at_newline true defs_bracket_structure.2 pre post ch hnl hacc (out_chunkOK hout)

/--
`level_is_depth_partial` — exclusion: the tree contains no `Case` / `Default` node (`notCaseKind`; decidable).
For every such tree whose printed strings are not themselves braces, at every newline marker of the chunk
stream the Indentator level equals the brace depth computed on the TOKENS emitted before it (`{` / `}`
fragments and `OpenBlock` / `CloseBlock` markers, which the layout pass prints as exactly `{` / `}`), minus one
when the line about to start begins with a closing brace.  (With `case` bodies the additional term is the
number of open brace-less groups: `level_is_structural_depth`; that this number is the number of enclosing
`case` / `default` bodies as a token-level machine would count them is NOT proved — see the report.)
-/
theorem level_is_depth_partial (indent : Option String) (tree : Val) (chunks : List Chunk)
    (hw : walkChunks (prettyCfg indent) tree () = .ok (chunks, ()))
    (ht : valAll braceFree notCaseKind tree = true)
    (pre post : List Chunk) (ch : Chunk) (hsplit : chunks = pre ++ ch :: post) (hnl : symOfChunk ch = .nl) :
    netChunks pre = braceDepth pre - (if closerNext (syms post) then 1 else 0) := by
  have hout := walkChunks_out (pretty_cfg_braceFree indent notCaseKind (by decide)) tree ht () chunks () hw
  have hneutral := out_struct (ck := caseKinds) false (fun t h => h)
    (fun kind hk hc => by simp only [notCaseKind, hc] at hk; cases hk) defs_bracket_structure.1 hout
  have hacc : run false (syms chunks) [] = some [] := hneutral [] rfl
  subst hsplit
  obtain ⟨st, hst, heq⟩ := depth_at_newline false defs_bracket_structure.2 pre post ch hnl hacc (out_chunkOK hout)
  have : caseOf st = 0 := noCase_caseOf st (run_noCase _ [] st rfl hst)
  omega

/-- what a newline handler prints at level `lvl`: (the newline, unless suppressed, then) exactly the
indentation string repeated `lvl` times — nothing when that is empty -/
theorem newline_handler_indents_by_level (hd : HData) (is : Option String) (node : Val)
    (before after prev : Option String) (lvl : Int) :
    (runHandler hd is .indNewline node before after prev lvl).1 = newlineFrag hd :: generateIndents hd is lvl ∧
    (∃ nl, (nl = [] ∨ nl = [newlineFrag hd]) ∧
      ((runHandler hd is .indNewlineOptional node before after prev lvl).1 = nl ++ generateIndents hd is lvl ∨
       (runHandler hd is .indNewlineOptional node before after prev lvl).1 = [])) ∧
    (generateIndents hd is lvl = [] ∨ generateIndents hd is lvl = [indentFrag hd is lvl]) := by
  refine ⟨rfl, ?_, ?_⟩
  · simp only [runHandler]
    split
    · exact ⟨[], Or.inl rfl, Or.inr rfl⟩
    · split
      · exact ⟨[newlineFrag hd], Or.inr rfl, Or.inl rfl⟩
      · exact ⟨[], Or.inl rfl, Or.inl rfl⟩
  · rcases generateIndents_cases hd is lvl with ⟨h, _⟩ | ⟨h, _⟩
    · exact Or.inl h
    · exact Or.inr h

set_option maxRecDepth 100000 in
/-- non-vacuity: `{ a; }` satisfies the hypotheses; its stream has newline markers at depth 1 and 0 -/
example : valAll braceFree notCaseKind exampleTree = true ∧
    (match walkChunks (prettyCfg none) exampleTree () with
     | .ok (chunks, _) => (chunks.map symOfChunk) ==
         [.opener, .indent, .nl, .other, .other, .dedent, .nl, .closer, .nl]
     | .error _ => false) = true := by decide

/-! ### the fuel of the walk -/

/-- The model's walk recurses on explicit fuel.  A result other than the artefact `.error .fuel` is
independent of the amount of fuel: supplying more never changes it (for every configuration, hooks included).
So every theorem above ("if the walk returns `chunks` then …") speaks about THE result of the walk.
(Not proved: that `fuelFor` always suffices, i.e. that `.error .fuel` is never returned; the tie never met it.) -/
theorem fuel_is_only_a_recursion_device {σ : Type} (cfg : Cfg σ) (fuel extra : Nat) (path : Path) (src : Src)
    (node : Val) (defn : Option (List Rule)) (s : σ)
    (h : walkNode cfg fuel path src node defn s ≠ .error .fuel) :
    walkNode cfg (fuel + extra) path src node defn s = walkNode cfg fuel path src node defn s :=
  walk_fuel_ge cfg fuel extra path src node defn s h

/-! ### fixed finding KF-20a: an EMPTY indent string is used as given -/

/-- `Indentator('')` once fell back to the Dispatcher's indent string (`self.indent_str if self.indent_str
else …`: the empty string is falsy), so `pretty_printer(indent_str='')` indented by two spaces instead of
"" × depth.  Repaired in /repo (`is not None`); the translator probes the behaviour
(`Gen.Rules.indentatorEmptyFallsBack`) and this obligation breaks if it returns. -/
theorem empty_indent_string_is_used :
    Gen.Rules.indentatorEmptyFallsBack = false ∧
      printsAs (some "") exampleTree "{\na;\n}\n" = true ∧
      printsAs none exampleTree "{\n  a;\n}\n" = true := by
  set_option maxRecDepth 100000 in decide

end CalmVerif.Props.C20
