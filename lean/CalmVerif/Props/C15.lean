import CalmVerif.Proofs.ApiCalls
/-
C15  Parsing is a pure function of the text: no history or thread effects.

PARTIAL — what is and is not proved.

* `parser_state_fresh` (a fact about the regenerated table `Gen.Api.parseObjs`, observed on every run by
  harness/gen/g_api.py: the `parser` local of two consecutive `parse()` calls is captured with a
  profiler hook and everything reachable from it is compared by identity; shared objects are hashed
  before/after a batch of valid and invalid parses with and without comment capture): no object of
  class Parser / Lexer (calmjs and ply) / LRParser is shared between two `parse()` calls, such objects
  are observed at all, and every shared stateful object is a table (`dict`/`set`/the asttypes factory)
  whose deep structural hash did not change.  `module_state_readonly`: no module-level object of
  lexers.es5, lexers.tokens, parsers.es5, asttypes, factory, utils, exceptions or of the generated
  lextab/yacctab modules changed.
* `parse_history_independent`: for EVERY parse engine (a parameter: `init` = `Parser.__init__`,
  `parse` = `Parser.parse` on an object state), every process state and every sequence of
  `parse(text, flag)` calls over any texts/flags (valid or not): each result equals the result of
  the same call in a fresh process with the same tables, and the tables are unchanged.  The
  statement is about the semantics `parseCall` (fresh Parser per call), which is the one the table
  selects (`parseIsPerCall`).
* `reused_parser_is_not_pure`: non-vacuity — with ONE Parser object serving all calls (`parseReused`)
  a concrete toy lexer that, like `Lexer`, initialises `newline_idx` in `__init__` only, reports
  different columns for the same text depending on what was parsed before.

NOT proved, and not provable in this model: anything about threads.  The model is sequential; CPython
thread schedules, the GIL switch interval and ply's or `re`'s internal caches under concurrency cannot
be exhibited by it.  For concurrent parses the check is correspondence only: harness/checks/C15.py
parses the pool from a 16-thread pool under `sys.setswitchinterval` values from 1e-6 to 5e-3 and
compares every result with the value computed in a fresh process.  What the table contributes to
that clause is the absence of shared mutable objects between two calls, which is the only way one
thread's parse could influence another's through calmjs/ply data (thread-unsafe *interpreter* state
is outside the model).
-/
namespace CalmVerif.Props.C15
open CalmVerif.Model.Api CalmVerif.Proofs.Api CalmVerif.Gen.Api

/-- Parser, Lexer and LRParser objects are not shared between `parse()` calls, they are in the table,
    and every shared stateful object is an unmutated table -/
theorem parser_state_fresh : parseIsPerCall parseObjs = true := by
  decide +kernel

/-- the same, unfolded into the three readable clauses -/
theorem parser_state_fresh_clauses :
    (∀ r ∈ parseObjs, r.cls ∈ parserStateClasses → r.shared = false) ∧
    (∀ c ∈ parserStateClasses, ∃ r ∈ parseObjs, r.cls = c ∧ r.shared = false) ∧
    (∀ r ∈ parseObjs, r.shared = true → r.stateful = true → r.cls ∈ tableClasses ∧ r.mutated = false) := by
  have h := parser_state_fresh
  simp only [parseIsPerCall, Bool.and_eq_true, List.all_eq_true, List.any_eq_true, Bool.not_eq_true',
    Bool.or_eq_true, Bool.and_eq_false_iff, List.contains_iff_mem, beq_iff_eq] at h
  obtain ⟨⟨h1, h2⟩, h3⟩ := h
  refine ⟨?_, ?_, ?_⟩
  · intro r hr hc
    rcases h1 r hr with h | h
    · simp_all
    · exact h
  · intro c hc
    obtain ⟨r, hr, hrc, hrs⟩ := h2 c hc
    exact ⟨r, hr, hrc, hrs⟩
  · intro r hr hs hst
    rcases h3 r hr with h | h
    · rcases h with h | h <;> simp_all
    · exact h

/-- the fields of `Lexer.__init__` the DESIGN names are among the per-call objects observed -/
theorem lexer_fields_observed :
    (["Lexer.newline_idx", "Lexer.token_stack", "Lexer.next_tokens", "Lexer.hidden_tokens",
      "LRParser.statestack", "LRParser.symstack", "Parser.lexer", "Parser.parser", "Lexer.lexer"].all fun role =>
        ["parse(with_comments=0)", "parse(with_comments=1)"].all fun c =>
          parseObjs.any fun r => r.config == c && r.role == role && r.stateful && !r.shared) = true ∧
    (["LRParser.action", "LRParser.goto"].all fun role =>
        parseObjs.any fun r => r.role == role && r.shared && !r.mutated) = true := by
  decide +kernel

/-- no module-level object of the lexer / parser / asttypes / generated-table modules changed -/
theorem module_state_readonly : ∀ r ∈ parsePersist, r.mutated = false := by
  have h : (parsePersist.all fun r => !r.mutated) = true := by decide +kernel
  intro r hr
  have := List.all_eq_true.mp h r hr
  simpa using this

theorem module_state_observed :
    (["module:lexers.es5", "module:parsers.es5", "module:asttypes", "generated:lextab", "generated:yacctab"].all
      fun n => parsePersist.any fun r => r.name == n) = true := by
  decide +kernel

section
variable {G Flag Text PS Res : Type}

/-- **C15, main theorem** (sequential histories): every result equals the fresh result; the shared
    tables are unchanged.  The hypothesis is the table fact that selects this semantics. -/
theorem parse_history_independent (_sel : parseIsPerCall parseObjs = true)
    (M : ParseMachine G Flag Text PS Res) (pr : Proc G PS) (calls : List (Flag × Text)) :
    (runParses M pr calls).2 = calls.map (parseFresh M pr.tables) ∧
    (runParses M pr calls).1.tables = pr.tables :=
  runParses_eq M calls pr

/-- in particular: repetition gives the same value, whatever was parsed in between -/
theorem parse_repeatable (M : ParseMachine G Flag Text PS Res) (pr : Proc G PS)
    (before between : List (Flag × Text)) (c : Flag × Text) :
    let rs := (runParses M pr (before ++ [c] ++ between ++ [c])).2
    rs[before.length]? = some (parseFresh M pr.tables c) ∧ rs.getLast? = some (parseFresh M pr.tables c) := by
  intro rs
  have h : rs = (before ++ [c] ++ between ++ [c]).map (parseFresh M pr.tables) :=
    (runParses_eq M _ pr).1
  rw [h]
  constructor
  · simp
  · simp only [List.map_append, List.map_cons, List.map_nil]
    exact List.getLast?_concat

end

open Toy

/-- the hypothesis of the main theorem is satisfiable (it is `parser_state_fresh`), on a concrete
    non-trivial engine: three parses, the middle one of a two-line text -/
example :
    (runParses parseMachine ⟨(), []⟩ [(false, [97, 98]), (true, [97, 10, 98]), (false, [97, 98])]).2
      = [[(97, 1, 1), (98, 1, 2)], [(97, 1, 1), (98, 2, 1)], [(97, 1, 1), (98, 1, 2)]] ∧
    (runParses parseMachine ⟨(), []⟩ [(false, [97, 98]), (true, [97, 10, 98]), (false, [97, 98])]).2
      = [(false, [97, 98]), (true, [97, 10, 98]), (false, [97, 98])].map (parseFresh parseMachine ()) :=
  ⟨by decide +kernel, (parse_history_independent parser_state_fresh parseMachine ⟨(), []⟩ _).1⟩

/-- **reused_parser_is_not_pure**: one Parser object for all calls.  After `"a\nb"` the list
    `newline_idx` is `[0, 2]`; the next parse of `"ab"` reports line 2 and columns -1, 0 where a fresh
    parser reports line 1 and columns 1, 2.  The same text, two results. -/
theorem reused_parser_is_not_pure :
    (runReused parseMachine () (parseMachine.init () false) [(false, [97, 98]), (false, [97, 10, 98]), (false, [97, 98])]).2
      = [[(97, 1, 1), (98, 1, 2)], [(97, 1, 1), (98, 2, 1)], [(97, 2, -1), (98, 2, 0)]] ∧
    parseFresh parseMachine () (false, [97, 98]) = [(97, 1, 1), (98, 1, 2)] := by
  decide +kernel

end CalmVerif.Props.C15
