/-
C05 — the lexer's table of statement-header keywords is the one the grammar dictates.

The lexer decides "regex or division" after a `)` by remembering whether the matching `(` followed a keyword of
`IMPLIED_BLOCK_IDENTIFIER` (regenerated as `Gen.LexData.impliedBlockIdentifier`).  The grammar side of the same notion: the
terminals `k` for which the regenerated grammar has a production of the shape `k LPAREN … RPAREN statement …` — a parenthesised
header directly followed by a sub-statement, the only place where a `)` is followed by the START of a statement and hence by a
regular expression rather than a division.  `header_keywords_are_grammar_headers` compares the two regenerated tables in the
kernel.  Until 4c0dced `WITH` was missing from the lexer's table (finding KF-05a, `with (x) /re/.test(y)` rejected):
`kf05a_table_rejected` shows the checker refutes the old table; a keyword added without a grammar production (say SWITCH or CATCH,
whose `)` is followed by `{`) is refuted as well (`extra_keyword_rejected`).
-/
import CalmVerif.Proofs.GrammarFacts
import CalmVerif.Gen.Tables.Cached
import CalmVerif.Gen.LexData
namespace CalmVerif.Props.C05hdr
open CalmVerif CalmVerif.Model.GrammarFacts

def g : GT :=
  { terminals := Gen.Tables.Cached.terminals, nonterminals := Gen.Tables.Cached.nonterminals,
    prods := Gen.Tables.Cached.prods, action := Gen.Tables.Cached.action, defaulted := Gen.Tables.Cached.defaulted }

/-- does `rhs` contain `a` directly followed by `b`? -/
def hasPair (a b : Nat) : List Nat → Bool
  | x :: y :: rest => (x == a && y == b) || hasPair a b (y :: rest)
  | _ => false

/-- terminals `k` with a production `k LPAREN … RPAREN statement …` -/
def grammarHeaderKeywords (g : GT) : List String :=
  let lp := g.term "LPAREN"
  let rp := g.term "RPAREN"
  let st := g.nT + g.nonterm "statement"
  ((g.prods.drop 1).filterMap fun (_, rhs) =>
    match rhs with
    | k :: l :: _ => if k < g.nT && l == lp && hasPair rp st rhs then g.terminals[k]? else none
    | _ => none).eraseDups

def sameSet (a b : List String) : Bool := a.all b.contains && b.all a.contains

/-- D: the lexer's header-keyword table = the keywords the grammar gives a parenthesised header followed by a statement -/
theorem header_keywords_are_grammar_headers :
    sameSet Gen.LexData.impliedBlockIdentifier (grammarHeaderKeywords g) = true := by decide +kernel

/-- non-vacuity / what the set is -/
theorem grammar_header_keywords_value :
    sameSet (grammarHeaderKeywords g) ["IF", "FOR", "WHILE", "WITH"] = true ∧
    g.terminals.contains "LPAREN" = true ∧ g.nonterminals.contains "statement" = true := by decide +kernel

/-- the table before 4c0dced (KF-05a: WITH missing) is refuted -/
theorem kf05a_table_rejected : sameSet ["FOR", "IF", "WHILE"] (grammarHeaderKeywords g) = false := by decide +kernel

/-- a keyword whose `)` is NOT followed by a statement (SWITCH: a case block, CATCH: a block) is refuted too -/
theorem extra_keyword_rejected :
    sameSet ["FOR", "IF", "WHILE", "WITH", "SWITCH"] (grammarHeaderKeywords g) = false ∧
    sameSet ["CATCH", "FOR", "IF", "WHILE", "WITH"] (grammarHeaderKeywords g) = false := by decide +kernel

end CalmVerif.Props.C05hdr
