import CalmVerif.Proofs.ApiCalls
import CalmVerif.Proofs.ApiTable
/-
C14  Unparsing is pure: tree unchanged, printers reusable, shortcuts agree.

What is proved here, and about what.

(1) Facts about the *regenerated* table `Gen.Api` (harness/gen/g_api.py observes them on the running
    implementation on every run: object identity across two `setup()` / two running `__call__`s of
    every printer configuration, deep structural hashes around a batch of exhausted, abandoned and
    raising calls):
      `per_call_objects_fresh`     no stateful object (Indentator, Obfuscator, Dispatcher, handler maps,
                                   walker stacks) reached by the per-call machinery is shared by two calls;
      `per_call_objects_observed`  the table is not vacuous: those objects are in it, as fresh;
      `persistent_state_readonly`  no named persistent object (printer `__dict__` incl. rule closures and the
                                   shared `layout_handlers` dict of `minify`, `definitions`,
                                   `ElisionJoinAttr.sep`, module globals, the probe trees) changed;
      `configs_are_per_call`       hence `Model.Api.semOf` selects the per-call semantics for every
                                   configuration.
    If /repo is changed to hoist e.g. the `Indentator` out of `indentation_rule`, the regenerated
    table has a shared stateful row, `per_call_objects_fresh` and `configs_are_per_call` no longer
    check, and `print_history_independent` — stated for the semantics the table selects — fails with them.

(2) `print_history_independent`: for EVERY engine `M` (a parameter: the theorem holds for the real
    unparser model once plugged in), every heap of printer objects / trees / live generators and every
    well-formed history of `start` / `next` / `drop` operations (calls consumed to the end, abandoned
    after k fragments, raising, generators kept alive and resumed later, arbitrarily interleaved):
    printers and trees are unchanged, and the observations of every generator are those of the same
    operations on a generator *alone in the world* (`soloRun`): they depend on its configuration, its
    tree and the operations addressed to it, and on nothing else in the history.
    `print_prefix_of_fresh_run` is the prefix form for generators that are not closed;
    `print_calls_independent` the call-list form with an explicit trace function `run`.

(3) `shared_state_hazard`: under the alternative semantics (handler object hoisted into the printer)
    an abandoned call changes a later result — the theorem is not vacuous and the mechanism matters.

(4) `shortcuts_agree`: what the model says about `str(node)`, `es5.pretty_print(text)`,
    `es5.minify_print(text, …)`: a shortcut builds a brand-new printer (and parser) and makes one
    exhausted call; by (2) that is what the explicit calls return in any history.  Its content is
    the tie (harness/checks/C14.py compares the real entry points, every keyword variant).

The theorems are only as strong as the partition; the partition is what `Gen.Api` observes and what
the tie (random histories on the real code) re-checks on every run.
-/
namespace CalmVerif.Props.C14
open CalmVerif.Model.Api CalmVerif.Proofs.Api CalmVerif.Gen.Api

/-! ### (1) the regenerated table -/

/-- no object with mutable state is shared across two calls of one printer, for every configuration -/
theorem per_call_objects_fresh : ∀ r ∈ printerObjs, r.stateful = true → r.shared = false := by
  have h := printerObjs_fresh_b
  intro r hr hs
  have := List.all_eq_true.mp h r hr
  cases hh : r.shared <;> simp_all

/-- the table does contain the per-call objects, observed as stateful and NOT shared: an `Indentator`
    behind the indent handlers of the pretty printer, an `Obfuscator` behind `Resolve` and the prewalk
    hook of the obfuscating minifier, the `Dispatcher`, the handler maps `setup()` returns and the
    walker's two stacks -/
theorem per_call_objects_observed :
    (printerObjs.any fun r => r.role == "layout:Indent.self" && r.config == "pretty_printer()" &&
        r.cls == "Indentator" && r.stateful && !r.shared) = true ∧
    (printerObjs.any fun r => r.role == "prewalk[0].self" &&
        r.config == "minify_printer(obfuscate=1,obfuscate_globals=0,shadow_funcname=0,drop_semi=0)" &&
        r.cls == "Obfuscator" && r.stateful && !r.shared) = true ∧
    -- for EVERY configuration, in table order: the five per-call objects every call has, stateful and fresh
    ((printerObjs.filter fun r =>
        ["call.dispatcher", "setup.layout_handlers", "setup.deferrable_handlers", "call.walk.nodes",
         "call.walk.sourcepath_stack"].contains r.role && r.stateful && !r.shared).map (·.config))
      = printerConfigs.flatMap (fun c => List.replicate 5 c) :=
  printerObjs_observed_b

/-- no persistent object (printer attributes and rule closures, `definitions`, `ElisionJoinAttr.sep`,
    module-level state, the trees printed) changed over a batch of exhausted, abandoned and raising calls -/
theorem persistent_state_readonly : ∀ r ∈ printerPersist, r.mutated = false := by
  have h := printerPersist_readonly_b
  intro r hr
  have := List.all_eq_true.mp h r hr
  simpa using this

/-- the persistent table is not vacuous: for every configuration it covers the printer's own attributes,
    the shared `definitions`, the class-level separator node and a tree -/
theorem persistent_state_observed :
    ((printerPersist.filter fun r =>
        ["printer.__dict__", "printer.rules[0]", "module:unparsers.es5.definitions",
         "module:ruletypes.ElisionJoinAttr.sep", "module:handlers.core", "tree[0]"].contains r.name).map (·.config))
      = printerConfigs.flatMap (fun c => List.replicate 6 c) :=
  printerPersist_observed_b

/-- the semantics selected by the table is the per-call one, for every configuration name whatever -/
theorem configs_are_per_call (config : String) : semOf printerObjs config = .perCall :=
  semOf_perCall printerObjs per_call_objects_fresh config

/-! ### (2) history independence -/

section
variable {Cfg Tree H W Frag Err : Type}

/-- **C14, main theorem.**  `name` maps a printer object's configuration to the name of its row set in
    `Gen.Api`; the semantics of each printer's calls is the one the table selects. -/
theorem print_history_independent
    (M : Machine Cfg Tree H W Frag Err) (name : Cfg → String)
    (hp : Heap Cfg Tree H W) (ops : List Op) (hwf : wellFormed hp.gens.length ops = true) :
    let r := exec (fun cfg => semOf printerObjs (name cfg)) M hp ops
    -- printer objects (configuration and anything hoisted into them) and trees are unchanged
    r.1.printers = hp.printers ∧ r.1.trees = hp.trees ∧
    -- generators alive when the history starts (calls begun earlier, resumed now)
    (∀ g go cfg cell tree, hp.gens[g]? = some go →
        hp.printers[go.printer]? = some (cfg, cell) → hp.trees[go.tree]? = some tree →
        obsOf g r.2 = soloRun M cfg tree go.st (opsOn g ops)) ∧
    -- calls made by the history
    (∀ g p t cfg cell tree, startedBy hp.gens.length g ops = some (p, t) →
        hp.printers[p]? = some (cfg, cell) → hp.trees[t]? = some tree →
        obsOf g r.2 = soloRun M cfg tree .fresh (opsOn g (opsAfterStart hp.gens.length g ops))) := by
  intro r
  have hsel : (fun cfg => semOf printerObjs (name cfg)) = fun _ => Sem.perCall :=
    sel_const _ (fun cfg => configs_are_per_call (name cfg))
  have hr : r = exec (fun _ => Sem.perCall) M hp ops := by simp only [r, hsel]
  rw [hr]
  refine ⟨(exec_frame M ops hp).1, (exec_frame M ops hp).2, ?_, ?_⟩
  · intro g go cfg cell tree hg hpr htr
    exact exec_local M ops hp g go hg cfg cell tree hpr htr
  · intro g p t cfg cell tree hs hpr htr
    exact exec_created M ops hp g p t hwf hs cfg cell tree hpr htr

/-- prefix form: a call made by the history and never closed yields, `next()` after `next()`, exactly the
    first `n` observations of a fresh run (`n` = how often it was resumed, whatever else happened in
    between), and that is a prefix of every longer fresh run -/
theorem print_prefix_of_fresh_run
    (M : Machine Cfg Tree H W Frag Err) (name : Cfg → String)
    (hp : Heap Cfg Tree H W) (ops : List Op) (hwf : wellFormed hp.gens.length ops = true)
    (g p t : Nat) (cfg : Cfg) (cell : H) (tree : Tree)
    (hs : startedBy hp.gens.length g ops = some (p, t))
    (hpr : hp.printers[p]? = some (cfg, cell)) (htr : hp.trees[t]? = some tree)
    (hnd : (opsOn g (opsAfterStart hp.gens.length g ops)).all (· == GOp.next) = true) :
    let n := nextCount g (opsAfterStart hp.gens.length g ops)
    obsOf g (exec (fun cfg => semOf printerObjs (name cfg)) M hp ops).2 = freshPrefix M cfg tree n ∧
    ∀ k, freshPrefix M cfg tree n = (freshPrefix M cfg tree (n + k)).take n := by
  intro n
  have h := (print_history_independent M name hp ops hwf).2.2.2 g p t cfg cell tree hs hpr htr
  refine ⟨?_, ?_⟩
  · rw [h, opsOn_eq_replicate _ _ hnd]; rfl
  · intro k
    exact (soloRun_take M cfg tree k n .fresh).symm

end

section
variable {Cfg Tree S Frag : Type}

/-- call-list form (the fragment-producing function `run` and the state `init` that `setup()` allocates
    are parameters): every call of every mode returns the corresponding prefix of the fresh run, and
    the printer cells are unchanged -/
theorem print_calls_independent (run : Cfg → S → Tree → List (Frag × S)) (init : Cfg → S)
    (printers : List (Cfg × S)) (trees : List Tree) (cs : List Call) :
    runCalls (call run init) printers trees cs = (printers, cs.map (freshResult run init printers trees)) :=
  runCalls_call run init printers trees cs

/-! ### (4) shortcuts -/

/-- `str(node)` / `pretty_print` / `minify_print` build a new printer object per invocation; an
    exhausted explicit call on ANY long-lived printer object of the same configuration, after ANY
    history of calls, returns the same fragments.  With `helperPrint`: the `es5` helper applied to
    source text is `parse` (fresh Parser, see C15) followed by that. -/
theorem shortcuts_agree (run : Cfg → S → Tree → List (Frag × S)) (init : Cfg → S)
    (printers : List (Cfg × S)) (trees : List Tree) (history : List Call)
    (p t : Nat) (cfg : Cfg) (cell : S) (tree : Tree)
    (hpr : printers[p]? = some (cfg, cell)) (htr : trees[t]? = some tree) :
    (runCalls (call run init) printers trees (history ++ [⟨p, t, .exhaust⟩])).2.getLast?
      = some (some (shortcutPrint run init cfg tree)) := by
  rw [runCalls_append_snd, print_calls_independent]
  simp [call, hpr, htr, consume, shortcutPrint]

theorem shortcuts_agree_text {G Flag Text PS E : Type}
    (PM : ParseMachine G Flag Text PS (Except E Tree)) (pr : Proc G PS) (parses : List (Flag × Text))
    (run : Cfg → S → Tree → List (Frag × S)) (init : Cfg → S) (cfg : Cfg) (c : Flag × Text) :
    -- explicit: parse `c` after any parse history, then (if it parsed) print with a new printer
    helperPrint PM pr.tables run init cfg c
      = match (runParses PM pr (parses ++ [c])).2.getLast? with
        | some (.ok tree) => .ok (shortcutPrint run init cfg tree)
        | some (.error e) => .error e
        | none => helperPrint PM pr.tables run init cfg c := by
  rw [(runParses_eq PM (parses ++ [c]) pr).1]
  simp only [List.map_append, List.map_cons, List.map_nil, List.getLast?_append, List.getLast?_singleton,
    Option.some_or]
  unfold helperPrint
  split <;> simp_all

end

/-! ### non-vacuity and (3) the hazard -/

open Toy

/-- hypotheses satisfiable, and a concrete interleaved history on the toy Indentator engine
    (width 2 and width 4 printers; tree1 = nested blocks, tree2 raises after one fragment):
    generator 0 is abandoned inside a block, generator 1 (same printer, same tree) is unaffected,
    generator 2 raises, generator 0 is resumed later, generator 3 is closed before its first `next` -/
example :
    let hp : Heap Nat (List Tok) Nat (List Tok) :=
      { printers := [(2, 0), (4, 0)], trees := [tree1, tree2], gens := [] }
    let ops := [Op.start 0 0, .next 0, .next 0, .next 0,       -- abandoned at level 2
                .start 0 0, .next 1, .next 1,                    -- same printer, same tree, from the top
                .start 1 1, .next 2, .next 2, .next 2,           -- raises, then stays dead
                .next 0, .next 1,                                -- both resumed
                .start 1 0, .drop 3, .next 3]
    wellFormed hp.gens.length ops = true ∧
    (exec (fun _ => semOf printerObjs "pretty_printer()") machine hp ops).2 =
      [(0, .frag (0, 1)), (0, .frag (2, 2)), (0, .frag (4, 3)),
       (1, .frag (0, 1)), (1, .frag (2, 2)),
       (2, .frag (0, 7)), (2, .raised ()), (2, .stop),
       (0, .frag (2, 4)), (1, .frag (4, 3)),
       (3, .stop)] := by
  decide +kernel

/-- **shared_state_hazard** (generator heap): the same engine with the Indentator hoisted into the
    printer.  A call abandoned inside two blocks leaves the level at 2; the next call on the same
    printer and tree starts indented by 4 instead of 0 — its result differs from the fresh run. -/
example :
    let hp : Heap Nat (List Tok) Nat (List Tok) :=
      { printers := [(2, 0)], trees := [tree1], gens := [] }
    let ops := [Op.start 0 0, .next 0, .next 0, .next 0, .start 0 0, .next 1]
    obsOf 1 (exec (fun _ => Sem.hoisted) machine hp ops).2 = [.frag (4, 1)] ∧
    freshPrefix machine 2 tree1 1 = [.frag (0, 1)] ∧
    (exec (fun _ => Sem.hoisted) machine hp ops).1.printers = [(2, 2)] ∧
    obsOf 1 (exec (fun _ => Sem.perCall) machine hp ops).2 = [.frag (0, 1)] := by
  decide +kernel

/-- **shared_state_hazard** (call-list form, `callShared`): abandon after 3 fragments, then an exhausted
    call on the same printer: all its fragments are shifted; under `call` they are not -/
theorem shared_state_hazard :
    (runCalls (callShared Toy.run) [(2, 0)] [tree1] [⟨0, 0, .abandon 3⟩, ⟨0, 0, .exhaust⟩]).2
      = [some [(0, 1), (2, 2), (4, 3)], some [(4, 1), (6, 2), (8, 3), (6, 4), (4, 5)]] ∧
    (runCalls (call Toy.run (fun _ => 0)) [(2, 0)] [tree1] [⟨0, 0, .abandon 3⟩, ⟨0, 0, .exhaust⟩]).2
      = [some [(0, 1), (2, 2), (4, 3)], some [(0, 1), (2, 2), (4, 3), (2, 4), (0, 5)]] ∧
    (runCalls (callShared Toy.run) [(2, 0)] [tree1] [⟨0, 0, .abandon 3⟩, ⟨0, 0, .exhaust⟩]).1 ≠ [(2, 0)] := by
  decide +kernel

end CalmVerif.Props.C14
