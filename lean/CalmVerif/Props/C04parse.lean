/-
Property C04 (automatic semicolon insertion follows ECMA-262 §7.9), parse level, the "ONLY WHERE" half:
on the composed model (`Model.Parser.parse` = lexer × LR driver × `p_error`), every automatically inserted semicolon
that exists anywhere in any configuration of any parse was created for one of exactly three reasons, stated
against the TEXT with the ES5 notions of Spec.LexSeg (§7.2 WhiteSpace, §7.3 LineTerminator):

  (R1) `AsiReason.offending o`  — §7.9.1 rule 1.  Made by `p_error` from a REAL token `o` of the text
       (`RealTok`: not inserted, its lexeme is the text at its offset) for which the parser had no action where it
       stood (`Rejects (tyOf o)`: a non-defaulted state of the regenerated tables without action on `o`'s terminal),
       `o` is not `;`, the inserted token carries `o`'s offset and line, and
         — `o` is `}`, or
         — `LtDirectlyBefore text o.lexpos`: THE MODEL'S EXACT CONDITION (`prev_token.type == 'LINE_TERMINATOR'`
           on RAW tokens) in text terms: a LineTerminatorSequence lies before `o`, and between its end and `o`
           there is ONLY WhiteSpace.  This is narrower than §7.9.1 ("separated by at least one LineTerminator"):
           a comment between the terminator and `o`, or a terminator inside a comment, hides it (KF-04a) — those
           are cases where ES5 inserts and calmjs does not; they do not affect this ("only where") direction.
           `model_condition_implies_es5`: it implies the ES5 condition `LineTerminatorBefore` (a LineTerminator
           character before `o`, separated from `o` by WhiteSpace only, hence between the previous token and `o`).
  (R2) `AsiReason.endOfInput`  — §7.9.1 rule 2.  Made by `p_error(None)`: the parser had no action on `$end`;
       the token is located at (0, 0).
  (R3) `AsiReason.restricted k kw` — §7.9.1 rule 3 (restricted productions).  Made by the lexer itself
       (`_get_update_token`) for a LineTerminatorSequence at the token's offset that follows the real keyword token
       `k` = `break` / `continue` / `return` / `throw` with ONLY WhiteSpace in between.  (A comment between the
       keyword and the terminator suppresses it: KF-04d; postfix `++`/`--` are not handled: KF-04c — again cases
       of missing insertions.)
`createSemiToken` has exactly three call sites in the model (`autoSemi` with / without a token, `getUpdateToken`);
the invariant `Proofs.ParserAsi.AsiCfg` follows every inserted token from its creation through the look-ahead, the
pushed-back list and the shifted log.  `autosemi_is_exactly_the_inserted_tokens`: among the tokens a parse holds,
"type AUTOSEMI" and "inserted" coincide — no rule of the lexer produces an AUTOSEMI token from text.

Not proved here: the converse ("inserts EVERYWHERE §7.9 says": false as such, see KF-04a/c/d/f and the differential
judge of harness/checks/C04.py), and the corollary on accepted trees combining `C04.asi_grammar_facts` with the
ghost derivation tree (an inserted `;` is always the last symbol of a statement production, never inside a
`for(;;)` header, never an empty statement): the table facts are proved (Props/C04), their lifting to the trees of
the composed model is left to the C03/C11 tracking machinery.
-/
import CalmVerif.Proofs.ParserAsi

namespace CalmVerif.Props.C04parse
open CalmVerif.Model CalmVerif.Model.LR CalmVerif.Model.Lexer
open CalmVerif.Proofs.ParserAsi CalmVerif.Proofs.ParserNoInternal CalmVerif.Proofs.ParserDrive
open CalmVerif.Proofs.LexerDrive

/-- the tokens a configuration holds: shifted, look-ahead, pushed back by `auto_semi` -/
def Holds (c : PCfg) (t : Token) : Prop :=
  t ∈ c.shifted ∨ c.look = some (some t) ∨ t ∈ c.src.nextTokens

/-- **T `autosemi_justified`**: for every text and flag, in every configuration `Parser.parse text wc` passes through
    (`Reach` from the initial configuration; `C11comp.parse_configs_reachable`), every inserted token the parser
    holds has an `AsiReason`: offending token after a line terminator or `}` (R1), end of input (R2), or restricted
    production (R3) -/
theorem autosemi_justified (text : List Char) (wc : Bool) (c : PCfg)
    (hr : Reach Grammar.cached PS Parser.source (initConfig (Lexer.init text wc false)) c)
    (t : Token) (ht : Holds c t) (hauto : t.auto = true) : AsiReason text t := by
  obtain ⟨_, ha⟩ := reach_asi hr
  rcases ht with h | h | h
  · exact ha.2.1 t h hauto
  · exact (ha.2.2 t h).1 hauto
  · exact ha.1.nextR t h hauto

/-- among the tokens a parse holds, the AUTOSEMI-typed ones are exactly the inserted ones (nothing else creates an
    AUTOSEMI; no inserted token has another type), and an inserted token is `;` -/
theorem autosemi_is_exactly_the_inserted_tokens (text : List Char) (wc : Bool) (c : PCfg)
    (hr : Reach Grammar.cached PS Parser.source (initConfig (Lexer.init text wc false)) c)
    (t : Token) (ht : Holds c t) :
    (t.type = "AUTOSEMI" ↔ t.auto = true) ∧ (t.auto = true → t.value = [';']) := by
  obtain ⟨hk, _⟩ := reach_asi hr
  have hg : Good text c.src.newlineIdx t := by
    rcases ht with h | h | h
    · exact hk.1.2.1 t h
    · exact hk.1.2.2 t h
    · exact hk.1.1.next t h
  exact ⟨good_autosemi_iff hg, fun ha => (hg.2 ha).2.1⟩

/-- the model's line-terminator condition implies the ES5 §7.9.1 condition (the sound direction) -/
theorem model_condition_implies_es5 (text : List Char) (pos : Nat) (h : LtDirectlyBefore text pos) :
    LineTerminatorBefore text pos :=
  lineTerminatorBefore_of_directly h

/-- reader's corollary of R1: an inserted semicolon made for an offending token that is not `}` has a LineTerminator
    between the previous token and the offending token (only WhiteSpace separates the terminator from it) -/
theorem offending_has_line_terminator (text : List Char) (o : Token)
    (h : RealTok text o ∧ ((o.type = "RBRACE" ∧ o.value = ['}']) ∨ LtDirectlyBefore text o.lexpos))
    (hnb : o.type ≠ "RBRACE") : LineTerminatorBefore text o.lexpos := by
  rcases h.2 with ⟨hb, _⟩ | hl
  · exact absurd hb hnb
  · exact lineTerminatorBefore_of_directly hl

/-! ### non-vacuity: each reason occurs -/

/-- the inserted tokens among the shifted tokens when the run stops -/
def insertedOf (text : String) : List (String × Nat × Nat) :=
  ((run Grammar.cached PS Parser.source (Parser.parseFuel text.toList)
      (initConfig (Lexer.init text.toList false false))).2.shifted.reverse.filter (·.auto)).map
    (fun t => (t.type, t.lexpos, t.lineno))

/-- R1 with a line terminator (`a\nb`: before `b`), R1 with `}` (`{a}`), R2 (`a` at end of input),
    R3 (`return\n1`: on the `\n`) -/
example :
    insertedOf "a\nb" = [("AUTOSEMI", 2, 2), ("AUTOSEMI", 0, 0)] ∧
    insertedOf "{a}" = [("AUTOSEMI", 2, 1)] ∧
    insertedOf "a" = [("AUTOSEMI", 0, 0)] ∧
    insertedOf "function f(){return\n1}" = [("AUTOSEMI", 19, 1), ("AUTOSEMI", 21, 2)] := by
  decide +kernel

end CalmVerif.Props.C04parse
