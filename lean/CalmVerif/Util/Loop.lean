/- stdin/stdout line loop used by every driver executable -/
import CalmVerif.Util.Proto
namespace CalmVerif

partial def lineLoop (f : String → String) : IO Unit := do
  let stdin ← IO.getStdin
  let stdout ← IO.getStdout
  let rec go : IO Unit := do
    let line ← stdin.getLine
    if line.isEmpty then
      stdout.flush
      return ()
    let l := Proto.trimNl line
    if l == "#flush" then
      stdout.putStrLn "#flushed"
      stdout.flush
    else
      stdout.putStrLn (f l)
      stdout.flush
    go
  go

end CalmVerif
