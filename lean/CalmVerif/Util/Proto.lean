/-
Line-protocol helpers shared by all drivers (no Mathlib, no proofs).

String encoding used on the wire (`encStr` / `decStr`):
  every character that is an ASCII letter, digit or `_` is written literally,
  every other character as `%<hex code point>;`.  A string value is always
  written with a leading apostrophe, so the empty string is the token `'`.
-/
namespace CalmVerif.Proto

def hexDigit (n : Nat) : Char :=
  if n < 10 then Char.ofNat (48 + n) else Char.ofNat (87 + n)

def toHexAux : Nat → Nat → List Char → List Char
  | 0, _, acc => acc
  | fuel + 1, n, acc =>
      if n < 16 then hexDigit n :: acc else toHexAux fuel (n / 16) (hexDigit (n % 16) :: acc)

def toHex (n : Nat) : List Char := toHexAux 16 n []

def hexVal (c : Char) : Option Nat :=
  if '0' ≤ c ∧ c ≤ '9' then some (c.toNat - 48)
  else if 'a' ≤ c ∧ c ≤ 'f' then some (c.toNat - 87)
  else if 'A' ≤ c ∧ c ≤ 'F' then some (c.toNat - 55)
  else none

def isPlain (c : Char) : Bool :=
  ('a' ≤ c && c ≤ 'z') || ('A' ≤ c && c ≤ 'Z') || ('0' ≤ c && c ≤ '9') || c == '_'

def encChars : List Char → List Char
  | [] => []
  | c :: cs => if isPlain c then c :: encChars cs
               else ('%' :: toHex c.toNat) ++ (';' :: encChars cs)

/-- state machine: `esc = some v` while inside a `%…;` escape -/
def decAux : List Char → Option Nat → List Char → Option (List Char)
  | [], none, acc => some acc.reverse
  | [], some _, _ => none
  | c :: cs, none, acc => if c == '%' then decAux cs (some 0) acc else decAux cs none (c :: acc)
  | c :: cs, some v, acc =>
      if c == ';' then decAux cs none (Char.ofNat v :: acc)
      else match hexVal c with
        | some d => decAux cs (some (v * 16 + d)) acc
        | none => none

def decChars (l : List Char) : Option (List Char) := decAux l none []

/-- `'abc` ↦ "abc" -/
def decStr (tok : String) : Option String :=
  match tok.toList with
  | '\'' :: body => (decChars body).map String.ofList
  | _ => none

def encStr (s : String) : String := String.ofList ('\'' :: encChars s.toList)

def decInt (tok : String) : Option Int := tok.toInt?
def decNat (tok : String) : Option Nat := tok.toNat?

def words (line : String) : List String :=
  (line.splitOn " ").filter (fun w => w != "")

def trimNl (s : String) : String :=
  String.ofList (s.toList.reverse.dropWhile (fun c => c == '\n' || c == '\r')).reverse

end CalmVerif.Proto
