/-
Generic tree values exchanged between the harness and the Lean drivers.

Wire format (space separated tokens on one line):
  N            None
  T / F        booleans
  I<int>       integer, e.g. I-5
  '<enc>       string (see Proto.encStr)
  [ v* ]       list
  ( Kind a1 v1 a2 v2 … )   node of class `Kind` with attributes in the order given

Attribute names starting with `@` are reserved for positional metadata
(`@pos`, `@tokmap`, `@comments`, `@sourcepath`); structure comparisons drop them.
-/
import CalmVerif.Util.Proto
namespace CalmVerif

inductive Val where
  | none
  | bool (b : Bool)
  | int (n : Int)
  | str (s : String)
  | list (xs : List Val)
  | node (kind : String) (attrs : List (String × Val))
  deriving Repr, Inhabited

namespace Val
open Proto

mutual
  def toks : Val → List String
    | .none => ["N"]
    | .bool true => ["T"]
    | .bool false => ["F"]
    | .int n => ["I" ++ toString n]
    | .str s => [encStr s]
    | .list xs => "[" :: (toksList xs ++ ["]"])
    | .node k as => "(" :: k :: (toksAttrs as ++ [")"])
  def toksList : List Val → List String
    | [] => []
    | v :: vs => toks v ++ toksList vs
  def toksAttrs : List (String × Val) → List String
    | [] => []
    | (a, v) :: rest => a :: (toks v ++ toksAttrs rest)
end

def render (v : Val) : String := " ".intercalate v.toks

-- Parser over a token list with fuel (fuel = number of tokens suffices).
mutual
  def parseVal : Nat → List String → Option (Val × List String)
    | 0, _ => Option.none
    | _ + 1, [] => Option.none
    | fuel + 1, t :: ts =>
      if t == "N" then some (.none, ts)
      else if t == "T" then some (.bool true, ts)
      else if t == "F" then some (.bool false, ts)
      else if t == "[" then
        match parseList fuel ts with
        | some (xs, rest) => some (.list xs, rest)
        | Option.none => Option.none
      else if t == "(" then
        match ts with
        | k :: ts' =>
          match parseAttrs fuel ts' with
          | some (as, rest) => some (.node k as, rest)
          | Option.none => Option.none
        | [] => Option.none
      else match t.toList with
        | 'I' :: ds => (String.ofList ds).toInt?.map (fun n => (.int n, ts))
        | '\'' :: _ => (decStr t).map (fun s => (.str s, ts))
        | _ => Option.none
  def parseList : Nat → List String → Option (List Val × List String)
    | 0, _ => Option.none
    | _ + 1, [] => Option.none
    | fuel + 1, t :: ts =>
      if t == "]" then some ([], ts)
      else match parseVal fuel (t :: ts) with
        | some (v, rest) =>
          match parseList fuel rest with
          | some (vs, rest') => some (v :: vs, rest')
          | Option.none => Option.none
        | Option.none => Option.none
  def parseAttrs : Nat → List String → Option (List (String × Val) × List String)
    | 0, _ => Option.none
    | _ + 1, [] => Option.none
    | fuel + 1, t :: ts =>
      if t == ")" then some ([], ts)
      else match parseVal fuel ts with
        | some (v, rest) =>
          match parseAttrs fuel rest with
          | some (as, rest') => some ((t, v) :: as, rest')
          | Option.none => Option.none
        | Option.none => Option.none
end

def parse (ts : List String) : Option (Val × List String) := parseVal (2 * ts.length + 2) ts

def attr? (v : Val) (name : String) : Option Val :=
  match v with
  | .node _ as => (as.find? (fun p => p.1 == name)).map (·.2)
  | _ => Option.none

def kind? : Val → Option String
  | .node k _ => some k
  | _ => Option.none

def isMeta (a : String) : Bool := a.toList.head? == some '@'

-- drop `@…` attributes everywhere (structure only)
mutual
  def strip : Val → Val
    | .list xs => .list (stripList xs)
    | .node k as => .node k (stripAttrs as)
    | v => v
  def stripList : List Val → List Val
    | [] => []
    | v :: vs => strip v :: stripList vs
  def stripAttrs : List (String × Val) → List (String × Val)
    | [] => []
    | (a, v) :: rest => if isMeta a then stripAttrs rest else (a, strip v) :: stripAttrs rest
end

end Val
end CalmVerif
