import CalmVerif.Gen.Api
/-
Object-heap model of the *state partition* of printers and of `parse()` (properties C14, C15).
No Mathlib, no proofs.

What is mirrored (calmjs/parse/unparsers/base.py, rules.py, parsers/es5.py):

* A printer object (`BaseUnparser`) holds persistent configuration only: `definitions`, the tuple
  `rules` of rule *factories* (closures), optional extra handler maps.  Its `__call__` is a generator
  function: calling it creates a generator object and runs NO code; the first `next()` runs
  `self.setup()` (every rule factory is called: `indentation_rule` builds `Indentator(indent_str)` with
  `_level = 0`, `name_obfuscation_rules` builds an `Obfuscator` with empty scopes; `minify_rule`
  returns a dict the closure shares, which `setup` only reads — it `update`s its own fresh dict),
  then builds a `Dispatcher`, runs the prewalk hooks and steps `walk` until the first fragment.
  Every later `next()` resumes `walk`.  An exception ends the generator (later `next()` raise
  `StopIteration`), so does exhaustion; `close()`/garbage collection of an abandoned generator
  throws `GeneratorExit` at the `yield`, which no `except Exception` of the walker catches and
  no `finally` exists for.
* `parse(source, with_comments)` builds `Parser(with_comments=…)` (fresh `Lexer` with the fields of
  lexers/es5.py `Lexer.__init__`, fresh ply lexer and `LRParser`) and calls `parser.parse(source)`;
  the LALR `action`/`goto` dicts and the lexer tables come from the generated modules in
  `sys.modules` and are shared by every Parser.

Which objects are per call and which are shared is NOT asserted here: `Gen.Api` (regenerated from
the running implementation on every run, by object identity across two calls) says so, and
`semOf` below *selects the semantics from that table*: if a configuration has a stateful handler
object that is shared between two calls, its calls are interpreted by the `hoisted` semantics (for
which history independence is false, see `Props.C14.shared_state_hazard`).

The fragment-producing engine is a parameter (`Machine`): the theorems of Props/C14 hold for every
machine, in particular for the unparser model (`Model.Unparse`) once it is plugged in.
-/
namespace CalmVerif.Model.Api

/-! ## Printers: generators over a heap -/

/-- what one `next()` of a running print generator does: `H` = state of the handler objects the rule
    factories build (Indentator level, Obfuscator tables), `W` = Dispatcher + walker stacks + control point -/
inductive StepOut (H W Frag Err : Type) where
  | yield (f : Frag) (h : H) (w : W)
  /-- normal end (`StopIteration`) -/
  | stop (h : H)
  /-- an exception escapes (`TypeError` of `Declare`, `AttributeError` on a corrupted tree, …) -/
  | raise (e : Err) (h : H)

/-- the fragment-producing engine, a parameter of everything below -/
structure Machine (Cfg Tree H W Frag Err : Type) where
  /-- `setup()`: call every rule factory; the handler objects in their initial state -/
  setup : Cfg → H
  /-- build the `Dispatcher`, the walker stacks and the control point "before the prewalk hooks" -/
  enter : Cfg → Tree → H → W
  /-- resume until the next `yield` / end / exception.  The tree and the configuration are arguments
      only: nothing is returned for them (this is the partition; `Gen.Api.printerPersist` and the tie
      check that the implementation indeed leaves them unchanged) -/
  step : Cfg → Tree → H → W → StepOut H W Frag Err

/-- what the caller of `next()` sees -/
inductive Obs (Frag Err : Type) where
  | frag (f : Frag)
  | stop
  | raised (e : Err)
  /-- the operation names an object that does not exist (ill-formed history) -/
  | badRef
  deriving DecidableEq, Repr

/-- state of a generator object -/
inductive GenSt (H W : Type) where
  /-- created, no `next()` yet: `setup` has not run -/
  | fresh
  | live (h : H) (w : W)
  /-- exhausted, raised, or closed -/
  | dead
  deriving DecidableEq, Repr

/-- a generator object: references (heap indices) to its printer and its tree + own state -/
structure GenObj (H W : Type) where
  printer : Nat
  tree : Nat
  st : GenSt H W
  deriving DecidableEq, Repr

/-- the heap.  A printer cell is its configuration plus a slot for handler state *hoisted into the
    printer*; the per-call semantics never reads or writes that slot -/
structure Heap (Cfg Tree H W : Type) where
  printers : List (Cfg × H)
  trees : List Tree
  gens : List (GenObj H W)

/-- operations of a history.  `start p t` = `g = printer_p(tree_t)` (the new generator gets the next
    free index), `next g` = `next(g)`, `drop g` = the generator is closed / garbage collected.
    A call consumed to the end is `start` followed by `next` until `stop`/`raised`; an abandoned call
    stops issuing `next`; interleaving is free. -/
inductive Op where
  | start (p t : Nat)
  | next (g : Nat)
  | drop (g : Nat)
  deriving DecidableEq, Repr

/-- the two candidate semantics -/
inductive Sem where
  /-- every call runs `setup` itself: handler objects belong to the generator -/
  | perCall
  /-- the handler objects were built once, with the printer (the hazard) -/
  | hoisted
  deriving DecidableEq, Repr

section
variable {Cfg Tree H W Frag Err : Type}

/-- resume a generator whose handler state is `h` and walker state `w` -/
def resume (M : Machine Cfg Tree H W Frag Err) (cfg : Cfg) (tree : Tree) (h : H) (w : W) :
    GenSt H W × H × Obs Frag Err :=
  match M.step cfg tree h w with
  | .yield f h' w' => (.live h' w', h', .frag f)
  | .stop h' => (.dead, h', .stop)
  | .raise e h' => (.dead, h', .raised e)

/-- one `next()` under the per-call semantics: the generator owns its handler state -/
def nextPerCall (M : Machine Cfg Tree H W Frag Err) (cfg : Cfg) (tree : Tree) :
    GenSt H W → GenSt H W × Obs Frag Err
  | .fresh =>
    let h := M.setup cfg
    let r := resume M cfg tree h (M.enter cfg tree h)
    (r.1, r.2.2)
  | .live h w => let r := resume M cfg tree h w; (r.1, r.2.2)
  | .dead => (.dead, .stop)

/-- one `next()` under the hoisted semantics: handler state lives in the printer cell `hp`;
    returns the new printer cell too.  (`live`'s first component is ignored.) -/
def nextHoisted (M : Machine Cfg Tree H W Frag Err) (cfg : Cfg) (tree : Tree) (hp : H) :
    GenSt H W → GenSt H W × H × Obs Frag Err
  | .fresh => resume M cfg tree hp (M.enter cfg tree hp)
  | .live _ w => resume M cfg tree hp w
  | .dead => (.dead, hp, .stop)

/-- one operation; the observation of a `next` is tagged with the generator index.
    `sel` says, per printer configuration, which of the two semantics its calls follow. -/
def execOp (sel : Cfg → Sem) (M : Machine Cfg Tree H W Frag Err) (hp : Heap Cfg Tree H W) :
    Op → Heap Cfg Tree H W × List (Nat × Obs Frag Err)
  | .start p t => ({ hp with gens := hp.gens ++ [⟨p, t, .fresh⟩] }, [])
  | .drop g =>
    match hp.gens[g]? with
    | none => (hp, [])
    | some go => ({ hp with gens := hp.gens.set g { go with st := .dead } }, [])
  | .next g =>
    match hp.gens[g]? with
    | none => (hp, [(g, .badRef)])
    | some go =>
      match hp.printers[go.printer]?, hp.trees[go.tree]? with
      | some (cfg, cell), some tree =>
        match sel cfg with
        | .perCall =>
          let r := nextPerCall M cfg tree go.st
          ({ hp with gens := hp.gens.set g { go with st := r.1 } }, [(g, r.2)])
        | .hoisted =>
          let r := nextHoisted M cfg tree cell go.st
          ({ hp with gens := hp.gens.set g { go with st := r.1 },
                     printers := hp.printers.set go.printer (cfg, r.2.1) }, [(g, r.2.2)])
      | _, _ => (hp, [(g, .badRef)])

/-- a whole history: final heap and the trace of observations -/
def exec (sel : Cfg → Sem) (M : Machine Cfg Tree H W Frag Err) (hp : Heap Cfg Tree H W) :
    List Op → Heap Cfg Tree H W × List (Nat × Obs Frag Err)
  | [] => (hp, [])
  | op :: ops =>
    let r := execOp sel M hp op
    let r' := exec sel M r.1 ops
    (r'.1, r.2 ++ r'.2)

/-- the observations of generator `g` in a trace, in order -/
def obsOf (g : Nat) (tr : List (Nat × Obs Frag Err)) : List (Obs Frag Err) :=
  (tr.filter (fun x => x.1 == g)).map (·.2)

/-- what happens to ONE generator in a history -/
inductive GOp where
  | next
  | drop
  deriving DecidableEq, Repr

/-- the operations of a history addressed to generator `g` -/
def opsOn (g : Nat) : List Op → List GOp
  | [] => []
  | .next g' :: ops => if g' = g then .next :: opsOn g ops else opsOn g ops
  | .drop g' :: ops => if g' = g then .drop :: opsOn g ops else opsOn g ops
  | .start _ _ :: ops => opsOn g ops

/-- the reference: a generator alone in the world (brand-new printer object of the same configuration,
    private copy of the tree), from state `st` -/
def soloRun (M : Machine Cfg Tree H W Frag Err) (cfg : Cfg) (tree : Tree) :
    GenSt H W → List GOp → List (Obs Frag Err)
  | _, [] => []
  | st, .next :: r => let x := nextPerCall M cfg tree st; x.2 :: soloRun M cfg tree x.1 r
  | _, .drop :: r => soloRun M cfg tree .dead r

/-- the first `n` observations of a fresh call that is never dropped: the prefix of the fresh run -/
def freshPrefix (M : Machine Cfg Tree H W Frag Err) (cfg : Cfg) (tree : Tree) (n : Nat) :
    List (Obs Frag Err) :=
  soloRun M cfg tree .fresh (List.replicate n .next)

/-- the `(printer, tree)` of the generator `g` as the history `ops` creates it on a heap that already
    holds `n` generators (`none`: `g` is not created by `ops`) -/
def startedBy (n : Nat) (g : Nat) : List Op → Option (Nat × Nat)
  | [] => none
  | .start p t :: ops => if n = g then some (p, t) else startedBy (n + 1) g ops
  | _ :: ops => startedBy n g ops

/-- the part of the history after the creation of `g` -/
def opsAfterStart (n : Nat) (g : Nat) : List Op → List Op
  | [] => []
  | .start _ _ :: ops => if n = g then ops else opsAfterStart (n + 1) g ops
  | _ :: ops => opsAfterStart n g ops

/-- every `next`/`drop` names a generator that exists at that point (`n` = generators on the heap so far) -/
def wellFormed (n : Nat) : List Op → Bool
  | [] => true
  | .start _ _ :: ops => wellFormed (n + 1) ops
  | .next g :: ops => decide (g < n) && wellFormed n ops
  | .drop g :: ops => decide (g < n) && wellFormed n ops

/-- number of `next g` in a history -/
def nextCount (g : Nat) (ops : List Op) : Nat :=
  ((opsOn g ops).filter (· == .next)).length

end

/-! ## The semantics is selected by the regenerated table -/

open CalmVerif.Gen.Api in
/-- roles of stateful objects that two calls of configuration `config` share -/
def hoistedRoles (rows : List ObjRow) (config : String) : List String :=
  (rows.filter (fun r => r.config == config && r.shared && r.stateful)).map (·.role)

open CalmVerif.Gen.Api in
/-- per-call objects of a configuration (what `Machine.setup`/`enter` allocate) -/
def perCallRoles (rows : List ObjRow) (config : String) : List String :=
  (rows.filter (fun r => r.config == config && !r.shared && r.stateful)).map (·.role)

open CalmVerif.Gen.Api in
def semOf (rows : List ObjRow) (config : String) : Sem :=
  if hoistedRoles rows config = [] then .perCall else .hoisted

/-! ## The call-list form (one call after the other, no interleaving) with an explicit trace function -/

/-- how the caller consumes the generator of one call -/
inductive Mode where
  | exhaust
  /-- `next()` `k` times, then the generator is dropped -/
  | abandon (k : Nat)
  /-- the consumer stops after `k` fragments because an exception came out (or was thrown in) -/
  | raiseAt (k : Nat)
  deriving DecidableEq, Repr

structure Call where
  printer : Nat
  tree : Nat
  mode : Mode
  deriving DecidableEq, Repr

section
variable {Cfg Tree S Frag : Type}

/-- the part of a stepwise trace the consumer pulls -/
def consume (mode : Mode) (tr : List (Frag × S)) : List (Frag × S) :=
  match mode with
  | .exhaust => tr
  | .abandon k => tr.take k
  | .raiseAt k => tr.take k

/-- handler state left behind by a consumed prefix (state is mutated only as far as fragments were pulled) -/
def stateAfter (s : S) (pulled : List (Frag × S)) : S :=
  match pulled.getLast? with
  | none => s
  | some x => x.2

/-- one call, per-call semantics: `init cfg` is the state `setup()` allocates -/
def call (run : Cfg → S → Tree → List (Frag × S)) (init : Cfg → S)
    (printers : List (Cfg × S)) (trees : List Tree) (c : Call) : List (Cfg × S) × Option (List Frag) :=
  match printers[c.printer]?, trees[c.tree]? with
  | some (cfg, _), some tree => (printers, some ((consume c.mode (run cfg (init cfg) tree)).map (·.1)))
  | _, _ => (printers, none)

/-- one call, the per-call object hoisted into the printer cell -/
def callShared (run : Cfg → S → Tree → List (Frag × S))
    (printers : List (Cfg × S)) (trees : List Tree) (c : Call) : List (Cfg × S) × Option (List Frag) :=
  match printers[c.printer]?, trees[c.tree]? with
  | some (cfg, cell), some tree =>
    let pulled := consume c.mode (run cfg cell tree)
    (printers.set c.printer (cfg, stateAfter cell pulled), some (pulled.map (·.1)))
  | _, _ => (printers, none)

/-- a history of calls: final printer cells and the result of every call -/
def runCalls (f : List (Cfg × S) → List Tree → Call → List (Cfg × S) × Option (List Frag))
    (printers : List (Cfg × S)) (trees : List Tree) : List Call → List (Cfg × S) × List (Option (List Frag))
  | [] => (printers, [])
  | c :: cs =>
    let r := f printers trees c
    let r' := runCalls f r.1 trees cs
    (r'.1, r.2 :: r'.2)

/-- the reference value of a call: a brand-new printer of the same configuration on the same tree -/
def freshResult (run : Cfg → S → Tree → List (Frag × S)) (init : Cfg → S)
    (printers : List (Cfg × S)) (trees : List Tree) (c : Call) : Option (List Frag) :=
  match printers[c.printer]?, trees[c.tree]? with
  | some (cfg, _), some tree => some ((consume c.mode (run cfg (init cfg) tree)).map (·.1))
  | _, _ => none

/-- `str(node)` / `pretty_print(node, …)` / `minify_print(node, …)`: build a brand-new printer object of
    configuration `cfg`, make one call, join everything -/
def shortcutPrint (run : Cfg → S → Tree → List (Frag × S)) (init : Cfg → S) (cfg : Cfg) (tree : Tree) : List Frag :=
  (run cfg (init cfg) tree).map (·.1)

end

/-! ## A concrete toy machine (an `Indentator`) for non-vacuity and for the hazard -/

namespace Toy

/-- toy tree: a flat token list -/
inductive Tok where
  | indent | dedent | line (n : Nat)
  /-- a node whose printing raises -/
  | boom
  deriving DecidableEq, Repr

/-- skip structure markers (they only move the level), stop at the next line.
    A fragment is (indentation width, line id). -/
def stepFrom (width : Nat) (level : Nat) : List Tok → StepOut Nat (List Tok) (Nat × Nat) Unit
  | [] => .stop level
  | .indent :: r => stepFrom width (level + 1) r
  | .dedent :: r => stepFrom width (level - 1) r
  | .boom :: _ => .raise () level
  | .line n :: r => .yield (level * width, n) level r

/-- handler state = `Indentator._level`; walker state = tokens still to visit; configuration = indent width -/
def machine : Machine Nat (List Tok) Nat (List Tok) (Nat × Nat) Unit where
  setup := fun _ => 0
  enter := fun _ tree _ => tree
  step := fun width _ level w => stepFrom width level w

/-- the same Indentator as a stepwise trace function (call-list form); the state recorded with a
    fragment is the level after it.  A raising node ends the trace. -/
def run (width : Nat) : Nat → List Tok → List ((Nat × Nat) × Nat)
  | _, [] => []
  | level, .indent :: r => run width (level + 1) r
  | level, .dedent :: r => run width (level - 1) r
  | _, .boom :: _ => []
  | level, .line n :: r => ((level * width, n), level) :: run width level r

/-- `a { b { c } d }` -/
def tree1 : List Tok := [.line 1, .indent, .line 2, .indent, .line 3, .dedent, .line 4, .dedent, .line 5]
def tree2 : List Tok := [.line 7, .boom, .line 8]

end Toy

/-! ## Parsing -/

/-- `G` = shared read-only tables (action/goto, lexer tables), `PS` = state of a Parser object
    (all `Lexer` fields of lexers/es5.py `__init__`, ply lexer position, LR stacks) -/
structure ParseMachine (G Flag Text PS Res : Type) where
  /-- `Parser(with_comments=flag)` -/
  init : G → Flag → PS
  /-- `parser.parse(text)` on an object in state `PS`: result (tree or error) and the state left behind.
      The tables are an argument only. -/
  parse : G → Flag → PS → Text → Res × PS

section
variable {G Flag Text PS Res : Type}

/-- the process: shared tables + every Parser object created so far (garbage, never reused) -/
structure Proc (G PS : Type) where
  tables : G
  objects : List PS

/-- `parse(text, with_comments)`: a fresh Parser per call -/
def parseCall (M : ParseMachine G Flag Text PS Res) (pr : Proc G PS) (c : Flag × Text) : Proc G PS × Res :=
  let r := M.parse pr.tables c.1 (M.init pr.tables c.1) c.2
  ({ pr with objects := pr.objects ++ [r.2] }, r.1)

/-- the alternative: ONE Parser object (module-level singleton) serves every call.
    (`Parser` fixes the comment flag at construction; the singleton is built with the flag of its
    first use, here a parameter.) -/
def parseReused (M : ParseMachine G Flag Text PS Res) (tables : G) (ps : PS) (c : Flag × Text) : PS × Res :=
  let r := M.parse tables c.1 ps c.2
  (r.2, r.1)

def runParses (M : ParseMachine G Flag Text PS Res) (pr : Proc G PS) : List (Flag × Text) → Proc G PS × List Res
  | [] => (pr, [])
  | c :: cs =>
    let r := parseCall M pr c
    let r' := runParses M r.1 cs
    (r'.1, r.2 :: r'.2)

def runReused (M : ParseMachine G Flag Text PS Res) (tables : G) (ps : PS) : List (Flag × Text) → PS × List Res
  | [] => (ps, [])
  | c :: cs =>
    let r := parseReused M tables ps c
    let r' := runReused M tables r.1 cs
    (r'.1, r.2 :: r'.2)

/-- the value the property compares with: the text parsed in a fresh process -/
def parseFresh (M : ParseMachine G Flag Text PS Res) (tables : G) (c : Flag × Text) : Res :=
  (M.parse tables c.1 (M.init tables c.1) c.2).1

/-- `es5.pretty_print(text, …)` / `es5.minify_print(text, …)` of the helper object
    (factory.RawParserUnparserFactory.build_unparse): `parse_callable(source, with_comments=…)`, then the
    print function on the tree; a parse error propagates -/
def helperPrint {Cfg S Frag E Tree : Type} (PM : ParseMachine G Flag Text PS (Except E Tree)) (tables : G)
    (run : Cfg → S → Tree → List (Frag × S)) (init : Cfg → S) (cfg : Cfg) (c : Flag × Text) :
    Except E (List Frag) :=
  match parseFresh PM tables c with
  | .ok tree => .ok (shortcutPrint run init cfg tree)
  | .error e => .error e

end

open CalmVerif.Gen.Api in
/-- classes whose instances carry the state of one parse -/
def parserStateClasses : List String := ["Parser", "Lexer", "LRParser"]

open CalmVerif.Gen.Api in
/-- classes of objects `parse()` calls may share (tables) provided the table says they were not mutated -/
def tableClasses : List String := ["dict", "set", "SRFactory"]

open CalmVerif.Gen.Api in
/-- is `parse()` per-call according to the table?  No parser-state object is shared, such objects are
    observed at all, and every shared stateful object is an unmutated table -/
def parseIsPerCall (rows : List ObjRow) : Bool :=
  rows.all (fun r => !(parserStateClasses.contains r.cls && r.shared)) &&
  parserStateClasses.all (fun c => rows.any (fun r => r.cls == c && !r.shared)) &&
  rows.all (fun r => !(r.shared && r.stateful) || (tableClasses.contains r.cls && !r.mutated))

namespace Toy

/-- toy lexer state: `Lexer.newline_idx` (initialised to `[0]` in `__init__` only) -/
structure LexState where
  newlineIdx : List Nat
  deriving DecidableEq, Repr

/-- toy "parse" of a text (code points; 10 = line feed): the (code, line, column) of every other
    character, columns computed like `Lexer._get_colno` (`lexpos - newline_idx[-1] + 1`), lines as
    `len(newline_idx)`; a line feed pushes `lexpos + 1` like `_update_newline_idx`.  The state left
    behind keeps the list. -/
def lexFrom (st : LexState) : Nat → List Nat → List (Nat × Nat × Int) × LexState
  | _, [] => ([], st)
  | pos, c :: cs =>
    if c = 10 then lexFrom { newlineIdx := st.newlineIdx ++ [pos + 1] } (pos + 1) cs
    else
      let col : Int := (pos : Int) - (st.newlineIdx.getLastD 0 : Int) + 1
      let r := lexFrom st (pos + 1) cs
      ((c, st.newlineIdx.length, col) :: r.1, r.2)

def parseMachine : ParseMachine Unit Bool (List Nat) LexState (List (Nat × Nat × Int)) where
  init := fun _ _ => ⟨[0]⟩
  parse := fun _ _ st text => lexFrom st 0 text

end Toy

end CalmVerif.Model.Api
