/-
Model of `calmjs.parse.lexers.es5.Lexer` (/repo/src/calmjs/parse/lexers/es5.py) on top of
Model.PlyLex: the lexer object as a state record and its methods as state-passing functions
that mirror the Python control flow, quirks included.  No Mathlib, no proofs.

Conventions
  * Python `str` is `List Char` (Unicode scalar values); offsets, line numbers are `Nat`
    (the code can only make them non-negative); `colno` is an `Int` (a difference).
  * Exceptions are constructors of `Err`: `syntax msg` (ECMASyntaxError), `regexSyntax msg`
    (ECMARegexSyntaxError) with the exact message text, `internal kind` for the Python
    exceptions that escape from partial operations (`list[-1]` of an empty list, `str[0]` of an
    empty string → "IndexError"; Props.C12lex.lexer_no_internal: unreachable from `Lexer()` + `input`),
    `modelGap` when the model does not cover what the code would do (an unknown lexer rule;
    a negative `lexpos`, where Python would index from the end of the text), `outOfFuel`
    for the `while True` loop of `_token` (Props.C06.lexer_terminates: unreachable with the
    fuel `token` supplies).
  * Token identity (`is`) is modelled by `uid`, a serial number drawn when the object is
    created (every ply token and every AutoLexToken is a fresh object).
  * `token_stack` is a list of `[marker, inner]` pairs; of `inner` only the length is ever
    observed (append / pop / truthiness), so it is a `Nat`.  Head of the list = Python `[-1]`.
    `next_tokens`: head = the element `pop()` returns.  `hidden_tokens`: in append order.
  * `token.hidden_tokens` (attribute set only when non-empty) is the field `hidden`, `[]` = absent.
  * `Lexer.token` is `_token` when `with_comments` is false (method rebinding in `__init__`);
    `token` below does exactly what both do.
-/
import CalmVerif.Model.PlyLex

namespace CalmVerif.Model.Lexer
open CalmVerif.Gen CalmVerif.Model.TokenRegex CalmVerif.Model.PlyLex

inductive Err where
  | syntax (msg : String)
  | regexSyntax (msg : String)
  | internal (kind : String)
  | modelGap (what : String)
  | outOfFuel
  deriving DecidableEq, Repr

/-- a comment token kept in `hidden_tokens` -/
structure Comment where
  type : String
  value : List Char
  lexpos : Nat
  lineno : Nat
  colno : Int
  deriving DecidableEq, Repr

structure Token where
  type : String
  value : List Char
  lexpos : Nat
  lineno : Nat
  colno : Int
  /-- `isinstance(token, AutoLexToken)` -/
  auto : Bool
  uid : Nat
  hidden : List Comment
  deriving DecidableEq, Repr

def Token.toComment (t : Token) : Comment := ⟨t.type, t.value, t.lexpos, t.lineno, t.colno⟩

structure LexState where
  /-- `lexer.lexdata` -/
  text : List Char
  /-- `lexer.lexpos` -/
  lexpos : Nat
  /-- `lexer.lineno` -/
  lineno : Nat
  newlineIdx : List Nat
  prevToken : Option Token
  validPrevToken : Option Token
  curToken : Option Token
  curTokenReal : Option Token
  nextTokens : List Token
  tokenStack : List (Option Token × Nat)
  hiddenTokens : List Comment
  withComments : Bool
  yieldComments : Bool
  serial : Nat
  deriving DecidableEq, Repr

/-- `Lexer(with_comments, yield_comments)` followed by `input(text)` -/
def init (text : List Char) (withComments yieldComments : Bool) : LexState :=
  { text := text, lexpos := 0, lineno := 1, newlineIdx := [0],
    prevToken := none, validPrevToken := none, curToken := none, curTokenReal := none,
    nextTokens := [], tokenStack := [(none, 0)], hiddenTokens := [],
    withComments := withComments, yieldComments := yieldComments, serial := 0 }

abbrev Res (α : Type) := Except Err (α × LexState)

/-! ### Python string formatting used by the error messages -/

def hexDigit (n : Nat) : Char := if n < 10 then Char.ofNat (48 + n) else Char.ofNat (87 + n)

/-- `'%0<w>x' % n` -/
def hexPad : Nat → Nat → List Char
  | 0, _ => []
  | w + 1, n => hexPad w (n / 16) ++ [hexDigit (n % 16)]

def isPrintable (c : Char) : Bool := inRanges LexData.pyPrintable c
def isPySpace (c : Char) : Bool := inRanges LexData.pyIsSpace c

/-- one character inside Python's `repr` of a `str` quoted with `q` -/
def reprChar (q : Char) (c : Char) : List Char :=
  if c = q ∨ c = '\\' then ['\\', c]
  else if c = '\t' then ['\\', 't']
  else if c = '\n' then ['\\', 'n']
  else if c = '\r' then ['\\', 'r']
  else if c.toNat < 0x20 ∨ c.toNat = 0x7f then '\\' :: 'x' :: hexPad 2 c.toNat
  else if c.toNat < 0x7f then [c]
  else if isPrintable c then [c]
  else if c.toNat < 0x100 then '\\' :: 'x' :: hexPad 2 c.toNat
  else if c.toNat < 0x10000 then '\\' :: 'u' :: hexPad 4 c.toNat
  else '\\' :: 'U' :: hexPad 8 c.toNat

/-- Python `repr(s)` of a `str` (= `repr_compat` on Python 3) -/
def pyRepr (s : List Char) : List Char :=
  let q : Char := if s.contains '\'' && !s.contains '"' then '"' else '\''
  q :: ((s.map (reprChar q)).flatten ++ [q])

/-- `str.strip()` -/
def pyStrip (s : List Char) : List Char :=
  ((s.dropWhile isPySpace).reverse.dropWhile isPySpace).reverse

def str (cs : List Char) : String := String.ofList cs

/-- `format_lex_token` -/
def formatLexToken (t : Token) : String :=
  str (pyRepr t.value) ++ " at " ++ toString t.lineno ++ ":" ++ toString t.colno

/-! ### positions -/

/-- `newline_idx[-1]` -/
def lastNewline (st : LexState) : Except Err Nat :=
  match st.newlineIdx.getLast? with
  | some n => .ok n
  | none => .error (.internal "IndexError")

/-- `_get_colno_lexpos` -/
def colnoAt (st : LexState) (lexpos : Nat) : Except Err Int :=
  match lastNewline st with
  | .ok n => .ok ((lexpos : Int) - (n : Int) + 1)
  | .error e => .error e

/-- `lookup_colno(lineno, lexpos)`: `lexpos - newline_idx[lineno - 1] + 1`
    (`lineno = 0` indexes with `-1`, i.e. the last entry, as Python does) -/
def lookupColno (st : LexState) (lineno lexpos : Nat) : Except Err Int :=
  let entry : Option Nat := if lineno = 0 then st.newlineIdx.getLast? else st.newlineIdx[lineno - 1]?
  match entry with
  | some n => .ok ((lexpos : Int) - (n : Int) + 1)
  | none => .error (.internal "IndexError")

/-- offsets just after every match of PATT_LINE_TERMINATOR_SEQUENCE in `value`, which starts at offset `off`
    (`re.split` scans left to right, matches do not overlap; `\r\n` is one match) -/
def nlOffsets : List Char → Nat → List Nat
  | [], _ => []
  | c :: cs, off =>
    if c = '\r' then
      -- `\r\n` is one match: the `\r` reports nothing, the `\n` that follows reports the offset after both
      if cs.head? = some '\n' then nlOffsets cs (off + 1) else (off + 1) :: nlOffsets cs (off + 1)
    else if c = '\n' ∨ c = '\u2028' ∨ c = '\u2029' then (off + 1) :: nlOffsets cs (off + 1)
    else nlOffsets cs (off + 1)

/-- `_update_newline_idx(token)` -/
def updateNewlineIdx (st : LexState) (lexpos : Nat) (value : List Char) : LexState :=
  let offs := nlOffsets value lexpos
  { st with lineno := st.lineno + offs.length, newlineIdx := st.newlineIdx ++ offs }

/-! ### error functions -/

def isSeqChar (c : Char) : Bool :=
  ('0' ≤ c && c ≤ '9') || c == '-' || ('a' ≤ c && c ≤ 'f') || ('A' ≤ c && c ≤ 'F')

/-- the message of the `Unterminated string literal` error: `repr_compat(value[:16].strip() + (value[16:] and '...'))` -/
def unterminatedMsg (v : List Char) (lineno : Nat) (colno : Int) : Err :=
  .syntax ("Unterminated string literal " ++
    str (pyRepr (pyStrip (v.take 16) ++ (if (v.drop 16).isEmpty then [] else ['.', '.', '.']))) ++
    " at " ++ toString lineno ++ ":" ++ toString colno)

/-- `broken_string_token_handler` followed by the rest of `t_error`, called by ply with
    `token.value = lexdata[pos:]`, `token.lineno = lexer.lineno`, `lexer.lexpos = pos`.  Always raises.

        failure = lexdata[position:position + 2]
        if failure[:1] == '\\' and failure[1:] in ('x', 'u'):   # Invalid hexadecimal / unicode escape sequence
        …                                                       # else: Unterminated string literal -/
def tError (st : LexState) (pos : Nat) : Err :=
  let value := st.text.drop pos
  match colnoAt st pos with
  | .error e => e
  | .ok colno =>
    match brokenStringLen value with
    | some n =>
      let v := value.take n
      let st1 := updateNewlineIdx st pos v
      let position := pos + n
      let failure := (st.text.drop position).take 2
      match failure with
      | [f0, f1] =>
        if f0 = '\\' ∧ (f1 = 'x' ∨ f1 = 'u') then
          -- type_ = {'x': 'hexadecimal', 'u': 'unicode'}[failure[1]]
          let type_ : String := if f1 = 'x' then "hexadecimal" else "unicode"
          -- re.match(r'\\[xu][0-9-a-f-A-F]*', lexdata[position:]).group()
          let tail := (st.text.drop (position + 2)).takeWhile isSeqChar
          let seq := f0 :: f1 :: tail
          match colnoAt st1 position with
          | .error e => e
          | .ok c =>
            .syntax ("Invalid " ++ type_ ++ " escape sequence '" ++ str seq ++ "' at " ++
              toString st1.lineno ++ ":" ++ toString c)
        else unterminatedMsg v st.lineno colno
      | _ => unterminatedMsg v st.lineno colno
    | none =>
      match value with
      | [] => .internal "IndexError"      -- token.value[0]; ply never calls t_error at the end of input
      | c :: _ =>
        let head := "Illegal character " ++ str (pyRepr [c]) ++ " at " ++ toString st.lineno ++ ":" ++ toString colno
        match st.curToken with
        | some cur => .syntax (head ++ " after " ++ formatLexToken cur)
        | none => .syntax head

/-- `t_regex_error` -/
def tRegexError (st : LexState) (pos : Nat) : Err :=
  match colnoAt st pos with
  | .error e => e
  | .ok colno =>
    .regexSyntax ("Error parsing regular expression '" ++ str (st.text.drop pos) ++ "' at " ++
      toString st.lineno ++ ":" ++ toString colno)

/-! ### `get_lexer_token` -/

/-- `self.cur_token_real is not None and self.cur_token_real.type == 'PERIOD'`: what `t_ID` reads from the lexer
    object when ply calls it (before `_set_tokens` runs for the token being made) -/
def afterPeriod (st : LexState) : Bool :=
  match st.curTokenReal with
  | some t => t.type = "PERIOD"
  | none => false

/-- `get_lexer_token()` with ply in state `s`: the ply token gets `colno`, then `_update_newline_idx` -/
def getLexerToken (s : LexerState) (st : LexState) : Res (Option Token) :=
  match plyToken s st.text st.lexpos (afterPeriod st) with
  | .eof p => .ok (none, { st with lexpos := p })
  | .modelGap r => .error (.modelGap ("lexer rule " ++ r))
  | .error p =>
    match s with
    | .initial => .error (tError { st with lexpos := p } p)
    | .regex => .error (tRegexError { st with lexpos := p } p)
  | .tok ty start len =>
    match colnoAt st start with
    | .error e => .error e
    | .ok colno =>
      let value := (st.text.drop start).take len
      let tok : Token := { type := ty, value := value, lexpos := start, lineno := st.lineno, colno := colno,
                           auto := false, uid := st.serial, hidden := [] }
      let st1 := { st with lexpos := start + len, serial := st.serial + 1 }
      .ok (some tok, updateNewlineIdx st1 start value)

/-! ### token bookkeeping -/

def isMarker (ty : String) : Bool := LexData.divisionSyntaxMarkers.contains ty
def isComment (ty : String) : Bool := LexData.comments.contains ty
def impliesDiv (ty : String) : Bool := LexData.impliesDivision.contains ty
def isImpliedBlock (ty : String) : Bool := LexData.impliedBlockIdentifier.contains ty
def isRestricted (ty : String) : Bool := LexData.restrictedKeywords.contains ty

/-- `_set_tokens(new_token)`:
        self.token_stack[-1][0] = self.prev_token = self.cur_token
        if self.cur_token and self.cur_token.type not in DIVISION_SYNTAX_MARKERS: self.valid_prev_token = self.cur_token
        self.cur_token = new_token
        if self.cur_token and self.cur_token.type not in DIVISION_SYNTAX_MARKERS: self.cur_token_real = self.cur_token -/
def setTokens (st : LexState) (newToken : Option Token) : Except Err LexState :=
  match st.tokenStack with
  | [] => .error (.internal "IndexError")
  | (_, inner) :: below =>
    .ok { st with
      tokenStack := (st.curToken, inner) :: below
      prevToken := st.curToken
      validPrevToken :=
        match st.curToken with
        | some c => if !isMarker c.type then some c else st.validPrevToken
        | none => st.validPrevToken
      curToken := newToken
      curTokenReal :=
        match newToken with
        | some c => if !isMarker c.type then some c else st.curTokenReal
        | none => st.curTokenReal }

/-- `_create_semi_token(orig_token)` -/
def createSemiToken (st : LexState) (orig : Option Token) : Token × LexState :=
  let tok : Token :=
    match orig with
    | some o => { type := "AUTOSEMI", value := [';'], lexpos := o.lexpos, lineno := o.lineno, colno := 0,
                  auto := true, uid := st.serial, hidden := [] }
    | none => { type := "AUTOSEMI", value := [';'], lexpos := 0, lineno := 0, colno := 0,
                auto := true, uid := st.serial, hidden := [] }
  (tok, { st with serial := st.serial + 1 })

/-- `self.prev_token and self.prev_token.type in IMPLIED_BLOCK_IDENTIFIER` -/
def isMarkedParen (st : LexState) : Bool :=
  match st.prevToken with
  | some p => isImpliedBlock p.type
  | none => false

/-- `(`: after `for` / `if` / `while` a new marker entry is pushed, otherwise the inner list of the top entry grows -/
def pushParen (st : LexState) (cur : Token) : Except Err LexState :=
  if isMarkedParen st then .ok { st with tokenStack := (some cur, 0) :: st.tokenStack }
  else
    match st.tokenStack with
    | (m, inner) :: below => .ok { st with tokenStack := (m, inner + 1) :: below }
    | [] => .error (.internal "IndexError")

/-- `)`: pop the inner list of the top entry if it is non-empty, else pop the entry -/
def popParen (st : LexState) : Except Err LexState :=
  match st.tokenStack with
  | (m, inner) :: below =>
    if 0 < inner then .ok { st with tokenStack := (m, inner - 1) :: below }
    else .ok { st with tokenStack := below }
  | [] => .error (.internal "IndexError")

/-- the parenthesis bookkeeping of `_get_update_token` for the current token `cur`:
    `if cur.type in ('LPAREN',): …`, `if cur.type in ('RPAREN',): …`, `if not self.token_stack: raise Mismatched` -/
def updateStack (st : LexState) (cur : Token) : Except Err LexState :=
  match (if cur.type = "LPAREN" then pushParen st cur else .ok st) with
  | .error e => .error e
  | .ok st1 =>
    match (if cur.type = "RPAREN" then popParen st1 else .ok st1) with
    | .error e => .error e
    | .ok st2 =>
      if st2.tokenStack.isEmpty then
        .error (.syntax ("Mismatched '" ++ str cur.value ++ "' at " ++ toString cur.lineno ++ ":" ++ toString cur.colno))
      else .ok st2

/-- the restricted-production test of `_get_update_token`: the current token is a LINE_TERMINATOR and the
    previous one is `break` / `continue` / `return` / `throw` -/
def isRestrictedLt (st : LexState) (cur : Token) : Bool :=
  cur.type = "LINE_TERMINATOR" &&
  (match st.prevToken with
   | some p => isRestricted p.type
   | none => false)

/-- `_get_update_token()` with ply in state `INITIAL` -/
def getUpdateToken (st : LexState) : Res (Option Token) :=
  match getLexerToken .initial st with
  | .error e => .error e
  | .ok (tok, st1) =>
    match setTokens st1 tok with
    | .error e => .error e
    | .ok st2 =>
      match st2.curToken with
      | none => .ok (none, st2)
      | some cur =>
        match updateStack st2 cur with
        | .error e => .error e
        | .ok st3 =>
          -- insert semicolon before restricted tokens
          if isRestrictedLt st3 cur then
            .ok (some (createSemiToken st3 (some cur)).1, (createSemiToken st3 (some cur)).2)
          else .ok (some cur, st3)

/-- `_read_regex()`: `begin('regex')`, `get_lexer_token()`, `begin('INITIAL')` -/
def readRegex (st : LexState) : Res (Option Token) := getLexerToken .regex st

/-! ### `_token` -/

/-- the `try:` block of `_token`: skip SP / TAB from `lexpos`, then the character there and the next one;
    `none` when either index is past the end (IndexError) -/
def peek (text : List Char) (lexpos : Nat) : Option (Char × Char) :=
  let rest := text.drop lexpos
  match rest.drop (spanLen (fun c => c = ' ' || c = '\t') rest) with
  | c :: n :: _ => some (c, n)
  | _ => none

/-- the token the division decision looks at -/
def checkToken (st : LexState) : Option Token :=
  match st.curTokenReal with
  | none => none
  | some t => if !isMarker t.type then some t else st.prevToken

/-- `is_division_allowed` (Python's `and` / `or` short-circuit order; `token_stack[-1]` of an empty stack
    is an IndexError) -/
def isDivisionAllowed (st : LexState) : Except Err Bool :=
  let first : Bool := match checkToken st with
    | some t => impliesDiv t.type
    | none => false
  if first then
    match st.tokenStack with
    | [] => .error (.internal "IndexError")
    | (marker, _) :: _ =>
      match marker with
      | none => .ok true
      | some m =>
        let same : Bool := match st.prevToken with
          | some p => m.uid = p.uid
          | none => false
        .ok (same || impliesDiv m.type)
  else .ok false

/-- the `/` case of `_token`: division or regular expression -/
def divOrRegex (st : LexState) : Res (Option Token) :=
  match isDivisionAllowed st with
  | .error e => .error e
  | .ok true => getUpdateToken st
  | .ok false =>
    match readRegex st with
    | .error e => .error e
    | .ok (tok, st1) =>
      match setTokens st1 tok with
      | .error e => .error e
      | .ok st2 => .ok (st2.curToken, st2)

/-- the `while True:` loop of `_token` (after the `next_tokens` check) -/
def tokenLoop : Nat → LexState → Res (Option Token)
  | 0, _ => .error .outOfFuel
  | fuel + 1, st =>
    match peek st.text st.lexpos with
    | none =>
      -- except IndexError:
      match getUpdateToken st with
      | .error e => .error e
      | .ok (none, st1) => .ok (none, st1)
      | .ok (some t, st1) =>
        if t.type = "LINE_TERMINATOR" then tokenLoop fuel st1 else .ok (some t, st1)
    | some (char, nextChar) =>
      if char ≠ '/' ∨ (nextChar = '/' ∨ nextChar = '*') then
        match getUpdateToken st with
        | .error e => .error e
        | .ok (none, st1) => .ok (none, st1)                        -- if tok is None: return tok
        | .ok (some t, st1) =>
          if isMarker t.type then
            if isComment t.type then
              if st1.yieldComments then .ok (some t, st1)
              else if st1.withComments then
                tokenLoop fuel { st1 with hiddenTokens := st1.hiddenTokens ++ [t.toComment] }
              else tokenLoop fuel st1
            else tokenLoop fuel st1
          else .ok (some t, st1)
      else divOrRegex st

/-- fuel that always suffices for one `_token` call (Props.C06.lexer_terminates) -/
def tokenFuel (st : LexState) : Nat := st.text.length + 2

/-- `_token()` -/
def token' (st : LexState) : Res (Option Token) :=
  match st.nextTokens with
  | t :: rest => .ok (some t, { st with nextTokens := rest })
  | [] => tokenLoop (tokenFuel st) st

/-- `token()` (with `with_comments` false it is `_token`, and `hidden_tokens` stays empty) -/
def token (st : LexState) : Res (Option Token) :=
  match token' st with
  | .error e => .error e
  | .ok (none, st1) => .ok (none, st1)
  | .ok (some t, st1) =>
    if st1.withComments && !st1.hiddenTokens.isEmpty then
      .ok (some { t with hidden := st1.hiddenTokens }, { st1 with hiddenTokens := [] })
    else .ok (some t, st1)

/-! ### the parser-facing methods -/

/-- `_is_prev_token_lt()` -/
def isPrevTokenLt (st : LexState) : Bool :=
  match st.prevToken with
  | some p => p.type = "LINE_TERMINATOR"
  | none => false

/-- `auto_semi(token)`: `some semi` when a semicolon is inserted (the offending token, if any, is pushed
    back onto `next_tokens`), `none` otherwise (Python returns `None`) -/
def autoSemi (st : LexState) (tok : Option Token) : Option Token × LexState :=
  match tok with
  | none => (some (createSemiToken st none).1, (createSemiToken st none).2)
  | some t =>
    if (t.type ≠ "SEMI" ∧ t.type ≠ "AUTOSEMI") ∧ (t.type = "RBRACE" ∨ isPrevTokenLt st) then
      let st1 := { st with nextTokens := t :: st.nextTokens }
      (some (createSemiToken st1 (some t)).1, (createSemiToken st1 (some t)).2)
    else (none, st)

/-- `backtracked_token(pos)`: `lexer.skip(-pos)`, forget the pushed-back tokens, re-lex with `token()`,
    restore `valid_prev_token` -/
def backtrackedToken (st : LexState) (pos : Nat) : Res (Option Token) :=
  if st.lexpos < pos then .error (.modelGap "negative lexpos")
  else
    let st1 := { st with lexpos := st.lexpos - pos, nextTokens := [] }
    match token st1 with
    | .error e => .error e
    | .ok (tok, st2) => .ok (tok, { st2 with validPrevToken := st.validPrevToken })

/-! ### standalone iteration (`for token in lexer`) -/

/-- `list(lexer)`: the tokens produced before the iteration stops, and the exception that stopped it, if any -/
def lexAll : Nat → LexState → List Token → List Token × Option Err
  | 0, _, acc => (acc.reverse, some .outOfFuel)
  | fuel + 1, st, acc =>
    match token st with
    | .error e => (acc.reverse, some e)
    | .ok (none, _) => (acc.reverse, none)
    | .ok (some t, st1) => lexAll fuel st1 (t :: acc)

/-- fuel that always suffices for the iteration (Props.C06.lexer_terminates) -/
def lexFuel (text : List Char) : Nat := text.length + 2

def lexStandalone (text : List Char) (withComments yieldComments : Bool) : List Token × Option Err :=
  lexAll (lexFuel text) (init text withComments yieldComments) []

end CalmVerif.Model.Lexer
