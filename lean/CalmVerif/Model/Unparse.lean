/-
Model of the rule-driven unparser: calmjs.parse.unparsers.walker (`Dispatcher`, `walk` with
`_walk`, `process_layouts`, the final flush), the Token rule classes of calmjs.parse.ruletypes
(`Attr`, `CommentsAttr`, `Text`, `JoinAttr`, `ElisionToken`, `ElisionJoinAttr`, `Optional`,
`Operator`) and the Deferrables (`Iter`, `Declare`, `Resolve`, `Literal`, `LineComment`,
`BlockComment`), over generic trees (`Val`, wire format of harness/treedump.py).

Structure
  phase 1  `walkNode` / `walkRule`  = `_walk`: tree → list of chunks (fragments and LayoutChunks).
           State `σ` of the hooks (Declare / Resolve deferrable handlers, Structure-marker
           handlers) is threaded; the plain printers use `σ = Unit` and no hooks.
  phase 2  `flushAll` = the top-level `walk()` loop with `process_layouts` (`normalize` = first
           pass incl. the `layout_rule_chunks[idx].node` quirk, `runEntries` = second pass),
           threading the Indentator level.
Python interleaves the two phases lazily; their states are disjoint (the Indentator is only
touched by layout handlers, hook state only by `_walk`), and phase 2 cannot raise, so running
them one after the other gives the same fragments and the same first exception.

Mirrored quirks
  * Dispatcher.optimize_definition drops Layout/Structure marker rules without a handler; here the
    marker is skipped when met (same effect: the tables are fixed per call).
  * `sourcepath_stack` starts as `[NotImplemented]`; a node pushes its `sourcepath` only when truthy.
  * `nodes[-1]` of a token is the node whose definition is being interpreted.
  * `JoinAttr`: `self.value if self.value else ()`; `Optional`/`JoinAttr`/`ElisionJoinAttr` walk the
    SAME node again with the sub-definition.
  * `process_layouts`: a normalised tuple's chunk takes the node `layout_rule_chunks[idx].node`
    (idx is an index into the stack, used on the original list).
  * `last_chunk` is only updated by chunks from `_walk` (token fragments), never by layout output.

Recursion is on explicit fuel (every call of `walkNode`/`walkRule` costs one); lists are iterated by
the structural combinator `seqM`.  `fuelFor` supplies enough for every tree (see Proofs).

No Mathlib, no proofs.
-/
import CalmVerif.Model.Handlers
namespace CalmVerif.Unparse
open CalmVerif

abbrev Step := String × Nat
/-- innermost step first (same convention as Model.Walk) -/
abbrev Path := List Step

/-- handler of a value-returning Deferrable (Literal / LineComment / BlockComment / Resolve) that
needs no hook state -/
def valueHandler (hd : HData) (h : DeferHandlerId) (node : Val) : Except Err Val :=
  match nodeAttr node "value" with
  | none => .error (.attributeError "value")
  | some v =>
    match h with
    | .comment => .ok v
    | .literalContinuation =>
      match v with
      | .str s => .ok (.str (String.ofList (dropLineCont hd s.toList)))
      | _ => .error (.typeError "expected string or bytes-like object")
    | .obfResolve => .error (.unmodelled "Obfuscator.resolve used for a non-Resolve deferrable")

/-- the per-call configuration of a Dispatcher (+ the hooks of the obfuscation model) -/
structure Cfg (σ : Type) where
  defs : Defs
  layout : List (LKey × Option HandlerId)
  tokenHandler : Option TokenHandlerId
  literal : Option DeferHandlerId
  lineComment : Option DeferHandlerId
  blockComment : Option DeferHandlerId
  /-- Declare handler: called once per declared Identifier child -/
  declare : Option (Path → Val → σ → Except Err σ)
  /-- Resolve handler: returns the name to print for this Identifier occurrence -/
  resolve : Option (Path → Val → σ → Except Err (Val × σ))
  /-- handlers of Structure markers (PushScope …) -/
  struct : Marker → Option (Path → Val → σ → Except Err σ)
  /-- Indentator(indent_str) of the rule set, if it has one -/
  indentStr : Option String
  hd : HData
  elisionSep : Val
  iterKinds : List String

variable {σ : Type}

def lookupDef : Defs → String → Option (List Rule)
  | [], _ => none
  | (k, d) :: rest, kind => if k == kind then some d else lookupDef rest kind

/-- `dispatcher.layout(key)`: `none` when missing or `NotImplemented` -/
def lookupLayout : List (LKey × Option HandlerId) → LKey → Option HandlerId
  | [], _ => none
  | (k, h) :: rest, key => if k == key then h else lookupLayout rest key

/-- `is_empty(value)`: `value in (None, [])` -/
def isEmptyVal : Val → Bool
  | .none => true
  | .list [] => true
  | _ => false

/-- `getattr(node, a)`; `comments` has the class-level default None.  The `@…` entries of a dump are
metadata, not Python attributes of that name. -/
def getattrVal (node : Val) (a : String) : Except Err Val :=
  if a == "comments" then
    match nodeAttr node "@comments" with
    | some v => .ok v
    | none => .ok .none
  else if Val.isMeta a then .error (.attributeError a)
  else match nodeAttr node a with
    | some v => .ok v
    | none => .error (.attributeError a)

/-- sequential composition of chunk producers over a list, threading the hook state -/
def seqM {α : Type} (f : α → σ → Except Err (List Chunk × σ)) :
    List α → σ → Except Err (List Chunk × σ)
  | [], s => .ok ([], s)
  | x :: xs, s =>
    match f x s with
    | .error e => .error e
    | .ok (c1, s1) =>
      match seqM f xs s1 with
      | .error e => .error e
      | .ok (c2, s2) => .ok (c1 ++ c2, s2)

def enumFrom {α : Type} : Nat → List α → List (Nat × α)
  | _, [] => []
  | i, x :: xs => (i, x) :: enumFrom (i + 1) xs

def isNoneVal : Val → Bool
  | .none => true
  | _ => false

/-- `iter(node)` for a node: children() without None entries, each with its step.
Only for classes that use Node.children / Node.__iter__ (`_children_list`, dumped as `children`). -/
def iterNode (cfg : Cfg σ) (node : Val) : Except Err (List (Step × Val)) :=
  match node with
  | .node k _ =>
    if cfg.iterKinds.contains k then
      match nodeAttr node "children" with
      | none => .ok []           -- getattr(self, '_children_list', [])
      | some (.list xs) =>
        .ok (((enumFrom 0 xs).filter (fun p => !isNoneVal p.2)).map (fun p => (("children", p.1), p.2)))
      | some _ => .error (.unmodelled "children is not a list")
    else .error (.unmodelled "iter() of a node class with its own children()")
  | _ => .error (.unmodelled "iter() of a non-node")

/-- `Declare.__call__` after `target = getattr(node, a)` was found non-empty -/
def runDeclare (cfg : Cfg σ) (path : Path) (a : String) (target : Val) (s : σ) : Except Err σ :=
  match cfg.declare with
  | none => .ok s
  | some f =>
    let one (p : Nat × Val) (s : σ) : Except Err σ :=
      if isKind cfg.hd.identifierKinds p.2 then f ((a, p.1) :: path) p.2 s
      else .error (.typeError "the resolved attribute is not an Identifier")
    match target with
    | .list xs =>
      (enumFrom 0 xs).foldl (fun acc p => match acc with
        | .error e => .error e
        | .ok s => one p s) (.ok s)
    | v => one (0, v) s

/-- `Attr._getattr(dispatcher, node)` -/
def getSrc (cfg : Cfg σ) (path : Path) (node : Val) (src : AttrSrc) (s : σ) : Except Err (Val × σ) :=
  match src with
  | .name a => (getattrVal node a).map (fun v => (v, s))
  | .iter => .error (.unmodelled "Iter() outside JoinAttr")
  | .declare a =>
    match getattrVal node a with
    | .error e => .error e
    | .ok target =>
      if isEmptyVal target then .ok (target, s)
      else (runDeclare cfg path a target s).map (fun s' => (target, s'))
  | .resolve =>
    if !isKind cfg.hd.identifierKinds node then
      .error (.typeError "the Resolve Deferrable type only works with Identifier")
    else match cfg.resolve with
      | some f => f path node s
      | none => (getattrVal node "value").map (fun v => (v, s))
  | .literal =>
    match cfg.literal with
    | some h => (valueHandler cfg.hd h node).map (fun v => (v, s))
    | none => (getattrVal node "value").map (fun v => (v, s))
  | .lineComment =>
    match cfg.lineComment with
    | some h => (valueHandler cfg.hd h node).map (fun v => (v, s))
    | none => .ok (.none, s)
  | .blockComment =>
    match cfg.blockComment with
    | some h => (valueHandler cfg.hd h node).map (fun v => (v, s))
    | none => .ok (.none, s)

/-- `iter(self._getattr(dispatcher, node))` of JoinAttr / ElisionJoinAttr, items with their steps -/
def getIter (cfg : Cfg σ) (path : Path) (node : Val) (src : AttrSrc) (s : σ) :
    Except Err (List (Step × Val) × σ) :=
  match src with
  | .iter => (iterNode cfg node).map (fun l => (l, s))
  | _ =>
    match getSrc cfg path node src s with
    | .error e => .error e
    | .ok (v, s') =>
      let a := match src with
        | .name a => a
        | .declare a => a
        | _ => "value"
      match v with
      | .list xs => .ok ((enumFrom 0 xs).map (fun p => ((a, p.1), p.2)), s')
      | .node _ _ => (iterNode cfg v).map (fun l => (l, s'))
      | .none => .error (.typeError "'NoneType' object is not iterable")
      | .int _ => .error (.typeError "'int' object is not iterable")
      | .bool _ => .error (.typeError "'bool' object is not iterable")
      | .str _ => .error (.unmodelled "JoinAttr over a str")

/-- `dispatcher.token(token, nodes[-1], value, sourcepath_stack)` for a non-Node value -/
def emitToken (cfg : Cfg σ) (pos : Option Int) (cur : Val) (src : Src) (v : Val) : Except Err (List Chunk) :=
  match v with
  | .str t => (tokenHandler cfg.hd cfg.tokenHandler pos cur t src).map (fun fs => fs.map Chunk.frag)
  | _ => .error (.unmodelled "token text is not a str")

/-- what JoinAttr / ElisionJoinAttr do in order -/
inductive JAct where
  | item (step : Step) (v : Val)      -- walk(dispatcher, target_node, token=self)
  | sep                               -- walk(dispatcher, node, definition=self.value)
  | esep                              -- walk(dispatcher, ElisionJoinAttr.sep)

def joinActs : List (Step × Val) → List JAct
  | [] => []
  | (st, x) :: rest => .item st x :: (rest.flatMap (fun p => [.sep, .item p.1 p.2]))

def elisionActsAux (elisionKinds : List String) : Val → List (Step × Val) → List JAct
  | _, [] => []
  | prev, (st, nx) :: rest =>
    (if isKind elisionKinds prev then [] else [JAct.esep])
      ++ (if isKind elisionKinds nx then [] else [JAct.sep])
      ++ (JAct.item st nx :: elisionActsAux elisionKinds nx rest)

def elisionActs (elisionKinds : List String) : List (Step × Val) → List JAct
  | [] => []
  | (st, x) :: rest => .item st x :: elisionActsAux elisionKinds x rest

/-- `push = bool(node.sourcepath)`: the new top of the sourcepath stack -/
def pushSource (src : Src) (node : Val) : Src :=
  match nodeAttr node "@sourcepath" with
  | some (.str p) => if p == "" then src else .path p
  | _ => src

/-- the recursive call `_walk(dispatcher, node, definition)` as seen from a rule -/
abbrev WalkFn (σ : Type) := Path → Src → Val → Option (List Rule) → σ → Except Err (List Chunk × σ)

/-- `_walk(dispatcher, v, token=self)` issued by a rule of `cur` (the node being interpreted):
a Node is walked with its own definition, anything else goes to the token handler -/
def walkValue (cfg : Cfg σ) (wn : WalkFn σ) (path : Path) (src : Src) (cur : Val)
    (pos : Option Int) (st : Step) (v : Val) (s : σ) : Except Err (List Chunk × σ) :=
  match v with
  | .node _ _ => wn (st :: path) src v none s
  | _ => (emitToken cfg pos cur src v).map (fun cs => (cs, s))

def runAct (cfg : Cfg σ) (wn : WalkFn σ) (path : Path) (src : Src) (cur : Val)
    (pos : Option Int) (sep : List Rule) (a : JAct) (s : σ) : Except Err (List Chunk × σ) :=
  match a with
  | .item st v => walkValue cfg wn path src cur pos st v s
  | .sep => wn path src cur (some sep) s
  | .esep => wn (("@sep", 0) :: path) src cfg.elisionSep none s

/-- one rule of a definition applied to `node`, given the recursive walk `wn` -/
def ruleStep (cfg : Cfg σ) (wn : WalkFn σ) (path : Path) (src : Src) (node : Val) (rule : Rule) (s : σ) :
    Except Err (List Chunk × σ) :=
  match rule with
  | .layout m =>
    match lookupLayout cfg.layout (LKey.single m) with
    | some h => .ok ([Chunk.layout m h node], s)
    | none => .ok ([], s)
  | .struct m =>
    match cfg.struct m with
    | some f => (f path node s).map (fun s' => ([], s'))
    | none => .ok ([], s)
  | .text v pos => (emitToken cfg pos node src (.str v)).map (fun cs => (cs, s))
  | .attr a pos | .commentsAttr a pos =>
    match getSrc cfg path node a s with
    | .error e => .error e
    | .ok (v, s') =>
      if isEmptyVal v then .ok ([], s')
      else
        let st : Step := match a with
          | .name n => (n, 0)
          | .declare n => (n, 0)
          | _ => ("value", 0)
        walkValue cfg wn path src node pos st v s'
  | .operator a value pos =>
    match (match a with
           | some n => getattrVal node n
           | none => .ok (match value with
               | some v => Val.str v
               | none => Val.none)) with
    | .error e => .error e
    | .ok v =>
      if isEmptyVal v then .ok ([], s)
      else walkValue cfg wn path src node pos ((a.getD "value"), 0) v s
  | .optional a body =>
    match getattrVal node a with
    | .error e => .error e
    | .ok v =>
      if isEmptyVal v then .ok ([], s)
      else wn path src node (some body) s
  | .joinAttr a sep pos =>
    match getIter cfg path node a s with
    | .error e => .error e
    | .ok (items, s') => seqM (runAct cfg wn path src node pos sep) (joinActs items) s'
  | .elisionToken a value pos =>
    match getSrc cfg path node a s with
    | .error e => .error e
    | .ok (v, s') =>
      match v with
      | .int n => (emitToken cfg pos node src (.str (strMul value n))).map (fun cs => (cs, s'))
      | .bool b => (emitToken cfg pos node src (.str (strMul value (if b then 1 else 0)))).map (fun cs => (cs, s'))
      | _ => .error (.typeError "can't multiply sequence by non-int")
  | .elisionJoinAttr a sep pos =>
    match getIter cfg path node a s with
    | .error e => .error e
    | .ok (items, s') =>
      seqM (runAct cfg wn path src node pos sep) (elisionActs cfg.hd.elisionKinds items) s'

/-- `_walk(dispatcher, node, definition)` for a Node, given how one rule is run -/
def nodeStep (cfg : Cfg σ) (wr : Path → Src → Val → Rule → σ → Except Err (List Chunk × σ))
    (path : Path) (src : Src) (node : Val) (defn : Option (List Rule)) (s : σ) :
    Except Err (List Chunk × σ) :=
  match node with
  | .node kind _ =>
    match (match defn with
           | some d => some d
           | none => lookupDef cfg.defs kind) with
    | none => .error (.keyError kind)
    | some rules => seqM (wr path (pushSource src node) node) rules s
  | _ => .error (.unmodelled "walk of a non-node")

mutual
  /-- `_walk(dispatcher, node, definition)` for a Node; `defn = none` looks the definition up -/
  def walkNode (cfg : Cfg σ) : Nat → WalkFn σ
    | 0, _, _, _, _, _ => .error .fuel
    | fuel + 1, path, src, node, defn, s =>
      nodeStep cfg (fun p sr n r s => walkRule cfg fuel p sr n r s) path src node defn s

  /-- one rule of a definition applied to `node`: `rule(_walk, dispatcher, node)` -/
  def walkRule (cfg : Cfg σ) : Nat → Path → Src → Val → Rule → σ → Except Err (List Chunk × σ)
    | 0, _, _, _, _, _ => .error .fuel
    | fuel + 1, path, src, node, rule, s =>
      ruleStep cfg (fun p sr n d s => walkNode cfg fuel p sr n d s) path src node rule s
end

/-! ### process_layouts -/

/-- an entry of `lrcs_stack`: LayoutChunk(rule, handler, node) with `rule` a marker or a tuple -/
structure LEntry where
  key : LKey
  handler : HandlerId
  node : Val
  deriving Repr, Inhabited

/-- a buffered LayoutChunk of the walk -/
structure LChunk where
  m : Marker
  handler : HandlerId
  node : Val
  deriving Repr, Inhabited

/-- `for idx in range(len(lrcs_stack))`: the first idx whose suffix tuple has a handler -/
def findNorm (tbl : List (LKey × Option HandlerId)) : Nat → List LEntry → Option (Nat × LKey × HandlerId)
  | _, [] => none
  | idx, e :: rest =>
    let key := LKey.tuple ((e :: rest).map (·.key))
    match lookupLayout tbl key with
    | some h => some (idx, key, h)
    | none => findNorm tbl (idx + 1) rest

/-- first pass; `all` is the whole `layout_rule_chunks` list (for the `[idx].node` quirk) -/
def normalizeAux (tbl : List (LKey × Option HandlerId)) (all : List LChunk) :
    List LChunk → List LEntry → List LEntry
  | [], stack => stack
  | c :: cs, stack =>
    let stack1 := stack ++ [{ key := LKey.single c.m, handler := c.handler, node := c.node }]
    match findNorm tbl 0 stack1 with
    | none => normalizeAux tbl all cs stack1
    | some (idx, key, h) =>
      -- idx < len(stack1) ≤ len(all): the index is always in range
      let nd := match all[idx]? with
        | some x => x.node
        | none => c.node
      normalizeAux tbl all cs (stack1.take idx ++ [{ key := key, handler := h, node := nd }])

def normalize (tbl : List (LKey × Option HandlerId)) (buf : List LChunk) : List LEntry :=
  normalizeAux tbl buf buf []

/-- text of the last fragment, or the old value when none was yielded -/
def lastText (fs : List Frag) (prev : Option String) : Option String :=
  match fs.getLast? with
  | some f => some f.text
  | none => prev

/-- second pass -/
def runEntries (hd : HData) (indentStr : Option String) (before after : Option String) :
    List LEntry → Option String → Int → List Frag × Int
  | [], _, lvl => ([], lvl)
  | e :: es, prev, lvl =>
    let r := runHandler hd indentStr e.handler e.node before after prev lvl
    let r2 := runEntries hd indentStr before after es (lastText r.1 prev) r.2
    (r.1 ++ r2.1, r2.2)

def processLayouts (cfg : Cfg σ) (buf : List LChunk) (before after : Option String) (lvl : Int) :
    List Frag × Int :=
  runEntries cfg.hd cfg.indentStr before after (normalize cfg.layout buf) none lvl

/-- the top-level `walk()` loop: `last` = text of `last_chunk`, `buf` = `layout_rule_chunks` -/
def flushAll (cfg : Cfg σ) : List Chunk → Option String → List LChunk → Int → List Frag × Int
  | [], last, buf, lvl => processLayouts cfg buf last none lvl
  | .layout m h n :: cs, last, buf, lvl => flushAll cfg cs last (buf ++ [{ m := m, handler := h, node := n }]) lvl
  | .frag f :: cs, last, buf, lvl =>
    let r := processLayouts cfg buf last (some f.text) lvl
    let r2 := flushAll cfg cs (some f.text) [] r.2
    (r.1 ++ f :: r2.1, r2.2)

/-! ### fuel and the entry point -/

mutual
  def depthVal : Val → Nat
    | .list xs => depthList xs + 1
    | .node _ as => depthAttrs as + 1
    | _ => 0
  def depthList : List Val → Nat
    | [] => 0
    | v :: vs => max (depthVal v) (depthList vs)
  def depthAttrs : List (String × Val) → Nat
    | [] => 0
    | (_, v) :: rest => max (depthVal v) (depthAttrs rest)
end

mutual
  def depthRule : Rule → Nat
    | .joinAttr _ sep _ => depthRules sep + 1
    | .elisionJoinAttr _ sep _ => depthRules sep + 1
    | .optional _ body => depthRules body + 1
    | _ => 0
  def depthRules : List Rule → Nat
    | [] => 0
    | r :: rs => max (depthRule r) (depthRules rs)
end

def depthDefs : Defs → Nat
  | [] => 0
  | (_, d) :: rest => max (depthRules d) (depthDefs rest)

/-- every node level costs at most `2·(1 + rule nesting)` calls -/
def fuelFor (cfg : Cfg σ) (tree : Val) : Nat :=
  (2 * depthDefs cfg.defs + 4) * (depthVal tree + depthVal cfg.elisionSep + 2) + 4

/-- chunks of `_walk(dispatcher, tree)` -/
def walkChunks (cfg : Cfg σ) (tree : Val) (s : σ) : Except Err (List Chunk × σ) :=
  walkNode cfg (fuelFor cfg tree) [] .notImpl tree none s

/-- `list(walk(dispatcher, tree))`: the fragment stream (and the final Indentator level) -/
def unparseWith (cfg : Cfg σ) (tree : Val) (s : σ) : Except Err (List Frag × Int) :=
  match walkChunks cfg tree s with
  | .error e => .error e
  | .ok (chunks, _) => .ok (flushAll cfg chunks none [] 0)

def unparse (cfg : Cfg σ) (tree : Val) (s : σ) : Except Err (List Frag) :=
  (unparseWith cfg tree s).map (·.1)

def textOf (fs : List Frag) : String := String.join (fs.map (·.text))

/-! ### building a configuration from a generated rule set -/

def deferLookup : List (DeferKind × DeferHandlerId) → DeferKind → Option DeferHandlerId
  | [], _ => none
  | (k, h) :: rest, kind => if k == kind then some h else deferLookup rest kind

/-- default of the hook parameter `obfResolve` (Obfuscator.resolve): the identifier was never
registered (`scope` not found) → `node.value` -/
def defaultResolve : Path → Val → Unit → Except Err (Val × Unit) :=
  fun _ node s => (getattrVal node "value").map (fun v => (v, s))

structure Tables where
  defs : Defs
  hd : HData
  elisionSep : Val
  iterKinds : List String

/-- The Dispatcher configuration of the MAIN walk of a printer built from rule set `rs`.
`obfResolve` is the hook for `Obfuscator.resolve` (only used when the rule set maps Resolve to it).
No built rule set gives the main walk Structure-marker or Declare handlers (the obfuscator's prewalk
uses its own Dispatcher: build that `Cfg` directly). -/
def mkCfg (t : Tables) (rs : RuleSet) (indentStr : Option String)
    (obfResolve : Path → Val → σ → Except Err (Val × σ)) : Cfg σ where
  defs := t.defs
  layout := rs.layout
  tokenHandler := some rs.tokenHandler
  literal := deferLookup rs.deferrable .literal
  lineComment := deferLookup rs.deferrable .lineComment
  blockComment := deferLookup rs.deferrable .blockComment
  declare := match deferLookup rs.deferrable .declare with
    | Option.none => Option.none
    | some h => some (fun _ node s => (valueHandler t.hd h node).map (fun _ => s))
  resolve := match deferLookup rs.deferrable .resolve with
    | Option.none => Option.none
    | some .obfResolve => some obfResolve
    | some h => some (fun _ node s => (valueHandler t.hd h node).map (fun v => (v, s)))
  struct := fun _ => Option.none
  indentStr := if rs.indentator then indentStr else Option.none
  hd := t.hd
  elisionSep := t.elisionSep
  iterKinds := t.iterKinds

end CalmVerif.Unparse
