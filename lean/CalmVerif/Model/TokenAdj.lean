/-
Token classes of printed fragments and the abstract ("first / last / follow") analysis of the unparser
definitions — the computable part of the lexical layer of C01 / C02 (validated checker: the soundness of
these functions is proved in Proofs/RoundTripLang.lean and Proofs/RoundTripTyped.lean).

  * `TokClass`, `classify`      coarse class of a fragment text;
  * `TC`, `sig`                 boundary signature of a fragment text: the class plus what the separator decision
                                (`required_space`) and longest-match lexing can see of its first / last character;
  * `Sym`                       what a chunk of the walk is abstracted to: a token signature or a layout marker,
                                coded as a natural number < 256; sets of symbols are bit sets (`SymSet`) so that the
                                kernel decides the closure checks with a few hundred big-number operations;
  * `Abs`, `absRule`, `absRules` abstract interpretation of a definition over a slot typing `SlotTy` of the
                                attributes and a certificate `cert` (first / last symbol sets per node kind);
                                `need` collects the pairs of symbols that can be adjacent (the follow relation).

No Mathlib, no proofs.
-/
import CalmVerif.Model.UnparseInst
import CalmVerif.Model.UnparseAux
import CalmVerif.Gen.LexData
namespace CalmVerif.TokenAdj
open CalmVerif CalmVerif.Unparse

/-! ### characters -/

/-- boundary kind of a character: 0 = Python `\w` as `required_space` sees it (the class of `a`),
1 = `$`, 2 = any other identifier-part character of the lexer, 3 = anything else -/
def charKind (c : Char) : Nat :=
  if spaceClassOf c == spaceClassOf 'a' then 0
  else if c == '$' then 1
  else if c.toNat < 128 then 3
  else if inRanges c.toNat Gen.LexData.idPart || inRanges c.toNat Gen.LexData.idStart then 2
  else 3

/-- the ASCII part of the lexer's identifier tables (fast path; `ascii_tables_agree` in Proofs/RoundTripSafe.lean
decides that it agrees with Gen.LexData on every code point below 128) -/
def idStartAscii : List (Nat × Nat) := [(36, 36), (65, 90), (95, 95), (97, 122)]
def idPartAscii : List (Nat × Nat) := [(36, 36), (48, 57), (65, 90), (95, 95), (97, 122)]
def isIdStart (c : Char) : Bool :=
  if c.toNat < 128 then inRanges c.toNat idStartAscii else inRanges c.toNat Gen.LexData.idStart
/-- the lexer's `identifier_part` table (for non-ASCII code points it holds only the marks, digits and connectors:
the identifier regex of the lexer is `identifier_start+ identifier_part*`) -/
def isIdPart (c : Char) : Bool :=
  if c.toNat < 128 then inRanges c.toNat idPartAscii else inRanges c.toNat Gen.LexData.idPart
/-- a character that can continue an identifier token -/
def isIdAny (c : Char) : Bool := isIdStart c || isIdPart c

/-- the lexer's identifier: a non-empty run of start characters followed by a run of part characters -/
def wordTail : List Char → Bool
  | [] => true
  | c :: cs => if isIdStart c then wordTail cs else (c :: cs).all isIdPart
def isDigit (c : Char) : Bool := '0' ≤ c && c ≤ '9'

/-! ### token classes -/

/-- coarse class of a printed fragment -/
inductive TokClass where
  | word | keyword | decInt | numDot | number | string | regex | punct (s : String) | comment | other
  deriving DecidableEq, Repr, Inhabited

/-- boundary signature of a printed fragment -/
inductive TC where
  | lit (i : Nat)               -- exact text `litTable[i]`: punctuators, reserved words, the constant `var `
  | word (f l : Nat)            -- identifier-like word; `charKind` of its first and last character
  | decInt                      -- `0` or `[1-9][0-9]*`
  | numDot                      -- number spelling ending in `.`
  | num (dotFirst : Bool) (l : Nat)  -- any other number spelling (`.5` starts with a dot); `charKind` of its last character
  | str                         -- string literal (starts with a quote)
  | regex (l : Nat)             -- regular expression literal; 3 = ends with `/`, else `charKind` of the last flag
  | lineComment | blockComment
  | commas                      -- `,` repeated (ElisionToken)
  | empty | other
  deriving DecidableEq, Repr, Inhabited

def punctuators : List String := Gen.LexData.punctSpelling.map (·.2)
def reservedWords : List String := Gen.LexData.keywords.map (·.1)
/-- texts with an exact signature -/
def litTable : List String := punctuators ++ reservedWords ++ ["var "]

def isDecIntChars : List Char → Bool
  | ['0'] => true
  | c :: rest => c != '0' && isDigit c && rest.all isDigit
  | [] => false

def sigChars (cs : List Char) : TC :=
  match cs with
  | [] => .empty
  | c :: rest =>
    let last := (c :: rest).getLastD c
    if c == '"' || c == '\'' then .str
    else if c == '/' then
      if rest.head? == some '/' then .lineComment
      else if rest.head? == some '*' then .blockComment
      else if rest.isEmpty then .other
      else .regex (if last == '/' then 3 else charKind last)
    else if isDigit c then
      if isDecIntChars (c :: rest) then .decInt else if last == '.' then .numDot else .num false (charKind last)
    else if c == '.' && (rest.head?.map isDigit).getD false then .num true (charKind last)
    else if (c :: rest).all (· == ',') then .commas
    else if isIdStart c && wordTail rest then .word (charKind c) (charKind last)
    else .other

/-- index of a spelling in a table (explicit recursion: cheap in the kernel) -/
def idxIn (s : String) : List String → Nat → Option Nat
  | [], _ => none
  | t :: ts, i => if t == s then some i else idxIn s ts (i + 1)

def litIdx (s : String) : Option Nat := idxIn s litTable 0

/-- the spelling a `lit` signature stands for -/
def litText (i : Nat) : String := litTable.getD i ""

/-- the exact signature of a table spelling (`other` for a spelling that is not in the table) -/
def mkLit (s : String) : TC := match litIdx s with
  | some i => .lit i
  | none => .other

def sig (s : String) : TC := match litIdx s with
  | some i => .lit i
  | none => sigChars s.toList

def classify (s : String) : TokClass :=
  match sig s with
  | .lit i => if punctuators.contains (litText i) then .punct (litText i) else .keyword
  | .word _ _ => .word
  | .decInt => .decInt
  | .numDot => .numDot
  | .num _ _ => .number
  | .str => .string
  | .regex _ => .regex
  | .lineComment => .comment
  | .blockComment => .comment
  | .commas => .punct ","
  | .empty => .other
  | .other => .other

/-! ### symbols and abstract summaries -/

/-- a symbol, coded as a number below 256: `2·code` for a token signature, `2·code + 1` for a layout chunk -/
abbrev Sym := Nat

def tcCode : TC → Nat
  | .lit i => 32 + min i 200
  | .word f l => 1 + 4 * (min f 1) + (min l 3)
  | .decInt => 9
  | .numDot => 10
  | .num d l => 23 + (if d then 4 else 0) + (min l 3)
  | .str => 13
  | .regex l => 14 + (min l 3)
  | .lineComment => 18
  | .blockComment => 19
  | .commas => 20
  | .empty => 21
  | .other => 22

/-- a representative signature of a token code (inverse of `tcCode` on the canonical signatures) -/
def tcOfCode (c : Nat) : TC :=
  if 32 ≤ c then .lit (c - 32)
  else if 1 ≤ c && c ≤ 8 then .word ((c - 1) / 4) ((c - 1) % 4)
  else if c == 9 then .decInt else if c == 10 then .numDot else if 23 ≤ c && c ≤ 30 then .num (decide (27 ≤ c)) ((c - 23) % 4)
  else if c == 13 then .str
  else if 14 ≤ c && c ≤ 17 then .regex (c - 14)
  else if c == 18 then .lineComment else if c == 19 then .blockComment else if c == 20 then .commas
  else if c == 21 then .empty else .other

def markerCode : Marker → Nat
  | .OpenBlock => 0 | .CloseBlock => 1 | .EndStatement => 2 | .Space => 3 | .OptionalSpace => 4 | .RequiredSpace => 5
  | .Newline => 6 | .OptionalNewline => 7 | .Indent => 8 | .Dedent => 9
  | .PushScope => 10 | .PopScope => 11 | .PushCatch => 12 | .PopCatch => 13 | .ResolveFuncName => 14

/-- the symbol of a token fragment with signature `c` -/
def Sym.t (c : TC) : Sym := 2 * tcCode c
/-- the symbol of a layout chunk: its marker and whether its node is one of `headerKinds` (If/For/ForIn/While) -/
def Sym.m (mk : Marker) (hdr : Bool) : Sym := 2 * (2 * markerCode mk + (if hdr then 1 else 0)) + 1

/-- the symbol of ONE OCCURRENCE of a layout rule in the definitions (`occ` = dense number of the occurrence, 0 when
unknown): symbols below 512 are token signatures / plain markers, `512 + 64·occ + Sym.m mk hdr` is the occurrence -/
def Sym.mo (occ : Nat) (mk : Marker) (hdr : Bool) : Sym := 512 + 64 * occ + Sym.m mk hdr
/-- forgetting the occurrence (always odd, i.e. a marker symbol, for an occurrence symbol) -/
def eraseSym (x : Sym) : Sym := if x < 512 then x else 2 * (((x - 512) % 64) / 2) + 1

def symOf (hd : HData) : Chunk → Sym
  | .frag f => Sym.t (sig f.text)
  | .layout mk _ n => Sym.m mk (isKind hd.headerKinds n)

def syms (hd : HData) (cs : List Chunk) : List Sym := cs.map (symOf hd)

/-- a set of symbols as a bit set -/
structure SymSet where
  bits : Nat
  deriving DecidableEq, Repr, Inhabited

def SymSet.has (s : SymSet) (x : Sym) : Bool := s.bits.testBit x
instance : Membership Sym SymSet := ⟨fun s x => s.has x = true⟩
def SymSet.empty : SymSet := ⟨0⟩
def SymSet.single (x : Sym) : SymSet := ⟨1 <<< x⟩
def SymSet.union (a b : SymSet) : SymSet := ⟨a.bits ||| b.bits⟩
instance : Append SymSet := ⟨SymSet.union⟩
def SymSet.ofList : List Sym → SymSet
  | [] => SymSet.empty
  | x :: xs => SymSet.single x ++ SymSet.ofList xs
def SymSet.subset (a b : SymSet) : Bool := (a.bits ||| b.bits) == b.bits

/-- summary of a set of symbol strings: may be empty; possible first symbols; possible last symbols -/
structure Abs where
  n : Bool
  f : SymSet
  l : SymSet
  deriving DecidableEq, Repr, Inhabited

def Abs.empty : Abs := ⟨true, SymSet.empty, SymSet.empty⟩
def Abs.ofSyms (ss : List Sym) : Abs := ⟨false, SymSet.ofList ss, SymSet.ofList ss⟩
def Abs.seq (a b : Abs) : Abs :=
  ⟨a.n && b.n, a.f ++ (if a.n then b.f else SymSet.empty), b.l ++ (if b.n then a.l else SymSet.empty)⟩
def Abs.alt (a b : Abs) : Abs := ⟨a.n || b.n, a.f ++ b.f, a.l ++ b.l⟩
def Abs.opt (a : Abs) : Abs := ⟨true, a.f, a.l⟩
/-- a rectangle of the follow relation: every symbol of `.1` may be directly followed by every symbol of `.2` -/
abbrev Rect := SymSet × SymSet
/-- the pairs (last of `a`, first of `b`) that become adjacent when `b` follows `a` -/
def cross (a b : Abs) : List Rect := [(a.l, b.f)]

/-- what an attribute of a node kind may hold (certificate; `wfVal` checks a tree against it) -/
inductive SlotTy where
  | tok (cs : List TC)                       -- a string with one of these signatures
  | node (ks : List String) (opt : Bool)     -- a node of one of these kinds (or None when `opt`)
  | nodes (ks : List String)                 -- a list of nodes of these kinds
  | int1                                     -- a positive int (Elision.value)
  | any                                      -- not printed / no claim
  deriving Repr, Inhabited

structure Res where
  abs : Abs
  need : List Rect
  bad : Bool
  deriving Repr, Inhabited

def Res.ok (a : Abs) : Res := ⟨a, [], false⟩
def Res.fail : Res := ⟨Abs.empty, [], true⟩

/-- the parameters of the analysis: layout table, header kinds, slot typing, certificate -/
structure Ctx where
  tbl : List (LKey × Option HandlerId)
  hdr : List String
  elisionKinds : List String
  /-- kind of `ElisionJoinAttr.sep`, the surrogate separator node -/
  esep : String
  slot : String → String → SlotTy
  cert : List (String × Abs)
  /-- the kinds that have a definition, and the sparse codes (`kind index · 32768 + position`) of the layout rules in
  the definitions, in traversal order: an occurrence's dense number is its index in `occ` plus one -/
  kinds : List String
  occ : List Nat

def certOf (cx : Ctx) (k : String) : Option Abs := (cx.cert.find? (fun p => p.1 == k)).map (·.2)

def idxNat (x : Nat) : List Nat → Nat → Option Nat
  | [], _ => none
  | y :: ys, i => if y == x then some i else idxNat x ys (i + 1)

/-- dense number (from 1) of the layout-rule occurrence at position `p` of the definition of `K`; 0 if unknown -/
def occOf (cx : Ctx) (K : String) (p : Nat) : Nat :=
  match idxIn K cx.kinds 0 with
  | some ki => (match idxNat (ki * 32768 + p) cx.occ 0 with
    | some i => i + 1
    | none => 0)
  | none => 0

/-- union of the certificates of the kinds (fails on a kind without certificate) -/
def kindsRes (cx : Ctx) : List String → Res
  | [] => ⟨⟨false, SymSet.empty, SymSet.empty⟩, [], false⟩
  | k :: ks =>
    match certOf cx k with
    | some a => let r := kindsRes cx ks; ⟨a.alt r.abs, [], r.bad⟩
    | none => Res.fail

def slotRes (cx : Ctx) : SlotTy → Res
  | .tok cs => Res.ok (Abs.ofSyms (cs.map Sym.t))
  | .node ks opt => let r := kindsRes cx ks; ⟨if opt then r.abs.opt else r.abs, [], r.bad⟩
  | _ => Res.fail

def srcRes (cx : Ctx) (K : String) : AttrSrc → Res
  | .name a =>
    -- `comments` has the class-level default None
    let r := slotRes cx (cx.slot K a)
    if a == "comments" then ⟨r.abs.opt, [], r.bad⟩ else r
  | .declare a =>
    let r := slotRes cx (cx.slot K a)
    if a == "comments" then ⟨r.abs.opt, [], r.bad⟩ else r
  | .resolve => slotRes cx (cx.slot K "value")
  | .literal =>
    -- the Literal handler may strip line continuations: only the class `str` is stable under it
    match cx.slot K "value" with
    | .tok [.str] => Res.ok (Abs.ofSyms [Sym.t .str])
    | _ => Res.fail
  | .lineComment => let r := slotRes cx (cx.slot K "value"); ⟨r.abs.opt, [], r.bad⟩
  | .blockComment => let r := slotRes cx (cx.slot K "value"); ⟨r.abs.opt, [], r.bad⟩
  | .iter => Res.fail

/-- kinds of the items a JoinAttr iterates over -/
def itemKinds (cx : Ctx) (K : String) : AttrSrc → Option (List String)
  | .iter => match cx.slot K "children" with | .nodes ks => some ks | _ => none
  | .name a => match cx.slot K a with | .nodes ks => some ks | _ => none
  | .declare a => match cx.slot K a with | .nodes ks => some ks | _ => none
  | _ => none

mutual
  /-- `p`: position code of the rule (top level 1, 2, …; the body of the rule at `p` starts at `32·p + 1`) -/
  def absRule (cx : Ctx) (K : String) (p : Nat) : Rule → Res
    | .layout mk =>
      match lookupLayout cx.tbl (LKey.single mk) with
      | some _ => Res.ok (Abs.ofSyms [Sym.mo (occOf cx K p) mk (cx.hdr.contains K)])
      | none => Res.ok Abs.empty
    | .struct _ => Res.ok Abs.empty
    | .text v _ => Res.ok (Abs.ofSyms [Sym.t (sig v)])
    | .attr src _ => srcRes cx K src
    | .commentsAttr src _ => srcRes cx K src
    | .operator (some a) _ _ => srcRes cx K (.name a)
    | .operator none (some v) _ => Res.ok (Abs.ofSyms [Sym.t (sig v)])
    | .operator none none _ => Res.ok Abs.empty
    | .optional _ body => let r := absRules cx K (32 * p + 1) body; ⟨r.abs.opt, r.need, r.bad⟩
    | .joinAttr src sep _ =>
      match itemKinds cx K src with
      | none => Res.fail
      | some ks =>
        let i := kindsRes cx ks
        let s := absRules cx K (32 * p + 1) sep
        let p := s.abs.seq i.abs
        ⟨(i.abs.seq ⟨true, p.f, p.l⟩).opt, s.need ++ cross s.abs i.abs ++ cross p p ++ cross i.abs p, i.bad || s.bad⟩
    | .elisionToken (.name a) v _ =>
      match cx.slot K a with
      | .int1 => if v == "," then Res.ok (Abs.ofSyms [Sym.t (mkLit ","), Sym.t .commas]) else Res.fail
      | _ => Res.fail
    | .elisionToken _ _ _ => Res.fail
    | .elisionJoinAttr src sep _ =>
      -- items: elisions (`ie`) and others (`ix`); `e` = the surrogate `,`; `s` = the separator definition.
      -- after a non-elision item: `e` then (`s` non-elision | elision); after an elision: (`s` non-elision | elision)
      match itemKinds cx K src, certOf cx cx.esep with
      | some ks, some e =>
        let ix := kindsRes cx (ks.filter (fun k => !cx.elisionKinds.contains k))
        let ie := kindsRes cx (ks.filter (fun k => cx.elisionKinds.contains k))
        let s := absRules cx K (32 * p + 1) sep
        let mf := s.abs.f ++ (if s.abs.n then ix.abs.f else SymSet.empty) ++ ie.abs.f
        let m : Abs := ⟨false, mf, SymSet.empty⟩
        ⟨⟨true, ix.abs.f ++ ie.abs.f, ix.abs.l ++ ie.abs.l⟩,
         s.need ++ cross ix.abs e ++ cross e m ++ cross s.abs ix.abs ++ cross ie.abs m,
         ix.bad || ie.bad || s.bad || e.n || ix.abs.n || ie.abs.n⟩
      | _, _ => Res.fail
  def absRules (cx : Ctx) (K : String) (p : Nat) : List Rule → Res
    | [] => Res.ok Abs.empty
    | r :: rs =>
      let a := absRule cx K p r
      let b := absRules cx K (p + 1) rs
      ⟨a.abs.seq b.abs, a.need ++ cross a.abs b.abs ++ b.need, a.bad || b.bad⟩
end

/-! ### trees that respect the slot typing -/

def kindIn (ks : List String) : Val → Bool
  | .node k _ => ks.contains k
  | _ => false

def slotOK : SlotTy → Val → Bool
  | .tok cs, .str s => cs.contains (sig s)
  | .node ks opt, v => kindIn ks v || (opt && (match v with | .none => true | _ => false))
  | .nodes ks, .list xs => xs.all (kindIn ks)
  | .int1, .int n => decide (1 ≤ n)
  | .any, _ => true
  | _, _ => false

/-- the key an attribute is typed under: `@comments` is what `getattr(node, 'comments')` reads -/
def slotKey (a : String) : String := if a == "@comments" then "comments" else a

mutual
  /-- every node of the tree holds, in each printed attribute, a value of the slot's type -/
  def wfVal (cx : Ctx) : Val → Bool
    | .node k as => wfAttrs cx k as
    | .list xs => wfList cx xs
    | _ => true
  def wfList (cx : Ctx) : List Val → Bool
    | [] => true
    | v :: vs => wfVal cx v && wfList cx vs
  def wfAttrs (cx : Ctx) (k : String) : List (String × Val) → Bool
    | [] => true
    | (a, v) :: rest =>
      (!printedAttr a || (slotOK (cx.slot k (slotKey a)) v && wfVal cx v)) && wfAttrs cx k rest
end

def subList {α : Type} [BEq α] (a b : List α) : Bool := a.all b.contains

def Abs.le (a b : Abs) : Bool := (!a.n || b.n) && a.f.subset b.f && a.l.subset b.l

/-- the closure check of the certificate: every definition's summary is below its certificate, every pair of
symbols that can become adjacent inside it is in `F`, and nothing unsupported was met -/
def closedDef (cx : Ctx) (F : List Rect) (kd : String × List Rule) : Bool :=
  let r := absRules cx kd.1 1 kd.2
  !r.bad && subList r.need F &&
    (match certOf cx kd.1 with
     | some a => r.abs.le a
     | none => false)

def closed (cx : Ctx) (F : List Rect) (defs : Defs) : Bool := defs.all (closedDef cx F)

end CalmVerif.TokenAdj

namespace CalmVerif.TokenAdj
open CalmVerif CalmVerif.Unparse

/-! ### the slot typing of ES5 trees (certificate; checked on every parsed tree by the harness) and the
computation of the first / last certificates and of the follow relation by fixpoint iteration -/

def exprKinds : List String := ["Identifier", "Number", "String", "Regex", "Boolean", "Null", "This", "Array", "Object",
  "FuncExpr", "GroupingOp", "DotAccessor", "BracketAccessor", "FunctionCall", "NewExpr", "UnaryExpr", "PostfixExpr",
  "BinOp", "Conditional", "Assign", "Comma"]
def stmtKinds : List String := ["Block", "VarStatement", "EmptyStatement", "ExprStatement", "If", "For", "ForIn", "While",
  "DoWhile", "Continue", "Break", "Return", "With", "Label", "Switch", "Throw", "Try", "Debugger", "FuncDecl"]
def wordSigs : List TC := [.word 0 0, .word 0 1, .word 0 2, .word 1 0, .word 1 1, .word 1 2]
def lits (l : List String) : List TC := l.map mkLit
def binaryOps : List String := ["||", "&&", "|", "^", "&", "==", "!=", "===", "!==", "<", ">", "<=", ">=", "instanceof", "in",
  "<<", ">>", ">>>", "+", "-", "*", "/", "%"]
def assignOps : List String := ["=", "+=", "-=", "*=", "/=", "%=", "<<=", ">>=", ">>>=", "&=", "|=", "^=", ":"]
def unaryOps : List String := ["delete", "void", "typeof", "++", "--", "+", "-", "~", "!"]
def propNameKinds : List String := ["PropIdentifier", "String", "Number"]

def es5Slot (k a : String) : SlotTy :=
  if a == "comments" then .node ["Comments"] true else
  match k, a with
  | "ES5Program", "children" => .nodes stmtKinds
  | "Block", "children" => .nodes stmtKinds
  | "VarStatement", "children" => .nodes ["VarDecl"]
  | "VarDecl", "identifier" => .node ["Identifier"] false
  | "VarDecl", "initializer" => .node exprKinds true
  | "VarDeclNoIn", "identifier" => .node ["Identifier"] false
  | "VarDeclNoIn", "initializer" => .node exprKinds true
  | "GroupingOp", "expr" => .node exprKinds false
  | "Identifier", "value" => .tok wordSigs
  | "PropIdentifier", "value" => .tok (wordSigs ++ lits reservedWords)
  | "Assign", "left" => .node (exprKinds ++ propNameKinds) false
  | "Assign", "op" => .tok (lits assignOps)
  | "Assign", "right" => .node exprKinds false
  | "GetPropAssign", "prop_name" => .node propNameKinds false
  | "GetPropAssign", "elements" => .nodes stmtKinds
  | "SetPropAssign", "prop_name" => .node propNameKinds false
  | "SetPropAssign", "parameter" => .node ["Identifier"] false
  | "SetPropAssign", "elements" => .nodes stmtKinds
  | "Number", "value" => .tok [.decInt, .numDot, .num false 0, .num true 0]
  | "String", "value" => .tok [.str]
  | "Regex", "value" => .tok [.regex 3, .regex 0, .regex 1, .regex 2]
  | "Boolean", "value" => .tok (lits ["true", "false"])
  | "Comma", "left" => .node exprKinds false
  | "Comma", "right" => .node exprKinds false
  | "If", "predicate" => .node exprKinds false
  | "If", "consequent" => .node stmtKinds false
  | "If", "alternative" => .node stmtKinds true
  | "For", "init" => .node ["ExprStatement", "EmptyStatement", "VarStatement"] false
  | "For", "cond" => .node ["ExprStatement", "EmptyStatement"] false
  | "For", "count" => .node exprKinds true
  | "For", "statement" => .node stmtKinds false
  | "ForIn", "item" => .node (exprKinds ++ ["VarDeclNoIn"]) false
  | "ForIn", "iterable" => .node exprKinds false
  | "ForIn", "statement" => .node stmtKinds false
  | "BinOp", "left" => .node exprKinds false
  | "BinOp", "op" => .tok (lits binaryOps)
  | "BinOp", "right" => .node exprKinds false
  | "UnaryExpr", "op" => .tok (lits unaryOps)
  | "UnaryExpr", "value" => .node exprKinds false
  | "PostfixExpr", "op" => .tok (lits ["++", "--"])
  | "PostfixExpr", "value" => .node exprKinds false
  | "ExprStatement", "expr" => .node exprKinds false
  | "DoWhile", "statement" => .node stmtKinds false
  | "DoWhile", "predicate" => .node exprKinds false
  | "While", "predicate" => .node exprKinds false
  | "While", "statement" => .node stmtKinds false
  | "Continue", "identifier" => .node ["Identifier"] true
  | "Break", "identifier" => .node ["Identifier"] true
  | "Return", "expr" => .node exprKinds true
  | "With", "expr" => .node exprKinds false
  | "With", "statement" => .node stmtKinds false
  | "Label", "identifier" => .node ["Identifier"] false
  | "Label", "statement" => .node stmtKinds false
  | "Switch", "expr" => .node exprKinds false
  | "Switch", "case_block" => .node ["CaseBlock"] false
  | "CaseBlock", "children" => .nodes ["Case", "Default"]
  | "Case", "expr" => .node exprKinds false
  | "Case", "elements" => .nodes stmtKinds
  | "Default", "elements" => .nodes stmtKinds
  | "Throw", "expr" => .node exprKinds false
  | "Try", "statements" => .node ["Block"] false
  | "Try", "catch" => .node ["Catch"] true
  | "Try", "fin" => .node ["Finally"] true
  | "Catch", "identifier" => .node ["Identifier"] false
  | "Catch", "elements" => .node ["Block"] false
  | "Finally", "elements" => .node ["Block"] false
  | "FuncDecl", "identifier" => .node ["Identifier"] true
  | "FuncDecl", "parameters" => .nodes ["Identifier"]
  | "FuncDecl", "elements" => .nodes stmtKinds
  | "FuncExpr", "identifier" => .node ["Identifier"] true
  | "FuncExpr", "parameters" => .nodes ["Identifier"]
  | "FuncExpr", "elements" => .nodes stmtKinds
  | "Conditional", "predicate" => .node exprKinds false
  | "Conditional", "consequent" => .node exprKinds false
  | "Conditional", "alternative" => .node exprKinds false
  | "NewExpr", "identifier" => .node exprKinds false
  | "NewExpr", "args" => .node ["Arguments"] true
  | "DotAccessor", "node" => .node exprKinds false
  | "DotAccessor", "identifier" => .node ["PropIdentifier"] false
  | "BracketAccessor", "node" => .node exprKinds false
  | "BracketAccessor", "expr" => .node exprKinds false
  | "FunctionCall", "identifier" => .node exprKinds false
  | "FunctionCall", "args" => .node ["Arguments"] false
  | "Arguments", "items" => .nodes exprKinds
  | "Object", "properties" => .nodes ["Assign", "GetPropAssign", "SetPropAssign"]
  | "Array", "items" => .nodes (exprKinds ++ ["Elision"])
  | "Elision", "value" => .int1
  | "Comments", "children" => .nodes ["LineComment", "BlockComment"]
  | "LineComment", "value" => .tok [.lineComment]
  | "BlockComment", "value" => .tok [.blockComment]
  | _, _ => .any

mutual
  /-- the position codes of the layout rules of a definition (same numbering as `absRule`) -/
  def occRule (p : Nat) : Rule → List Nat
    | .layout _ => [p]
    | .optional _ body => occRules (32 * p + 1) body
    | .joinAttr _ sep _ => occRules (32 * p + 1) sep
    | .elisionJoinAttr _ sep _ => occRules (32 * p + 1) sep
    | _ => []
  def occRules (p : Nat) : List Rule → List Nat
    | [] => []
    | r :: rs => occRule p r ++ occRules (p + 1) rs
end

def addAll (k : Nat) : List Nat → List Nat
  | [] => []
  | x :: xs => (k + x) :: addAll k xs

def allOcc : Defs → Nat → List Nat
  | [], _ => []
  | kd :: rest, ki => addAll (ki * 32768) (occRules 1 kd.2) ++ allOcc rest (ki + 1)

def defKinds : Defs → List String
  | [] => []
  | kd :: rest => kd.1 :: defKinds rest

def mkCtxW (rs : RuleSet) (kinds : List String) (occ : List Nat) (cert : List (String × Abs)) : Ctx where
  tbl := rs.layout
  hdr := Gen.Rules.headerKinds
  elisionKinds := Gen.Defs.elisionKinds
  esep := "Elision"
  slot := es5Slot
  cert := cert
  kinds := kinds
  occ := occ

def mkCtx (rs : RuleSet) (defs : Defs) (cert : List (String × Abs)) : Ctx :=
  mkCtxW rs (defKinds defs) (allOcc defs 0) cert

/-- one round of the fixpoint iteration: the summary of every definition under the current certificate -/
def certStep (rs : RuleSet) (defs : Defs) (cert : List (String × Abs)) : List (String × Abs) :=
  defs.map (fun kd => (kd.1, (absRules (mkCtx rs defs cert) kd.1 1 kd.2).abs))

def certIter (rs : RuleSet) (defs : Defs) : Nat → List (String × Abs)
  | 0 => defs.map (fun kd => (kd.1, ⟨false, SymSet.empty, SymSet.empty⟩))
  | n + 1 => certStep rs defs (certIter rs defs n)

end CalmVerif.TokenAdj

namespace CalmVerif.TokenAdj
open CalmVerif CalmVerif.Unparse

/-- the follow relation as the plain concatenation of all `need` lists (never evaluated by the closure check) -/
def allNeeds (cx : Ctx) (defs : Defs) : List Rect := defs.flatMap (fun kd => (absRules cx kd.1 1 kd.2).need)

/-- the part of the closure check that does not hold by construction of `allNeeds` -/
def closedCertDef (cx : Ctx) (kd : String × List Rule) : Bool :=
  let r := absRules cx kd.1 1 kd.2
  !r.bad && (match certOf cx kd.1 with
     | some a => r.abs.le a
     | none => false)

def closedCert (cx : Ctx) (defs : Defs) : Bool := defs.all (closedCertDef cx)

end CalmVerif.TokenAdj

namespace CalmVerif.TokenAdj
open CalmVerif CalmVerif.Unparse

/-! ### a variant of `absRules` whose intermediate summaries are forced to literals
(the kernel evaluates by name: without forcing, every rectangle of `need` re-evaluates the summary of the rest of
its definition).  `absRulesF_eq` (Proofs/RoundTripCert.lean) proves it equal to `absRules`. -/

def withNat {α : Type} (n : Nat) (k : Nat → α) : α :=
  match n with
  | 0 => k 0
  | m + 1 => k (m + 1)

def withBool {α : Type} (b : Bool) (k : Bool → α) : α :=
  match b with
  | true => k true
  | false => k false

def Abs.forced {α : Type} (a : Abs) (k : Abs → α) : α :=
  withBool a.n fun n => withNat a.f.bits fun f => withNat a.l.bits fun l => k ⟨n, ⟨f⟩, ⟨l⟩⟩

mutual
  def absRuleF (cx : Ctx) (K : String) (p : Nat) : Rule → Res
    | .optional _ body => let r := absRulesF cx K (32 * p + 1) body; ⟨r.abs.opt, r.need, r.bad⟩
    | .joinAttr src sep _ =>
      match itemKinds cx K src with
      | none => Res.fail
      | some ks =>
        match kindsRes cx ks, absRulesF cx K (32 * p + 1) sep with
        | ⟨iabs, _, ibad⟩, ⟨sabs, sneed, sbad⟩ =>
          iabs.forced fun i => sabs.forced fun s => (s.seq i).forced fun q =>
            ⟨(i.seq ⟨true, q.f, q.l⟩).opt, sneed ++ cross s i ++ cross q q ++ cross i q, ibad || sbad⟩
    | .elisionJoinAttr src sep _ =>
      match itemKinds cx K src, certOf cx cx.esep with
      | some ks, some e =>
        match kindsRes cx (ks.filter (fun k => !cx.elisionKinds.contains k)),
              kindsRes cx (ks.filter (fun k => cx.elisionKinds.contains k)), absRulesF cx K (32 * p + 1) sep with
        | ⟨ixabs, _, ixbad⟩, ⟨ieabs, _, iebad⟩, ⟨sabs, sneed, sbad⟩ =>
          ixabs.forced fun ix => ieabs.forced fun ie => sabs.forced fun s => e.forced fun e' =>
            (⟨false, s.f ++ (if s.n then ix.f else SymSet.empty) ++ ie.f, SymSet.empty⟩ : Abs).forced fun m =>
              ⟨⟨true, ix.f ++ ie.f, ix.l ++ ie.l⟩,
               sneed ++ cross ix e' ++ cross e' m ++ cross s ix ++ cross ie m,
               ixbad || iebad || sbad || e'.n || ix.n || ie.n⟩
      | _, _ => Res.fail
    | .layout mk => absRule cx K p (.layout mk)
    | .struct mk => absRule cx K p (.struct mk)
    | .text v q => absRule cx K p (.text v q)
    | .attr s q => absRule cx K p (.attr s q)
    | .commentsAttr s q => absRule cx K p (.commentsAttr s q)
    | .operator a v q => absRule cx K p (.operator a v q)
    | .elisionToken s v q => absRule cx K p (.elisionToken s v q)
  def absRulesF (cx : Ctx) (K : String) (p : Nat) : List Rule → Res
    | [] => Res.ok Abs.empty
    | r :: rs =>
      match absRuleF cx K p r, absRulesF cx K (p + 1) rs with
      | ⟨aabs, aneed, abad⟩, ⟨babs, bneed, bbad⟩ =>
        aabs.forced fun a => babs.forced fun b => ⟨a.seq b, aneed ++ cross a b ++ bneed, abad || bbad⟩
end

def allNeedsF (cx : Ctx) (defs : Defs) : List Rect := defs.flatMap (fun kd => (absRulesF cx kd.1 1 kd.2).need)

end CalmVerif.TokenAdj

namespace CalmVerif.TokenAdj
open CalmVerif CalmVerif.Unparse

/-- the certificate with every summary forced to literals, handed to a continuation (so that the kernel looks
certificates up in a table of numbers instead of re-running the earlier rounds of the iteration) -/
def forceCert {α : Type} : List (String × Abs) → (List (String × Abs) → α) → α
  | [], k => k []
  | (s, a) :: rest, k => a.forced fun a' => forceCert rest fun rest' => k ((s, a') :: rest')

/-- the occurrence table forced to literals -/
def forceNats {α : Type} : List Nat → (List Nat → α) → α
  | [], k => k []
  | x :: xs, k => withNat x fun x' => forceNats xs fun xs' => k (x' :: xs')

def certStepW (rs : RuleSet) (defs : Defs) (occ : List Nat) (cert : List (String × Abs)) : List (String × Abs) :=
  defs.map (fun kd => (kd.1, (absRules (mkCtxW rs (defKinds defs) occ cert) kd.1 1 kd.2).abs))

def withCertW {α : Type} (rs : RuleSet) (defs : Defs) (occ : List Nat) : Nat → (List (String × Abs) → α) → α
  | 0, k => k (certIter rs defs 0)
  | n + 1, k => withCertW rs defs occ n fun c => forceCert (certStepW rs defs occ c) k

/-- the analysis context with the occurrence table and the certificate forced to literals -/
def withCtx {α : Type} (rs : RuleSet) (defs : Defs) (n : Nat) (k : Ctx → α) : α :=
  forceNats (allOcc defs 0) fun occ => withCertW rs defs occ n fun c => k (mkCtxW rs (defKinds defs) occ c)

def withCert {α : Type} (rs : RuleSet) (defs : Defs) : Nat → (List (String × Abs) → α) → α
  | 0, k => k (certIter rs defs 0)
  | n + 1, k => withCert rs defs n fun c => forceCert (certStep rs defs c) k

end CalmVerif.TokenAdj

namespace CalmVerif.TokenAdj
/-- a follow relation forced to a literal list of pairs of numbers -/
def forceRects {α : Type} : List Rect → (List Rect → α) → α
  | [], k => k []
  | (a, b) :: rs, k => withNat a.bits fun x => withNat b.bits fun y => forceRects rs fun rs' => k ((⟨x⟩, ⟨y⟩) :: rs')
end CalmVerif.TokenAdj
