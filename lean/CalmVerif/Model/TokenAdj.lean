/-
Token classes of printed fragments and the abstract ("first / last / follow") analysis of the unparser
definitions — the computable part of the lexical layer of C01 / C02 (validated checker: the soundness of
these functions is proved in Proofs/RoundTripLang.lean and Proofs/RoundTripTyped.lean).

  * `TokClass`, `classify`      coarse class of a fragment text;
  * `TC`, `sig`                 boundary signature of a fragment text: the class plus what the separator decision
                                (`required_space`) and longest-match lexing can see of its first / last character;
  * `Sym`                       what a chunk of the walk is abstracted to: a token signature or a layout marker;
  * `Abs`, `absRule`, `absRules` abstract interpretation of a definition over a slot typing `SlotTy` of the
                                attributes and a certificate `cert` (first / last symbol sets per node kind);
                                `need` collects the pairs of symbols that can be adjacent (the follow relation).

No Mathlib, no proofs.
-/
import CalmVerif.Model.UnparseInst
import CalmVerif.Model.UnparseAux
import CalmVerif.Gen.LexData
namespace CalmVerif.TokenAdj
open CalmVerif CalmVerif.Unparse

/-! ### characters -/

/-- boundary kind of a character: 0 = Python `\w` as `required_space` sees it (the class of `a`),
1 = `$`, 2 = any other identifier-part character of the lexer, 3 = anything else -/
def charKind (c : Char) : Nat :=
  if spaceClassOf c == spaceClassOf 'a' then 0
  else if c == '$' then 1
  else if inRanges c.toNat Gen.LexData.idPart then 2
  else 3

def isIdStart (c : Char) : Bool := inRanges c.toNat Gen.LexData.idStart
def isIdPart (c : Char) : Bool := inRanges c.toNat Gen.LexData.idPart
def isDigit (c : Char) : Bool := '0' ≤ c && c ≤ '9'

/-! ### token classes -/

/-- coarse class of a printed fragment -/
inductive TokClass where
  | word | keyword | decInt | numDot | number | string | regex | punct (s : String) | comment | other
  deriving DecidableEq, Repr, Inhabited

/-- boundary signature of a printed fragment -/
inductive TC where
  | lit (s : String)            -- exact text: punctuators, reserved words, the constant `var `
  | word (f l : Nat)            -- identifier-like word; `charKind` of its first and last character
  | decInt                      -- `0` or `[1-9][0-9]*`
  | numDot                      -- number spelling ending in `.`
  | num (dotFirst : Bool)       -- any other number spelling (`.5` starts with a dot)
  | str                         -- string literal (starts with a quote)
  | regex (l : Nat)             -- regular expression literal; 3 = ends with `/`, else `charKind` of the last flag
  | lineComment | blockComment
  | commas                      -- `,` repeated (ElisionToken)
  | empty | other
  deriving DecidableEq, Repr, Inhabited

def punctuators : List String := Gen.LexData.punctSpelling.map (·.2)
def reservedWords : List String := Gen.LexData.keywords.map (·.1)
/-- texts with an exact signature -/
def litTable : List String := punctuators ++ reservedWords ++ ["var "]

def isDecIntChars : List Char → Bool
  | ['0'] => true
  | c :: rest => c != '0' && isDigit c && rest.all isDigit
  | [] => false

def sigChars (cs : List Char) : TC :=
  match cs with
  | [] => .empty
  | c :: rest =>
    let last := (c :: rest).getLastD c
    if c == '"' || c == '\'' then .str
    else if c == '/' then
      if rest.head? == some '/' then .lineComment
      else if rest.head? == some '*' then .blockComment
      else if rest.isEmpty then .other
      else .regex (if last == '/' then 3 else charKind last)
    else if isDigit c then
      if isDecIntChars (c :: rest) then .decInt else if last == '.' then .numDot else .num false
    else if c == '.' && (rest.head?.map isDigit).getD false then .num true
    else if (c :: rest).all (· == ',') then .commas
    else if isIdStart c && rest.all isIdPart then .word (charKind c) (charKind last)
    else .other

def sig (s : String) : TC := if litTable.contains s then .lit s else sigChars s.toList

def classify (s : String) : TokClass :=
  match sig s with
  | .lit t => if punctuators.contains t then .punct t else .keyword
  | .word _ _ => .word
  | .decInt => .decInt
  | .numDot => .numDot
  | .num _ => .number
  | .str => .string
  | .regex _ => .regex
  | .lineComment => .comment
  | .blockComment => .comment
  | .commas => .punct ","
  | .empty => .other
  | .other => .other

/-! ### symbols and abstract summaries -/

inductive Sym where
  | t (c : TC)
  /-- a layout chunk: its marker and whether its node is one of `headerKinds` (If/For/ForIn/While) -/
  | m (mk : Marker) (hdr : Bool)
  deriving DecidableEq, Repr, Inhabited

def symOf (hd : HData) : Chunk → Sym
  | .frag f => .t (sig f.text)
  | .layout mk _ n => .m mk (isKind hd.headerKinds n)

def syms (hd : HData) (cs : List Chunk) : List Sym := cs.map (symOf hd)

/-- summary of a set of symbol strings: may be empty; possible first symbols; possible last symbols -/
structure Abs where
  n : Bool
  f : List Sym
  l : List Sym
  deriving Repr, Inhabited

def Abs.empty : Abs := ⟨true, [], []⟩
def Abs.ofSyms (ss : List Sym) : Abs := ⟨false, ss, ss⟩
def Abs.seq (a b : Abs) : Abs :=
  ⟨a.n && b.n, a.f ++ (if a.n then b.f else []), b.l ++ (if b.n then a.l else [])⟩
def Abs.alt (a b : Abs) : Abs := ⟨a.n || b.n, a.f ++ b.f, a.l ++ b.l⟩
def Abs.opt (a : Abs) : Abs := ⟨true, a.f, a.l⟩
/-- the pairs (last of `a`, first of `b`) that become adjacent when `b` follows `a` -/
def cross (a b : Abs) : List (Sym × Sym) := a.l.flatMap (fun x => b.f.map (fun y => (x, y)))

/-- what an attribute of a node kind may hold (certificate; `wfVal` checks a tree against it) -/
inductive SlotTy where
  | tok (cs : List TC)                       -- a string with one of these signatures
  | node (ks : List String) (opt : Bool)     -- a node of one of these kinds (or None when `opt`)
  | nodes (ks : List String)                 -- a list of nodes of these kinds
  | int1                                     -- a positive int (Elision.value)
  | any                                      -- not printed / no claim
  deriving Repr, Inhabited

structure Res where
  abs : Abs
  need : List (Sym × Sym)
  bad : Bool
  deriving Repr, Inhabited

def Res.ok (a : Abs) : Res := ⟨a, [], false⟩
def Res.fail : Res := ⟨Abs.empty, [], true⟩

/-- the parameters of the analysis: layout table, header kinds, slot typing, certificate -/
structure Ctx where
  tbl : List (LKey × Option HandlerId)
  hdr : List String
  elisionKinds : List String
  /-- kind of `ElisionJoinAttr.sep`, the surrogate separator node -/
  esep : String
  slot : String → String → SlotTy
  cert : List (String × Abs)

def certOf (cx : Ctx) (k : String) : Option Abs := (cx.cert.find? (fun p => p.1 == k)).map (·.2)

/-- union of the certificates of the kinds (fails on a kind without certificate) -/
def kindsRes (cx : Ctx) : List String → Res
  | [] => ⟨⟨false, [], []⟩, [], false⟩
  | k :: ks =>
    match certOf cx k with
    | some a => let r := kindsRes cx ks; ⟨a.alt r.abs, [], r.bad⟩
    | none => Res.fail

def slotRes (cx : Ctx) : SlotTy → Res
  | .tok cs => Res.ok (Abs.ofSyms (cs.map Sym.t))
  | .node ks opt => let r := kindsRes cx ks; ⟨if opt then r.abs.opt else r.abs, [], r.bad⟩
  | _ => Res.fail

def srcRes (cx : Ctx) (K : String) : AttrSrc → Res
  | .name a =>
    -- `comments` has the class-level default None
    let r := slotRes cx (cx.slot K a)
    if a == "comments" then ⟨r.abs.opt, [], r.bad⟩ else r
  | .declare a =>
    let r := slotRes cx (cx.slot K a)
    if a == "comments" then ⟨r.abs.opt, [], r.bad⟩ else r
  | .resolve => slotRes cx (cx.slot K "value")
  | .literal =>
    -- the Literal handler may strip line continuations: only the class `str` is stable under it
    match cx.slot K "value" with
    | .tok [.str] => Res.ok (Abs.ofSyms [.t .str])
    | _ => Res.fail
  | .lineComment => let r := slotRes cx (cx.slot K "value"); ⟨r.abs.opt, [], r.bad⟩
  | .blockComment => let r := slotRes cx (cx.slot K "value"); ⟨r.abs.opt, [], r.bad⟩
  | .iter => Res.fail

/-- kinds of the items a JoinAttr iterates over -/
def itemKinds (cx : Ctx) (K : String) : AttrSrc → Option (List String)
  | .iter => match cx.slot K "children" with | .nodes ks => some ks | _ => none
  | .name a => match cx.slot K a with | .nodes ks => some ks | _ => none
  | .declare a => match cx.slot K a with | .nodes ks => some ks | _ => none
  | _ => none

mutual
  def absRule (cx : Ctx) (K : String) : Rule → Res
    | .layout mk =>
      match lookupLayout cx.tbl (LKey.single mk) with
      | some _ => Res.ok (Abs.ofSyms [.m mk (cx.hdr.contains K)])
      | none => Res.ok Abs.empty
    | .struct _ => Res.ok Abs.empty
    | .text v _ => Res.ok (Abs.ofSyms [.t (sig v)])
    | .attr src _ => srcRes cx K src
    | .commentsAttr src _ => srcRes cx K src
    | .operator (some a) _ _ => srcRes cx K (.name a)
    | .operator none (some v) _ => Res.ok (Abs.ofSyms [.t (sig v)])
    | .operator none none _ => Res.ok Abs.empty
    | .optional _ body => let r := absRules cx K body; ⟨r.abs.opt, r.need, r.bad⟩
    | .joinAttr src sep _ =>
      match itemKinds cx K src with
      | none => Res.fail
      | some ks =>
        let i := kindsRes cx ks
        let s := absRules cx K sep
        let p := s.abs.seq i.abs
        ⟨(i.abs.seq ⟨true, p.f, p.l⟩).opt, s.need ++ cross s.abs i.abs ++ cross p p ++ cross i.abs p, i.bad || s.bad⟩
    | .elisionToken (.name a) v _ =>
      match cx.slot K a with
      | .int1 => if v == "," then Res.ok (Abs.ofSyms [.t (.lit ","), .t .commas]) else Res.fail
      | _ => Res.fail
    | .elisionToken _ _ _ => Res.fail
    | .elisionJoinAttr src sep _ =>
      -- items: elisions (`ie`) and others (`ix`); `e` = the surrogate `,`; `s` = the separator definition.
      -- after a non-elision item: `e` then (`s` non-elision | elision); after an elision: (`s` non-elision | elision)
      match itemKinds cx K src, certOf cx cx.esep with
      | some ks, some e =>
        let ix := kindsRes cx (ks.filter (fun k => !cx.elisionKinds.contains k))
        let ie := kindsRes cx (ks.filter (fun k => cx.elisionKinds.contains k))
        let s := absRules cx K sep
        let mf := s.abs.f ++ (if s.abs.n then ix.abs.f else []) ++ ie.abs.f
        let m : Abs := ⟨false, mf, []⟩
        ⟨⟨true, ix.abs.f ++ ie.abs.f, ix.abs.l ++ ie.abs.l⟩,
         s.need ++ cross ix.abs e ++ cross e m ++ cross s.abs ix.abs ++ cross ie.abs m,
         ix.bad || ie.bad || s.bad || e.n || ix.abs.n || ie.abs.n⟩
      | _, _ => Res.fail
  def absRules (cx : Ctx) (K : String) : List Rule → Res
    | [] => Res.ok Abs.empty
    | r :: rs =>
      let a := absRule cx K r
      let b := absRules cx K rs
      ⟨a.abs.seq b.abs, a.need ++ cross a.abs b.abs ++ b.need, a.bad || b.bad⟩
end

/-! ### trees that respect the slot typing -/

def kindIn (ks : List String) : Val → Bool
  | .node k _ => ks.contains k
  | _ => false

def slotOK : SlotTy → Val → Bool
  | .tok cs, .str s => cs.contains (sig s)
  | .node ks opt, v => kindIn ks v || (opt && (match v with | .none => true | _ => false))
  | .nodes ks, .list xs => xs.all (kindIn ks)
  | .int1, .int n => decide (1 ≤ n)
  | .any, _ => true
  | _, _ => false

/-- the key an attribute is typed under: `@comments` is what `getattr(node, 'comments')` reads -/
def slotKey (a : String) : String := if a == "@comments" then "comments" else a

mutual
  /-- every node of the tree holds, in each printed attribute, a value of the slot's type -/
  def wfVal (cx : Ctx) : Val → Bool
    | .node k as => wfAttrs cx k as
    | .list xs => wfList cx xs
    | _ => true
  def wfList (cx : Ctx) : List Val → Bool
    | [] => true
    | v :: vs => wfVal cx v && wfList cx vs
  def wfAttrs (cx : Ctx) (k : String) : List (String × Val) → Bool
    | [] => true
    | (a, v) :: rest =>
      (!printedAttr a || (slotOK (cx.slot k (slotKey a)) v && wfVal cx v)) && wfAttrs cx k rest
end

def subList {α : Type} [BEq α] (a b : List α) : Bool := a.all b.contains

def Abs.le (a b : Abs) : Bool := (!a.n || b.n) && subList a.f b.f && subList a.l b.l

/-- the closure check of the certificate: every definition's summary is below its certificate, every pair of
symbols that can become adjacent inside it is in `F`, and nothing unsupported was met -/
def closedDef (cx : Ctx) (F : List (Sym × Sym)) (kd : String × List Rule) : Bool :=
  let r := absRules cx kd.1 kd.2
  !r.bad && subList r.need F &&
    (match certOf cx kd.1 with
     | some a => r.abs.le a
     | none => false)

def closed (cx : Ctx) (F : List (Sym × Sym)) (defs : Defs) : Bool := defs.all (closedDef cx F)

end CalmVerif.TokenAdj

namespace CalmVerif.TokenAdj
open CalmVerif CalmVerif.Unparse

/-! ### the slot typing of ES5 trees (certificate; checked on every parsed tree by the harness) and the
computation of the first / last certificates and of the follow relation by fixpoint iteration -/

def exprKinds : List String := ["Identifier", "Number", "String", "Regex", "Boolean", "Null", "This", "Array", "Object",
  "FuncExpr", "GroupingOp", "DotAccessor", "BracketAccessor", "FunctionCall", "NewExpr", "UnaryExpr", "PostfixExpr",
  "BinOp", "Conditional", "Assign", "Comma"]
def stmtKinds : List String := ["Block", "VarStatement", "EmptyStatement", "ExprStatement", "If", "For", "ForIn", "While",
  "DoWhile", "Continue", "Break", "Return", "With", "Label", "Switch", "Throw", "Try", "Debugger", "FuncDecl"]
def wordSigs : List TC := [.word 0 0, .word 0 1, .word 0 2, .word 1 0, .word 1 1, .word 1 2]
def lits (l : List String) : List TC := l.map TC.lit
def binaryOps : List String := ["||", "&&", "|", "^", "&", "==", "!=", "===", "!==", "<", ">", "<=", ">=", "instanceof", "in",
  "<<", ">>", ">>>", "+", "-", "*", "/", "%"]
def assignOps : List String := ["=", "+=", "-=", "*=", "/=", "%=", "<<=", ">>=", ">>>=", "&=", "|=", "^=", ":"]
def unaryOps : List String := ["delete", "void", "typeof", "++", "--", "+", "-", "~", "!"]
def propNameKinds : List String := ["PropIdentifier", "String", "Number"]

def es5Slot (k a : String) : SlotTy :=
  if a == "comments" then .node ["Comments"] true else
  match k, a with
  | "ES5Program", "children" => .nodes stmtKinds
  | "Block", "children" => .nodes stmtKinds
  | "VarStatement", "children" => .nodes ["VarDecl"]
  | "VarDecl", "identifier" => .node ["Identifier"] false
  | "VarDecl", "initializer" => .node exprKinds true
  | "VarDeclNoIn", "identifier" => .node ["Identifier"] false
  | "VarDeclNoIn", "initializer" => .node exprKinds true
  | "GroupingOp", "expr" => .node exprKinds false
  | "Identifier", "value" => .tok wordSigs
  | "PropIdentifier", "value" => .tok (wordSigs ++ lits reservedWords)
  | "Assign", "left" => .node (exprKinds ++ propNameKinds) false
  | "Assign", "op" => .tok (lits assignOps)
  | "Assign", "right" => .node exprKinds false
  | "GetPropAssign", "prop_name" => .node propNameKinds false
  | "GetPropAssign", "elements" => .nodes stmtKinds
  | "SetPropAssign", "prop_name" => .node propNameKinds false
  | "SetPropAssign", "parameter" => .node ["Identifier"] false
  | "SetPropAssign", "elements" => .nodes stmtKinds
  | "Number", "value" => .tok [.decInt, .numDot, .num false, .num true]
  | "String", "value" => .tok [.str]
  | "Regex", "value" => .tok [.regex 3, .regex 0, .regex 1, .regex 2]
  | "Boolean", "value" => .tok (lits ["true", "false"])
  | "Comma", "left" => .node exprKinds false
  | "Comma", "right" => .node exprKinds false
  | "If", "predicate" => .node exprKinds false
  | "If", "consequent" => .node stmtKinds false
  | "If", "alternative" => .node stmtKinds true
  | "For", "init" => .node ["ExprStatement", "EmptyStatement", "VarStatement"] false
  | "For", "cond" => .node ["ExprStatement", "EmptyStatement"] false
  | "For", "count" => .node exprKinds true
  | "For", "statement" => .node stmtKinds false
  | "ForIn", "item" => .node (exprKinds ++ ["VarDeclNoIn"]) false
  | "ForIn", "iterable" => .node exprKinds false
  | "ForIn", "statement" => .node stmtKinds false
  | "BinOp", "left" => .node exprKinds false
  | "BinOp", "op" => .tok (lits binaryOps)
  | "BinOp", "right" => .node exprKinds false
  | "UnaryExpr", "op" => .tok (lits unaryOps)
  | "UnaryExpr", "value" => .node exprKinds false
  | "PostfixExpr", "op" => .tok (lits ["++", "--"])
  | "PostfixExpr", "value" => .node exprKinds false
  | "ExprStatement", "expr" => .node exprKinds false
  | "DoWhile", "statement" => .node stmtKinds false
  | "DoWhile", "predicate" => .node exprKinds false
  | "While", "predicate" => .node exprKinds false
  | "While", "statement" => .node stmtKinds false
  | "Continue", "identifier" => .node ["Identifier"] true
  | "Break", "identifier" => .node ["Identifier"] true
  | "Return", "expr" => .node exprKinds true
  | "With", "expr" => .node exprKinds false
  | "With", "statement" => .node stmtKinds false
  | "Label", "identifier" => .node ["Identifier"] false
  | "Label", "statement" => .node stmtKinds false
  | "Switch", "expr" => .node exprKinds false
  | "Switch", "case_block" => .node ["CaseBlock"] false
  | "CaseBlock", "children" => .nodes ["Case", "Default"]
  | "Case", "expr" => .node exprKinds false
  | "Case", "elements" => .nodes stmtKinds
  | "Default", "elements" => .nodes stmtKinds
  | "Throw", "expr" => .node exprKinds false
  | "Try", "statements" => .node ["Block"] false
  | "Try", "catch" => .node ["Catch"] true
  | "Try", "fin" => .node ["Finally"] true
  | "Catch", "identifier" => .node ["Identifier"] false
  | "Catch", "elements" => .node ["Block"] false
  | "Finally", "elements" => .node ["Block"] false
  | "FuncDecl", "identifier" => .node ["Identifier"] true
  | "FuncDecl", "parameters" => .nodes ["Identifier"]
  | "FuncDecl", "elements" => .nodes stmtKinds
  | "FuncExpr", "identifier" => .node ["Identifier"] true
  | "FuncExpr", "parameters" => .nodes ["Identifier"]
  | "FuncExpr", "elements" => .nodes stmtKinds
  | "Conditional", "predicate" => .node exprKinds false
  | "Conditional", "consequent" => .node exprKinds false
  | "Conditional", "alternative" => .node exprKinds false
  | "NewExpr", "identifier" => .node exprKinds false
  | "NewExpr", "args" => .node ["Arguments"] true
  | "DotAccessor", "node" => .node exprKinds false
  | "DotAccessor", "identifier" => .node ["PropIdentifier"] false
  | "BracketAccessor", "node" => .node exprKinds false
  | "BracketAccessor", "expr" => .node exprKinds false
  | "FunctionCall", "identifier" => .node exprKinds false
  | "FunctionCall", "args" => .node ["Arguments"] false
  | "Arguments", "items" => .nodes exprKinds
  | "Object", "properties" => .nodes ["Assign", "GetPropAssign", "SetPropAssign"]
  | "Array", "items" => .nodes (exprKinds ++ ["Elision"])
  | "Elision", "value" => .int1
  | "Comments", "children" => .nodes ["LineComment", "BlockComment"]
  | "LineComment", "value" => .tok [.lineComment]
  | "BlockComment", "value" => .tok [.blockComment]
  | _, _ => .any

def dedup {α : Type} [BEq α] : List α → List α
  | [] => []
  | x :: xs => let r := dedup xs; if r.contains x then r else x :: r

def Abs.norm (a : Abs) : Abs := ⟨a.n, dedup a.f, dedup a.l⟩

def mkCtx (rs : RuleSet) (cert : List (String × Abs)) : Ctx where
  tbl := rs.layout
  hdr := Gen.Rules.headerKinds
  elisionKinds := Gen.Defs.elisionKinds
  esep := "Elision"
  slot := es5Slot
  cert := cert

/-- one round of the fixpoint iteration: the summary of every definition under the current certificate -/
def certStep (rs : RuleSet) (defs : Defs) (cert : List (String × Abs)) : List (String × Abs) :=
  defs.map (fun kd => (kd.1, (absRules (mkCtx rs cert) kd.1 kd.2).abs.norm))

def certIter (rs : RuleSet) (defs : Defs) : Nat → List (String × Abs)
  | 0 => defs.map (fun kd => (kd.1, ⟨false, [], []⟩))
  | n + 1 => certStep rs defs (certIter rs defs n)

/-- all pairs of symbols that can become adjacent under the certificate -/
def followOf (rs : RuleSet) (defs : Defs) (cert : List (String × Abs)) : List (Sym × Sym) :=
  dedup (defs.flatMap (fun kd => (absRules (mkCtx rs cert) kd.1 kd.2).need))

end CalmVerif.TokenAdj

namespace CalmVerif.TokenAdj
open CalmVerif CalmVerif.Unparse

/-- the follow relation as the plain concatenation of all `need` lists (never evaluated by the closure check) -/
def allNeeds (cx : Ctx) (defs : Defs) : List (Sym × Sym) := defs.flatMap (fun kd => (absRules cx kd.1 kd.2).need)

/-- the part of the closure check that does not hold by construction of `allNeeds` -/
def closedCertDef (cx : Ctx) (kd : String × List Rule) : Bool :=
  let r := absRules cx kd.1 kd.2
  !r.bad && (match certOf cx kd.1 with
     | some a => r.abs.le a
     | none => false)

def closedCert (cx : Ctx) (defs : Defs) : Bool := defs.all (closedCertDef cx)

end CalmVerif.TokenAdj
