/-
Model of ply's token loop (`ply.lex.Lexer.token`, /venv/.../ply/lex.py) for the two lexer
states of calmjs.parse.lexers.es5 (`INITIAL`, exclusive `regex`).  No Mathlib, no proofs.

    while lexpos < lexlen:
        if lexdata[lexpos] in lexignore: lexpos += 1; continue
        for lexre, lexindexfunc in self.lexre:      # master regex: ordered alternation
            m = lexre.match(lexdata, lexpos) …      # the FIRST alternative that matches wins
            tok.value = m.group(); tok.lineno = self.lineno; tok.lexpos = lexpos
            func, tok.type = lexindexfunc[m.lastindex]
            self.lexpos = m.end(); (func rules: newtok = func(tok)); return tok
        else:  … tok.value = lexdata[lexpos:]; self.lexpos = lexpos; self.lexerrorf(tok)
    self.lexpos = lexpos + 1; return None

* The ORDER of the rules of a state is `Gen.Tables.Cached.lexTypes_<state>` (reflected from
  `lexer.lexstatere`, so a reordering in /repo changes the model); the ignore strings are
  `lexIgnore_<state>`; the text of a fixed-text rule is `Gen.LexData.punctSpelling`.
* A rule name for which the model has neither a matcher nor a spelling is the explicit outcome
  `modelGap` (the model does not cover the code any more), never skipped.
* Rule functions: `t_STRING`, `t_GETPROP`, `t_SETPROP` return the token unchanged; `t_ID`
  replaces the type by `keywords_dict.get(value, 'ID')`, and back by 'ID' when the lexer's last significant
  token is a PERIOD (`ruleFn`).
* All rules of these states produce tokens (no ignored-token rules, no literals, no `t_eof`);
  the error functions (`t_error`, `t_regex_error`) always raise, they live in Model.Lexer.
-/
import CalmVerif.Gen.Tables.Cached
import CalmVerif.Gen.LexData
import CalmVerif.Model.TokenRegex

namespace CalmVerif.Model.PlyLex
open CalmVerif.Gen CalmVerif.Model.TokenRegex

inductive LexerState where
  | initial
  | regex
  deriving DecidableEq, Repr

def rulesOf : LexerState → List String
  | .initial => Tables.Cached.lexTypes_INITIAL
  | .regex => Tables.Cached.lexTypes_regex

def ignoreOf : LexerState → List Char
  | .initial => Tables.Cached.lexIgnore_INITIAL.toList
  | .regex => Tables.Cached.lexIgnore_regex.toList

def lookup (tbl : List (String × String)) (k : String) : Option String :=
  match tbl with
  | [] => none
  | (a, b) :: rest => if a = k then some b else lookup rest k

/-- the matcher of a rule, by rule name; `none`: the model does not know the rule -/
def ruleMatcher (name : String) : Option (List Char → Option Nat) :=
  if name = "STRING" then some stringLen
  else if name = "GETPROP" then some (propLen ['g', 'e', 't'])
  else if name = "SETPROP" then some (propLen ['s', 'e', 't'])
  else if name = "ID" then some idLen
  else if name = "NUMBER" then some numberLen
  else if name = "LINE_TERMINATOR" then some ltSeqLen
  else if name = "BLOCK_COMMENT" then some blockCommentLen
  else if name = "LINE_COMMENT" then some lineCommentLen
  else if name = "REGEX" then some regexLen
  else
    match lookup LexData.punctSpelling name with
    | some lit => some (matchLit lit.toList)
    | none => none

inductive RuleResult where
  | matched (rule : String) (len : Nat)
  | noMatch
  | unknownRule (rule : String)
  deriving DecidableEq, Repr

/-- the master regex of a state at a position: rules tried in order, the first match wins -/
def firstMatch : List String → List Char → RuleResult
  | [], _ => .noMatch
  | r :: rs, rest =>
    match ruleMatcher r with
    | none => .unknownRule r
    | some m =>
      match m rest with
      | some n => .matched r n
      | none => firstMatch rs rest

/-- the first statement of `t_ID`: `token.type = self.keywords_dict.get(token.value, 'ID')`; every other rule
    (function or string rule) leaves the rule name as the type -/
def ruleType (rule : String) (value : List Char) : String :=
  if rule = "ID" then
    match lookup LexData.keywords (String.ofList value) with
    | some kw => kw
    | none => "ID"
  else rule

/-- the token type after the rule function ran.  ply calls a function rule as a bound method of the calmjs Lexer
    object, and `t_ID` reads that object: after the dictionary look-up,

        if (token.type != 'ID' and self.cur_token_real is not None and self.cur_token_real.type == 'PERIOD'):
            token.type = 'ID'      # an IdentifierName after `.` is a property name, never a keyword

    `afterPeriod` is the value of `self.cur_token_real is not None and self.cur_token_real.type == 'PERIOD'` at
    the time of the call (Model.Lexer.afterPeriod). -/
def ruleFn (afterPeriod : Bool) (rule : String) (value : List Char) : String :=
  if rule = "ID" ∧ ruleType rule value ≠ "ID" ∧ afterPeriod = true then "ID" else ruleType rule value

inductive PlyOut where
  /-- `return None`; `self.lexpos = lexpos + 1` -/
  | eof (newLexpos : Nat)
  /-- a token of `len` characters at `start`; `self.lexpos = start + len` -/
  | tok (type : String) (start len : Nat)
  /-- no rule matches at `pos` (after the ignored characters): the state's error function is called
      with `value = lexdata[pos:]`, `self.lexpos = pos` -/
  | error (pos : Nat)
  | modelGap (rule : String)
  deriving DecidableEq, Repr

def isIgnored (s : LexerState) (c : Char) : Bool := (ignoreOf s).contains c

/-- one call of `lexer.token()` in state `s` with `self.lexpos = lexpos`; `afterPeriod`: what the rule function
    `t_ID` reads from the Lexer object (see `ruleFn`) -/
def plyToken (s : LexerState) (text : List Char) (lexpos : Nat) (afterPeriod : Bool) : PlyOut :=
  let rest := text.drop lexpos
  let k := spanLen (isIgnored s) rest
  let start := lexpos + k
  match rest.drop k with
  | [] => .eof (start + 1)
  | c :: cs =>
    match firstMatch (rulesOf s) (c :: cs) with
    | .matched r n => .tok (ruleFn afterPeriod r ((c :: cs).take n)) start n
    | .noMatch => .error start
    | .unknownRule r => .modelGap r

end CalmVerif.Model.PlyLex
