/-
Descriptors of the semantic actions of the grammar productions, as produced by the translator
harness/gen/g_actions.py (action probing of the real p_* functions).  See that file for the
meaning of every constructor.
-/
namespace CalmVerif.Model.ActionDesc

inductive Kind where
  | none | str | list
  | node (k : String)
  deriving DecidableEq, Repr, Inhabited

/-- where a position triple comes from -/
inductive PosD where
  | unset
  | ofNode (j : Nat)                  -- copied from the node held in slot j
  | ofNodeTok (j : Nat)               -- first `(` entry of the token map of the node in slot j
  | slots (lex line colLine colPos delta : Nat)
  | at (j delta : Nat)                -- = slots j j j j delta
  deriving DecidableEq, Repr, Inhabited

inductive TextSrc where
  | slotText (j : Nat)                -- the string held by slot j
  | const (s : String)
  | commas                            -- ',' repeated `value` times (Elision)
  deriving DecidableEq, Repr, Inhabited

mutual
  inductive D where
    | slot (j : Nat)
    | none
    | str (s : String)
    | int (n : Int)
    | attrOf (j : Nat) (name : String)
    | raiseAt (msg : String) (j : Nat)
    | list (items : List Item)
    /-- `tokSlots`: slots whose string value is recorded at the slot's own position (first, in order);
        `tokmap`: further token-map entries; `tokmapOf j`: the token map object of the node in slot j is shared -/
    | node (kind : String) (attrs : List (String × D)) (pos : PosD) (tokSlots : List Nat)
        (tokmap : List (TextSrc × PosD)) (tokmapOf : Option Nat)
  inductive Item where
    | item (d : D)
    | spread (j : Nat)
    | spreadMod (j : Nat) (lastInc : Bool) (firstTm : Option PosD)
end

instance : Inhabited D := ⟨.none⟩

structure Entry where
  default : List Kind
  result : D
  /-- rows `(conditions, result)`: every condition `(slot, kinds)` requires the shape of that slot to be one of
      `kinds`; rows are ordered most specific first; if none applies the default `result` is used -/
  exceptions : List (List (Nat × List Kind) × D)
  probed : Bool

end CalmVerif.Model.ActionDesc
