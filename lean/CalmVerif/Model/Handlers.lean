/-
Model of calmjs.parse.handlers.core (token handlers, layout handlers, deferrable handlers),
handlers.indentation.Indentator and asttypes.Node.getpos, over generic trees (`Val`).

Everything the handlers read from module level (assignment_tokens, required_space, …) is a field
of `HData`, filled from Gen/Rules.lean by the driver and by the property theorems.

The Indentator's `_level` is threaded as an `Int` (it can go negative when a definition is
unbalanced; Python's `s * negative` is the empty string — not clamped in the state).

No Mathlib, no proofs.
-/
import CalmVerif.Model.UnparseTypes
namespace CalmVerif.Unparse
open CalmVerif

/-- module-level data of handlers.core / Dispatcher defaults -/
structure HData where
  assignmentTokens : List String
  optionalRhsSpaceTokens : List (Option String)
  spaceImply : Frag
  spaceDrop : Frag
  headerKinds : List String
  /-- required_space.match(c1 c2) on a two-character string -/
  requiredSpace : Char → Char → Bool
  lineContSingle : List Nat
  lineContPairs : List (Nat × Nat)
  /-- dispatcher.indent_str / dispatcher.newline_str -/
  dispIndent : String
  newline : String
  identifierKinds : List String
  elisionKinds : List String
  /-- `Indentator('')` uses the dispatcher's indent string (`self.indent_str if self.indent_str else …`) -/
  emptyIndentFallsBack : Bool

/-! ### strings -/

def lastN (n : Nat) (l : List Char) : List Char := l.drop (l.length - n)

/-- `s[-1:]` -/
def lastChar (s : String) : List Char := lastN 1 s.toList
/-- `s[:1]` -/
def firstChar (s : String) : List Char := s.toList.take 1

/-- `s * n` for a Python int n -/
def strMul (s : String) (n : Int) : String :=
  String.ofList (List.replicate n.toNat s.toList).flatten

/-- `x in container` for a str x and the two-character str "\r\n": substring test -/
def inCRLF (x : List Char) : Bool :=
  x == [] || x == ['\r'] || x == ['\n'] || x == ['\r', '\n']

/-! ### Node.getpos -/

def lookupAttr : List (String × Val) → String → Option Val
  | [], _ => none
  | (b, x) :: rest, a => if b == a then some x else lookupAttr rest a

def nodeAttr (node : Val) (a : String) : Option Val :=
  match node with
  | .node _ as => lookupAttr as a
  | _ => none

def nodeKind : Val → String
  | .node k _ => k
  | _ => ""

/-- entry of a `@tokmap` list for text `s`: `token_map.get(s, [])` -/
def tokmapGet : List Val → String → Except Err (List Val)
  | [], _ => .ok []
  | .list [.str t, .list ps] :: rest, s => if t == s then .ok ps else tokmapGet rest s
  | _ :: _, _ => .error (.unmodelled "tokmap")

def posOf : Val → Except Err (Option Int × Option Int)
  | .list [.int _, .int l, .int c] => .ok (some l, some c)
  -- positions of hand-built nodes may hold None
  | .list [_, l, c] =>
    let f : Val → Except Err (Option Int) := fun v => match v with
      | .int n => .ok (some n) | .none => .ok none | _ => .error (.unmodelled "tokmap position")
    match f l, f c with
    | .ok a, .ok b => .ok (a, b)
    | .error e, _ => .error e
    | _, .error e => .error e
  | _ => .error (.unmodelled "tokmap position")

/-- `_, lineno, colno = node.getpos(s, idx)`.
No `_token_map` attribute (`@tokmap` absent in the dump) → (None, None);
`idx < len(token_list)` → `token_list[idx]` (Python indexing: negative idx counts from the end,
IndexError when out of range); else (0, 0). -/
def getpos (node : Val) (s : String) (idx : Int) : Except Err (Option Int × Option Int) :=
  match nodeAttr node "@tokmap" with
  | none => .ok (none, none)
  | some (.list tm) =>
    match tokmapGet tm s with
    | .error e => .error e
    | .ok ps =>
      if idx < (ps.length : Int) then
        if 0 ≤ idx then
          match ps[idx.toNat]? with
          | some p => posOf p
          | none => .error .indexError
        else if -idx ≤ (ps.length : Int) then
          match ps[(ps.length : Int) + idx |>.toNat]? with
          | some p => posOf p
          | none => .error .indexError
        else .error .indexError
      else .ok (some 0, some 0)
  | some _ => .error (.unmodelled "tokmap")

/-- getpos with idx 0 never raises IndexError; a malformed dump gives the implied position -/
def getpos0 (node : Val) (s : String) : Option Int × Option Int :=
  match getpos node s 0 with
  | .ok p => p
  | .error _ => (some 0, some 0)

/-! ### token handlers -/

def isKind (kinds : List String) (node : Val) : Bool :=
  match node with
  | .node k _ => kinds.contains k
  | _ => false

/-- token_handler_str_default(token, dispatcher, node, subnode, sourcepath_stack) -/
def tokenStrDefault (pos : Option Int) (node : Val) (sub : String) (src : Src) : Except Err (List Frag) :=
  match pos with
  | some i =>
    match getpos node sub i with
    | .ok (l, c) => .ok [{ text := sub, line := l, col := c, name := none, source := src }]
    | .error e => .error e
  | none => .ok [{ text := sub, line := none, col := none, name := none, source := src }]

/-- token_handler_unobfuscate -/
def tokenUnobfuscate (hd : HData) (pos : Option Int) (node : Val) (sub : String) (src : Src) :
    Except Err (List Frag) :=
  let original : Except Err (Option String) :=
    if isKind hd.identifierKinds node then
      match nodeAttr node "value" with
      | none => .error (.attributeError "value")
      | some (.str v) => .ok (if v != sub then some v else none)
      | some _ => .error (.unmodelled "Identifier.value is not a str")
    else .ok none
  match original with
  | .error e => .error e
  | .ok orig =>
    -- `original or subnode`: an empty original name is falsy
    let key := match orig with
      | some v => if v == "" then sub else v
      | none => sub
    match pos with
    | some i =>
      match getpos node key i with
      | .ok (l, c) => .ok [{ text := sub, line := l, col := c, name := orig, source := src }]
      | .error e => .error e
    | none => .ok [{ text := sub, line := none, col := none, name := orig, source := src }]

def tokenHandler (hd : HData) : Option TokenHandlerId → Option Int → Val → String → Src → Except Err (List Frag)
  | none, _, _, _, _ => .ok []             -- `if self.__token_handler:` — nothing is yielded
  | some .strDefault, pos, node, sub, src => tokenStrDefault pos node sub src
  | some .unobfuscate, pos, node, sub, src => tokenUnobfuscate hd pos node sub src

/-! ### deferrable handlers -/

/-- scanner state of `dropLineCont`: nothing pending / a backslash pending / backslash + a deleted
single terminator `d` just consumed (a following `e` with (d, e) a unit pair is deleted too) -/
inductive LCState where
  | s0 | s1 | s2 (d : Char)

/-- PATT_LINE_CONTINUATION.sub('', s): leftmost non-overlapping matches of backslash + terminator
(unit pairs such as CR LF tried first; the translator checks pairs ⊆ single × single) -/
def dropLineContAux (hd : HData) : LCState → List Char → List Char
  | .s0, [] => []
  | .s1, [] => ['\\']
  | .s2 _, [] => []
  | .s0, c :: cs => if c == '\\' then dropLineContAux hd .s1 cs else c :: dropLineContAux hd .s0 cs
  | .s1, d :: cs =>
    if hd.lineContSingle.contains d.toNat then dropLineContAux hd (.s2 d) cs
    else if d == '\\' then '\\' :: dropLineContAux hd .s1 cs
    else '\\' :: d :: dropLineContAux hd .s0 cs
  | .s2 d, e :: cs =>
    if hd.lineContPairs.contains (d.toNat, e.toNat) then dropLineContAux hd .s0 cs
    else if e == '\\' then dropLineContAux hd .s1 cs
    else e :: dropLineContAux hd .s0 cs

def dropLineCont (hd : HData) (l : List Char) : List Char := dropLineContAux hd .s0 l

/-! ### layout handlers -/


def fragAt (node : Val) (s : String) : Frag :=
  let p := getpos0 node s
  { text := s, line := p.1, col := p.2, name := none, source := .none }

/-- the string the Indentator multiplies: `self.indent_str if self.indent_str else dispatcher.indent_str` -/
def effIndent (hd : HData) (indentStr : Option String) : String :=
  match indentStr with
  | some s => if s == "" && hd.emptyIndentFallsBack then hd.dispIndent else s
  | none => hd.dispIndent

/-- Indentator._generate_indents -/
def generateIndents (hd : HData) (indentStr : Option String) (level : Int) : List Frag :=
  let indents := strMul (effIndent hd indentStr) level
  if indents == "" then [] else [{ text := indents, line := none, col := none, name := none, source := .none }]

def newlineFrag (hd : HData) : Frag :=
  { text := hd.newline, line := some 0, col := some 0, name := none, source := .none }

/-- `fc(s)` / `lc(s)` of the optional-newline handlers, `idx = len(newline_str)` -/
def fcN (hd : HData) : Option String → List Char
  | none => []
  | some s => s.toList.take hd.newline.length
def lcN (hd : HData) : Option String → List Char
  | none => []
  -- s[-idx:]; `s[-0:]` is the whole string
  | some s => if hd.newline.length == 0 then s.toList else lastN hd.newline.length s.toList

/-- `newline_strs & {lc(before), fc(after), lc(prev)}` is non-empty -/
def anyNewline (hd : HData) (before after prev : Option String) : Bool :=
  let nl : List (List Char) := [['\r'], ['\n'], hd.newline.toList]
  nl.contains (lcN hd before) || nl.contains (fcN hd after) || nl.contains (lcN hd prev)

def strTruthy : Option String → Bool
  | some s => s != ""
  | none => false

/-- the two-character test of the space handlers: `required_space.match(before[-1:] + after[:1])` -/
def requiredSpaceStr (hd : HData) (before after : String) : Bool :=
  match lastChar before ++ firstChar after with
  | [a, b] => hd.requiredSpace a b
  | _ => false        -- the regex matches no string shorter than two characters (checked by the translator)

/--
One layout handler call: `handler(dispatcher, node, before, after, prev)` with the Indentator
level as state.  Returns the fragments it yields and the new level.
-/
def runHandler (hd : HData) (indentStr : Option String) (h : HandlerId) (node : Val)
    (before after prev : Option String) (level : Int) : List Frag × Int :=
  match h with
  | .noop => ([], level)
  | .semicolon => ([fragAt node ";"], level)
  | .semicolonOptional => (if strTruthy after then [fragAt node ";"] else [], level)
  | .openbrace => ([fragAt node "{"], level)
  | .closebrace => ([fragAt node "}"], level)
  | .spaceImply => ([hd.spaceImply], level)
  | .spaceDrop => ([hd.spaceDrop], level)
  | .newlineSimple => ([newlineFrag hd], level)
  | .newlineOptionalPretty =>
    -- `if lc(before) in '\r\n': return` — true for before = None as well ('' in '\r\n')
    if inCRLF (lcN hd before) then ([], level)
    else if !anyNewline hd before after prev then ([newlineFrag hd], level)
    else ([], level)
  | .spaceOptionalPretty =>
    if isKind hd.headerKinds node && !hd.optionalRhsSpaceTokens.contains after then
      ([hd.spaceImply], level)
    else match before, after with
      | some b, some a =>
        if requiredSpaceStr hd b a || hd.assignmentTokens.contains a then ([hd.spaceImply], level)
        else ([], level)
      | _, _ => ([], level)
  | .spaceMinimum =>
    match before, after with
    | some b, some a => if requiredSpaceStr hd b a then ([hd.spaceImply], level) else ([], level)
    | _, _ => ([], level)
  | .indIndent => ([], level + 1)
  | .indDedent => ([], level - 1)
  | .indNewline => (newlineFrag hd :: generateIndents hd indentStr level, level)
  | .indNewlineOptional =>
    if strTruthy before && inCRLF (lcN hd before) then ([], level)
    else
      (if !anyNewline hd before after prev then [newlineFrag hd] else [])
        ++ generateIndents hd indentStr level
      |> fun fs => (fs, level)

end CalmVerif.Unparse
