/-
Interpreter of the probed semantic-action descriptors (Gen.Actions) over semantic values:
the model of `p_*` + `Node.setpos / findpos / set_comments` of calmjs.parse, with ply's
position tracking (`YaccProduction.lexpos(i) / lineno(i)`).

Trees are `CalmVerif.Val` nodes in the vocabulary of harness/treedump.py:
  attributes + `@pos [lexpos lineno colno]` + `@tokmap [[text [[l n c] …]] …]` (+ `@comments`).
During construction attributes are kept in insertion order; `canon` sorts them.
-/
import CalmVerif.Util.Val
import CalmVerif.Model.ActionDesc
namespace CalmVerif.Model.Actions
open CalmVerif CalmVerif.Model.ActionDesc

/-- a (possibly hidden) token as delivered by the lexer -/
structure Tok where
  type : String
  value : String
  lexpos : Nat
  lineno : Nat
  colno : Int
  hidden : List (String × String × Nat × Nat × Int) := []   -- (type, value, lexpos, lineno, colno)
  deriving Repr, Inhabited

/-- semantic value of a grammar symbol together with ply's tracking attributes -/
structure PVal where
  v : Val
  lexpos : Nat
  lineno : Nat
  tok : Option Tok := none      -- `some` iff the symbol is a terminal (a LexToken)
  deriving Inhabited

inductive Err where
  | production (msg : String)          -- ProductionError(ECMASyntaxError(msg))
  | internal (what : String)           -- a Python exception other than the library's
  deriving Repr

def kindOf : Val → Kind
  | .none => .none
  | .str _ => .str
  | .list _ => .list
  | .node k _ => .node k
  | .int _ => .none
  | .bool _ => .none

structure Ctx where
  slots : List PVal                       -- slot 1 is the head
  pos0 : Nat × Nat                        -- tracking position of the result symbol (slot 0)
  lookupCol : Nat → Nat → Option Int      -- lexer.lookup_colno(lineno, lexpos); none = IndexError
  withComments : Bool

def Ctx.slot? (c : Ctx) (j : Nat) : Option PVal := if j = 0 then none else c.slots[j - 1]?

def Ctx.lexposOf (c : Ctx) (j : Nat) : Option Nat :=
  if j = 0 then some c.pos0.1 else (c.slot? j).map (·.lexpos)

def Ctx.linenoOf (c : Ctx) (j : Nat) : Option Nat :=
  if j = 0 then some c.pos0.2 else (c.slot? j).map (·.lineno)

def posVal (l n : Nat) (col : Int) : Val := .list [.int l, .int n, .int col]
def posUnset : Val := .list [.none, .none, .none]

def getAttr (v : Val) (name : String) : Option Val := v.attr? name

def setAttr (attrs : List (String × Val)) (name : String) (x : Val) : List (String × Val) :=
  if attrs.any (·.1 == name) then attrs.map (fun p => if p.1 == name then (name, x) else p)
  else attrs ++ [(name, x)]

/-- `findpos` with explicit slot choices for the three components, plus `wrap`'s increment -/
def findPos (c : Ctx) (lex line colLine colPos delta : Nat) : Except Err Val :=
  match c.lexposOf lex, c.linenoOf line, c.linenoOf colLine, c.lexposOf colPos with
  | some lp, some ln, some cln, some clp =>
    if cln > 0 then
      match c.lookupCol cln clp with
      | some col => .ok (posVal (lp + delta) ln (col + delta))
      | none => .error (.internal "IndexError")
    else .ok (posVal (lp + delta) ln (0 + delta))
  | _, _, _, _ => .error (.internal "IndexError")

def evalPos (c : Ctx) : PosD → Except Err Val
  | .unset => .ok posUnset
  | .at j d => findPos c j j j j d
  | .slots a b cl cp d => findPos c a b cl cp d
  | .ofNode j =>
    match c.slot? j with
    | some pv => .ok ((getAttr pv.v "@pos").getD posUnset)
    | none => .error (.internal "IndexError")
  | .ofNodeTok j =>
    match c.slot? j with
    | some pv =>
      match getAttr pv.v "@tokmap" with
      | some (.list entries) =>
        let hit := entries.findSome? fun e => match e with
          | .list [.str "(", .list (p :: _)] => some p
          | _ => none
        .ok (hit.getD (posVal 0 0 0))
      | _ => .ok (posVal 0 0 0)
    | none => .error (.internal "IndexError")

/-- append `pos` to the entry of `text` in a token map kept in insertion order -/
def tokmapAdd (tm : List (String × List Val)) (text : String) (pos : Val) : List (String × List Val) :=
  if tm.any (·.1 == text) then tm.map (fun e => if e.1 == text then (e.1, e.2 ++ [pos]) else e)
  else tm ++ [(text, [pos])]

def tokmapVal (tm : List (String × List Val)) : Val :=
  .list (tm.map fun e => .list [.str e.1, .list e.2])

def commas (n : Nat) : String := String.ofList (List.replicate n ',')

/-- `Node.set_comments` for the token in slot `idx` -/
def commentsOf (t : Tok) : Option Val :=
  let cs := t.hidden.filterMap fun (ty, value, lp, ln, col) =>
    let kind := if ty == "LINE_COMMENT" then some "LineComment"
                else if ty == "BLOCK_COMMENT" then some "BlockComment" else none
    kind.map fun k =>
      (Val.node k [("value", .str value), ("@pos", posVal lp ln col),
                   ("@tokmap", tokmapVal [(value, [posVal lp ln col])])], posVal lp ln col)
  match cs with
  | [] => none
  | (_, p0) :: _ =>
    some (.node "Comments" [("children", .list (cs.map (·.1))), ("@pos", p0), ("@tokmap", .list [])])

def setposIdx : PosD → Option Nat
  | .at j _ => some j
  | .slots a _ _ _ _ => some a
  | _ => none

mutual
  def evalD (c : Ctx) : D → Except Err Val
    | .slot j => match c.slot? j with
      | some pv => .ok pv.v
      | none => .error (.internal "IndexError")
    | .none => .ok .none
    | .str s => .ok (.str s)
    | .int n => .ok (.int n)
    | .attrOf j name => match c.slot? j with
      | some pv => match getAttr pv.v name with
        | some x => .ok x
        | none => .error (.internal "AttributeError")
      | none => .error (.internal "IndexError")
    | .raiseAt msg j =>
      match evalPos c (.ofNodeTok j) with
      | .ok (.list [_, .int ln, .int col]) => .error (.production (msg ++ toString ln ++ ":" ++ toString col))
      | .ok _ => .error (.internal "TypeError")
      | .error e => .error e
    | .list items => (evalItems c items).map Val.list
    | .node kind attrs pos tokSlots tokmap tokmapOf => do
      let as ← evalAttrs c attrs
      let p ← evalPos c pos
      -- token map
      let tmv ← match tokmapOf with
        | some j => match c.slot? j with
          | some pv => pure ((getAttr pv.v "@tokmap").getD (.list []))
          | none => throw (.internal "IndexError")
        | none => do
          let mut tm : List (String × List Val) := []
          for j in tokSlots do
            match c.slot? j with
            | some pv => match pv.v with
              | .str s =>
                let q ← findPos c j j j j 0
                tm := tokmapAdd tm s q
              | _ => pure ()        -- not a string at run time: `setpos` skips it
            | none => throw (.internal "IndexError")
          for (src, pd) in tokmap do
            let q ← evalPos c pd
            let text ← match src with
              | .slotText j => match c.slot? j with
                | some pv => match pv.v with
                  | .str s => pure s
                  | _ => throw (.internal "token map text is not a string")
                | none => throw (.internal "IndexError")
              | .const s => pure s
              | .commas => match as.find? (·.1 == "value") with
                | some (_, .int n) => pure (commas n.toNat)
                | _ => throw (.internal "TypeError")
            tm := tokmapAdd tm text q
          pure (tokmapVal tm)
      -- comments: only when `setpos` ran on a LexToken slot
      let cm : Option Val := match c.withComments, setposIdx pos with
        | true, some idx => match c.slot? idx with
          | some pv => pv.tok.bind commentsOf
          | none => none
        | _, _ => none
      let extra := match cm with
        | some cv => [("@comments", cv)]
        | none => []
      pure (.node kind (as ++ extra ++ [("@pos", p), ("@tokmap", tmv)]))
  def evalAttrs (c : Ctx) : List (String × D) → Except Err (List (String × Val))
    | [] => .ok []
    | (n, d) :: rest => do
      let v ← evalD c d
      let vs ← evalAttrs c rest
      pure ((n, v) :: vs)
  def evalItems (c : Ctx) : List Item → Except Err (List Val)
    | [] => .ok []
    | .item d :: rest => do
      let v ← evalD c d
      let vs ← evalItems c rest
      pure (v :: vs)
    | .spread j :: rest => do
      let xs ← match c.slot? j with
        | some pv => match pv.v with
          | .list xs => pure xs
          | _ => throw (.internal "TypeError")
        | none => throw (.internal "IndexError")
      let vs ← evalItems c rest
      pure (xs ++ vs)
    | .spreadMod j lastInc firstTm :: rest => do
      let xs ← match c.slot? j with
        | some pv => match pv.v with
          | .list xs => pure xs
          | _ => throw (.internal "TypeError")
        | none => throw (.internal "IndexError")
      -- `p[1][-1].value += 1`
      let xs1 ← if lastInc then
          match xs.reverse with
          | .node k as :: before =>
            match as.find? (·.1 == "value") with
            | some (_, .int n) => pure ((Val.node k (setAttr as "value" (.int (n + 1))) :: before).reverse)
            | _ => throw (.internal "TypeError")
          | _ => throw (.internal "IndexError")
        else pure xs
      -- `p[0][0]._token_map = {',' * p[0][0].value: [findpos(p, 0)]}`
      let xs2 ← match firstTm with
        | some pd => do
          let q ← evalPos c pd
          match xs1 with
          | .node k as :: after =>
            match as.find? (·.1 == "value") with
            | some (_, .int n) =>
              pure (Val.node k (setAttr as "@tokmap" (tokmapVal [(commas n.toNat, [q])])) :: after)
            | _ => throw (.internal "TypeError")
          | _ => throw (.internal "IndexError")
        | none => pure xs1
      let vs ← evalItems c rest
      pure (xs2 ++ vs)
end

def condHolds (kinds : List Kind) (cond : Nat × List Kind) : Bool :=
  match kinds[cond.1 - 1]? with
  | some k => cond.1 != 0 && cond.2.contains k
  | none => false

def selectRow (e : Entry) (kinds : List Kind) : D :=
  match e.exceptions.find? (fun row => row.1.all (condHolds kinds)) with
  | some row => row.2
  | none => e.result

/-- the semantic action of production `p` on the values of its right-hand side -/
def reduce (table : List Entry) (withComments : Bool) (lookupCol : Nat → Nat → Option Int)
    (p : Nat) (args : List PVal) (lexerPos : Nat × Nat) : Except Err PVal :=
  match table[p]? with
  | none => .error (.internal "no such production")
  | some e =>
    let pos0 : Nat × Nat := match args with
      | a :: _ => (a.lexpos, a.lineno)
      | [] => lexerPos
    let c : Ctx := { slots := args, pos0 := pos0, lookupCol := lookupCol, withComments := withComments }
    let d := selectRow e (args.map (fun a => kindOf a.v))
    match evalD c d with
    | .ok v => .ok { v := v, lexpos := pos0.1, lineno := pos0.2, tok := none }
    | .error err => .error err

def leaf (t : Tok) : PVal := { v := .str t.value, lexpos := t.lexpos, lineno := t.lineno, tok := some t }

/-! canonical form: attributes sorted by name, as harness/treedump.py emits them -/

def insertSorted (p : String × Val) : List (String × Val) → List (String × Val)
  | [] => [p]
  | q :: rest => if p.1 < q.1 then p :: q :: rest else q :: insertSorted p rest

def sortTokmap : Val → Val
  | .list es =>
    let key : Val → String := fun e => match e with | .list (.str s :: _) => s | _ => ""
    .list (es.foldr (fun e acc =>
      let rec ins (e : Val) : List Val → List Val
        | [] => [e]
        | f :: r => if key e < key f then e :: f :: r else f :: ins e r
      ins e acc) [])
  | v => v

mutual
  def canon : Val → Val
    | .list xs => .list (canonList xs)
    | .node k as => .node k ((canonAttrs as).foldr insertSorted [])
    | v => v
  def canonList : List Val → List Val
    | [] => []
    | v :: vs => canon v :: canonList vs
  def canonAttrs : List (String × Val) → List (String × Val)
    | [] => []
    | (a, v) :: rest => (a, if a == "@tokmap" then sortTokmap v else canon v) :: canonAttrs rest
end

end CalmVerif.Model.Actions
