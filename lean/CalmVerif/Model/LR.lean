/-
Model of ply's LR driver (`ply.yacc.LRParser.parseopt`, ply 3.11) as calmjs.parse uses it:
tracking on, `errorfunc = Parser.p_error`, which either returns a replacement look-ahead and
calls `errok()` or raises — so ply's own error-recovery branch (the `error` token) is
unreachable and is not modelled; `p_error` returning *without* `errok` is modelled as the
outcome `recovery` (never produced by calmjs, see `Model.Parser`).

The driver is generic in
  τ  tokens              (`ty : τ → Nat` gives the terminal index)
  ν  semantic values     (`leaf`, `reduce`; calmjs's p_* functions, or parse trees)
  σ  token source state  (`next` = `lexer.token()`, `onError` = `p_error`)
  ε  errors
-/
namespace CalmVerif.Model.LR

/-- tables as emitted by the translator (see harness/gen/g_tables.py for the encoding) -/
structure Tables where
  numTerminals : Nat
  prods : List (Nat × List Nat)
  action : List (List Nat)
  goto : List (List Nat)
  defaulted : List Nat
  endTerm : Nat            -- index of "$end"

/-- look a key up in a flattened `[k, v, k, v, …]` row -/
def lookupFlat : List Nat → Nat → Option Nat
  | k :: v :: rest, key => if k = key then some v else lookupFlat rest key
  | _, _ => none

inductive Act where
  | shift (s : Nat)
  | reduce (p : Nat)
  | accept
  deriving Repr, DecidableEq

def decodeAct (c : Nat) : Act :=
  if c = 0 then .accept else if c % 3 = 1 then .shift (c / 3) else .reduce (c / 3)

def actionOf (T : Tables) (state term : Nat) : Option Act :=
  match T.action[state]? with
  | some row => (lookupFlat row term).map decodeAct
  | none => none

def gotoOf (T : Tables) (state nt : Nat) : Option Nat :=
  match T.goto[state]? with
  | some row => lookupFlat row nt
  | none => none

def defaultedOf (T : Tables) (state : Nat) : Option Nat := lookupFlat T.defaulted state

structure Sem (τ ν σ ε : Type) where
  ty : τ → Nat
  leaf : τ → ν
  /-- `reduce p args src`: semantic action of production `p`; it may read the token source's (lexer's) state:
      ply gives the lexer's current (lexpos, lineno) to an empty production when tracking, and `setpos` calls
      `lexer.lookup_colno` -/
  reduce : Nat → List ν → σ → Except ε ν

structure Source (τ σ ε : Type) where
  next : σ → Except ε (Option τ × σ)     -- `lexer.token()`; may raise the lexer's errors
  onError : σ → Option τ → Except ε (Option τ × σ)   -- `none` = returned without errok

inductive Outcome (ν ε : Type) where
  | accepted (v : ν)
  | error (e : ε)
  | internal (what : String)     -- KeyError / IndexError inside the driver: malformed tables
  | recovery                     -- p_error returned without errok (ply's recovery would start)
  | outOfFuel
  deriving Repr

structure Config (τ ν σ : Type) where
  states : List Nat            -- top of stack first; never empty
  vals : List ν                -- top first; one per grammar symbol on the stack
  look : Option (Option τ)     -- none = no look-ahead held; some none = `$end`
  src : σ
  shifted : List τ             -- log of shifted tokens, most recent first

variable {τ ν σ ε : Type}

def popN : Nat → List α → Option (List α × List α)
  | 0, l => some ([], l)
  | n + 1, x :: l => (popN n l).map (fun (a, b) => (x :: a, b))
  | _ + 1, [] => none

/-- terminal index of the held look-ahead (`$end` when the source is exhausted) -/
def lookTermOf (T : Tables) (S : Sem τ ν σ ε) (c : Config τ ν σ) : Nat :=
  match c.look with
  | some (some t) => S.ty t
  | _ => T.endTerm

/-- choose the action: defaulted states reduce without reading a token, otherwise the
    look-ahead is fetched from the source if none is held -/
def fetch (T : Tables) (S : Sem τ ν σ ε) (R : Source τ σ ε) (c : Config τ ν σ) (state : Nat) :
    Except ε (Option Act × Config τ ν σ) :=
  match defaultedOf T state with
  | some p => .ok (some (.reduce p), c)
  | none =>
    match c.look with
    | some _ => .ok (actionOf T state (lookTermOf T S c), c)
    | none =>
      match R.next c.src with
      | .error e => .error e
      | .ok (t, s') =>
        let c1 : Config τ ν σ := { c with look := some t, src := s' }
        .ok (actionOf T state (lookTermOf T S c1), c1)

def doShift (S : Sem τ ν σ ε) (c : Config τ ν σ) (s : Nat) : Sum (Config τ ν σ) (Outcome ν ε) :=
  match c.look with
  | some (some t) =>
    .inl { c with states := s :: c.states, vals := S.leaf t :: c.vals, look := none,
                  shifted := t :: c.shifted }
  | _ => .inr (.internal "shift of $end")

def doReduce (T : Tables) (S : Sem τ ν σ ε) (R : Source τ σ ε) (c : Config τ ν σ) (p : Nat) :
    Sum (Config τ ν σ) (Outcome ν ε) :=
  match T.prods[p]? with
  | none => .inr (.internal "bad production")
  | some (lhs, rhs) =>
    match popN rhs.length c.vals, popN rhs.length c.states with
    | some (args, restVals), some (_, restStates) =>
      match S.reduce p args.reverse c.src with
      | .error e => .inr (.error e)
      | .ok v =>
        match restStates with
        | [] => .inr (.internal "state stack underflow")
        | top :: _ =>
          match gotoOf T top lhs with
          | some g => .inl { c with states := g :: restStates, vals := v :: restVals }
          | none => .inr (.internal "missing goto")
    | _, _ => .inr (.internal "stack underflow")

/-- the token handed to `p_error` (None at end of input) -/
def lookTok (c : Config τ ν σ) : Option τ :=
  match c.look with
  | some (some t) => some t
  | _ => none

def doError (R : Source τ σ ε) (c : Config τ ν σ) : Sum (Config τ ν σ) (Outcome ν ε) :=
  -- syntax error: call p_error with the look-ahead
  match R.onError c.src (lookTok c) with
  | .error e => .inr (.error e)
  | .ok (none, _) => .inr .recovery
  | .ok (some t, s') => .inl { c with look := some (some t), src := s' }

/-- one iteration of ply's `while True` loop -/
def step (T : Tables) (S : Sem τ ν σ ε) (R : Source τ σ ε) (c : Config τ ν σ) :
    Sum (Config τ ν σ) (Outcome ν ε) :=
  match c.states with
  | [] => .inr (.internal "empty state stack")
  | state :: _ =>
    match fetch T S R c state with
    | .error e => .inr (.error e)
    | .ok (some (.shift s), c1) => doShift S c1 s
    | .ok (some (.reduce p), c1) => doReduce T S R c1 p
    | .ok (some .accept, c1) =>
      match c1.vals with
      | v :: _ => .inr (.accepted v)
      | [] => .inr (.internal "accept on empty stack")
    | .ok (none, c1) => doError R c1

def run (T : Tables) (S : Sem τ ν σ ε) (R : Source τ σ ε) : Nat → Config τ ν σ → Outcome ν ε × Config τ ν σ
  | 0, c => (.outOfFuel, c)
  | fuel + 1, c =>
    match step T S R c with
    | .inl c' => run T S R fuel c'
    | .inr o => (o, c)

def initConfig (s : σ) : Config τ ν σ :=
  { states := [0], vals := [], look := none, src := s, shifted := [] }

/-! ### Parse trees (the free semantic values) -/

inductive Tree (τ : Type) where
  | leaf (t : τ)
  | node (prod : Nat) (children : List (Tree τ))

def treeSem (ty : τ → Nat) : Sem τ (Tree τ) σ ε :=
  { ty := ty, leaf := .leaf, reduce := fun p args _ => .ok (.node p args) }

/-- a plain list of tokens as token source; any syntax error is final -/
def listSource (ε : Type) (err : Option τ → ε) : Source τ (List τ) ε :=
  { next := fun l => match l with | [] => .ok (none, []) | t :: r => .ok (some t, r),
    onError := fun _ t => .error (err t) }

end CalmVerif.Model.LR
