/-
Model of the literal part of calmjs.parse.unparsers.extractor (`ast_to_dict`) over generic trees
(`Val`, the wire format of harness/treedump.py `dump(node)`), driven by the reflected rule objects
`Gen.Extractor.defsOff / defsOn`.

What is modelled (Python → Lean):

* `walker.walk/_walk` with `walker.Dispatcher` and `token_handler_extractor`: a generator is the list
  of everything it yields, or the exception it raises (`Except Err (List Chunk)`).  Every generator of
  the modelled rules is consumed completely, except `next(walk(...))` in `GroupAsUnaryExpr`, which takes
  the first chunk only; in the modelled kinds a walked expression node yields exactly one chunk as its
  last action, so "first chunk of the complete list" is the same thing.
  `_walk` keeps a stack `nodes`; a non-Node value is attributed to `nodes[-1]`.  In every modelled rule
  that walks a non-Node value (`Attr`, `LiteralEval`, `Text`, `AttrListAssignment` with a `None`
  initializer) that value is walked inside the frame of the rule's own node before any child that could
  leave the stack unbalanced (the abandoned generator of `GroupAsUnaryExpr` never pops its node), so
  `nodes[-1]` is the rule's node; the model passes that node's kind instead of a stack.
* `extractor(fold_ops).definitions` comes from Gen; the Unparser has no layout / deferrable handlers
  (`Gen.Extractor.layoutHandlers = deferrableHandlers = []`, checked here: otherwise `unmodelled`), so
  Structure markers vanish in `optimize_definition` and `Resolve/Literal/Declare` return the attribute.
* Python values: `PyVal`.  `str` is a list of code points (Python strings can hold lone surrogates),
  `float` is an exact binary64 value (`F64`: sign, odd mantissa, binary exponent, or ±inf), never a Lean
  `Float`.  `dict` / `AssignmentList` are association lists in insertion order; `dictSet` is
  `d[k] = v` with Python's key equality (`1 == 1.0 == True`, `0 == -0.0`), unhashable keys raise.
* `ast.literal_eval` on the text of String and Number nodes (`pyLiteralEval`): Python string-literal
  escape semantics applied to the JavaScript spelling, Python number-literal syntax; the correctly
  rounded decimal → binary64 conversion is `toDouble` (round-half-even, subnormals, overflow to inf).
* `json.loads`' mapping from JSON values to Python values (`ofJson`; used as the right-hand side of C19).

Everything outside this subset has the explicit outcome `Err.unmodelled`.

Assumptions (also in the evidence): text is a sequence of Unicode scalar values; integer literals stay
below CPython's int-string conversion limit (4300 digits); warnings (SyntaxWarning for `\/`) are not errors.

No Mathlib, no proofs here.
-/
import CalmVerif.Util.Val
import CalmVerif.Gen.Extractor
import CalmVerif.Spec.Json
namespace CalmVerif.Model.Extract
open CalmVerif CalmVerif.Gen.Extractor

/-! ## Python values -/

/-- a binary64 value, exactly: `fin neg m e` is (-1)^neg · m · 2^e with m odd, or m = 0 ∧ e = 0 -/
inductive F64 where
  | fin (neg : Bool) (m : Nat) (e : Int)
  | inf (neg : Bool)
  deriving DecidableEq, Repr

inductive PyVal where
  | none
  | bool (b : Bool)
  | int (i : Int)
  | float (f : F64)
  | str (s : List Nat)
  /-- a class object of asttypes (keys of the "misc" entries) -/
  | cls (name : String)
  | list (xs : List PyVal)
  | dict (kvs : List (PyVal × PyVal))
  /-- `AssignmentList` of `Assignment(key, value)` -/
  | asgList (kvs : List (PyVal × PyVal))
  deriving Repr

inductive Err where
  | unmodelled (what : String)
  | syntaxError | valueError | typeError | attributeError | indexError | runtimeError
  /-- model artefact: recursion fuel exhausted (never with the fuel `extract` supplies) -/
  | fuel
  deriving DecidableEq, Repr

/-- `ExtractedFragment(value, node, folded_type)`; classes are identified by name -/
structure Frag where
  value : PyVal
  kind : String
  folded : String
  deriving Repr

inductive Chunk where
  | frag (f : Frag)
  /-- a naked `Assignment` (yielded by TopLevelAttrs only) -/
  | asg (k v : PyVal)
  deriving Repr

abbrev Res := Except Err (List Chunk)

def cps (s : String) : List Nat := s.toList.map Char.toNat

/-- `dispatcher.token(None, node, value, None)` for a plain value -/
def tok (kind : String) (v : PyVal) : Chunk := .frag { value := v, kind := kind, folded := kind }

/-! ## numbers -/

def F64.negate : F64 → F64
  | .fin n m e => .fin (!n) m e
  | .inf n => .inf (!n)

def stripTwos : Nat → Nat → Int → Nat × Int
  | 0, q, k => (q, k)
  | fuel + 1, q, k => if q % 2 == 0 && q != 0 then stripTwos fuel (q / 2) (k + 1) else (q, k)

/-- N/D (N, D > 0) rounded to the nearest binary64 magnitude, ties to even; `none` = overflow -/
def roundRatio (N D : Nat) : Option (Nat × Int) :=
  let k0 : Int := (N.log2 : Int) - (D.log2 : Int) - 52
  let q0 : Nat := if k0 ≥ 0 then N / (D * 2 ^ k0.toNat) else (N * 2 ^ (-k0).toNat) / D
  let k1 : Int := if q0 ≥ 2 ^ 53 then k0 + 1 else if q0 < 2 ^ 52 then k0 - 1 else k0
  let k : Int := if k1 < -1074 then -1074 else k1
  let num : Nat := if k ≥ 0 then N else N * 2 ^ (-k).toNat
  let den : Nat := if k ≥ 0 then D * 2 ^ k.toNat else D
  let q := num / den
  let r := num % den
  let q' := if 2 * r > den || (2 * r == den && q % 2 == 1) then q + 1 else q
  if q' == 0 then some (0, 0)
  else if k > 971 || (k == 971 && q' ≥ 2 ^ 53) then none
  else some (stripTwos 64 q' k)

/-- Python's `float` of the decimal (-1)^neg · m · 10^e (correct rounding is CPython's documented
behaviour; tied to the implementation by the correspondence check only) -/
def toDouble (neg : Bool) (m : Nat) (e : Int) : F64 :=
  if m == 0 then .fin neg 0 0
  else if e > 400 then .inf neg
  else if e + ((m.log2 + 1) / 3 + 1 : Nat) < -330 then .fin neg 0 0
  else
    let r := if e ≥ 0 then roundRatio (m * 10 ^ e.toNat) 1 else roundRatio m (10 ^ (-e).toNat)
    match r with
    | some (q, k) => .fin neg q k
    | none => .inf neg

/-- exact comparison of int / bool / float values (Python `==` across numeric types) -/
def numRepr : PyVal → Option (Option (Bool × Nat × Int))
  | .bool b => some (some (false, if b then 1 else 0, 0))
  | .int i => some (some (decide (i < 0), i.natAbs, 0))
  | .float (.fin n m e) => some (some (n, m, e))
  | .float (.inf n) => some (some (n, 0, 5000))     -- distinct from every finite value
  | _ => Option.none

def magEq (m1 : Nat) (e1 : Int) (m2 : Nat) (e2 : Int) : Bool :=
  if e1 ≥ e2 then m1 * 2 ^ (e1 - e2).toNat == m2 else m1 == m2 * 2 ^ (e2 - e1).toNat

/-- `hash(a) == hash(b) and a == b` for hashable values; `none` if either is unhashable -/
def keyEq (a b : PyVal) : Option Bool :=
  match a, b with
  | .list _, _ | .dict _, _ | .asgList _, _ | _, .list _ | _, .dict _ | _, .asgList _ => Option.none
  | .none, .none => some true
  | .str s, .str t => some (s == t)
  | .cls s, .cls t => some (s == t)
  | a, b =>
    match numRepr a, numRepr b with
    | some (some (n1, m1, e1)), some (some (n2, m2, e2)) =>
      if e1 == 5000 || e2 == 5000 then some (e1 == e2 && n1 == n2)
      else if m1 == 0 && m2 == 0 then some true
      else some (n1 == n2 && magEq m1 e1 m2 e2)
    | _, _ => some false

def hashable : PyVal → Bool
  | .list _ | .dict _ | .asgList _ => false
  | _ => true

/-- `d[k] = v`: an equal key keeps its position and its original key object -/
def dictSet : List (PyVal × PyVal) → PyVal → PyVal → Except Err (List (PyVal × PyVal))
  | [], k, v => if hashable k then .ok [(k, v)] else .error .typeError
  | (k', v') :: rest, k, v =>
    match keyEq k' k with
    | Option.none => .error .typeError
    | some true => .ok ((k', v) :: rest)
    | some false =>
      match dictSet rest k v with
      | .ok r => .ok ((k', v') :: r)
      | .error e => .error e

/-- `d.update(pairs)` -/
def dictUpdate : List (PyVal × PyVal) → List (PyVal × PyVal) → Except Err (List (PyVal × PyVal))
  | d, [] => .ok d
  | d, (k, v) :: rest =>
    match dictSet d k v with
    | .ok d' => dictUpdate d' rest
    | .error e => .error e

/-! ## ast.literal_eval on String / Number node texts -/

def isOct (c : Char) : Bool := '0' ≤ c && c ≤ '7'
def octVal (c : Char) : Nat := c.toNat - 48

def pyHexVal (c : Char) : Option Nat :=
  if '0' ≤ c ∧ c ≤ '9' then some (c.toNat - 48)
  else if 'a' ≤ c ∧ c ≤ 'f' then some (c.toNat - 87)
  else if 'A' ≤ c ∧ c ≤ 'F' then some (c.toNat - 55)
  else Option.none

/-- single-character escapes of Python (non-raw, non-bytes) string literals -/
def pySimple (c : Char) : Option Nat :=
  if c == '\\' then some 92 else if c == '\'' then some 39 else if c == '"' then some 34
  else if c == 'a' then some 7 else if c == 'b' then some 8 else if c == 'f' then some 12
  else if c == 'n' then some 10 else if c == 'r' then some 13 else if c == 't' then some 9
  else if c == 'v' then some 11 else Option.none

def consR (c : Nat) : Except Err (List Nat) → Except Err (List Nat)
  | .ok l => .ok (c :: l)
  | .error e => .error e

def cons2R (a b : Nat) : Except Err (List Nat) → Except Err (List Nat)
  | .ok l => .ok (a :: b :: l)
  | .error e => .error e

/-- the characters after the opening quote `q` of a single-quoted Python string literal that is the
whole source text: value of the literal -/
def pyScan (q : Char) : List Char → Except Err (List Nat)
  | [] => .error .syntaxError                       -- unterminated string literal
  | c :: rest =>
    if c == q then (if rest.isEmpty then .ok [] else .error (.unmodelled "text after the closing quote"))
    else if c == '\\' then
      match rest with
      | [] => .error .syntaxError
      | e :: rest1 =>
        if e == 'x' then
          match rest1 with
          | a :: b :: rest2 =>
            match pyHexVal a, pyHexVal b with
            | some x, some y => consR (x * 16 + y) (pyScan q rest2)
            | _, _ => .error .syntaxError             -- truncated \xXX escape
          | _ => .error .syntaxError
        else if e == 'u' then
          match rest1 with
          | a :: b :: c2 :: d :: rest2 =>
            match pyHexVal a, pyHexVal b, pyHexVal c2, pyHexVal d with
            | some x, some y, some z, some w => consR (((x * 16 + y) * 16 + z) * 16 + w) (pyScan q rest2)
            | _, _, _, _ => .error .syntaxError       -- truncated \uXXXX escape
          | _ => .error .syntaxError
        else if e == 'U' then .error (.unmodelled "\\U escape")
        else if e == 'N' then
          match rest1 with
          | b :: _ => if b == '{' then .error (.unmodelled "\\N{name} escape") else .error .syntaxError
          | [] => .error .syntaxError
        else if isOct e then
          match rest1 with
          | o2 :: rest2 =>
            if isOct o2 then
              match rest2 with
              | o3 :: rest3 =>
                if isOct o3 then consR ((octVal e * 8 + octVal o2) * 8 + octVal o3) (pyScan q rest3)
                else consR (octVal e * 8 + octVal o2) (pyScan q (o3 :: rest3))
              | [] => .error .syntaxError
            else consR (octVal e) (pyScan q (o2 :: rest2))
          | [] => .error .syntaxError
        else if e == '\n' then pyScan q rest1            -- backslash-newline is removed
        else if e == '\r' then                          -- source newlines are normalised first
          match rest1 with
          | n :: rest2 => if n == '\n' then pyScan q rest2 else pyScan q (n :: rest2)
          | [] => .error .syntaxError
        else
          match pySimple e with
          | some v => consR v (pyScan q rest1)
          | Option.none => cons2R 92 e.toNat (pyScan q rest1)   -- unknown escape: backslash is kept
    else if c == '\n' || c == '\r' then .error .syntaxError     -- unterminated string literal
    else if c.toNat == 0 then .error .syntaxError               -- source code cannot contain null bytes
    else consR c.toNat (pyScan q rest)

def pyIsDigit (c : Char) : Bool := '0' ≤ c && c ≤ '9'
def pyDigitsVal (ds : List Char) : Nat := ds.foldl (fun acc c => acc * 10 + (c.toNat - 48)) 0
def pyAllDigits (ds : List Char) : Bool := !ds.isEmpty && ds.all pyIsDigit

def pyHexDigitsVal : List Char → Nat → Option Nat
  | [], acc => some acc
  | c :: rest, acc =>
    match pyHexVal c with
    | some d => pyHexDigitsVal rest (acc * 16 + d)
    | Option.none => Option.none

/-- Python `exponent` after the `e`/`E`, up to the end of the text -/
def pyExp : List Char → Option Int
  | [] => Option.none
  | c :: ds =>
    if c == '+' then (if pyAllDigits ds then some (pyDigitsVal ds : Int) else Option.none)
    else if c == '-' then (if pyAllDigits ds then some (-(pyDigitsVal ds : Int)) else Option.none)
    else if pyAllDigits (c :: ds) then some (pyDigitsVal (c :: ds) : Int) else Option.none

def pyIsE (c : Char) : Bool := c == 'e' || c == 'E'

/-- Python `decinteger`: a leading zero is only allowed when all digits are zero -/
def pyDecInt (ds : List Char) : Except Err PyVal :=
  match ds with
  | [] => .error (.unmodelled "empty number")
  | c :: _ =>
    if c == '0' && ds.any (fun d => d != '0') then .error .syntaxError
    else .ok (.int (pyDigitsVal ds : Int))

/-- decimal integer / `pointfloat` / `exponentfloat` -/
def pyDecimal (t : List Char) : Except Err PyVal :=
  match t.span pyIsDigit with
  | (ds, r1) =>
    match r1 with
    | [] => pyDecInt ds
    | c :: r2 =>
      if c == '.' then
        match r2.span pyIsDigit with
        | (fs, r3) =>
          if ds.isEmpty && fs.isEmpty then .error (.unmodelled "number text")
          else
            match r3 with
            | [] => .ok (.float (toDouble false (pyDigitsVal (ds ++ fs)) (-(fs.length : Int))))
            | e :: r4 =>
              if pyIsE e then
                match pyExp r4 with
                | some x => .ok (.float (toDouble false (pyDigitsVal (ds ++ fs)) (x - (fs.length : Int))))
                | Option.none => .error (.unmodelled "number text")
              else .error (.unmodelled "number text")
      else if pyIsE c && !ds.isEmpty then
        match pyExp r2 with
        | some x => .ok (.float (toDouble false (pyDigitsVal ds) x))
        | Option.none => .error (.unmodelled "number text")
      else .error (.unmodelled "number text")

def pyNumber (t : List Char) : Except Err PyVal :=
  match t with
  | z :: x :: rest =>
    if z == '0' && (x == 'x' || x == 'X') then
      if rest.isEmpty then .error .syntaxError
      else match pyHexDigitsVal rest 0 with
        | some n => .ok (.int (n : Int))
        | Option.none => .error (.unmodelled "number text")
    else pyDecimal t
  | _ => pyDecimal t

/-- `ast.literal_eval(text)` for the texts String / Number nodes carry -/
def pyLiteralEval (t : List Char) : Except Err PyVal :=
  match t with
  | [] => .error .syntaxError
  | c :: rest =>
    if c == '"' || c == '\'' then
      match rest with
      | a :: b :: _ =>
        if a == c && b == c then .error (.unmodelled "triple-quoted string")
        else match pyScan c rest with
          | .ok s => .ok (.str s)
          | .error e => .error e
      | _ => match pyScan c rest with
          | .ok s => .ok (.str s)
          | .error e => .error e
    else if pyIsDigit c || c == '.' then pyNumber t
    else .error (.unmodelled "literal_eval of other text")

/-! ## the walker -/

def getattr : List (String × Val) → String → Except Err Val
  | [], _ => .error .attributeError
  | (b, x) :: rest, a => if b == a then .ok x else getattr rest a

def lookupDef : List (String × List Rule) → String → Option (List Rule)
  | [], _ => Option.none
  | (k, rs) :: rest, kind => if k == kind then some rs else lookupDef rest kind

def defsOf (fold : Bool) : List (String × List Rule) := if fold then defsOn else defsOff

def lookupSubs : List (String × List String) → String → List String
  | [], _ => []
  | (b, ns) :: rest, base => if b == base then ns else lookupSubs rest base

/-- `isinstance(node, Base)` / `issubclass(type, Base)` by class name -/
def isSub (kind base : String) : Bool := (lookupSubs subclasses base).contains kind

/-- `ruletypes.is_empty` -/
def isEmpty : Val → Bool
  | .none => emptyValues.contains "none"
  | .list [] => emptyValues.contains "emptyList"
  | _ => false

def notNone : Val → Bool
  | .none => false
  | _ => true

/-- the value an Attr-like rule reads -/
def getSrc (kind : String) (attrs : List (String × Val)) : Src → Except Err Val
  | .name a => getattr attrs a
  | .iter =>                                   -- iter(node): children() without None
    match getattr attrs "children" with
    | .ok (.list xs) => .ok (.list (xs.filter notNone))
    | _ => .error (.unmodelled "Iter() on a node without a children list")
  | .literal =>
    if deferrableHandlers.contains "Literal" then .error (.unmodelled "Literal handler") else getattr attrs "value"
  | .resolve =>
    if !isSub kind "Identifier" then .error .typeError
    else if deferrableHandlers.contains "Resolve" then .error (.unmodelled "Resolve handler")
    else getattr attrs "value"
  | .declare a =>
    if deferrableHandlers.contains "Declare" then .error (.unmodelled "Declare handler") else getattr attrs a

def kindOf : Val → String
  | .node k _ => k
  | _ => ""

/-- `walk(dispatcher, value, token=…)` from inside the frame of a node of class `kind` -/
def walkVal (walk : Val → Res) (kind : String) : Val → Res
  | .node k as => walk (.node k as)
  | .none => .ok [tok kind .none]
  | .bool b => .ok [tok kind (.bool b)]
  | .int n => .ok [tok kind (.int n)]
  | .str s => .ok [tok kind (.str (cps s))]
  | .list _ => .error (.unmodelled "walk of a list value")

def walkVals (walk : Val → Res) (kind : String) : List Val → Res
  | [] => .ok []
  | v :: vs =>
    match walkVal walk kind v with
    | .error e => .error e
    | .ok a =>
      match walkVals walk kind vs with
      | .error e => .error e
      | .ok b => .ok (a ++ b)

/-- `chunk.value` (a naked Assignment has a `.value` property too: not modelled) -/
def chunkValues : List Chunk → Except Err (List PyVal)
  | [] => .ok []
  | .frag f :: rest =>
    match chunkValues rest with
    | .ok vs => .ok (f.value :: vs)
    | .error e => .error e
  | .asg _ _ :: _ => .error (.unmodelled "naked Assignment used as an item")

def lastOf : List (PyVal × PyVal) → Option (PyVal × PyVal)
  | [] => Option.none
  | [x] => some x
  | _ :: rest => lastOf rest

def miscAdd : List (String × List PyVal) → String → PyVal → List (String × List PyVal)
  | [], k, v => [(k, [v])]
  | (k', vs) :: rest, k, v => if k' == k then (k', vs ++ [v]) :: rest else (k', vs) :: miscAdd rest k v

def miscPairs (m : List (String × List PyVal)) : List (PyVal × PyVal) :=
  m.map (fun p => (.cls p.1, .list p.2))

/-- the loop of GroupAsMap.__call__ -/
def mapLoop : List Chunk → List (PyVal × PyVal) → List (String × List PyVal) →
    Except Err (List (PyVal × PyVal) × List (String × List PyVal))
  | [], d, m => .ok (d, m)
  | .frag f :: rest, d, m =>
    match f.value with
    | .asgList kvs =>
      match dictUpdate d kvs with
      | .ok d' => mapLoop rest d' m
      | .error e => .error e
    | v => mapLoop rest d (miscAdd m f.kind v)
  | .asg _ _ :: _, _, _ => .error (.unmodelled "naked Assignment used as an item")

/-- the loop of TopLevelAttrs.__call__ over the chunks of all children -/
def topLoop : List Chunk → List Chunk → List (String × List PyVal) → Except Err (List Chunk)
  | [], out, m => .ok (out ++ (miscPairs m).map (fun p => Chunk.asg p.1 p.2))
  | .frag f :: rest, out, m =>
    match f.value with
    | .asgList kvs => topLoop rest (out ++ kvs.map (fun p => Chunk.asg p.1 p.2)) m
    | v => topLoop rest out (miscAdd m f.kind v)
  | .asg _ _ :: _, _, _ => .error .typeError      -- dispatcher.error_handler(TypeError(...)) raises

def isNaN : PyVal → Bool
  | .str s => s == cps "NaN"
  | _ => false

/-- `to_number(fragment)` -/
def toNumber (f : Frag) : Except Err PyVal :=
  if isSub f.folded "Array" then .error (.unmodelled "to_number of an Array")
  else if isSub f.folded "Boolean" then
    match f.value with
    | .bool b => .ok (.int (if b then 1 else 0))
    | _ => .error (.unmodelled "to_number of a non-bool Boolean")
  else if isSub f.folded "Number" then .ok f.value
  else if isSub f.folded "Null" then .ok (.int 0)
  else if isSub f.folded "String" then .error (.unmodelled "to_number of a String")
  else if isSub f.folded "Object" then .error (.unmodelled "to_number of an Object")
  else .ok (.str (cps "NaN"))

/-- Python unary minus -/
def pyNeg : PyVal → Except Err PyVal
  | .int i => .ok (.int (-i))
  | .float f => .ok (.float f.negate)
  | .bool b => .ok (.int (if b then -1 else 0))
  | _ => .error .typeError

def hasCase : List Rule → String → Bool
  | [], _ => false
  | .case k _ :: rest, op => k == op || hasCase rest op
  | _ :: rest, op => hasCase rest op

/-- GroupAsUnaryExpr.__call__ with `op` = identity (plus) or negation (minus) -/
def runUnary (walk : Val → Res) (kind : String) (attrs : List (String × Val)) (minus : Bool) : Res :=
  if !isSub kind "UnaryExpr" then .error .typeError
  else
    match getattr attrs "value" with
    | .error e => .error e
    | .ok v =>
      match walkVal walk kind v with
      | .error e => .error e
      | .ok [] => .error .runtimeError           -- StopIteration inside a generator
      | .ok (.asg _ _ :: _) => .error (.unmodelled "naked Assignment as operand")
      | .ok (.frag f :: _) =>
        match toNumber f with
        | .error e => .error e
        | .ok n =>
          if isNaN n then .ok [.frag { value := .str (cps "NaN"), kind := kind, folded := "Number" }]
          else if minus then
            match pyNeg n with
            | .ok r => .ok [.frag { value := r, kind := kind, folded := "Number" }]
            | .error e => .error e
          else .ok [.frag { value := n, kind := kind, folded := "Number" }]

mutual
  /-- `rule(walk, dispatcher, node)` for `node = .node kind attrs`; `walk` walks a child NODE -/
  def runRule (walk : Val → Res) (kind : String) (attrs : List (String × Val)) : Rule → Res
    | .attr s =>
      match s with
      | .iter => .error (.unmodelled "Attr(Iter())")
      | s =>
        match getSrc kind attrs s with
        | .error e => .error e
        | .ok v => if isEmpty v then .ok [] else walkVal walk kind v
    | .joinAttr s sep =>
      match getSrc kind attrs s with
      | .error e => .error e
      | .ok (.list xs) =>
        match sep with
        | [] => walkVals walk kind xs           -- walk(node, definition=()) yields nothing
        | _ => .error (.unmodelled "JoinAttr with a separator definition")
      | .ok .none => .error .typeError          -- iter(None)
      | .ok _ => .error (.unmodelled "JoinAttr over a non-list")
    | .text v => .ok [tok kind (.str (cps v))]
    | .optional a body =>
      match getattr attrs a with
      | .error e => .error e
      | .ok v => if isEmpty v then .ok [] else runRules walk kind attrs body
    | .operatorAttr _ => .error (.unmodelled "Operator")
    | .structure c =>
      if layoutHandlers.contains c then .error (.unmodelled "Structure handler") else .ok []
    | .topLevelAttrs =>
      match getSrc kind attrs .iter with
      | .error e => .error e
      | .ok (.list xs) =>
        match walkVals walk kind xs with
        | .error e => .error e
        | .ok cs => topLoop cs [] []
      | .ok _ => .error (.unmodelled "TopLevelAttrs")
    | .attrListAssignment l r =>
      match getattr attrs l, getattr attrs r with
      | .ok lhs, .ok rhs =>
        match walkVal walk kind lhs, walkVal walk kind rhs with
        | .ok c1, .ok c2 =>
          match chunkValues (c1 ++ c2) with
          | .error e => .error e
          | .ok vs =>
            if isSub (kindOf rhs) "Assign" then
              match vs with
              | k :: (.asgList kvs) :: _ =>
                match lastOf kvs with
                | some p => .ok [tok kind (.asgList ((k, p.2) :: kvs))]
                | Option.none => .error .indexError
              | _ => .error (.unmodelled "AttrListAssignment with an Assign on the right")
            else
              match vs with
              | [k, v] => .ok [tok kind (.asgList [(k, v)])]
              | _ => .error .typeError               -- Assignment(*chunks) with ≠ 2 chunks
        | .error e, _ => .error e
        | _, .error e => .error e
      | .error e, _ => .error e
      | _, .error e => .error e
    | .groupAsMap rs =>
      match runRules walk kind attrs rs with
      | .error e => .error e
      | .ok items =>
        match mapLoop items [] [] with
        | .error e => .error e
        | .ok (d, m) =>
          match dictUpdate d (miscPairs m) with
          | .ok d' => .ok [tok kind (.dict d')]
          | .error e => .error e
    | .groupAsList rs =>
      match runRules walk kind attrs rs with
      | .error e => .error e
      | .ok items =>
        match chunkValues items with
        | .ok vs => .ok [tok kind (.list vs)]
        | .error e => .error e
    | .groupAsAssignment rs =>
      match runRules walk kind attrs rs with
      | .error e => .error e
      | .ok items =>
        match chunkValues items with
        | .ok [k, v] => .ok [tok kind (.asgList [(k, v)])]
        | .ok _ => .error .valueError                -- AssignmentList.normalize
        | .error e => .error e
    | .groupAsStr _ _ => .error (.unmodelled "GroupAsStr")
    | .literalEval s =>
      match getSrc kind attrs s with
      | .error e => .error e
      | .ok (.str t) =>
        match pyLiteralEval t.toList with
        | .ok v => .ok [tok kind v]
        | .error e => .error e
      | .ok .none => .error .valueError              -- literal_eval(None): malformed node or string
      | .ok _ => .error (.unmodelled "LiteralEval of a non-string")
    | .rawBoolean a =>
      match getattr attrs a with
      | .error e => .error e
      | .ok (.str s) =>
        if s == "true" then .ok [tok kind (.bool true)]
        else if s == "false" then .ok [tok kind (.bool false)]
        else .error .valueError
      | .ok _ => .error .valueError
    | .rawNone => .ok [tok kind .none]
    | .opString _ => .error (.unmodelled "OpString")
    | .unaryOptionalSpace => .error (.unmodelled "UnaryOptionalSpace")
    | .attrSink s =>
      match s with
      | .iter => .error (.unmodelled "AttrSink(Iter())")
      | s =>
        match getSrc kind attrs s with
        | .error e => .error e
        | .ok v =>
          if isEmpty v then .ok []
          else match walkVal walk kind v with
            | .ok _ => .ok []
            | .error e => .error e
    | .opDisambiguate cases =>
      match getattr attrs "op" with
      | .ok (.str op) => runCases walk kind attrs cases op (!hasCase cases op)
      | .ok _ => .error (.unmodelled "op is not a string")
      | .error e => .error e
    | .case _ _ => .error (.unmodelled "case outside OpDisambiguate")
    | .caseDefault _ => .error (.unmodelled "case outside OpDisambiguate")
    | .unaryPlus => runUnary walk kind attrs false
    | .unaryMinus => runUnary walk kind attrs true
    | .unaryBitNot => .error (.unmodelled "GroupAsUnaryExprBitwiseNot")
    | .unaryLogNot => .error (.unmodelled "GroupAsUnaryExprLogicalNot")
  def runRules (walk : Val → Res) (kind : String) (attrs : List (String × Val)) : List Rule → Res
    | [] => .ok []
    | r :: rs =>
      match runRule walk kind attrs r with
      | .error e => .error e
      | .ok a =>
        match runRules walk kind attrs rs with
        | .error e => .error e
        | .ok b => .ok (a ++ b)
  /-- `self.value.get(node.op, self.value.get(NotImplemented, ()))` and running that definition -/
  def runCases (walk : Val → Res) (kind : String) (attrs : List (String × Val)) :
      List Rule → String → Bool → Res
    | [], _, _ => .ok []
    | .case k body :: rest, op, useDefault =>
      if !useDefault && k == op then runRules walk kind attrs body else runCases walk kind attrs rest op useDefault
    | .caseDefault body :: rest, op, useDefault =>
      if useDefault then runRules walk kind attrs body else runCases walk kind attrs rest op useDefault
    | _ :: rest, op, useDefault => runCases walk kind attrs rest op useDefault
end
/-- `_walk(dispatcher, node)` with the definition looked up by class name; fuel = node nesting depth -/
def walkNode (fold : Bool) : Nat → Val → Res
  | 0, _ => .error .fuel
  | n + 1, .node kind attrs =>
    match lookupDef (defsOf fold) kind with
    | some rs => runRules (walkNode fold n) kind attrs rs
    | Option.none => .error (.unmodelled ("node kind " ++ kind))
  | _ + 1, _ => .error .indexError            -- walk of a non-Node at top level: nodes[-1] on an empty list

mutual
  def depth : Val → Nat
    | .list xs => depthList xs
    | .node _ as => depthAttrs as + 1
    | _ => 0
  def depthList : List Val → Nat
    | [] => 0
    | v :: vs => max (depth v) (depthList vs)
  def depthAttrs : List (String × Val) → Nat
    | [] => 0
    | (_, v) :: rest => max (depth v) (depthAttrs rest)
end

/-- `dict(chunks)` -/
def dictOfChunks : List Chunk → List (PyVal × PyVal) → Except Err (List (PyVal × PyVal))
  | [], d => .ok d
  | .asg k v :: rest, d =>
    match dictSet d k v with
    | .ok d' => dictOfChunks rest d'
    | .error e => .error e
  | .frag _ :: _, _ => .error .valueError      -- dictionary update sequence element has length 3

/-- `ast_to_dict(tree, fold_ops=fold)` as an insertion-ordered association list -/
def extract (fold : Bool) (t : Val) : Except Err (List (PyVal × PyVal)) :=
  match walkNode fold (depth t + 1) t with
  | .error e => .error e
  | .ok cs => dictOfChunks cs []

/-! ## what `json.loads` returns for a JSON value -/

open CalmVerif.Spec.Json in
/-- int for an integer spelling (so `-0` is `0`), else the correctly rounded float -/
def pyOfNum (n : Num) : PyVal :=
  if n.isInt then .int (if n.neg then -(n.mant : Int) else (n.mant : Int))
  else .float (toDouble n.neg n.mant n.exp)

open CalmVerif.Spec.Json in
mutual
  def ofJson : Value → PyVal
    | .null => .none
    | .bool b => .bool b
    | .num n => pyOfNum n
    | .str s => .str s
    | .arr xs => .list (ofJsonList xs)
    | .obj kvs => .dict (ofJsonMembers kvs)
  def ofJsonList : List Value → List PyVal
    | [] => []
    | x :: xs => ofJson x :: ofJsonList xs
  def ofJsonMembers : List (List CodePoint × Value) → List (PyVal × PyVal)
    | [] => []
    | (k, v) :: rest => (.str k, ofJson v) :: ofJsonMembers rest
end

/-! ## how the ES5 parser represents a JSON text (checked against the real parser by the harness) -/

open CalmVerif.Spec.Json in
def strNode (body : List Char) : Val :=
  .node "String" [("value", .str (String.ofList ('"' :: body ++ ['"'])))]

open CalmVerif.Spec.Json in
def numNode (t : List Char) : Val :=
  match t with
  | c :: r =>
    if c == '-' then .node "UnaryExpr" [("op", .str "-"), ("value", .node "Number" [("value", .str (String.ofList r))])]
    else .node "Number" [("value", .str (String.ofList t))]
  | [] => .node "Number" [("value", .str "")]

open CalmVerif.Spec.Json in
mutual
  def treeOf : Syn → Val
    | .null => .node "Null" [("value", .str "null")]
    | .bool b => .node "Boolean" [("value", .str (if b then "true" else "false"))]
    | .num t => numNode t
    | .str b => strNode b
    | .arr xs => .node "Array" [("items", .list (treeOfList xs))]
    | .obj kvs => .node "Object" [("properties", .list (treeOfMembers kvs))]
  def treeOfList : List Syn → List Val
    | [] => []
    | x :: xs => treeOf x :: treeOfList xs
  def treeOfMembers : List (List Char × Syn) → List Val
    | [] => []
    | (k, x) :: rest =>
      .node "Assign" [("left", strNode k), ("op", .str ":"), ("right", treeOf x)] :: treeOfMembers rest
end

def ident (name : String) : Val := .node "Identifier" [("value", .str name)]

/-- `var name = T;` -/
def varStmt (name : String) (t : Val) : Val :=
  .node "VarStatement" [("children", .list [.node "VarDecl" [("identifier", ident name), ("initializer", t)]])]

/-- `name = T;` -/
def assignStmt (name : String) (t : Val) : Val :=
  .node "ExprStatement" [("expr", .node "Assign" [("left", ident name), ("op", .str "="), ("right", t)])]

def program (stmts : List Val) : Val := .node "ES5Program" [("children", .list stmts)]

/-- `function f() { stmt }` -/
def funcDecl (f : String) (stmts : List Val) : Val :=
  .node "FuncDecl" [("elements", .list stmts), ("identifier", ident f), ("parameters", .list [])]

/-! ## exclusion predicates of the known findings (shared by Props/C19 and, through the driver, by the check) -/

/-- KF-19a: the string body contains the escape `\/` (backslash pairs are skipped as escapes) -/
def hasSolidusEscape : List Char → Bool
  | [] => false
  | c :: rest =>
    if c == '\\' then
      match rest with
      | [] => false
      | e :: rest1 => e == '/' || hasSolidusEscape rest1
    else hasSolidusEscape rest

def hasAdjPair : List Nat → Bool
  | [] => false
  | [_] => false
  | hi :: lo :: rest => (Spec.Json.isHigh hi && Spec.Json.isLow lo) || hasAdjPair (lo :: rest)

/-- KF-19b: the string body spells a UTF-16 surrogate pair with two adjacent `\uXXXX` escapes -/
def hasSurrogatePair (body : List Char) : Bool :=
  match Spec.Json.codeUnits body with
  | some us => hasAdjPair us
  | Option.none => false

open CalmVerif.Spec.Json in
mutual
  /-- some string or member name of the tree satisfies `p` -/
  def anyBody (p : List Char → Bool) : Syn → Bool
    | .str b => p b
    | .arr xs => anyBodyList p xs
    | .obj kvs => anyBodyMembers p kvs
    | _ => false
  def anyBodyList (p : List Char → Bool) : List Syn → Bool
    | [] => false
    | x :: xs => anyBody p x || anyBodyList p xs
  def anyBodyMembers (p : List Char → Bool) : List (List Char × Syn) → Bool
    | [] => false
    | (k, x) :: rest => p k || anyBody p x || anyBodyMembers p rest
end

def excludedBody (b : List Char) : Bool := hasSolidusEscape b || hasSurrogatePair b

end CalmVerif.Model.Extract
