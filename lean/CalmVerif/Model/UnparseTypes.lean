/-
Types shared by the generated unparser tables (Gen/Defs.lean, Gen/Rules.lean) and the
unparser model (Model/Handlers.lean, Model/Unparse.lean).

Mirrors calmjs.parse.ruletypes: the rule OBJECTS of a definition (`Rule`), the Layout /
Structure marker classes (`Marker`), the key of a layout-handler table (a marker class or a
— possibly nested — tuple of keys, `LKey`), the handler functions of handlers.core and
handlers.indentation.Indentator (`HandlerId`), StreamFragment (`Frag`).

No Mathlib, no proofs.
-/
import CalmVerif.Util.Val
namespace CalmVerif.Unparse

/-- the subclasses of ruletypes.Layout (Format markers first, Structure markers last) -/
inductive Marker where
  | OpenBlock | CloseBlock | EndStatement | Space | OptionalSpace | RequiredSpace
  | Newline | OptionalNewline | Indent | Dedent
  | PushScope | PopScope | PushCatch | PopCatch | ResolveFuncName
  deriving DecidableEq, Repr, Inhabited

def Marker.name : Marker → String
  | .OpenBlock => "OpenBlock" | .CloseBlock => "CloseBlock" | .EndStatement => "EndStatement"
  | .Space => "Space" | .OptionalSpace => "OptionalSpace" | .RequiredSpace => "RequiredSpace"
  | .Newline => "Newline" | .OptionalNewline => "OptionalNewline" | .Indent => "Indent" | .Dedent => "Dedent"
  | .PushScope => "PushScope" | .PopScope => "PopScope" | .PushCatch => "PushCatch" | .PopCatch => "PopCatch"
  | .ResolveFuncName => "ResolveFuncName"

/-- what the `attr` of an Attr-like token is: an attribute name or a Deferrable object -/
inductive AttrSrc where
  | name (a : String)          -- getattr(node, a)
  | iter                       -- Iter()
  | declare (a : String)       -- Declare(a)
  | resolve                    -- Resolve()
  | literal                    -- Literal()
  | lineComment                -- LineComment()
  | blockComment               -- BlockComment()
  deriving Repr, Inhabited

/-- one rule of a definition.  `pos` is `token.pos` (`some i` iff it is an int). -/
inductive Rule where
  | text (value : String) (pos : Option Int)
  | attr (src : AttrSrc) (pos : Option Int)
  | commentsAttr (src : AttrSrc) (pos : Option Int)
  | joinAttr (src : AttrSrc) (sep : List Rule) (pos : Option Int)
  | elisionToken (src : AttrSrc) (value : String) (pos : Option Int)
  | elisionJoinAttr (src : AttrSrc) (sep : List Rule) (pos : Option Int)
  | optional (a : String) (body : List Rule)
  /-- Operator: `getattr(node, a)` when `a` is given (truthy), else the constant `value` -/
  | operator (a : Option String) (value : Option String) (pos : Option Int)
  | layout (m : Marker)        -- a Format marker class
  | struct (m : Marker)        -- a Structure marker class
  deriving Repr, Inhabited

abbrev Defs := List (String × List Rule)

/--
Key of a layout-handler table, flattened: a marker class `X` is `[m X]`, a tuple
`(k1, …, kn)` is `[lp] ++ k1 ++ … ++ kn ++ [rp]` (injective; nested tuples keep their nesting).
-/
inductive KTok where
  | m (k : Marker) | lp | rp
  deriving DecidableEq, Repr, Inhabited

abbrev LKey := List KTok

def LKey.single (k : Marker) : LKey := [.m k]
def LKey.tuple (ks : List LKey) : LKey := KTok.lp :: (ks.flatten ++ [KTok.rp])

/-- the layout handler functions (handlers.core.* and the Indentator methods) -/
inductive HandlerId where
  | noop | semicolon | semicolonOptional | openbrace | closebrace
  | spaceImply | spaceDrop | newlineSimple | newlineOptionalPretty
  | spaceOptionalPretty | spaceMinimum
  | indIndent | indDedent | indNewline | indNewlineOptional
  deriving DecidableEq, Repr, Inhabited

/-- token handlers -/
inductive TokenHandlerId where
  | strDefault | unobfuscate
  deriving DecidableEq, Repr, Inhabited

/-- the Deferrable classes a deferrable-handler table is keyed by -/
inductive DeferKind where
  | iter | declare | resolve | literal | lineComment | blockComment
  deriving DecidableEq, Repr, Inhabited

/-- deferrable handler functions -/
inductive DeferHandlerId where
  | literalContinuation      -- handlers.core.deferrable_handler_literal_continuation
  | comment                  -- handlers.core.deferrable_handler_comment
  | obfResolve               -- Obfuscator.resolve (bound method of the per-call instance): a hook
  deriving DecidableEq, Repr, Inhabited

inductive PrewalkId where
  | obfPrewalk               -- Obfuscator.prewalk_hook
  deriving DecidableEq, Repr, Inhabited

/-- one rule set, as `BaseUnparser.setup()` resolves it.  `layout` value `none` = `NotImplemented`. -/
structure RuleSet where
  name : String
  layout : List (LKey × Option HandlerId)
  deferrable : List (DeferKind × DeferHandlerId)
  tokenHandler : TokenHandlerId
  prewalk : List PrewalkId
  /-- the rule set builds an Indentator; its `indent_str` is a parameter of the rule factory -/
  indentator : Bool
  deriving Repr, Inhabited

/-- `source` field of a fragment / an entry of the sourcepath stack -/
inductive Src where
  | none | notImpl | path (s : String)
  deriving DecidableEq, Repr, Inhabited

/-- ruletypes.StreamFragment -/
structure Frag where
  text : String
  line : Option Int
  col : Option Int
  name : Option String
  source : Src
  deriving DecidableEq, Repr, Inhabited

/-- what `_walk` yields: a fragment, or a LayoutChunk(rule, handler, node) -/
inductive Chunk where
  | frag (f : Frag)
  | layout (m : Marker) (handler : HandlerId) (node : Val)
  deriving Repr, Inhabited

/-- the Python exceptions that can escape, plus model artefacts -/
inductive Err where
  | attributeError (what : String)
  | keyError (kind : String)       -- no definition for a node kind
  | typeError (what : String)
  | indexError
  | unmodelled (what : String)     -- the tree is outside the modelled domain (non-str token text, …)
  | fuel                           -- model artefact
  deriving DecidableEq, Repr, Inhabited

end CalmVerif.Unparse
