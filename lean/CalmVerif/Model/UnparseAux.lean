/-
Executable predicates over chunk streams that the C20 theorems use as hypotheses
(no Mathlib, no proofs): the driver evaluates them on every tree of the tie.
-/
import CalmVerif.Model.Unparse
namespace CalmVerif.Unparse
open CalmVerif

/-- ES5 line terminators -/
def isLT (c : Char) : Bool := c == '\n' || c == '\r' || c == Char.ofNat 0x2028 || c == Char.ofNat 0x2029

/-- token fragments of a chunk stream, in order -/
def tokenFrags : List Chunk → List Frag
  | [] => []
  | .frag f :: cs => f :: tokenFrags cs
  | .layout _ _ _ :: cs => tokenFrags cs

/-- the layout chunks after the last token fragment (`buf` = those already buffered) -/
def trailing : List Chunk → List LChunk → List LChunk
  | [], buf => buf
  | .layout m h n :: cs, buf => trailing cs (buf ++ [{ m := m, handler := h, node := n }])
  | .frag _ :: cs, _ => trailing cs []

def isVisibleH : HandlerId → Bool
  | .semicolon | .openbrace | .closebrace => true
  | _ => false

/-- handlers that yield a newline unconditionally -/
def isHardNewline : HandlerId → Bool
  | .indNewline | .newlineSimple => true
  | _ => false

def hasVisible (es : List LEntry) : Bool := es.any (fun e => isVisibleH e.handler)

/-- every unconditional newline of the list is followed by an entry that always yields a token -/
def tailSafe : List LEntry → Bool
  | [] => true
  | e :: es => (!isHardNewline e.handler || hasVisible es) && tailSafe es

/-- Bool version of `TokensClean`: every token text is non-empty and does not end with a line terminator -/
def tokensCleanB (cs : List Chunk) : Bool :=
  (tokenFrags cs).all (fun f => match f.text.toList.getLast? with
    | some c => !isLT c
    | none => false)

/-- the token is spelled like a string literal or a comment -/
def isLiteralOrComment (t : String) : Bool :=
  match t.toList with
  | '\'' :: _ => true
  | '"' :: _ => true
  | '/' :: '/' :: _ => true
  | '/' :: '*' :: _ => true
  | _ => false

def noLT (t : String) : Bool := t.toList.all (fun c => !isLT c)

/-- a printed string may contain a line terminator only if it is a string literal or a comment -/
def lineSafe (t : String) : Bool := noLT t || isLiteralOrComment t

/-! ### predicates over trees: every printed string satisfies `p`, every node kind `k` -/

/-- attributes that take part in printing: everything except the `@…` metadata, but `@comments` -/
def printedAttr (a : String) : Bool := a == "@comments" || !Val.isMeta a

mutual
  def valAll (p k : String → Bool) : Val → Bool
    | .str s => p s
    | .list xs => listAll p k xs
    | .node kind as => k kind && attrsAll p k as
    | _ => true
  def listAll (p k : String → Bool) : List Val → Bool
    | [] => true
    | v :: vs => valAll p k v && listAll p k vs
  def attrsAll (p k : String → Bool) : List (String × Val) → Bool
    | [] => true
    | (a, v) :: rest => (!printedAttr a || valAll p k v) && attrsAll p k rest
end

def anyStr : String → Bool := fun _ => true


/-- the node classes whose definitions open an indentation level without a brace -/
def caseKinds : List String := ["Case", "Default"]


def notCaseKind (kind : String) : Bool := !caseKinds.contains kind

/-- a printed string that is not itself a brace -/
def braceFree (t : String) : Bool := t != "{" && t != "}"


/-! ### counting on chunk streams -/

/-- change of the Indentator level by one call of a layout handler -/
def hDelta : HandlerId → Int
  | .indIndent => 1
  | .indDedent => -1
  | _ => 0

def chunkDelta : Chunk → Int
  | .layout _ h _ => hDelta h
  | .frag _ => 0

def netChunks : List Chunk → Int
  | [] => 0
  | c :: cs => chunkDelta c + netChunks cs


/-- structural symbol of a chunk: brace openers (`OpenBlock` chunks, `{` fragments), closers
(`CloseBlock`, `}`), `Indent`, `Dedent`, newline markers, everything else -/
inductive SSym where
  | opener | closer | indent | dedent | nl | other
  deriving DecidableEq, Repr

def symOfMarker : Marker → SSym
  | .OpenBlock => .opener
  | .CloseBlock => .closer
  | .Indent => .indent
  | .Dedent => .dedent
  | .Newline => .nl
  | .OptionalNewline => .nl
  | _ => .other

def symOfText (t : String) : SSym :=
  if t == "{" then .opener else if t == "}" then .closer else .other

def symOfChunk : Chunk → SSym
  | .layout m _ _ => symOfMarker m
  | .frag f => symOfText f.text

def syms (cs : List Chunk) : List SSym := cs.map symOfChunk

def dLvl : SSym → Int
  | .indent => 1
  | .dedent => -1
  | _ => 0

def dBr : SSym → Int
  | .opener => 1
  | .closer => -1
  | _ => 0

def sumL (f : SSym → Int) : List SSym → Int
  | [] => 0
  | s :: ss => f s + sumL f ss

/-- number of brace tokens opened and not closed in a chunk list -/
def braceDepth (cs : List Chunk) : Int := sumL dBr (syms cs)

/-- the next token that is not a newline marker is a closing brace -/
def closerNext : List SSym → Bool
  | .nl :: ss => closerNext ss
  | .closer :: _ => true
  | _ => false


end CalmVerif.Unparse
