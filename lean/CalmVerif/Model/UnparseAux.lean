/-
Executable predicates over chunk streams that the C20 theorems use as hypotheses
(no Mathlib, no proofs): the driver evaluates them on every tree of the tie.
-/
import CalmVerif.Model.Unparse
namespace CalmVerif.Unparse
open CalmVerif

/-- ES5 line terminators -/
def isLT (c : Char) : Bool := c == '\n' || c == '\r' || c == Char.ofNat 0x2028 || c == Char.ofNat 0x2029

/-- token fragments of a chunk stream, in order -/
def tokenFrags : List Chunk → List Frag
  | [] => []
  | .frag f :: cs => f :: tokenFrags cs
  | .layout _ _ _ :: cs => tokenFrags cs

/-- the layout chunks after the last token fragment (`buf` = those already buffered) -/
def trailing : List Chunk → List LChunk → List LChunk
  | [], buf => buf
  | .layout m h n :: cs, buf => trailing cs (buf ++ [{ m := m, handler := h, node := n }])
  | .frag _ :: cs, _ => trailing cs []

def isVisibleH : HandlerId → Bool
  | .semicolon | .openbrace | .closebrace => true
  | _ => false

/-- handlers that yield a newline unconditionally -/
def isHardNewline : HandlerId → Bool
  | .indNewline | .newlineSimple => true
  | _ => false

def hasVisible (es : List LEntry) : Bool := es.any (fun e => isVisibleH e.handler)

/-- every unconditional newline of the list is followed by an entry that always yields a token -/
def tailSafe : List LEntry → Bool
  | [] => true
  | e :: es => (!isHardNewline e.handler || hasVisible es) && tailSafe es

/-- Bool version of `TokensClean`: every token text is non-empty and does not end with a line terminator -/
def tokensCleanB (cs : List Chunk) : Bool :=
  (tokenFrags cs).all (fun f => match f.text.toList.getLast? with
    | some c => !isLT c
    | none => false)

end CalmVerif.Unparse
