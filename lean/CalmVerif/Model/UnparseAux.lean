/-
Executable predicates over chunk streams that the C20 theorems use as hypotheses
(no Mathlib, no proofs): the driver evaluates them on every tree of the tie.
-/
import CalmVerif.Model.Unparse
namespace CalmVerif.Unparse
open CalmVerif

/-- ES5 line terminators -/
def isLT (c : Char) : Bool := c == '\n' || c == '\r' || c == Char.ofNat 0x2028 || c == Char.ofNat 0x2029

/-- token fragments of a chunk stream, in order -/
def tokenFrags : List Chunk → List Frag
  | [] => []
  | .frag f :: cs => f :: tokenFrags cs
  | .layout _ _ _ :: cs => tokenFrags cs

/-- the layout chunks after the last token fragment (`buf` = those already buffered) -/
def trailing : List Chunk → List LChunk → List LChunk
  | [], buf => buf
  | .layout m h n :: cs, buf => trailing cs (buf ++ [{ m := m, handler := h, node := n }])
  | .frag _ :: cs, _ => trailing cs []

def isVisibleH : HandlerId → Bool
  | .semicolon | .openbrace | .closebrace => true
  | _ => false

/-- handlers that yield a newline unconditionally -/
def isHardNewline : HandlerId → Bool
  | .indNewline | .newlineSimple => true
  | _ => false

def hasVisible (es : List LEntry) : Bool := es.any (fun e => isVisibleH e.handler)

/-- every unconditional newline of the list is followed by an entry that always yields a token -/
def tailSafe : List LEntry → Bool
  | [] => true
  | e :: es => (!isHardNewline e.handler || hasVisible es) && tailSafe es

/-- Bool version of `TokensClean`: every token text is non-empty and does not end with a line terminator -/
def tokensCleanB (cs : List Chunk) : Bool :=
  (tokenFrags cs).all (fun f => match f.text.toList.getLast? with
    | some c => !isLT c
    | none => false)

/-- the token is spelled like a string literal or a comment -/
def isLiteralOrComment (t : String) : Bool :=
  match t.toList with
  | '\'' :: _ => true
  | '"' :: _ => true
  | '/' :: '/' :: _ => true
  | '/' :: '*' :: _ => true
  | _ => false

def noLT (t : String) : Bool := t.toList.all (fun c => !isLT c)

/-- a printed string may contain a line terminator only if it is a string literal or a comment -/
def lineSafe (t : String) : Bool := noLT t || isLiteralOrComment t

/-! ### predicates over trees: every printed string satisfies `p`, every node kind `k` -/

/-- attributes that take part in printing: everything except the `@…` metadata, but `@comments` -/
def printedAttr (a : String) : Bool := a == "@comments" || !Val.isMeta a

mutual
  def valAll (p k : String → Bool) : Val → Bool
    | .str s => p s
    | .list xs => listAll p k xs
    | .node kind as => k kind && attrsAll p k as
    | _ => true
  def listAll (p k : String → Bool) : List Val → Bool
    | [] => true
    | v :: vs => valAll p k v && listAll p k vs
  def attrsAll (p k : String → Bool) : List (String × Val) → Bool
    | [] => true
    | (a, v) :: rest => (!printedAttr a || valAll p k v) && attrsAll p k rest
end

def anyStr : String → Bool := fun _ => true

/-- a string that does not end with a line terminator (the empty string included) -/
def endsOK (t : String) : Bool :=
  match t.toList.getLast? with
  | some c => !isLT c
  | none => true


/-- the node classes whose definitions open an indentation level without a brace -/
def caseKinds : List String := ["Case", "Default"]


def notCaseKind (kind : String) : Bool := !caseKinds.contains kind

/-- a printed string that is not itself a brace -/
def braceFree (t : String) : Bool := t != "{" && t != "}"


/-! ### counting on chunk streams -/

/-- change of the Indentator level by one call of a layout handler -/
def hDelta : HandlerId → Int
  | .indIndent => 1
  | .indDedent => -1
  | _ => 0

def chunkDelta : Chunk → Int
  | .layout _ h _ => hDelta h
  | .frag _ => 0

def netChunks : List Chunk → Int
  | [] => 0
  | c :: cs => chunkDelta c + netChunks cs


/-- structural symbol of a chunk: brace openers (`OpenBlock` chunks, `{` fragments), closers
(`CloseBlock`, `}`), `Indent`, `Dedent`, newline markers, everything else -/
inductive SSym where
  | opener | closer | indent | dedent | nl | other
  deriving DecidableEq, Repr

def symOfMarker : Marker → SSym
  | .OpenBlock => .opener
  | .CloseBlock => .closer
  | .Indent => .indent
  | .Dedent => .dedent
  | .Newline => .nl
  | .OptionalNewline => .nl
  | _ => .other

def symOfText (t : String) : SSym :=
  if t == "{" then .opener else if t == "}" then .closer else .other

def symOfChunk : Chunk → SSym
  | .layout m _ _ => symOfMarker m
  | .frag f => symOfText f.text

def syms (cs : List Chunk) : List SSym := cs.map symOfChunk

def dLvl : SSym → Int
  | .indent => 1
  | .dedent => -1
  | _ => 0

def dBr : SSym → Int
  | .opener => 1
  | .closer => -1
  | _ => 0

def sumL (f : SSym → Int) : List SSym → Int
  | [] => 0
  | s :: ss => f s + sumL f ss

/-- number of brace tokens opened and not closed in a chunk list -/
def braceDepth (cs : List Chunk) : Int := sumL dBr (syms cs)

/-- the next token that is not a newline marker is a closing brace -/
def closerNext : List SSym → Bool
  | .nl :: ss => closerNext ss
  | .closer :: _ => true
  | _ => false


/-! ### the lines of the printed text (statement of `pretty_lines_indented`) -/

/-- characters an indentation string may be made of: white space that is no line terminator -/
def indentCharOK (c : Char) : Bool :=
  c == ' ' || c == '\t' || c == Char.ofNat 0x0b || c == Char.ofNat 0x0c || c == Char.ofNat 0xa0

def indentOK (s : String) : Bool := s.toList.all indentCharOK

/-- what the Indentator prints for depth `d`: nothing when `ind × d` is empty, else that one fragment -/
def indentFragsOf (ind : String) (d : Int) : List Frag :=
  if strMul ind d == "" then []
  else [{ text := strMul ind d, line := none, col := none, name := none, source := .none }]

/-- a chunk that always prints a token: a token fragment, or `;` `{` `}` of a layout handler -/
def isPrinting : Chunk → Bool
  | .frag _ => true
  | .layout _ h _ => isVisibleH h

/-- STRUCTURAL DEPTH of every printing chunk, in order: the number of `Indent` minus `Dedent` markers the
definitions have issued before it (`l` = the depth at the start) — block braces, object literals, switch
blocks and the bodies of case / default clauses all count through their `Indent` -/
def printingDepths : List Chunk → Int → List Int
  | [], _ => []
  | c :: cs, l => (if isPrinting c then [l] else []) ++ printingDepths cs (l + chunkDelta c)

/-- how `checkLines` reads a fragment of the final stream -/
inductive FragClass where
  | newline | space | token
  deriving DecidableEq, Repr

/-- layout fragments carry no source (token fragments always carry one, see C08): `"\n"` is a line break,
`;` `{` `}` are tokens, any other layout fragment is white space (a space, or an indentation) -/
def classifyFrag (f : Frag) : FragClass :=
  if f.source == .none then
    if f.text == "\n" then .newline
    else if f.text == ";" || f.text == "{" || f.text == "}" then .token
    else .space
  else .token

/-- a token that is the first of its line (`pend = some ws`) is preceded by exactly the indentation of depth `d` -/
def lineOK (ind : String) (pend : Option (List Frag)) (d : Int) : Bool :=
  match pend with
  | some ws => ws == indentFragsOf ind d
  | none => true

/--
The judge of `pretty_lines_indented`, run over the FINAL fragment stream.
`ds`   depths still owed to the tokens to come (one per token, in order)
`pend` `some ws` while no token has been seen since the start of the line (`ws` = white-space
       fragments since the line break; the text starts at a line start: `some []`), else `none`.
Every token that is the first of its line must be preceded by exactly `indentFragsOf ind depth`;
all depths must be used up.
-/
def checkLines (ind : String) : List Frag → List Int → Option (List Frag) → Bool
  | [], ds, _ => ds.isEmpty
  | f :: fs, ds, pend =>
    match classifyFrag f with
    | .newline => checkLines ind fs ds (some [])
    | .space => checkLines ind fs ds (pend.map (· ++ [f]))
    | .token =>
      match ds with
      | [] => false
      | d :: ds' => lineOK ind pend d && checkLines ind fs ds' none

def isNewlineH : HandlerId → Bool
  | .indNewline | .indNewlineOptional => true
  | _ => false

def isSpaceH : HandlerId → Bool
  | .spaceImply | .spaceOptionalPretty => true
  | _ => false

/-- where the walk stands with respect to the current line: after a token / just after a newline marker
(nothing since) / after a newline marker and then an `Indent`, `Dedent` or space marker -/
inductive LMode where
  | mid | fresh | dirty
  deriving DecidableEq, Repr

/-- hypothesis of `pretty_lines_indented`: between the newline marker that starts a line and the first token of
that line the definitions issue no `Indent`, `Dedent` or space marker (another newline marker resets).
True of every stream the parser's trees produce (each `Newline` rule is followed by a token or a visible child);
it fails e.g. when a `case` clause whose statements print nothing is used as an expression. -/
def stableStep (c : Chunk) (m : LMode) : Option LMode :=
  match c with
  | .frag _ => if m == .dirty then none else some .mid
  | .layout _ h _ =>
    if isVisibleH h then (if m == .dirty then none else some .mid)
    else if isNewlineH h then some .fresh
    else if hDelta h != 0 || isSpaceH h then some (if m == .fresh then .dirty else m)
    else some m

def stableRun : List Chunk → LMode → Option LMode
  | [], m => some m
  | c :: cs, m =>
    match stableStep c m with
    | some m' => stableRun cs m'
    | none => none

def lineStartsStable (cs : List Chunk) : Bool := (stableRun cs .fresh).isSome

/-- every token text is non-empty, does not begin with CR / LF and does not end with a line terminator
(it may contain line terminators: multi-line strings and comments) -/
def tokensEdgeB (cs : List Chunk) : Bool :=
  (tokenFrags cs).all (fun f =>
    (match f.text.toList.head? with
     | some c => !(c == '\r' || c == '\n')
     | none => false) &&
    (match f.text.toList.getLast? with
     | some c => !isLT c
     | none => false))

end CalmVerif.Unparse
