/-
Model of calmjs.parse.handlers.obfuscation: `NameGenerator`, `Scope`, `CatchScope`, `Obfuscator`
(prewalk with its private Dispatcher, `finalize`, `resolve`) and of the obfuscating printers built
from it (`rules.obfuscate`, `minify_printer(obfuscate=True, …)`).

How the mutable Python objects are represented
  * The stack of open scopes (`Obfuscator.stack`) is a list of `Frame`s, innermost first; the parent of a
    scope is always the frame below it (`nest` is only called on `current_scope`).  A frame holds the
    scope's own dicts and its already closed children.  `pop_scope` closes the top frame (`Scope.close`:
    leaked references are re-referenced in the parent; `CatchScope.close`: nothing) and appends it to the
    children of the frame below (Python appends at creation; the order among siblings is the same).
  * `CatchScope` proxies `declare` / `reference` to its parent: `declareAt` / `referenceAt` recurse down
    the stack.
  * After the walk the global frame is the closed scope tree `STree`.  The properties Python evaluates
    lazily at `finalize` time (`referenced_symbols`, `local_declared_symbols`, `declared_symbols`,
    `global_symbols`, `global_symbols_in_children`, `non_local_symbols`, `_reserved_symbols`, `resolve`)
    are functions of a scope and its chain of ancestors (`List Anc`, innermost first), evaluated on the
    final tree exactly as Python does.
  * dicts are association lists with unique keys, sets are duplicate-free lists; the only place Python
    depends on an order is `build_remap_symbols`, which sorts by (count, name).
  * `NameGenerator`: `itertools.product(charset, repeat=n)` for n = 1, 2, … is the shortlex enumeration of
    digit strings; the iterator state is the current digit string (`succDigits`).  `next()` loops until a
    symbol outside the skip set is found: fuel `|skip| + 1` (enough whenever the charset is non-empty and
    duplicate-free, see Proofs/ObfGen.lean); an empty charset (Python loops forever) is an explicit error.

Mirrored quirks
  * `Declare('identifier')` of FuncDecl *and FuncExpr* runs before PushScope: the name of a named function
    expression is declared in the enclosing scope.
  * `CatchScope.declare` ignores a declaration of the catch symbol itself (`var e` inside `catch (e)`).
  * `CatchScope.referenced_symbols` = `{catch_symbol: usage}` updated with the parent's dict (the parent's
    count wins when the parent references the same name).
  * `resolve`: `result or symbol` (an empty replacement is falsy); the look-up of `arguments` stops at the first function
    scope with a parent that has no replacement for it (the repaired code: every function implicitly binds `arguments`).
  * label identifiers are ordinary `Identifier`s and go through Resolve like variable references.

Outside the modelled domain (explicit `unmodelled` errors): unbalanced scope markers (the global scope popped,
or scopes left open at `finalize`), identifier values that are not `str`.

No Mathlib, no proofs.
-/
import CalmVerif.Model.UnparseInst
import CalmVerif.Gen.ObfData
namespace CalmVerif.Obf
open CalmVerif CalmVerif.Unparse

/-! ### dicts and sets -/

/-- `dict` str ↦ int with unique keys -/
abbrev Counts := List (String × Nat)

/-- `d.get(k, 0)` -/
def cget (d : Counts) (k : String) : Nat := (d.lookup k).getD 0

/-- `d[k] = v` -/
def cset : Counts → String → Nat → Counts
  | [], k, v => [(k, v)]
  | (k', v') :: r, k, v => if k' == k then (k', v) :: r else (k', v') :: cset r k v

/-- `d.update(u)` -/
def cupdate (d u : Counts) : Counts := u.foldl (fun acc p => cset acc p.1 p.2) d

def ckeys (d : Counts) : List String := d.map (·.1)

/-- `s.add(x)` / `s | {x}` -/
def sadd (s : List String) (x : String) : List String := if s.contains x then s else s ++ [x]

/-- `a | b` -/
def sunion (a b : List String) : List String := b.foldl sadd a

/-! ### NameGenerator -/

/-- successor of a digit string (least significant digit first) in shortlex order, base `b` -/
def succDigits (b : Nat) : List Nat → List Nat
  | [] => [0]
  | d :: ds => if d + 1 < b then (d + 1) :: ds else 0 :: succDigits b ds

/-- `''.join(chars)` for a digit string -/
def digitsName (cs : List Char) (ds : List Nat) : Option String :=
  (ds.reverse.mapM (fun d => cs[d]?)).map String.ofList

/-- `next(replacement)`: advance until a symbol outside `skip` comes up -/
def nextName (cs : List Char) (skip : List String) : Nat → List Nat → Except Err (String × List Nat)
  | 0, _ => .error .fuel
  | fuel + 1, ds =>
    let ds' := succDigits cs.length ds
    match digitsName cs ds' with
    | none => .error (.unmodelled "NameGenerator over an empty charset never yields")
    | some nm => if skip.contains nm then nextName cs skip fuel ds' else .ok (nm, ds')

/-- one `next()` of a generator with skip set `skip` in state `ds` -/
def genNext (cs : List Char) (skip : List String) (ds : List Nat) : Except Err (String × List Nat) :=
  nextName cs skip (skip.length + 1) ds

/-- the first `n` symbols a fresh generator with skip set `skip` yields -/
def drawFrom (cs : List Char) (skip : List String) : Nat → List Nat → Except Err (List String)
  | 0, _ => .ok []
  | n + 1, ds =>
    match genNext cs skip ds with
    | .error e => .error e
    | .ok (nm, ds') =>
      match drawFrom cs skip n ds' with
      | .error e => .error e
      | .ok rest => .ok (nm :: rest)

def draw (cs : List Char) (skip : List String) (n : Nat) : Except Err (List String) :=
  drawFrom cs skip n []

/-! ### scopes -/

inductive SKind where
  | func                                   -- Scope
  | catch (sym : String) (usage : Nat)     -- CatchScope: catch_symbol, catch_symbol_usage
  deriving Repr, Inhabited, DecidableEq

/-- a closed scope: creation number, path of its node (`none`: the global scope), own
`referenced_symbols` / `local_declared_symbols` (empty for a CatchScope, which has properties instead) -/
inductive STree where
  | mk (id : Nat) (node : Option Path) (kind : SKind) (refs : Counts) (decl : List String)
       (children : List STree)
  deriving Repr, Inhabited

/-- an open scope on `Obfuscator.stack` -/
structure Frame where
  id : Nat
  node : Option Path
  kind : SKind
  refs : Counts
  decl : List String
  children : List STree
  deriving Repr, Inhabited

structure St where
  /-- innermost first; the last frame is the global scope -/
  stack : List Frame
  nextId : Nat
  /-- `Obfuscator.identifiers`, newest first: path of the Identifier node ↦ id of its scope -/
  identifiers : List (Path × Nat)
  deriving Repr, Inhabited

def St.init : St :=
  { stack := [{ id := 0, node := none, kind := .func, refs := [], decl := [], children := [] }],
    nextId := 1, identifiers := [] }

/-- `current_scope.reference(symbol, count)` -/
def referenceAt : List Frame → String → Nat → Except Err (List Frame)
  | [], _, _ => .error .indexError
  | f :: rest, sym, c =>
    match f.kind with
    | .func => .ok ({ f with refs := cset f.refs sym (cget f.refs sym + c) } :: rest)
    | .catch cs u =>
      if sym == cs then .ok ({ f with kind := .catch cs (u + c) } :: rest)
      else (referenceAt rest sym c).map (f :: ·)

/-- `current_scope.declare(symbol)` -/
def declareAt : List Frame → String → Except Err (List Frame)
  | [], _ => .error .indexError
  | f :: rest, sym =>
    match f.kind with
    | .func => .ok ({ f with decl := sadd f.decl sym, refs := cset f.refs sym (cget f.refs sym) } :: rest)
    | .catch cs _ =>
      if sym != cs then (declareAt rest sym).map (f :: ·) else .ok (f :: rest)

def closeFrame (f : Frame) : STree := .mk f.id f.node f.kind f.refs f.decl f.children

/-- `leaked_referenced_symbols` -/
def leaked (refs : Counts) (decl : List String) : Counts := refs.filter (fun p => !decl.contains p.1)

def referenceAll : Counts → List Frame → Except Err (List Frame)
  | [], stk => .ok stk
  | (sym, c) :: rest, stk =>
    match referenceAt stk sym c with
    | .error e => .error e
    | .ok stk' => referenceAll rest stk'

/-- `node.value` of an Identifier -/
def strValue (node : Val) : Except Err String :=
  match nodeAttr node "value" with
  | none => .error (.attributeError "value")
  | some (.str s) => .ok s
  | some _ => .error (.unmodelled "Identifier.value is not a str")

/-- `node.identifier.value` -/
def identifierValue (node : Val) : Except Err String :=
  match getattrVal node "identifier" with
  | .error e => .error e
  | .ok (.node k as) => strValue (.node k as)
  | .ok _ => .error (.attributeError "value")

/-! ### the handlers of the prewalk Dispatcher -/

def hookPushScope (path : Path) (_node : Val) (st : St) : Except Err St :=
  match st.stack with
  | [] => .error .indexError
  | stk => .ok { st with
      stack := { id := st.nextId, node := some path, kind := .func, refs := [], decl := [], children := [] } :: stk,
      nextId := st.nextId + 1 }

def hookPushCatch (path : Path) (node : Val) (st : St) : Except Err St :=
  match st.stack with
  | [] => .error .indexError
  | stk =>
    match identifierValue node with
    | .error e => .error e
    | .ok sym => .ok { st with
        stack := { id := st.nextId, node := some path, kind := .catch sym 0, refs := [], decl := [], children := [] } :: stk,
        nextId := st.nextId + 1 }

/-- `pop_scope` (also bound to PopCatch): `scope = self.stack.pop(); scope.close()` -/
def hookPop (_path : Path) (_node : Val) (st : St) : Except Err St :=
  match st.stack with
  | [] => .error .indexError
  | [_] => .error (.unmodelled "unbalanced scope markers: the global scope is popped")
  | f :: p :: rest =>
    let closed : Except Err (List Frame) :=
      match f.kind with
      | .func => referenceAll (leaked f.refs f.decl) (p :: rest)
      | .catch _ _ => .ok (p :: rest)
    match closed with
    | .error e => .error e
    | .ok [] => .error .indexError
    | .ok (p' :: rest') => .ok { st with stack := { p' with children := p'.children ++ [closeFrame f] } :: rest' }

def hookDeclare (_path : Path) (node : Val) (st : St) : Except Err St :=
  match strValue node with
  | .error e => .error e
  | .ok sym => (declareAt st.stack sym).map (fun stk => { st with stack := stk })

/-- `register_reference`; returns None, so the Attr(Resolve()) rule of the prewalk yields nothing -/
def hookRegister (path : Path) (node : Val) (st : St) : Except Err (Val × St) :=
  match st.stack with
  | [] => .error .indexError
  | f :: _ =>
    match strValue node with
    | .error e => .error e
    | .ok sym =>
      (referenceAt st.stack sym 1).map
        (fun stk => (Val.none, { st with stack := stk, identifiers := (path, f.id) :: st.identifiers }))

/-- `shadow_reference` (ResolveFuncName, only when not shadow_funcname) -/
def hookShadow (_path : Path) (node : Val) (st : St) : Except Err St :=
  match st.stack with
  | [] => .error .indexError
  | _ =>
    match identifierValue node with
    | .error e => .error e
    | .ok sym => (referenceAt st.stack sym 1).map (fun stk => { st with stack := stk })

structure Flags where
  obfuscateGlobals : Bool
  shadowFuncname : Bool
  reserved : List String
  deriving Repr, Inhabited

def methodStruct (name : String) : Path → Val → St → Except Err St :=
  if name == "push_scope" then hookPushScope
  else if name == "pop_scope" then hookPop
  else if name == "push_catch" then hookPushCatch
  else if name == "shadow_reference" then hookShadow
  else fun _ _ _ => .error (.unmodelled "unknown Obfuscator method as structure handler")

def lookupMarker : List (Marker × String) → Marker → Option String
  | [], _ => none
  | (k, v) :: rest, m => if k == m then some v else lookupMarker rest m

def lookupDefer : List (DeferKind × String) → DeferKind → Option String
  | [], _ => none
  | (k, v) :: rest, m => if k == m then some v else lookupDefer rest m

/-- the Dispatcher `Obfuscator.walk` builds: same definitions, no token handler, only the Structure
markers and Declare / Resolve handled -/
def prewalkCfg (t : Tables) (shadowFuncname : Bool) : Cfg St where
  defs := t.defs
  layout := []
  tokenHandler := none
  literal := none
  lineComment := none
  blockComment := none
  declare := match lookupDefer Gen.ObfData.prewalkDeferrable .declare with
    | some n => if n == "declare" then some hookDeclare
                else some (fun _ _ _ => .error (.unmodelled "unknown Obfuscator method as Declare handler"))
    | none => none
  resolve := match lookupDefer Gen.ObfData.prewalkDeferrable .resolve with
    | some n => if n == "register_reference" then some hookRegister
                else some (fun _ _ _ => .error (.unmodelled "unknown Obfuscator method as Resolve handler"))
    | none => none
  struct := fun m =>
    (lookupMarker (if shadowFuncname then Gen.ObfData.prewalkStructShadow else Gen.ObfData.prewalkStruct) m).map
      methodStruct
  indentStr := none
  hd := t.hd
  elisionSep := t.elisionSep
  iterKinds := t.iterKinds

/-- `Obfuscator.walk(dispatcher, node)`: the state after the walk -/
def prewalk (t : Tables) (shadowFuncname : Bool) (tree : Val) : Except Err St :=
  (walkChunks (prewalkCfg t shadowFuncname) tree St.init).map (·.2)

/-! ### the scope properties, on a scope and its ancestors -/

/-- what a scope object holds, as seen by its descendants -/
structure Anc where
  kind : SKind
  refs : Counts
  decl : List String
  remapped : List (String × String)
  deriving Repr, Inhabited

def STree.anc : STree → Anc
  | .mk _ _ kind refs decl _ => { kind := kind, refs := refs, decl := decl, remapped := [] }

/-- `referenced_symbols` (a property for CatchScope) -/
def effRefs : List Anc → Counts
  | [] => []
  | a :: rest =>
    match a.kind with
    | .func => a.refs
    | .catch sym u => cupdate [(sym, u)] (effRefs rest)

/-- `local_declared_symbols` -/
def effLocalDecl : List Anc → List String
  | [] => []
  | a :: rest =>
    match a.kind with
    | .func => a.decl
    | .catch sym _ => sadd (effLocalDecl rest) sym

/-- `declared_symbols` -/
def declaredSymbols : List Anc → List String
  | [] => []
  | a :: rest =>
    match a.kind with
    | .func => sunion a.decl (declaredSymbols rest)
    | .catch sym _ => sunion [sym] (declaredSymbols rest)

/-- `global_symbols` -/
def globalSymbols (chain : List Anc) : List String :=
  (ckeys (effRefs chain)).filter (fun s => !(declaredSymbols chain).contains s)

/-- `non_local_symbols` -/
def nonLocalSymbols : List Anc → List String
  | [] => []
  | a :: rest =>
    match a.kind with
    | .func => (ckeys a.refs).filter (fun s => !a.decl.contains s)
    | .catch sym _ => (ckeys (effRefs (a :: rest))).filter (fun s => s != sym)

def SKind.isFunc : SKind → Bool
  | .func => true
  | .catch _ _ => false

/-- `resolve(symbol)` along the chain of scopes.  Every function implicitly binds `arguments`: the look-up of that
symbol stops at the first function scope (a `Scope` with a parent, not a `CatchScope`) that has no replacement for it. -/
def resolveChain : List Anc → String → String
  | [], s => s
  | a :: rest, s =>
    match a.remapped.lookup s with
    | some r => if r == "" then s else r
    | none => if s == "arguments" && a.kind.isFunc && !rest.isEmpty then s else resolveChain rest s

mutual
  /-- `child.global_symbols | child.global_symbols_in_children` of a child with ancestors `chain` -/
  def subtreeGlobals (chain : List Anc) : STree → List String
    | .mk _ _ kind refs decl children =>
      let ch := { kind := kind, refs := refs, decl := decl, remapped := [] } :: chain
      sunion (globalSymbols ch) (childrenGlobals ch children)
  /-- `global_symbols_in_children` of a scope with chain `chain` (self first) and these children -/
  def childrenGlobals (chain : List Anc) : List STree → List String
    | [] => []
    | c :: cs => sunion (subtreeGlobals chain c) (childrenGlobals chain cs)
end

/-- `_reserved_symbols` of the scope heading `chain` -/
def reservedSymbols (chain : List Anc) (children : List STree) : List String :=
  sunion (sunion (childrenGlobals chain children) (globalSymbols chain))
    ((nonLocalSymbols chain).map (resolveChain chain))

/-! ### build_remap_symbols -/

/-- `(count, name)` of `a` is greater than that of `b` -/
def gtKey (a b : String × Nat) : Bool := b.2 < a.2 || (a.2 == b.2 && b.1 < a.1)

def insertDesc (x : String × Nat) : List (String × Nat) → List (String × Nat)
  | [] => [x]
  | y :: ys => if gtKey x y then x :: y :: ys else y :: insertDesc x ys

/-- `reversed(sorted(items, key=itemgetter(1, 0)))` -/
def sortDesc (l : List (String × Nat)) : List (String × Nat) := l.foldr insertDesc []

/-- the scopes after `finalize`: what the Python properties show, plus `remapped_symbols` -/
inductive RTree where
  | mk (id : Nat) (node : Option Path) (kind : SKind) (refs : Counts) (localDecl : List String)
       (remapped : List (String × String)) (children : List RTree)
  deriving Repr, Inhabited

/-- the symbols `Scope.build_remap_symbols` assigns replacements to, in order -/
def remapOrder (refs : Counts) (decl : List String) : List String :=
  ((sortDesc refs).filter (fun p => decl.contains p.1)).map (·.1)

mutual
  /-- `scope.build_remap_symbols(name_generator, children_only = !doSelf)`; `chain` = the ancestors
  (with their final `remapped_symbols`), `kw` = the skip set of the base generator -/
  def buildTree (cs : List Char) (kw : List String) (chain : List Anc) (doSelf : Bool) :
      STree → Except Err RTree
    | .mk id node kind refs decl children =>
      let self0 : Anc := { kind := kind, refs := refs, decl := decl, remapped := [] }
      let remapped : Except Err (List (String × String)) :=
        match kind with
        | .func =>
          if doSelf then
            let syms := remapOrder refs decl
            -- `name_generator(skip=…)`: set(skip) | set(self.skip)
            (draw cs (sunion (reservedSymbols (self0 :: chain) children) kw) syms.length).map
              (fun names => syms.zip names)
          else .ok []
        | .catch sym _ =>
          (draw cs (sunion (reservedSymbols (self0 :: chain) children) kw) 1).map
            (fun names => [sym].zip names)
      match remapped with
      | .error e => .error e
      | .ok rm =>
        let self1 : Anc := { self0 with remapped := rm }
        match buildChildren cs kw (self1 :: chain) children with
        | .error e => .error e
        | .ok rcs => .ok (.mk id node kind (effRefs (self0 :: chain)) (effLocalDecl (self0 :: chain)) rm rcs)
  def buildChildren (cs : List Char) (kw : List String) (chain : List Anc) :
      List STree → Except Err (List RTree)
    | [] => .ok []
    | c :: rest =>
      match buildTree cs kw chain true c with
      | .error e => .error e
      | .ok r =>
        match buildChildren cs kw chain rest with
        | .error e => .error e
        | .ok rs => .ok (r :: rs)
end

/-- what `Scope.resolve` needs to know of a scope: is it a function scope (not a CatchScope), and its table -/
abbrev TableEntry := Bool × List (String × String)

/-- per scope id: the scope's entry and those of its ancestors (innermost first) -/
abbrev ChainTable := List (Nat × List TableEntry)

mutual
  def chainsOf (up : List TableEntry) : RTree → ChainTable
    | .mk id _ kind _ _ rm children => (id, (kind.isFunc, rm) :: up) :: chainsOfList ((kind.isFunc, rm) :: up) children
  def chainsOfList (up : List TableEntry) : List RTree → ChainTable
    | [] => []
    | c :: cs => chainsOf up c ++ chainsOfList up cs
end

/-- `Scope.resolve` given the entries of the scope and its ancestors -/
def resolveTables : List TableEntry → String → String
  | [], s => s
  | (isFunc, rm) :: rest, s =>
    match rm.lookup s with
    | some r => if r == "" then s else r
    | none => if s == "arguments" && isFunc && !rest.isEmpty then s else resolveTables rest s

/-- the Obfuscator after `prewalk_hook` -/
structure Final where
  tree : RTree
  chains : ChainTable
  identifiers : List (Path × Nat)
  deriving Repr, Inhabited

/-- `Obfuscator.finalize` -/
def finalize (cs : List Char) (fl : Flags) (st : St) : Except Err Final :=
  match st.stack with
  | [g] =>
    -- global_scope.close(): no parent, nothing leaks
    match buildTree cs fl.reserved [] fl.obfuscateGlobals (closeFrame g) with
    | .error e => .error e
    | .ok rt => .ok { tree := rt, chains := chainsOf [] rt, identifiers := st.identifiers }
  | _ => .error (.unmodelled "unbalanced scope markers: scopes left open at finalize")

/-- `Obfuscator.prewalk_hook(dispatcher, node)` -/
def prewalkHook (t : Tables) (fl : Flags) (tree : Val) : Except Err Final :=
  match prewalk t fl.shadowFuncname tree with
  | .error e => .error e
  | .ok st => finalize Gen.ObfData.charset fl st

def lookupPath : List (Path × Nat) → Path → Option Nat
  | [], _ => none
  | (p, i) :: rest, q => if p == q then some i else lookupPath rest q

def lookupChain : ChainTable → Nat → Option (List TableEntry)
  | [], _ => none
  | (i, c) :: rest, j => if i == j then some c else lookupChain rest j

/-- `Obfuscator.resolve(dispatcher, node)` of the main walk -/
def resolveIdent (fin : Final) (path : Path) (node : Val) : Except Err Val :=
  match lookupPath fin.identifiers path with
  | none => getattrVal node "value"
  | some sid =>
    match getattrVal node "value" with
    | .error e => .error e
    | .ok (.str s) =>
      match lookupChain fin.chains sid with
      | some tables => .ok (.str (resolveTables tables s))
      | none => .error (.unmodelled "identifier registered in an unknown scope")
    | .ok v => .ok v

def obfResolveHook (fin : Final) : Path → Val → Unit → Except Err (Val × Unit) :=
  fun path node s => (resolveIdent fin path node).map (fun v => (v, s))

/-- the hook that leaves every identifier as it is (the same printer, Resolve answering `node.value`) -/
def plainResolveHook : Path → Val → Unit → Except Err (Val × Unit) :=
  fun _ node s => (getattrVal node "value").map (fun v => (v, s))

/-- `list(printer(tree))` for a printer whose rule set has the Obfuscator prewalk hook -/
def obfUnparse (t : Tables) (rs : RuleSet) (indentStr : Option String) (fl : Flags) (tree : Val) :
    Except Err (List Frag) :=
  if rs.prewalk.contains .obfPrewalk then
    match prewalkHook t fl tree with
    | .error e => .error e
    | .ok fin => unparse (mkCfg t rs indentStr (obfResolveHook fin)) tree ()
  else unparse (mkCfg t rs indentStr plainResolveHook) tree ()

/-- the Obfuscator of `minify_printer(obfuscate=True, obfuscate_globals, shadow_funcname)` -/
def minifyFlags (og sf : Bool) : Flags :=
  { obfuscateGlobals := og, shadowFuncname := sf, reserved := Gen.ObfData.reservedKeywords }

end CalmVerif.Obf
