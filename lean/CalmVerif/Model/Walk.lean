/-
Model of calmjs.parse.walkers.Walker (walk / filter / extract) and of
asttypes.Node.__iter__ / children() over generic trees (`Val`), parameterised by a
table in the format of the generated `Gen.Children`.

Node identity: every node of a tree is named by its *path* from the root, a list of
steps `(attribute name, index)` (index 0 for an attribute holding one node, the list
index for a list attribute), innermost step FIRST.  Two different node objects of a
Python tree have different paths, so "exactly once" is a statement about paths.

Python generators are modelled as `Except Err (List …)`: the list of everything the
generator yields, or the error it raises.  (On an ill-formed tree Python yields a
prefix and then raises; the model reports only the error.  Well-formed trees never raise.)

No Mathlib, no proofs here.
-/
import CalmVerif.Util.Val
import CalmVerif.Gen.Children
namespace CalmVerif.Model.Walk
open CalmVerif CalmVerif.Gen.Children

abbrev Step := String × Nat
/-- innermost step first -/
abbrev Path := List Step
abbrev Table := List Row
abbrev Attrs := List (String × Val)
abbrev Out := List (Path × Val)

inductive Err where
  | unknownKind      -- node class not in the table (cannot happen in Python: no model outcome)
  | attributeError   -- children() reads an attribute vars() does not have
  | typeError        -- children() concatenates a non-list
  | notNode          -- Walker.walk/filter: TypeError('not a node')
  | fuel             -- model artefact: recursion fuel exhausted (never with the fuel `walk` supplies)
  deriving DecidableEq, Repr

def _root_.CalmVerif.Gen.Children.Item.name : Item → String
  | .one a => a
  | .many a => a

def findRow : Table → String → Option Row
  | [], _ => none
  | r :: rest, k => if r.kind == k then some r else findRow rest k

def lookup : Attrs → String → Option Val
  | [], _ => none
  | (b, x) :: rest, a => if b == a then some x else lookup rest a

/-- items of a list attribute `a` with their steps `(a, i)`, `(a, i+1)`, … -/
def enumFrom (a : String) : Nat → List Val → List (Step × Val)
  | _, [] => []
  | i, x :: xs => ((a, i), x) :: enumFrom a (i + 1) xs

/-- one summand of children(): `[self.a]` or `self.a` -/
def itemKids (as : Attrs) : Item → Except Err (List (Step × Val))
  | .one a => match lookup as a with
      | some x => .ok [((a, 0), x)]
      | none => .error .attributeError
  | .many a => match lookup as a with
      | some (.list xs) => .ok (enumFrom a 0 xs)
      | some _ => .error .typeError
      | none => .error .attributeError

def recipeKids (as : Attrs) : List Item → Except Err (List (Step × Val))
  | [] => .ok []
  | it :: rest =>
    match itemKids as it with
    | .error e => .error e
    | .ok x => match recipeKids as rest with
      | .error e => .error e
      | .ok y => .ok (x ++ y)

/-- `node.children()` (each child with the step that leads to it); may contain `None` -/
def childrenOf (tbl : Table) : Val → Except Err (List (Step × Val))
  | .node k as => match findRow tbl k with
      | some r => recipeKids as r.recipe
      | none => .error .unknownKind
  | _ => .error .notNode

def isNone : Val → Bool
  | .none => true
  | _ => false

/-- `Node.__iter__`: children() without the `None` entries -/
def iterNode (tbl : Table) (v : Val) : Except Err (List (Step × Val)) :=
  match childrenOf tbl v with
  | .error e => .error e
  | .ok cs => .ok (cs.filter (fun c => !isNone c.2))

/-- the loop body of Walker.walk: `yield child; yield from self.walk(child)` for each child -/
def walkKids (recur : Path → Val → Except Err Out) (p : Path) : List (Step × Val) → Except Err Out
  | [] => .ok []
  | (s, c) :: rest =>
    match recur (s :: p) c with
    | .error e => .error e
    | .ok sub => match walkKids recur p rest with
      | .error e => .error e
      | .ok r => .ok ((s :: p, c) :: sub ++ r)

/-- Walker.walk with recursion fuel; `p` is the path of `v` -/
def walkF (tbl : Table) : Nat → Path → Val → Except Err Out
  | 0, _, _ => .error .fuel
  | n + 1, p, v =>
    match iterNode tbl v with      -- includes the isinstance(node, Node) test
    | .error e => .error e
    | .ok cs => walkKids (walkF tbl n) p cs

/-- the loop body of Walker.filter -/
def filterKids (cond : Val → Bool) (recur : Path → Val → Except Err Out) (p : Path) :
    List (Step × Val) → Except Err Out
  | [] => .ok []
  | (s, c) :: rest =>
    match recur (s :: p) c with
    | .error e => .error e
    | .ok sub => match filterKids cond recur p rest with
      | .error e => .error e
      | .ok r => .ok ((if cond c then [(s :: p, c)] else []) ++ sub ++ r)

def filterF (tbl : Table) (cond : Val → Bool) : Nat → Path → Val → Except Err Out
  | 0, _, _ => .error .fuel
  | n + 1, p, v =>
    match iterNode tbl v with
    | .error e => .error e
    | .ok cs => filterKids cond (filterF tbl cond n) p cs

mutual
  def vsize : Val → Nat
    | .node _ as => 1 + asize as
    | .list xs => 1 + lsize xs
    | _ => 1
  def asize : List (String × Val) → Nat
    | [] => 0
    | (_, x) :: rest => vsize x + asize rest
  def lsize : List Val → Nat
    | [] => 0
    | x :: xs => vsize x + lsize xs
end

/-- `list(Walker().walk(t))` -/
def walk (tbl : Table) (t : Val) : Except Err Out := walkF tbl (vsize t) [] t

/-- `list(Walker().filter(t, cond))` -/
def filter (tbl : Table) (cond : Val → Bool) (t : Val) : Except Err Out :=
  filterF tbl cond (vsize t) [] t

inductive Extracted where
  | found (p : Path) (v : Val)
  | noMatch                      -- TypeError('no match found')
  | error (e : Err)

/-- the loop of Walker.extract over the matches: `if not skip: return child; skip -= 1` -/
def extractLoop : Out → Int → Option (Path × Val)
  | [], _ => none
  | x :: xs, skip => if skip == 0 then some x else extractLoop xs (skip - 1)

/-- `Walker().extract(t, cond, skip)` -/
def extract (tbl : Table) (cond : Val → Bool) (t : Val) (skip : Int) : Extracted :=
  match filter tbl cond t with
  | .error e => .error e
  | .ok ms => match extractLoop ms skip with
    | some (p, v) => .found p v
    | none => .noMatch

/-! ## The independent reading of "every node stored in any attribute, parents first,
in document order": `preorder`

It never calls `childrenOf`.  It reflects over ALL attributes a node value has
(whatever their names), takes every node found in them (directly or as a list item),
recursively, each node before what it contains.  The only thing taken from the table is
the *order* of sibling attributes: attributes named in the class's children() recipe come
first, in recipe order, each at most once; every other attribute that holds nodes follows
in stored order (so a hidden attribute makes `preorder` differ from `walk`).
`full = false` leaves out the class-level `comments` attribute (finding KF-16a),
`full = true` includes it. -/

/-- stable partition of the per-attribute results by the order of `names` -/
def asm : List String → List (String × Out) → Out
  | [], subs => subs.flatMap (·.2)
  | a :: ns, subs =>
      (subs.filter (fun e => e.1 == a)).flatMap (·.2) ++ asm ns (subs.filter (fun e => !(e.1 == a)))

def recipeNamesOf (tbl : Table) (k : String) : List String :=
  match findRow tbl k with
  | some r => r.recipe.map Item.name
  | none => []

mutual
  /-- the node stored at path `q` (if `v` is a node) followed by everything stored inside it -/
  def preNode (tbl : Table) (full : Bool) (q : Path) : Val → Out
    | .node k as => (q, .node k as) :: asm (recipeNamesOf tbl k) (preAttrs tbl full q as)
    | _ => []
  /-- per attribute of a node at path `q`: the nodes stored in it, with descendants -/
  def preAttrs (tbl : Table) (full : Bool) (q : Path) : List (String × Val) → List (String × Out)
    | [] => []
    | (a, x) :: rest =>
        (a, if !full && a == commentsAttr then [] else preSlot tbl full q a x) :: preAttrs tbl full q rest
  /-- the nodes stored in attribute `a` (value given) of the node at path `q` -/
  def preSlot (tbl : Table) (full : Bool) (q : Path) (a : String) : Val → Out
    | .node k as =>
        ((a, 0) :: q, .node k as) :: asm (recipeNamesOf tbl k) (preAttrs tbl full ((a, 0) :: q) as)
    | .list xs => preItems tbl full q a 0 xs
    | _ => []
  def preItems (tbl : Table) (full : Bool) (q : Path) (a : String) : Nat → List Val → Out
    | _, [] => []
    | i, x :: xs => preNode tbl full ((a, i) :: q) x ++ preItems tbl full q a (i + 1) xs
end

/-- everything stored inside the node `v` at path `q` (not `v` itself) -/
def preDesc (tbl : Table) (full : Bool) (q : Path) : Val → Out
  | .node k as => asm (recipeNamesOf tbl k) (preAttrs tbl full q as)
  | _ => []

/-- all nodes stored in the tree below the root, except under `comments` attributes -/
def preorderAll (tbl : Table) (t : Val) : Out := preDesc tbl false [] t
/-- all nodes stored in the tree below the root, `comments` included -/
def preorderFull (tbl : Table) (t : Val) : Out := preDesc tbl true [] t

/-- the path passes through a `comments` attribute -/
def underComments (p : Path) : Bool := p.any (fun s => s.1 == commentsAttr)

/-! ## Decidable facts about a table and well-formedness of a tree w.r.t. it -/

def nodupB : List String → Bool
  | [] => true
  | a :: rest => !rest.contains a && nodupB rest

def lookupShape : List (String × Shape) → String → Option Shape
  | [], _ => none
  | (b, s) :: rest, a => if b == a then some s else lookupShape rest a

/-- children() of the class returns every attribute that can hold a node / a list of
nodes exactly once (in the matching form) and nothing else; `comments` is not a row attribute -/
def coverRow (r : Row) : Bool :=
  nodupB (r.attrs.map (·.1)) && nodupB (r.recipe.map Item.name) &&
  r.attrs.all (fun e => match e.2 with
    | .node => r.recipe.contains (.one e.1)
    | .nodeList => r.recipe.contains (.many e.1)
    | .scalar => !(r.recipe.map Item.name).contains e.1) &&
  r.recipe.all (fun it => match it with
    | .one a => lookupShape r.attrs a == some .node
    | .many a => lookupShape r.attrs a == some .nodeList) &&
  !(r.attrs.map (·.1)).contains commentsAttr

def coverTable (tbl : Table) : Bool := tbl.all coverRow

/-- no children() recipe mentions the `comments` attribute -/
def commentsNeverReturned (tbl : Table) : Bool :=
  tbl.all (fun r => !(r.recipe.map Item.name).contains commentsAttr)

/-- what a slot may hold -/
inductive Slot where
  | must     -- a node (root, list item)
  | opt      -- a node or None
  | lst      -- a list of nodes
  | scal     -- None / bool / int / str
  | any      -- not constrained (the `comments` attribute)
  deriving DecidableEq, Repr

def slotOf (r : Row) (a : String) : Slot :=
  if a == commentsAttr then .any else
  match lookupShape r.attrs a with
  | some .node => .opt
  | some .nodeList => .lst
  | some .scalar => .scal
  | none => .scal        -- attributes the table does not know (lexpos, @id, …) must be scalar

mutual
  def wfAs (tbl : Table) : Slot → Val → Bool
    | s, .node k as =>
        if s == .any then true else
        (s == .must || s == .opt) &&
        (match findRow tbl k with
         | none => false
         | some r =>
            nodupB (as.map (·.1)) && r.attrs.all (fun e => (lookup as e.1).isSome) &&
            wfAttrs tbl r as)
    | s, .list xs => if s == .any then true else s == .lst && wfList tbl xs
    | s, .none => s == .opt || s == .scal || s == .any
    | s, _ => s == .scal || s == .any
  def wfAttrs (tbl : Table) (r : Row) : List (String × Val) → Bool
    | [] => true
    | (a, x) :: rest => wfAs tbl (slotOf r a) x && wfAttrs tbl r rest
  def wfList (tbl : Table) : List Val → Bool
    | [] => true
    | x :: xs => wfAs tbl .must x && wfList tbl xs
end

/-- `t` is a node whose class is in the table, every node in it (outside `comments`) too,
attribute names are distinct, every attribute the table lists is present with the listed
shape, and attributes the table does not list hold no nodes -/
def wf (tbl : Table) (t : Val) : Bool := wfAs tbl .must t

mutual
  /-- within every node (outside `comments` unless `full`) the attribute names are distinct
  (a Python `vars()` dict cannot be otherwise; needed because `Val` keeps attributes in a list) -/
  def dnV (full : Bool) : Val → Bool
    | .node _ as => nodupB (as.map (·.1)) && dnAttrs full as
    | .list xs => dnList full xs
    | _ => true
  def dnAttrs (full : Bool) : List (String × Val) → Bool
    | [] => true
    | (a, x) :: rest => (if !full && a == commentsAttr then true else dnV full x) && dnAttrs full rest
  def dnList (full : Bool) : List Val → Bool
    | [] => true
    | x :: xs => dnV full x && dnList full xs
end

def distinctNames (full : Bool) (t : Val) : Bool := dnV full t

end CalmVerif.Model.Walk
