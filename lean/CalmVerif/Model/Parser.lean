/-
The composed model of `calmjs.parse.parsers.es5.parse(text, with_comments)`:
  Model.Lexer (token source incl. `auto_semi`, `backtracked_token`, `lookup_colno`)
  × Model.LR  (ply's driver over the regenerated LALR tables)
  × Model.Actions (the probed p_* semantic actions, `setpos`, `set_comments`)
with `Parser.p_error` and `Parser._raise_syntax_error` transcribed here.
-/
import CalmVerif.Model.Lexer
import CalmVerif.Model.LR
import CalmVerif.Model.Actions
import CalmVerif.Model.Grammar
import CalmVerif.Gen.Actions
import CalmVerif.Gen.LexData
namespace CalmVerif.Model.Parser
open CalmVerif CalmVerif.Model CalmVerif.Model.LR CalmVerif.Model.Lexer

inductive PErr where
  | lex (e : Lexer.Err)               -- raised by the lexer or by p_error (ECMASyntaxError / regex / internal …)
  | act (e : Actions.Err)             -- raised by a semantic action (ProductionError → ECMASyntaxError, or internal)
  deriving Repr

def toTok (t : Token) : Actions.Tok :=
  { type := t.type, value := String.ofList t.value, lexpos := t.lexpos, lineno := t.lineno, colno := t.colno,
    hidden := t.hidden.map fun c => (c.type, String.ofList c.value, c.lexpos, c.lineno, c.colno) }

/-- `Parser._raise_syntax_error(token)` -/
def raiseSyntaxError (st : LexState) (tok : Option Token) : PErr :=
  -- the third element is `self.lexer.token()`, which may itself raise
  match Lexer.token st with
  | .error e => .lex e
  | .ok (nxt, _) =>
    let shown : Option Token := match tok with
      | some t => if t.auto then none else some t
      | none => none
    let toks := [st.validPrevToken, shown, nxt].filterMap id |>.map formatLexToken
    let msg := match toks with
      | [] => "Unexpected end of input"
      | [a] => "Unexpected end of input after " ++ a
      | [a, b] => "Unexpected " ++ b ++ " after " ++ a
      | a :: b :: c :: _ => "Unexpected " ++ b ++ " between " ++ a ++ " and " ++ c
    .lex (.syntax msg)

/-- `Parser.p_error(token)`: `.ok (some t, st)` = a replacement look-ahead was returned after `errok()` -/
def pError (st : LexState) (tok : Option Token) : Except PErr (Option Token × LexState) :=
  match autoSemi st tok with
  | (some semi, st1) => .ok (some semi, st1)
  | (none, st1) =>
    -- `cur_token = self.lexer.cur_token or token`
    match (st1.curToken <|> tok) with
    | none => .error (.lex (.internal "AttributeError"))
    | some cur =>
      let backtrack : Bool := Gen.LexData.backtrackCur.contains cur.type &&
        (match st1.validPrevToken with
          | some vp => Gen.LexData.backtrackPrev.contains vp.type
          | none => false)
      if backtrack then
        match backtrackedToken st1 1 with
        | .error e => .error (.lex e)
        | .ok (none, _) => .error (.lex (.internal "AttributeError"))
        | .ok (some rt, st2) =>
          if rt.type = "REGEX" then .ok (some rt, st2)
          else .error (raiseSyntaxError st2 tok)
      else .error (raiseSyntaxError st1 tok)

def source : Source Token LexState PErr :=
  { next := fun st => match Lexer.token st with
      | .ok r => .ok r
      | .error e => .error (.lex e),
    onError := pError }

def sem (T : Tables) : Sem Token Actions.PVal LexState PErr :=
  { ty := fun t => (Grammar.termIdx t.type).getD T.numTerminals,
    leaf := fun t => Actions.leaf (toTok t),
    reduce := fun p args st =>
      let lookupCol : Nat → Nat → Option Int := fun lineno lexpos =>
        match lookupColno st lineno lexpos with
        | .ok c => some c
        | .error _ => none
      match Actions.reduce Gen.Actions.actions st.withComments lookupCol p args (st.lexpos, st.lineno) with
      | .ok v => .ok v
      | .error e => .error (.act e) }

/-- fuel of the LR loop: generous multiple of the text length (every step shifts, reduces or repairs) -/
def parseFuel (text : List Char) : Nat := 500 * (text.length + 1)

def parseWith (T : Tables) (text : List Char) (withComments : Bool) : Outcome Actions.PVal PErr :=
  (run T (sem T) source (parseFuel text) (initConfig (Lexer.init text withComments false))).1

/-- `parse(text, with_comments)` with the tables of the generated modules -/
def parse (text : List Char) (withComments : Bool) : Outcome Actions.PVal PErr :=
  parseWith Grammar.cached text withComments

end CalmVerif.Model.Parser
