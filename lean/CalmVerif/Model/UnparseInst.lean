/-
The unparser model instantiated with the generated tables (Gen/Defs.lean, Gen/Rules.lean):
`requiredSpace` from the class table, `HData`, `Tables`, the configuration of every rule set.
No Mathlib, no proofs.
-/
import CalmVerif.Model.Unparse
import CalmVerif.Gen.Defs
import CalmVerif.Gen.Rules
namespace CalmVerif.Unparse
open CalmVerif

def inRanges (n : Nat) : List (Nat × Nat) → Bool
  | [] => false
  | (a, b) :: rest => (a ≤ n && n ≤ b) || inRanges n rest

/-- index of the first class whose ranges hold `n`, else the default class -/
def classOfAux (dflt : Nat) (n : Nat) : Nat → List (List (Nat × Nat)) → Nat
  | _, [] => dflt
  | i, c :: cs => if inRanges n c then i else classOfAux dflt n (i + 1) cs

def spaceClassOf (c : Char) : Nat :=
  classOfAux Gen.Rules.spaceDefaultClass c.toNat 0 Gen.Rules.spaceClasses

/-- what the compiled `required_space` regex answers on the two-character string `c1 c2` -/
def requiredSpaceGen (c1 c2 : Char) : Bool :=
  match Gen.Rules.spaceTable[spaceClassOf c1]? with
  | some row => row[spaceClassOf c2]?.getD false
  | none => false

def hdataGen : HData where
  assignmentTokens := Gen.Rules.assignmentTokens
  optionalRhsSpaceTokens := Gen.Rules.optionalRhsSpaceTokens
  spaceImply := Gen.Rules.spaceImply
  spaceDrop := Gen.Rules.spaceDrop
  headerKinds := Gen.Rules.headerKinds
  requiredSpace := requiredSpaceGen
  lineContSingle := Gen.Rules.lineContSingle
  lineContPairs := Gen.Rules.lineContPairs
  dispIndent := Gen.Rules.dispatcherIndentStr
  newline := Gen.Rules.dispatcherNewlineStr
  identifierKinds := Gen.Defs.identifierKinds
  elisionKinds := Gen.Defs.elisionKinds
  emptyIndentFallsBack := Gen.Rules.indentatorEmptyFallsBack

def tablesGen : Tables where
  defs := Gen.Defs.definitions
  hd := hdataGen
  elisionSep := Gen.Defs.elisionSep
  iterKinds := Gen.Defs.iterKinds

def findRuleSet (name : String) : Option RuleSet :=
  Gen.Rules.ruleSets.find? (fun r => r.name == name)

/-- the pretty printer `Unparser(rules=(rules.indent(indent_str),))` without hooks -/
def prettyCfg (indentStr : Option String) : Cfg Unit :=
  mkCfg tablesGen Gen.Rules.rs_indent indentStr defaultResolve

end CalmVerif.Unparse
