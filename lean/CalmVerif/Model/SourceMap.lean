/-
Model of /repo/src/calmjs/parse/sourcemap.py :
  `Names`, `Bookkeeper` (as used by `write`), `Book`, `default_book`,
  `normalize_mapping_line`, `normalize_mappings`, `write`
  (up to, and not including, `encode_mappings`, which is Model.Vlq / C10).

Conventions
  * text is `List Char`; `len` is `List.length` (code points, as Python 3 `str`).
  * a raw mapping segment is a `List Int` (Python 1-, 4- or 5-tuple), a mapping
    line a `List (List Int)`, the mappings a `List (List (List Int))`.
  * `mappings` (a non-empty Python list whose last element is "the current
    line") is the pair `done` (= `mappings[:-1]`) and `cur` (= `mappings[-1]`).
  * The model covers `write(stream_fragments, stream, normalize)` with the
    optional arguments `book, sources, names, mappings` left at `None`
    (the only form used by `calmjs.parse.io.write` and the unparser API).
    Under `default_book()` the three bookkeeper attributes `sink_column`,
    `source_line`, `source_column` always exist (`_hasattr` is true), hence the
    `AttributeError` paths of `Bookkeeper` are unreachable from `write`; all
    values assigned are `int`, hence the `TypeError` path is unreachable too.
  * Three DIFFERENT character classes are used by `write`; they are parameters
    (`CharClasses`) so that the tie can compare them with the running interpreter:
      - `brk` : the characters at which `str.splitlines` breaks a line
                (`\r\n` is additionally treated as ONE break, as CPython does);
      - `nl`  : `line[-1:] in '\r\n'`  (only CR and LF);
      - `ws`  : the characters `str.rstrip()` removes (`str.isspace`).
    `pyClasses` is the concrete instance for CPython 3.12.
-/
namespace CalmVerif.Model.SourceMap

/-! ### character classes -/

structure CharClasses where
  brk : Char → Bool
  nl : Char → Bool
  ws : Char → Bool

/-- code points at which `str.splitlines` breaks (CPython `Py_UNICODE_ISLINEBREAK`) -/
def pyBreakCodes : List Nat :=
  [0x0A, 0x0B, 0x0C, 0x0D, 0x1C, 0x1D, 0x1E, 0x85, 0x2028, 0x2029]

/-- code points for which `str.isspace` holds (CPython `Py_UNICODE_ISSPACE`) -/
def pySpaceCodes : List Nat :=
  [0x09, 0x0A, 0x0B, 0x0C, 0x0D, 0x1C, 0x1D, 0x1E, 0x1F, 0x20, 0x85, 0xA0, 0x1680,
   0x2000, 0x2001, 0x2002, 0x2003, 0x2004, 0x2005, 0x2006, 0x2007, 0x2008, 0x2009, 0x200A,
   0x2028, 0x2029, 0x202F, 0x205F, 0x3000]

def isNl (c : Char) : Bool := c == '\r' || c == '\n'

def pyClasses : CharClasses where
  brk := fun c => pyBreakCodes.contains c.toNat
  nl := isNl
  ws := fun c => pySpaceCodes.contains c.toNat

/-- `chunk.splitlines(True)` : break after every `brk` character, `\r\n` counting as one
break; line ends are kept; a trailing piece without line end is kept if non-empty. -/
def splitLines (brk : Char → Bool) : List Char → List (List Char)
  | [] => []
  | [c] => [[c]]
  | c :: d :: cs =>
    if brk c then
      if c = '\r' ∧ d = '\n' then [c, d] :: splitLines brk cs
      else [c] :: splitLines brk (d :: cs)
    else
      match splitLines brk (d :: cs) with
      | [] => [[c]]
      | l :: ls => (c :: l) :: ls

/-- `line[-1:] in '\r\n'` ; for the empty string `'' in '\r\n'` is `True` -/
def endsNl (nl : Char → Bool) (line : List Char) : Bool :=
  match line.getLast? with
  | none => true
  | some c => nl c

/-- `line.rstrip()` -/
def rstrip (ws : Char → Bool) (line : List Char) : List Char :=
  (line.reverse.dropWhile ws).reverse

/-! ### `Names` -/

/-- `_names` is a dict `name ↦ index` whose values are `0, 1, 2, …` in insertion order:
it is the list of keys in insertion order; `_current` is the last index returned. -/
structure Names (α : Type) where
  keys : List α
  current : Nat
  deriving Repr

def Names.empty {α : Type} : Names α := ⟨[], 0⟩

/-- `Names.update(name)` for `name is not None`; returns the new state and `result`. -/
def Names.add {α : Type} [DecidableEq α] (n : Names α) (a : α) : Names α × Int :=
  let keys' := if a ∈ n.keys then n.keys else n.keys ++ [a]
  let idx := keys'.idxOf a
  (⟨keys', idx⟩, (idx : Int) - (n.current : Int))

/-- `Names.update(name)`; `none` result is Python `None` -/
def Names.update {α : Type} [DecidableEq α] (n : Names α) : Option α → Names α × Option Int
  | none => (n, none)
  | some a => let r := n.add a; (r.1, some r.2)

/-! ### `Bookkeeper` : one (`_prev`, `_curr`) pair per attribute -/

structure Cell where
  prev : Int
  curr : Int
  deriving Repr

/-- first assignment `bk.attr = v` (attribute not yet present) and `bk._attr = v` -/
def Cell.reset (v : Int) : Cell := ⟨v, v⟩
/-- `bk.attr = v` when the attribute exists : `_curr, _prev = v, _curr` -/
def Cell.set (c : Cell) (v : Int) : Cell := ⟨c.curr, v⟩
/-- `bk.attr` : the delta -/
def Cell.rel (c : Cell) : Int := c.curr - c.prev
/-- `bk._attr` : the absolute current value -/
def Cell.abs (c : Cell) : Int := c.curr

/-- `Book` with its `Bookkeeper` restricted to the three attributes `write` uses -/
structure Book where
  sink : Cell        -- keeper.sink_column
  sline : Cell       -- keeper.source_line
  scol : Cell        -- keeper.source_column
  writtenLen : Nat
  originalLen : Nat
  deriving Repr

/-- `default_book()` -/
def defaultBook : Book :=
  { sink := Cell.reset 0, sline := Cell.reset 1, scol := Cell.reset 1, writtenLen := 0, originalLen := 0 }

/-! ### fragments -/

/-- the `source` element of a fragment when it is not `None` -/
inductive Src where
  | invalid                    -- `NotImplemented`
  | path (s : List Char)       -- a `str`
  deriving DecidableEq, Repr

structure Frag where
  text : List Char
  lineno : Option Nat            -- `None`, `0` (inferred) or positive
  colno : Option Nat
  name : Option (List Char)      -- original_name
  source : Option Src            -- `None` = implicit
  deriving Repr

abbrev Seg := List Int
abbrev MLine := List Seg
abbrev Mappings := List MLine

structure WState where
  done : Mappings              -- mappings[:-1]
  cur : MLine                  -- mappings[-1]
  book : Book
  names : Names (List Char)
  sources : Names Src
  deriving Repr

/-- state after `mappings = []; push_line()` with fresh `Names` and `default_book()` -/
def WState.init : WState :=
  { done := [], cur := [], book := defaultBook, names := Names.empty, sources := Names.empty }

/-- `push_line()` : `mappings.append([]); book.keeper._sink_column = 0` -/
def pushLine (st : WState) : WState :=
  { st with done := st.done ++ [st.cur], cur := [],
            book := { st.book with sink := Cell.reset 0 } }

/-- the part of the loop body before `if line[-1:] in '\r\n'` : appends one segment -/
def emitSeg (st : WState) (lineno colno : Option Nat) (name : Option (List Char))
    (source : Option Src) : WState :=
  match lineno, colno with
  | some ln, some cn =>
    -- name_id = names.update(original_name)
    let nu := st.names.update name
    -- source_id = sources.update(source) or 0
    let su := st.sources.update source
    let sourceId : Int := match su.2 with
      | none => 0
      | some v => v
    -- if lineno: keeper.source_line = lineno; source_line = keeper.source_line  else 0
    let sline' := if ln ≠ 0 then st.book.sline.set ln else st.book.sline
    let sourceLine : Int := if ln ≠ 0 then sline'.rel else 0
    -- if colno: keeper.source_column = colno else … = keeper._source_column + book.original_len
    let scol' := if cn ≠ 0 then st.book.scol.set cn
                 else st.book.scol.set (st.book.scol.abs + st.book.originalLen)
    let seg : Seg := match nu.2 with
      | some nameId => [st.book.sink.rel, sourceId, sourceLine, scol'.rel, nameId]
      | none => [st.book.sink.rel, sourceId, sourceLine, scol'.rel]
    { st with cur := st.cur ++ [seg], names := nu.1, sources := su.1,
              book := { st.book with sline := sline', scol := scol' } }
  | _, _ =>
    -- lineno is None or colno is None
    { st with cur := st.cur ++ [[st.book.sink.rel]] }

/-- one iteration of `for line in lines:`; returns the new state and the (mutated)
local variables `lineno`, `colno` -/
def writePiece (cc : CharClasses) (st : WState) (line : List Char) (lineno colno : Option Nat)
    (name : Option (List Char)) (source : Option Src) : WState × Option Nat × Option Nat :=
  let st1 := emitSeg st lineno colno name source
  if endsNl cc.nl line then
    -- colno = colno if colno in (0, None) else colno + len(line.rstrip())
    let colno' : Option Nat := match colno with
      | none => none
      | some 0 => some 0
      | some (c + 1) => some (c + 1 + (rstrip cc.ws line).length)
    let st2 := pushLine { st1 with book := { st1.book with originalLen := 0, writtenLen := 0 } }
    -- if lineno and colno: lineno += 1; colno = 1
    match lineno, colno' with
    | some (l + 1), some (_ + 1) => (st2, some (l + 2), some 1)
    | _, _ => (st2, lineno, colno')
  else
    let wl := line.length
    -- len(original_name) if original_name else written_len   (`''` is falsy)
    let ol := match name with
      | some nm => if nm ≠ [] then nm.length else wl
      | none => wl
    let st2 := { st1 with book := { st1.book with writtenLen := wl, originalLen := ol,
                                                  sink := st1.book.sink.set (st1.book.sink.abs + wl) } }
    (st2, lineno, colno)

/-- `for line in lines:` -/
def writePieces (cc : CharClasses) (st : WState) (lines : List (List Char)) (lineno colno : Option Nat)
    (name : Option (List Char)) (source : Option Src) : WState :=
  match lines with
  | [] => st
  | line :: rest =>
    let r := writePiece cc st line lineno colno name source
    writePieces cc r.1 rest r.2.1 r.2.2 name source

/-- body of `for chunk, lineno, colno, original_name, source in stream_fragments:` -/
def writeFrag (cc : CharClasses) (st : WState) (f : Frag) : WState :=
  writePieces cc st (splitLines cc.brk f.text) f.lineno f.colno f.name f.source

def writeLoop (cc : CharClasses) (st : WState) (frags : List Frag) : WState :=
  frags.foldl (writeFrag cc) st

/-! ### normalisation -/

structure NState where
  r0 : Int                 -- record[0]
  r3 : Int                 -- record[3]
  result : MLine
  regen : Bool             -- regen_next
  deriving Repr

/-- `result and len(result[-1]) != 1` -/
def lastNot1 (result : MLine) : Bool :=
  match result.getLast? with
  | none => false
  | some s => s.length != 1

/-- one iteration of the loop of `normalize_mapping_line`; `none` = `IndexError`
(`segment[3]` of a 2- or 3-tuple) -/
def normStep (s : NState) (seg : Seg) : Option NState :=
  match seg with
  | [] => some s                                            -- `if not segment: continue`
  | [a] =>
    let r0 := s.r0 + a
    if lastNot1 s.result then
      some { s with r0 := 0, result := s.result ++ [[r0]], regen := true }
    else some { s with r0 := r0 }
  | a :: b :: c :: d :: rest =>
    let r0 := s.r0 + a
    let r3 := s.r3 + d
    let is5 := rest.length == 1
    if is5 || s.regen || b != 0 || c != 0 || r0 != r3 then
      -- regenerate(segment); record[:] = [0, 0, 0, 0]
      let out : Seg := match rest with
        | [e] => [r0, b, c, r3, e]
        | _ => [r0, b, c, r3]
      some { r0 := 0, r3 := 0, result := s.result ++ [out], regen := is5 }
    else some { s with r0 := r0, r3 := r3 }
  | _ => none

def normLoop (s : NState) : MLine → Option NState
  | [] => some s
  | seg :: rest => match normStep s seg with
    | none => none
    | some s' => normLoop s' rest

/-- `normalize_mapping_line(mapping_line, previous_source_column)` -/
def normalizeMappingLine (ml : MLine) (prevCol : Int) : Option (MLine × Int) :=
  match ml with
  | [] => some ([], prevCol)
  | _ => (normLoop { r0 := 0, r3 := prevCol, result := [], regen := true } ml).map
           (fun s => (s.result, s.r3))

/-- `normalize_mappings(mappings, column)` -/
def normalizeMappings : Mappings → Int → Option Mappings
  | [], _ => some []
  | ml :: rest, column =>
    match normalizeMappingLine ml column with
    | none => none
    | some (newMl, column') =>
      match normalizeMappings rest column' with
      | none => none
      | some r => some (newMl :: r)

/-! ### `write` -/

def invalidSource : List Char := "about:invalid".toList

def renderSrc : Src → List Char
  | .invalid => invalidSource
  | .path s => s

/-- `[INVALID_SOURCE if s == NotImplemented else s for s in sources] or [INVALID_SOURCE]` -/
def finalSources (keys : List Src) : List (List Char) :=
  match keys.map renderSrc with
  | [] => [invalidSource]
  | l => l

structure WriteResult where
  mappings : Mappings
  sources : List (List Char)
  names : List (List Char)
  deriving Repr

/-- `write(stream_fragments, stream, normalize)`; `none` = an exception escaped
(only `IndexError` inside `normalize_mapping_line`, shown unreachable in the proofs). -/
def write (cc : CharClasses) (normalize : Bool) (frags : List Frag) : Option WriteResult :=
  let st := writeLoop cc WState.init frags
  let raw := st.done ++ [st.cur]
  let ms : Option Mappings := if normalize then normalizeMappings raw 0 else some raw
  ms.map fun m => { mappings := m, sources := finalSources st.sources.keys, names := st.names.keys }

/-- the text written to the stream -/
def output (frags : List Frag) : List Char := (frags.map (·.text)).flatten

/-! ### well-formed streams (decidable) -/

/-- no text ends in CR while the next non-empty text begins with LF
(`prevCR` : the text written so far ends in CR) -/
def noSplitCRLF (prevCR : Bool) : List (List Char) → Bool
  | [] => true
  | [] :: rest => noSplitCRLF prevCR rest
  | (c :: cs) :: rest =>
    !(prevCR && c == '\n') && noSplitCRLF ((c :: cs).getLast? == some '\r') rest

/-- `lineno` and `colno` are both given or both `None` (docstring of `write`) -/
def bothOrNone (f : Frag) : Bool := f.lineno.isSome == f.colno.isSome

def wfStream (frags : List Frag) : Bool :=
  frags.all bothOrNone && noSplitCRLF false (frags.map (·.text))

/-! ### vocabulary of the property statements -/

/-- explicitly positioned: `lineno` and `colno` both present and non-zero -/
def explicit (f : Frag) : Bool :=
  match f.lineno, f.colno with
  | some (_ + 1), some (_ + 1) => true
  | _, _ => false

/-- a fragment whose `source` element is looked at by `write`: it writes something and is
not an unmapped (`None` position) fragment -/
def registers (f : Frag) : Bool := !f.text.isEmpty && f.lineno.isSome && f.colno.isSome

/-- the source in force after a prefix of the stream: the `source` element of the most recent
registering fragment that has one (`None` = implicit = unchanged) -/
def effSource (fs : List Frag) : Option Src :=
  fs.foldl (fun acc f => if registers f then (match f.source with | some s => some s | none => acc) else acc) none

end CalmVerif.Model.SourceMap
