/-
Model of /repo/src/calmjs/parse/vlq.py (hand-written, mirrors the Python control
flow; parameterised by the constants of `Gen.Vlq`, which are regenerated from the
imported module on every run).  No Mathlib, no proofs.

Conventions
  * Python `str` is `List Char`; a Python `int` that the code can only ever make
    non-negative (`raw`, the decoder accumulator `i`, `shift`, table values) is a
    `Nat`; the user-facing integers are `Int`.
  * Python's partial operations are explicit error outcomes (`Err`), never a
    default:  `B64_INT[c]` → `keyError c`,  `INT_B64[n]` / `result[-1]` →
    `indexError`,  `next(gen)` on an exhausted generator → `stopIteration`.
  * `while raw:` is recursion on explicit fuel; running out of fuel is the outcome
    `nonTermination` (the Python loop would spin forever, e.g. with VLQ_SHIFT = 0).
    `encLoop_fuel` (Proofs/VlqEncode.lean; Props.C10.encode_loop_terminates) shows the supplied fuel (`raw`) suffices.
  * Quirks mirrored on purpose: the decoder silently drops an unterminated trailing
    group; `decode_vlq` is lazy (characters after the first complete group are never
    looked at, so a foreign character there raises nothing); `decode_mappings` drops
    empty segments (`if frags`) and `"".split(';')` is `['']`.
-/
import CalmVerif.Gen.Vlq

namespace CalmVerif.Model.Vlq
open CalmVerif.Gen.Vlq

inductive Err where
  | keyError (c : Char)
  | indexError
  | stopIteration
  | nonTermination
  deriving DecidableEq, Repr

deriving instance DecidableEq for Except

/-! ### table access -/

/-- `INT_B64[n]` for `n ≥ 0` -/
def intB64 (n : Nat) : Except Err Char :=
  match INT_B64[n]? with
  | some c => .ok c
  | none => .error .indexError

/-- `B64_INT[c]` -/
def b64Int (c : Char) : Except Err Nat :=
  match B64_INT.lookup c with
  | some v => .ok v
  | none => .error (.keyError c)

/-- left-to-right map that stops at the first exception (a Python generator
expression / comprehension whose body may raise) -/
def mapE {α β : Type} (f : α → Except Err β) : List α → Except Err (List β)
  | [] => .ok []
  | a :: as =>
    match f a with
    | .error e => .error e
    | .ok b =>
      match mapE f as with
      | .error e => .error e
      | .ok bs => .ok (b :: bs)

/-! ### encode_vlq -/

/-- `raw = (-i << 1) + 1 if i < 0 else i << 1` -/
def rawOf (i : Int) : Nat :=
  if i < 0 then ((-i).toNat <<< 1) + 1 else i.toNat <<< 1

/-- ```
    while raw:
        result.append(raw & VLQ_BASE_MASK | VLQ_CONT)
        raw = raw >> VLQ_SHIFT
    ```
    returns `result` (in append order) -/
def encLoop : Nat → Nat → Except Err (List Nat)
  | fuel, raw =>
    if raw = 0 then .ok []
    else match fuel with
      | 0 => .error .nonTermination
      | fuel' + 1 =>
        match encLoop fuel' (raw >>> VLQ_SHIFT) with
        | .error e => .error e
        | .ok rest => .ok (((raw &&& VLQ_BASE_MASK) ||| VLQ_CONT) :: rest)

/-- `result[-1] &= VLQ_BASE_MASK` -/
def clearLast : List Nat → Except Err (List Nat)
  | [] => .error .indexError
  | [x] => .ok [x &&& VLQ_BASE_MASK]
  | x :: y :: ys =>
    match clearLast (y :: ys) with
    | .error e => .error e
    | .ok r => .ok (x :: r)

def encodeVlq (i : Int) : Except Err (List Char) :=
  let raw := rawOf i
  if raw < VLQ_MULTI_CHAR then
    match intB64 raw with
    | .error e => .error e
    | .ok c => .ok [c]
  else
    match encLoop raw raw with
    | .error e => .error e
    | .ok result =>
      match clearLast result with
      | .error e => .error e
      | .ok result' => mapE intB64 result'

/-- `''.join(encode_vlq(i) for i in ints)` -/
def encodeVlqs (ints : List Int) : Except Err (List Char) :=
  match mapE encodeVlq ints with
  | .error e => .error e
  | .ok parts => .ok parts.flatten

/-! ### vlq_decoder / decode_vlq / decode_vlqs -/

/-- `sign = -1 if 1 & i else 1; yield (i >> 1) * sign` -/
def emit (i : Nat) : Int :=
  let sign : Int := if 1 &&& i ≠ 0 then -1 else 1
  ((i >>> 1 : Nat) : Int) * sign

/-- `tuple(vlq_decoder(s))` started in loop state `(i, shift)`.
When the string ends inside a group the pending `(i, shift)` is dropped. -/
def vlqDecoder (i shift : Nat) : List Char → Except Err (List Int)
  | [] => .ok []
  | c :: cs =>
    match b64Int c with
    | .error e => .error e
    | .ok raw =>
      let cont := VLQ_CONT &&& raw
      let i' := ((VLQ_BASE_MASK &&& raw) <<< shift) ||| i
      let shift' := shift + VLQ_SHIFT
      if cont = 0 then
        match vlqDecoder 0 0 cs with
        | .error e => .error e
        | .ok rest => .ok (emit i' :: rest)
      else vlqDecoder i' shift' cs

def decodeVlqs (s : List Char) : Except Err (List Int) := vlqDecoder 0 0 s

/-- `next(vlq_decoder(s))` started in loop state `(i, shift)`: runs the generator up
to its first `yield` only -/
def vlqDecoderFirst (i shift : Nat) : List Char → Except Err Int
  | [] => .error .stopIteration
  | c :: cs =>
    match b64Int c with
    | .error e => .error e
    | .ok raw =>
      let cont := VLQ_CONT &&& raw
      let i' := ((VLQ_BASE_MASK &&& raw) <<< shift) ||| i
      let shift' := shift + VLQ_SHIFT
      if cont = 0 then .ok (emit i') else vlqDecoderFirst i' shift' cs

def decodeVlq (s : List Char) : Except Err Int := vlqDecoderFirst 0 0 s

/-! ### encode_mappings / decode_mappings -/

/-- `sep.join(parts)` -/
def join (sep : Char) : List (List Char) → List Char
  | [] => []
  | [x] => x
  | x :: y :: ys => x ++ sep :: join sep (y :: ys)

/-- `s.split(sep)` for a one-character separator, as (first piece, other pieces);
Python always returns at least one piece (`''.split(';') == ['']`) -/
def splitHT (sep : Char) : List Char → List Char × List (List Char)
  | [] => ([], [])
  | c :: cs =>
    let r := splitHT sep cs
    if c = sep then ([], r.1 :: r.2) else (c :: r.1, r.2)

def split (sep : Char) (s : List Char) : List (List Char) :=
  let r := splitHT sep s
  r.1 :: r.2

abbrev Segment := List Int
abbrev Line := List Segment
abbrev Mappings := List Line

def encodeLine (line : Line) : Except Err (List Char) :=
  match mapE encodeVlqs line with
  | .error e => .error e
  | .ok parts => .ok (join ',' parts)

def encodeMappings (m : Mappings) : Except Err (List Char) :=
  match mapE encodeLine m with
  | .error e => .error e
  | .ok parts => .ok (join ';' parts)

/-- `list(decode_vlqs(frags) for frags in line.split(',') if frags)` -/
def decodeLine (line : List Char) : Except Err Line :=
  mapE decodeVlqs ((split ',' line).filter (fun frags => !frags.isEmpty))

/-- `list(decode_line(line) for line in mappings_str.split(';'))` -/
def decodeMappings (s : List Char) : Except Err Mappings :=
  mapE decodeLine (split ';' s)

end CalmVerif.Model.Vlq
