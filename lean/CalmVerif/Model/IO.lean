/-
Model of `calmjs.parse.io.read` / `io.write` and of the stream interaction of
`sourcemap.write` / `sourcemap.write_sourcemap` as a fault-injectable state machine
(property C18).  No Mathlib, no proofs.

What is mirrored (statement by statement, see the comments at each definition):

* `io.read`: `source = stream() if callable(stream) else stream` *before* the `try`,
  `source.read()`, `getattr(source, 'name', None)`, the parser call, the re-raise of an
  `ECMASyntaxError` as `type(e)('%s in %s' % (str(e), repr_compat(stream_name or source)))`,
  the `finally: if callable(stream): source.close()`, `result.sourcepath = stream_name`.
* `io.write`: the `closer` list, `get_stream` (a failing factory appends nothing), `cleanup`
  walking `reversed(closer)`, the creation of the chunk generator(s) *before* the `try`
  (`unparser(nodes)` for a Node, `[unparser(n) for n in nodes if isinstance(n, Node)]` and
  `chain(*raw)` for an iterable), `if not chunks: raise TypeError`, then inside the `try`
  `out_s = get_stream(output_stream)`, the identification
  `sourcemap_stream is output_stream` (decided on the *arguments*, before any factory of the
  source map is called, re-using `out_s`), `sourcemap.write` consuming the generator lazily
  with one `stream.write(line)` per line of every chunk, `if sourcemap_stream:` (truthiness),
  `get_stream(sourcemap_stream)`, `write_sourcemap`.
* `write_sourcemap`: `getattr(output_stream, 'name', INVALID_SOURCE)`,
  `getattr(sourcemap_stream, 'name', INVALID_SOURCE)`, the `normalize_paths` branch, `json.dumps`,
  the `sourcemap_stream is output_stream` branch (`getattr(…, 'encoding', None) or 'utf8'`,
  base64, ONE `writelines` call with four items), otherwise the optional `writelines` of the
  URL comment (three items) followed by ONE `sourcemap_stream.write(encoded)`.

Every primitive whose failure the property quantifies over consults the *fault plan*
`plan : Prim → Nat → Option Exc` with its own occurrence counter (`tick`).  A failing primitive
appends `Event.fault` to the trace (so "some primitive failed" is visible in the trace) and
raises; exceptions are values.

Uninterpreted (an `Oracle`, all theorems quantify over it): `os.path.relpath/normpath/dirname` inside `normrelpath`
(its `isabs` guard IS modelled, posix), 
the pure part of `sourcemap.write` (mappings, sources, names), `json.dumps ∘ encode_sourcemap`,
base64 of the encoded text, `repr`.

Assumptions of the model (reported in the evidence):
* the unparser is a generator function (calling it runs no user code that yields fragments; the
  object it returns is truthy), fragments are 5-tuples whose text has been split into lines by the
  harness (`str.splitlines(True)` is not modelled);
* stream objects are not callable, factories are; `close` exists on every stream a factory returns;
* a `name`/`encoding` property raising `AttributeError` is the same as a missing attribute
  (Python's `getattr` with default) and is modelled as `none`, not as a fault;
* the pure bookkeeping of `sourcemap.write`/`encode_sourcemap` does not raise.
-/
namespace CalmVerif.IO

abbrev Sid := Nat

/-- exceptions as values: class name, message, and whether the class derives from `ECMASyntaxError` -/
structure Exc where
  cls : String
  msg : String
  isSyntax : Bool := false
  deriving DecidableEq, Repr, Inhabited

/-- the primitives that can be made to fail -/
inductive Prim where
  | factory (f : Nat)        -- call of stream factory number `f`
  | read (s : Sid)           -- `s.read()`
  | getName (s : Sid)        -- `getattr(s, 'name', …)` (a property raising something else than AttributeError)
  | getEncoding (s : Sid)    -- `getattr(s, 'encoding', None)`
  | parse                    -- `parser(text)`
  | unparse                  -- `unparser(node)` (creation of a generator)
  | fragment                 -- one resumption of an unparser generator (yield of a fragment, or its exhaustion)
  | write (s : Sid)          -- `s.write(x)`
  | writelines (s : Sid)     -- `s.writelines(xs)`
  | serialise                -- `json.dumps(encode_sourcemap(…))`
  | b64                      -- `base64.b64encode(text.encode(encoding)).decode('ascii')`
  | close (s : Sid)          -- `s.close()`
  deriving DecidableEq, Repr

inductive Event where
  | opened (f : Nat) (s : Sid)              -- factory `f` was called and returned stream `s`
  | read (s : Sid)
  | wrote (s : Sid) (x : String)            -- one `write` call
  | wrotelines (s : Sid) (xs : List String) -- one `writelines` call
  | closed (s : Sid)
  | fault (p : Prim) (k : Nat) (e : Exc)    -- the `k`-th (0-based) use of `p` raised `e`
  deriving DecidableEq, Repr

/-- fault plan: does the `k`-th (0-based) use of primitive `p` raise, and what -/
abbrev Plan := Prim → Nat → Option Exc

structure St where
  trace : List Event := []
  counts : Prim → Nat := fun _ => 0
  /-- `closer` of `io.write`, in append order (streams whose bound `close` was appended) -/
  closer : List Sid := []

abbrev Res (α : Type) := Except Exc α × St

/-- state + exception monad; the state survives an exception (events stay logged) -/
def M (α : Type) := St → Res α

@[inline] def M.pure (a : α) : M α := fun s => (.ok a, s)
@[inline] def M.bind (m : M α) (f : α → M β) : M β := fun s =>
  match m s with
  | (.ok a, s') => f a s'
  | (.error e, s') => (.error e, s')

instance : Monad M where
  pure := M.pure
  bind := M.bind

def raise (e : Exc) : M α := fun s => (.error e, s)

def emit (ev : Event) : M Unit := fun s => (.ok (), { s with trace := s.trace ++ [ev] })

/-- consult the fault plan for the next use of `p` -/
def tick (plan : Plan) (p : Prim) : M Unit := fun s =>
  let k := s.counts p
  let s' := { s with counts := fun q => if q = p then k + 1 else s.counts q }
  match plan p k with
  | none => (.ok (), s')
  | some e => (.error e, { s' with trace := s'.trace ++ [.fault p k e] })

/-- Python `try: body finally: fin` — `fin` always runs; an exception of `fin` replaces the pending one -/
def tryFinally (body : M α) (fin : M Unit) : M α := fun s =>
  match body s with
  | (r, s') =>
    match fin s' with
    | (.ok _, s'') => (r, s'')
    | (.error e, s'') => (.error e, s'')

/-! ### arrangement -/

/-- a `*_stream` argument: a callable producing stream `s` (factory number `f`) or the open stream `s` -/
inductive StreamArg where
  | factory (f : Nat) (s : Sid)
  | obj (s : Sid)
  deriving DecidableEq, Repr

def StreamArg.sid : StreamArg → Sid
  | .factory _ s => s
  | .obj s => s

def StreamArg.isFactory : StreamArg → Bool
  | .factory _ _ => true
  | .obj _ => false

/-- the `sourcemap_stream` argument -/
inductive SmArg where
  | none                                   -- `None` (default)
  | same                                   -- the very object passed as `output_stream`
  | other (a : StreamArg) (truthy : Bool)  -- another object; `truthy` = `bool(argument)`
  deriving DecidableEq, Repr

/-- `source_mapping_url` argument -/
inductive UrlArg where
  | dflt                      -- `NotImplemented`
  | disabled                  -- `None`
  | explicit (u : String)
  deriving DecidableEq, Repr

/-- attributes of a stream object -/
structure StreamInfo where
  name : Option String := none
  encoding : Option String := none
  deriving DecidableEq, Repr, Inhabited

/-- one stream fragment: its text already split by `splitlines(True)`; `tag` stands for the rest of the 5-tuple -/
structure Frag where
  lines : List String
  tag : Nat := 0
  deriving DecidableEq, Repr

/-- the `nodes` argument, with the fragments the unparser yields for each Node -/
inductive NodesArg where
  | single (g : List Frag)                 -- a `Node`
  | many (items : List (Option (List Frag)))  -- an iterable; `none` = an item that is not a `Node`
  | other                                  -- neither a Node nor an iterable
  deriving Repr

structure WArr where
  nodes : NodesArg
  output : StreamArg
  /-- `bool(out_s)`: only consulted when the source map stream is the output stream -/
  outTruthy : Bool := true
  sourcemap : SmArg := .none
  info : Sid → StreamInfo := fun _ => {}
  normMappings : Bool := true
  normPaths : Bool := true
  url : UrlArg := .dflt

structure RArr where
  stream : StreamArg
  info : Sid → StreamInfo := fun _ => {}
  /-- what the parser returns when it does not raise (opaque) -/
  tree : Nat := 0

/-! ### uninterpreted functions -/

structure Triple where
  mappings : String
  sources : List String
  names : String

structure Oracle where
  /-- `'/'.join(relpath(normpath(target), dirname(normpath(base))).split(sep))` for two absolute paths -/
  relpath : String → String → String
  /-- the value `sourcemap.write(fragments, _, normalize)` returns -/
  smWrite : Bool → List Frag → Triple
  /-- `json.dumps(encode_sourcemap(file, mappings, sources, names), sort_keys=True, ensure_ascii=False)` -/
  serialise : String → String → List String → String → String
  /-- `base64.b64encode(text.encode(encoding)).decode('ascii')` -/
  b64 : String → String → String
  /-- `repr` of a (non-empty) stream name -/
  reprStr : String → String
  /-- `repr` of a stream object -/
  reprStream : Sid → String

/-- `os.path.isabs` (posix): the path starts with `/` -/
def isAbs (s : String) : Bool := s.toList.head? == some '/'

/-- `'/'.join(normrelpath(base, target).split(sep))`: `utils.normrelpath` returns `target` unchanged unless
    BOTH paths are absolute (for a relative `target` without back-slashes the join/split is the identity) -/
def Oracle.normrel (o : Oracle) (base target : String) : String :=
  if isAbs base && isAbs target then o.relpath base target else target

def INVALID_SOURCE : String := "about:invalid"
def defaultEncoding : String := "utf8"
def urlPrefix : String := "\n//# sourceMappingURL="
def dataUrlPrefix : String := "\n//# sourceMappingURL=data:application/json;base64;charset="
def typeErr : Exc := { cls := "TypeError", msg := "must either provide a Node or list containing Nodes" }

/-! ### io.write -/

/-- `closer.append(result.close)` -/
def pushCloser (s : Sid) : M Unit := fun st => (.ok (), { st with closer := st.closer ++ [s] })

/-- `get_stream`: `result = stream(); closer.append(result.close)` for a callable, else the object itself -/
def getStream (plan : Plan) : StreamArg → M Sid
  | .obj s => pure s
  | .factory f s => do
      tick plan (.factory f)
      emit (.opened f s)
      pushCloser s
      pure s

/-- `for line in lines: stream.write(line)` -/
def writeLines (plan : Plan) (s : Sid) : List String → M Unit
  | [] => pure ()
  | l :: ls => do
      tick plan (.write s)
      emit (.wrote s l)
      writeLines plan s ls

/-- consuming one unparser generator inside `sourcemap.write`'s `for` loop; the final resumption
    (exhaustion, `StopIteration`) is a use of `Prim.fragment` too -/
def consumeGen (plan : Plan) (s : Sid) : List Frag → M Unit
  | [] => tick plan .fragment
  | f :: fs => do
      tick plan .fragment
      writeLines plan s f.lines
      consumeGen plan s fs

/-- `chain(*raw)`: the generators one after the other -/
def consumeAll (plan : Plan) (s : Sid) : List (List Frag) → M Unit
  | [] => pure ()
  | g :: gs => do
      consumeGen plan s g
      consumeAll plan s gs

/-- `[unparser(node) for node in nodes if isinstance(node, Node)]` -/
def makeGens (plan : Plan) : List (Option (List Frag)) → M (List (List Frag))
  | [] => pure []
  | none :: rest => makeGens plan rest
  | some g :: rest => do
      tick plan .unparse
      let gs ← makeGens plan rest
      pure (g :: gs)

/-- the part of `io.write` before the `try`: `none` = `chunks` is falsy -/
def makeChunks (plan : Plan) : NodesArg → M (Option (List (List Frag)))
  | .single g => do
      tick plan .unparse
      pure (some [g])
  | .many items => do
      let raw ← makeGens plan items
      pure (if raw.isEmpty then none else some raw)
  | .other => pure none

def nameOr (a : WArr) (s : Sid) : String := ((a.info s).name).getD INVALID_SOURCE

/-- `getattr(out, 'encoding', None) or default_encoding` -/
def encodingOf (a : WArr) (s : Sid) : String :=
  match (a.info s).encoding with
  | some e => if e.isEmpty then defaultEncoding else e
  | none => defaultEncoding

/-- the text `write_sourcemap` serialises (after `verify_write_sourcemap_args`) -/
def mapText (o : Oracle) (a : WArr) (frags : List Frag) (out sm : Sid) : String :=
  let t := o.smWrite a.normMappings frags
  if a.normPaths then
    o.serialise (o.normrel (nameOr a sm) (nameOr a out)) t.mappings
      (t.sources.map (o.normrel (nameOr a sm))) t.names
  else
    o.serialise (nameOr a out) t.mappings t.sources t.names

/-- second component of `verify_write_sourcemap_args` -/
def mapUrl (o : Oracle) (a : WArr) (out sm : Sid) : String :=
  if a.normPaths then o.normrel (nameOr a out) (nameOr a sm) else nameOr a sm

/-- the optional `output_stream.writelines(['\n//# sourceMappingURL=', url, '\n'])` -/
def writeUrlComment (o : Oracle) (plan : Plan) (a : WArr) (out sm : Sid) : M Unit :=
  match a.url with
  | .disabled => pure ()
  | .dflt => do
      tick plan (.writelines out)
      emit (.wrotelines out [urlPrefix, mapUrl o a out sm, "\n"])
  | .explicit u => do
      tick plan (.writelines out)
      emit (.wrotelines out [urlPrefix, u, "\n"])

def writeSourcemap (o : Oracle) (plan : Plan) (a : WArr) (frags : List Frag) (out sm : Sid) : M Unit := do
  tick plan (.getName out)
  tick plan (.getName sm)
  tick plan .serialise
  if sm = out then do
    tick plan (.getEncoding out)
    tick plan .b64
    tick plan (.writelines out)
    emit (.wrotelines out [dataUrlPrefix, encodingOf a out, ",", o.b64 (encodingOf a out) (mapText o a frags out sm)])
  else do
    writeUrlComment o plan a out sm
    tick plan (.write sm)
    emit (.wrote sm (mapText o a frags out sm))

/-- body of the `try` of `io.write` -/
def writeBody (o : Oracle) (plan : Plan) (a : WArr) (gens : List (List Frag)) : M Unit := do
  let out ← getStream plan a.output
  consumeAll plan out gens
  match a.sourcemap with
  | .none => pure ()
  | .same =>
      -- `sourcemap_stream = out_s`; `get_stream(out_s)` returns it (a stream is not callable)
      if a.outTruthy then writeSourcemap o plan a gens.flatten out out else pure ()
  | .other arg truthy =>
      if truthy then do
        let sm ← getStream plan arg
        writeSourcemap o plan a gens.flatten out sm
      else pure ()

def closeAll (plan : Plan) : List Sid → M Unit
  | [] => pure ()
  | s :: ss => do
      tick plan (.close s)
      emit (.closed s)
      closeAll plan ss

/-- `cleanup`: `for close in reversed(closer): close()` -/
def cleanup (plan : Plan) : M Unit := fun st => closeAll plan st.closer.reverse st

def ioWrite (o : Oracle) (plan : Plan) (a : WArr) : M Unit := do
  let chunks ← makeChunks plan a.nodes
  match chunks with
  | none => raise typeErr
  | some gens => tryFinally (writeBody o plan a gens) (cleanup plan)

/-! ### io.read -/

structure ReadResult where
  tree : Nat
  sourcepath : Option String
  deriving DecidableEq, Repr

/-- `repr_compat(stream_name or source)` -/
def errorName (o : Oracle) (a : RArr) (s : Sid) : String :=
  match (a.info s).name with
  | some n => if n.isEmpty then o.reprStream s else o.reprStr n
  | none => o.reprStream s

/-- `type(e)('%s in %s' % (str(e), error_name))` -/
def relabel (o : Oracle) (a : RArr) (s : Sid) (e : Exc) : Exc :=
  { e with msg := e.msg ++ " in " ++ errorName o a s }

/-- the parser call with its `except ECMASyntaxError` handler -/
def callParser (o : Oracle) (plan : Plan) (a : RArr) (s : Sid) : M Nat := fun st =>
  match tick plan .parse st with
  | (.ok _, st') => (.ok a.tree, st')
  | (.error e, st') => if e.isSyntax then (.error (relabel o a s e), st') else (.error e, st')

def readBody (o : Oracle) (plan : Plan) (a : RArr) (s : Sid) : M ReadResult := do
  tick plan (.read s)
  emit (.read s)
  tick plan (.getName s)
  let tree ← callParser o plan a s
  pure { tree := tree, sourcepath := (a.info s).name }

def closeIfFactory (plan : Plan) (arg : StreamArg) (s : Sid) : M Unit :=
  if arg.isFactory then do
    tick plan (.close s)
    emit (.closed s)
  else pure ()

def ioRead (o : Oracle) (plan : Plan) (a : RArr) : M ReadResult := do
  let s ← (match a.stream with
    | .obj s => pure s
    | .factory f s => do
        tick plan (.factory f)
        emit (.opened f s)
        pure s : M Sid)
  tryFinally (readBody o plan a s) (closeIfFactory plan a.stream s)

/-! ### running, observations -/

def St.init : St := {}

def runWrite (o : Oracle) (plan : Plan) (a : WArr) : Res Unit := ioWrite o plan a St.init
def runRead (o : Oracle) (plan : Plan) (a : RArr) : Res ReadResult := ioRead o plan a St.init

/-- data handed to stream `s`, call by call, in order (`writelines` contributes its items) -/
def written (s : Sid) : List Event → List String
  | [] => []
  | .wrote s' x :: t => if s' = s then x :: written s t else written s t
  | .wrotelines s' xs :: t => if s' = s then xs ++ written s t else written s t
  | _ :: t => written s t

def concat : List String → String
  | [] => ""
  | x :: xs => x ++ concat xs

/-- the text stream `s` received -/
def content (s : Sid) (t : List Event) : String := concat (written s t)

def Frag.text (f : Frag) : String := concat f.lines

/-- streams obtained by calling a factory, in order -/
def openedOf : List Event → List Sid
  | [] => []
  | .opened _ s :: t => s :: openedOf t
  | _ :: t => openedOf t

def closedOf : List Event → List Sid
  | [] => []
  | .closed s :: t => s :: closedOf t
  | _ :: t => closedOf t

/-- the faults logged: which primitive raised what -/
def faultsOf : List Event → List (Prim × Exc)
  | [] => []
  | .fault p _ e :: t => (p, e) :: faultsOf t
  | _ :: t => faultsOf t

def Event.isClosed : Event → Bool
  | .closed _ => true
  | _ => false

/-- the generators `io.write` chains: all fragments the unparser yields for the Nodes of the argument -/
def NodesArg.gens : NodesArg → List (List Frag)
  | .single g => [g]
  | .many items => items.filterMap id
  | .other => []

def NodesArg.frags (n : NodesArg) : List Frag := n.gens.flatten

/-- `nodes` is a Node or an iterable containing at least one Node -/
def NodesArg.valid (n : NodesArg) : Bool := !n.gens.isEmpty

end CalmVerif.IO
