/-
Hand-written, total matchers for the token regular expressions of
/repo/src/calmjs/parse/lexers/es5.py, faithful to what CPython's `re` does with THESE
patterns under ply's flags (re.VERBOSE; no DOTALL, no IGNORECASE).  No Mathlib, no proofs.

Every matcher takes the rest of the input at the match position (`List Char`) and returns
`some n` (the match has length n) or `none`.  None of the patterns looks behind, so the
suffix determines the result; look-ahead (`\r(?!\n)`, `get(?=\s<identifier>)`) reads the
suffix beyond the match.

Why deterministic scanners are faithful to the back-tracking engine for these patterns
(the tie S1 checks the claims on every run; the character classes are data of `Gen.LexData`,
enumerated exhaustively from the compiled regexes):

* STRING `"(?:item)*?"`: lazy star, then the closing quote.  At a position the engine first
  tries the closing quote; the quote cannot start an item (the plain class excludes it, every
  other item starts with a backslash), so the match ends at the first quote reached.  The item
  at a position is unique except for the octal escape, whose shorter decompositions only
  reach positions inside its digit run, from where the remaining octal digits are plain
  characters leading to the position the greedy decomposition reaches anyway; hence
  back-tracking never finds a match the greedy item path misses, and never a different end.
* NUMBER: ordered alternation `hex | octal | int.frac?exp? | .frac exp? | int exp?`, nothing
  follows the group inside ply's master alternation, so the first alternative that matches
  wins with greedy quantifiers; giving back digits never helps (`.`/`e` are not digits).
  So `08` is `0` then `8`, `01.5` is `01` then `.5`, `1.e5` is one token, `1.e` is `1.` then `e`.
* ID = identifier_start+ identifier_part*: greedy, nothing follows: the maximal run of start
  characters, then the maximal run of part characters.  (LETTER is not in identifier_part, so
  `aé1é` is the two identifiers `aé1`, `é` — mirrored.)
* BLOCK_COMMENT `/\*[^*]*\*+([^/*][^*]*\*+)*/`: matches exactly up to the first `*/` at index ≥ 2.
* REGEX: body items `[^\\/[] | \\. | [class]`; an item never starts with `/` and the class
  items never start with `]`, so giving items back never produces a match: the scanner walks
  items until the closing `/`, then the greedy flags.
-/
import CalmVerif.Gen.LexData

namespace CalmVerif.Model.TokenRegex
open CalmVerif.Gen

/-- membership of a character in a generated class (inclusive code point ranges) -/
def inRanges (rs : List (Nat × Nat)) (c : Char) : Bool :=
  rs.any fun p => p.1 ≤ c.toNat && c.toNat ≤ p.2

/-- length of the longest prefix whose characters all satisfy `p` (a greedy `[class]*`) -/
def spanLen (p : Char → Bool) : List Char → Nat
  | [] => 0
  | c :: cs => if p c then spanLen p cs + 1 else 0

/-- literal prefix test -/
def startsWith : List Char → List Char → Bool
  | [], _ => true
  | _ :: _, [] => false
  | a :: as, b :: bs => a == b && startsWith as bs

/-- a fixed-text rule (ply refuses rules that match the empty string) -/
def matchLit (lit : List Char) (rest : List Char) : Option Nat :=
  if lit.isEmpty then none else if startsWith lit rest then some lit.length else none

/-! ### line terminators -/

/-- `(\n|\r(?!\n)|\u2028|\u2029|\r\n)` at the head of the input -/
def ltSeqLen : List Char → Option Nat
  | [] => none
  | c :: cs =>
    if c = '\n' then some 1
    else if c = '\r' then
      match cs with
      | d :: _ => if d = '\n' then some 2 else some 1
      | [] => some 1
    else if c = '\u2028' then some 1
    else if c = '\u2029' then some 1
    else none

/-! ### comments -/

def isLineCommentChar (c : Char) : Bool := inRanges LexData.lineCommentChar c

/-- `//[^\r\n\u2028\u2029]*` -/
def lineCommentLen : List Char → Option Nat
  | c :: d :: r => if c = '/' ∧ d = '/' then some (2 + spanLen isLineCommentChar r) else none
  | _ => none

/-- after `/*`: length up to and including the first `*/` -/
def bcScan : List Char → Option Nat
  | [] => none
  | c :: cs =>
    match cs with
    | [] => none
    | d :: _ => if c = '*' ∧ d = '/' then some 2 else (bcScan cs).map (· + 1)

/-- `/\*[^*]*\*+([^/*][^*]*\*+)*/` -/
def blockCommentLen : List Char → Option Nat
  | c :: d :: r => if c = '/' ∧ d = '*' then (bcScan r).map (· + 2) else none
  | _ => none

/-! ### identifiers, getprop / setprop -/

def isIdStart (c : Char) : Bool := inRanges LexData.idStart c
def isIdPart (c : Char) : Bool := inRanges LexData.idPart c
def isReSpace (c : Char) : Bool := inRanges LexData.reSpace c

/-- identifier = identifier_start+ identifier_part* -/
def idLen (rest : List Char) : Option Nat :=
  let s := spanLen isIdStart rest
  if s = 0 then none else some (s + spanLen isIdPart (rest.drop s))

/-- `get(?=\s<identifier>)` / `set(?=…)`: the keyword, one `\s` character, one identifier_start character -/
def propLen (kw : List Char) (rest : List Char) : Option Nat :=
  if startsWith kw rest then
    match rest.drop kw.length with
    | s :: c :: _ => if isReSpace s && isIdStart c then some kw.length else none
    | _ => none
  else none

/-! ### numbers -/

def isDec (c : Char) : Bool := inRanges LexData.numDec c
def isHex (c : Char) : Bool := inRanges LexData.numHex c
def isOct (c : Char) : Bool := inRanges LexData.numOct c
def isNonzero (c : Char) : Bool := inRanges LexData.numNonzero c

/-- `(?:[eE][+-]?[0-9]+)?` — length of the optional exponent part (0 when absent) -/
def expLen : List Char → Nat
  | [] => 0
  | e :: r1 =>
    if e = 'e' ∨ e = 'E' then
      match r1 with
      | [] => 0
      | s :: r2 =>
        if s = '+' ∨ s = '-' then
          let d := spanLen isDec r2
          if 0 < d then 2 + d
          else
            -- `[+-]?` gives the sign back; `[0-9]+` must then match at the sign itself
            let d' := spanLen isDec r1
            if 0 < d' then 1 + d' else 0
        else
          let d := spanLen isDec r1
          if 0 < d then 1 + d else 0
    else 0

/-- `(?:0|[1-9][0-9]*)` -/
def decIntLen : List Char → Option Nat
  | [] => none
  | c :: cs =>
    if c = '0' then some 1
    else if isNonzero c then some (1 + spanLen isDec cs)
    else none

/-- ordered alternation: the first alternative that matches wins -/
def orElse (a b : Option Nat) : Option Nat :=
  match a with
  | some n => some n
  | none => b

/-- `0[xX][0-9a-fA-F]+` -/
def hexLen : List Char → Option Nat
  | z :: x :: r =>
    if z = '0' ∧ (x = 'x' ∨ x = 'X') then
      if 0 < spanLen isHex r then some (2 + spanLen isHex r) else none
    else none
  | _ => none

/-- `0[0-7]+` -/
def octLen : List Char → Option Nat
  | z :: r =>
    if z = '0' then
      if 0 < spanLen isOct r then some (1 + spanLen isOct r) else none
    else none
  | [] => none

/-- `[0-9]*(?:[eE][+-]?[0-9]+)?` resp. `[0-9]+(?:…)?` after the dot: digits then optional exponent -/
def fracLen (r : List Char) : Nat := spanLen isDec r + expLen (r.drop (spanLen isDec r))

/-- `(?:0|[1-9][0-9]*)\.[0-9]*(?:[eE][+-]?[0-9]+)?` -/
def decDotLen (rest : List Char) : Option Nat :=
  match decIntLen rest with
  | some n =>
    match rest.drop n with
    | dot :: r => if dot = '.' then some (n + 1 + fracLen r) else none
    | [] => none
  | none => none

/-- `\.[0-9]+(?:[eE][+-]?[0-9]+)?` -/
def dotDecLen : List Char → Option Nat
  | dot :: r =>
    if dot = '.' then
      if 0 < spanLen isDec r then some (1 + fracLen r) else none
    else none
  | [] => none

/-- `(?:0|[1-9][0-9]*)(?:[eE][+-]?[0-9]+)?` -/
def decExpLen (rest : List Char) : Option Nat :=
  match decIntLen rest with
  | some n => some (n + expLen (rest.drop n))
  | none => none

/-- t_NUMBER: hex | octal | int.frac exp | .frac exp | int exp, in this order -/
def numberLen (rest : List Char) : Option Nat :=
  orElse (hexLen rest) (orElse (octLen rest) (orElse (decDotLen rest) (orElse (dotDecLen rest) (decExpLen rest))))

/-! ### strings -/

/-- the two data-dependent classes of one quote kind: the plain characters and the single-character escapes -/
structure StrClasses where
  plain : List (Nat × Nat)
  esc : List (Nat × Nat)

def strDq : StrClasses := ⟨LexData.strDqPlain, LexData.strDqEsc⟩
def strSq : StrClasses := ⟨LexData.strSqPlain, LexData.strSqEsc⟩
def brkDq : StrClasses := ⟨LexData.brkDqPlain, LexData.brkDqEsc⟩
def brkSq : StrClasses := ⟨LexData.brkSqPlain, LexData.brkSqEsc⟩

def isStrHex (c : Char) : Bool := inRanges LexData.strHex c
def isOctDigit (c : Char) : Bool := '0' ≤ c && c ≤ '7'

def allHex : Nat → List Char → Bool
  | 0, _ => true
  | _ + 1, [] => false
  | n + 1, c :: cs => isStrHex c && allHex n cs

/-- what follows a backslash inside a string literal; the result counts the backslash.
    Order of the regex alternatives: line continuation, single escaped character, `\xHH`, `\uHHHH`,
    octal `\\(?:[1-7][0-7]{0,2}|[0-7]{2,3})`, `\0`. -/
def escLen (k : StrClasses) : List Char → Option Nat
  | [] => none
  | d :: ds =>
    match ltSeqLen (d :: ds) with
    | some n => some (1 + n)
    | none =>
      if inRanges k.esc d then some 2
      else if d = 'x' then (if allHex 2 ds then some 4 else none)
      else if d = 'u' then (if allHex 4 ds then some 6 else none)
      else if '1' ≤ d ∧ d ≤ '7' then some (2 + min 2 (spanLen isOctDigit ds))
      else if d = '0' then
        let m := min 2 (spanLen isOctDigit ds)
        if 0 < m then some (2 + m) else some 2
      else none

/-- one item of a string body at the head of the input -/
def strItemLen (k : StrClasses) : List Char → Option Nat
  | [] => none
  | c :: cs =>
    if inRanges k.plain c then some 1
    else if c = '\\' then escLen k cs
    else none

/-- lazy body `(?:item)*?` followed by the closing quote `q`; `skip` characters of the current item are
    still to be passed.  Result: number of characters through the closing quote. -/
def strBody (k : StrClasses) (q : Char) : Nat → List Char → Option Nat
  | _, [] => none
  | skip + 1, _ :: cs => (strBody k q skip cs).map (· + 1)
  | 0, c :: cs =>
    if c = q then some 1
    else
      match strItemLen k (c :: cs) with
      | some n => (strBody k q (n - 1) cs).map (· + 1)
      | none => none

/-- t_STRING -/
def stringLen : List Char → Option Nat
  | [] => none
  | c :: cs =>
    if c = '"' then (strBody strDq '"' 0 cs).map (· + 1)
    else if c = '\'' then (strBody strSq '\'' 0 cs).map (· + 1)
    else none

/-- greedy body `(?:item)*` of PATT_BROKEN_STRING (no closing quote): number of characters consumed -/
def brkBody (k : StrClasses) : Nat → List Char → Nat
  | _, [] => 0
  | skip + 1, _ :: cs => brkBody k skip cs + 1
  | 0, c :: cs =>
    match strItemLen k (c :: cs) with
    | some n => brkBody k (n - 1) cs + 1
    | none => 0

/-- PATT_BROKEN_STRING.match -/
def brokenStringLen : List Char → Option Nat
  | [] => none
  | c :: cs =>
    if c = '"' then some (1 + brkBody brkDq 0 cs)
    else if c = '\'' then some (1 + brkBody brkSq 0 cs)
    else none

/-! ### regular expression literals (lexer state `regex`) -/

def isReFirst (c : Char) : Bool := inRanges LexData.reFirst c
def isReBody (c : Char) : Bool := inRanges LexData.reBody c
def isReClassChar (c : Char) : Bool := inRanges LexData.reClassChar c
def isReDot (c : Char) : Bool := inRanges LexData.reDot c
def isReFlag (c : Char) : Bool := inRanges LexData.reFlag c

/-- body items up to and including the closing `/`; `inClass` while inside `[...]` -/
def reScan : Bool → List Char → Option Nat
  | _, [] => none
  | false, c :: cs =>
    if isReBody c then (reScan false cs).map (· + 1)
    else if c = '\\' then
      match cs with
      | d :: ds => if isReDot d then (reScan false ds).map (· + 2) else none
      | [] => none
    else if c = '[' then (reScan true cs).map (· + 1)
    else if c = '/' then some 1
    else none
  | true, c :: cs =>
    if isReClassChar c then (reScan true cs).map (· + 1)
    else if c = '\\' then
      match cs with
      | d :: ds => if isReDot d then (reScan true ds).map (· + 2) else none
      | [] => none
    else if c = ']' then (reScan false cs).map (· + 1)
    else none

/-- t_regex_REGEX -/
def regexLen (rest : List Char) : Option Nat :=
  let body : Option Nat :=
    match rest with
    | s :: c :: cs =>
      if s = '/' then
        if isReFirst c then (reScan false cs).map (· + 2)
        else if c = '\\' then
          match cs with
          | d :: ds => if isReDot d then (reScan false ds).map (· + 3) else none
          | [] => none
        else if c = '[' then (reScan true cs).map (· + 2)
        else none
      else none
    | _ => none
  match body with
  | some n => some (n + spanLen isReFlag (rest.drop n))
  | none => none

end CalmVerif.Model.TokenRegex
