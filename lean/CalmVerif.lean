import CalmVerif.Util.Proto
import CalmVerif.Util.Val
