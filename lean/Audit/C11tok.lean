import CalmVerif.Props.C11tok
open CalmVerif.Props.C11tok
#print axioms config_good
#check @config_good
#print axioms lexer_state_reachable
#check @lexer_state_reachable
#print axioms line_table_prefix_stable
#check @line_table_prefix_stable
#print axioms token_column_stable
#check @token_column_stable
#print axioms shifted_tokens_tokOK
#check @shifted_tokens_tokOK
#print axioms shifted_tokens_spellingOK
#check @shifted_tokens_spellingOK
#print axioms node_positions_ok
#check @node_positions_ok
#print axioms elision_runs_counted
#check @elision_runs_counted
#print axioms CalmVerif.Proofs.LinesBridge.lineCol_bridge
#check @CalmVerif.Proofs.LinesBridge.lineCol_bridge
#print axioms CalmVerif.Proofs.LexerSpelling.term_spelling_from_lexer_tables
#check @CalmVerif.Proofs.LexerSpelling.term_spelling_from_lexer_tables
#print axioms CalmVerif.Proofs.ParserDrive.pinv_rewind
#check @CalmVerif.Proofs.ParserDrive.pinv_rewind
