import CalmVerif.Props.C01typed2
open CalmVerif.Props.C01typed2

#print axioms wfVal_canon_invariant
#check @wfVal_canon_invariant
#print axioms valAll_canon_invariant
#check @valAll_canon_invariant
#print axioms parsed_canon_well_typed'
#check @parsed_canon_well_typed'
#print axioms parsed_pretty_stream_typed'
#check @parsed_pretty_stream_typed'
#print axioms parsed_minify0_stream_typed'
#check @parsed_minify0_stream_typed'
#print axioms parsed_minify1_stream_typed'
#check @parsed_minify1_stream_typed'
#print axioms parsed_pretty_relexes_partial'
#check @parsed_pretty_relexes_partial'
#print axioms parsed_minify_relexes_partial'
#check @parsed_minify_relexes_partial'
#print axioms parsed_pretty_lines_indented''
#check @parsed_pretty_lines_indented''
#print axioms parsed_pretty_ends_with_one_newline''
#check @parsed_pretty_ends_with_one_newline''
