/- C10 audit: axioms and statements of every property theorem -/
import CalmVerif.Props.C10
#print axioms CalmVerif.Props.C10.gen_alphabet_is_rfc4648
#check @CalmVerif.Props.C10.gen_alphabet_is_rfc4648
#print axioms CalmVerif.Props.C10.gen_b64int_is_inverse
#check @CalmVerif.Props.C10.gen_b64int_is_inverse
#print axioms CalmVerif.Props.C10.gen_constants
#check @CalmVerif.Props.C10.gen_constants
#print axioms CalmVerif.Props.C10.encode_is_spec
#check @CalmVerif.Props.C10.encode_is_spec
#print axioms CalmVerif.Props.C10.encodes_is_spec
#check @CalmVerif.Props.C10.encodes_is_spec
#print axioms CalmVerif.Props.C10.encode_loop_terminates
#check @CalmVerif.Props.C10.encode_loop_terminates
#print axioms CalmVerif.Props.C10.encode_alphabet
#check @CalmVerif.Props.C10.encode_alphabet
#print axioms CalmVerif.Props.C10.decode_encode
#check @CalmVerif.Props.C10.decode_encode
#print axioms CalmVerif.Props.C10.decode_vlq_encode
#check @CalmVerif.Props.C10.decode_vlq_encode
#print axioms CalmVerif.Props.C10.decodes_encodes
#check @CalmVerif.Props.C10.decodes_encodes
#print axioms CalmVerif.Props.C10.encodes_injective
#check @CalmVerif.Props.C10.encodes_injective
#print axioms CalmVerif.Props.C10.mappings_roundtrip
#check @CalmVerif.Props.C10.mappings_roundtrip
#print axioms CalmVerif.Props.C10.encode_decode
#check @CalmVerif.Props.C10.encode_decode
#print axioms CalmVerif.Props.C10.canonical_iff_encoding
#check @CalmVerif.Props.C10.canonical_iff_encoding
#print axioms CalmVerif.Props.C10.canonical_encodes
#check @CalmVerif.Props.C10.canonical_encodes
#print axioms CalmVerif.Props.C10.spec_decode_encode
#check @CalmVerif.Props.C10.spec_decode_encode
#print axioms CalmVerif.Props.C10.spec_decode_encodeList
#check @CalmVerif.Props.C10.spec_decode_encodeList
#print axioms CalmVerif.Props.C10.decoders_agree
#check @CalmVerif.Props.C10.decoders_agree
#print axioms CalmVerif.Props.C10.decode_raises_only_keyError
#check @CalmVerif.Props.C10.decode_raises_only_keyError
